(* C08 -- the orbit abstraction is exact.  If the positions of a leapfrog trajectory are given by a map
   phi : Z -> S with  leap v (phi i) = phi (i +- 1)  (which exists as soon as the two directions of the integrator
   are inverse to each other on the states reachable from the start, C08_Leap.v), then BuildTree, one doubling,
   the doubling loop and the whole transition over the state space S are, outcome by outcome and probability by
   probability, the image under phi of the same programs over the orbit positions Z: the theorems proved on the
   orbit abstraction (uniform sub-sampling, the law of the live loop state, invariance) are theorems about the
   transition that the correspondence compares with the code. *)
From CV Require Import Base.Tac Base.Ext Model.C08_NUTS Proofs.C08_Prog.
From Coq Require Import QArith.

(* ---------------- images and bisimilarity of probabilistic programs ---------------- *)
Fixpoint pmap {A B} (g : A -> B) (m : prog A) : prog B :=
  match m with
  | Ret a => Ret (g a)
  | Flip st p k => Flip st p (fun b => pmap g (k b))
  end.

Fixpoint peq {A} (m m' : prog A) : Prop :=
  match m, m' with
  | Ret a, Ret b => a = b
  | Flip st p k, Flip st' p' k' => st = st' /\ p = p' /\ (forall b, peq (k b) (k' b))
  | _, _ => False
  end.

Lemma peq_refl {A} (m : prog A) : peq m m.
Proof. induction m as [a | st p k IH]; cbn; auto. Qed.

Lemma peq_trans {A} (m1 m2 m3 : prog A) : peq m1 m2 -> peq m2 m3 -> peq m1 m3.
Proof.
  revert m2 m3. induction m1 as [a | st p k IH]; intros [b | st2 p2 k2] [c | st3 p3 k3]; cbn; try tauto; try congruence.
  intros (E1 & E2 & E3) (F1 & F2 & F3). repeat split; try congruence. intros b. exact (IH b _ _ (E3 b) (F3 b)).
Qed.

Lemma peq_sym {A} (m1 m2 : prog A) : peq m1 m2 -> peq m2 m1.
Proof.
  revert m2. induction m1 as [a | st p k IH]; intros [b | st2 p2 k2]; cbn; try tauto; try congruence.
  intros (E1 & E2 & E3). repeat split; try congruence. intros b. exact (IH b _ (E3 b)).
Qed.

Lemma peq_bind {A B} (m m' : prog A) (f f' : A -> prog B) :
  peq m m' -> (forall a, peq (f a) (f' a)) -> peq (bind m f) (bind m' f').
Proof.
  revert m'. induction m as [a | st p k IH]; intros [b | st2 p2 k2]; cbn; try tauto.
  - intros -> Hf. apply Hf.
  - intros (E1 & E2 & E3) Hf. repeat split; try assumption. intros b. exact (IH b _ (E3 b) Hf).
Qed.

Lemma pmap_bind {A B C} (g : B -> C) (m : prog A) (f : A -> prog B) :
  peq (pmap g (bind m f)) (bind m (fun a => pmap g (f a))).
Proof. induction m as [a | st p k IH]; cbn; [apply peq_refl | repeat split; auto]. Qed.

Lemma bind_pmap {A B C} (g : A -> B) (m : prog A) (f : B -> prog C) :
  peq (bind (pmap g m) f) (bind m (fun a => f (g a))).
Proof. induction m as [a | st p k IH]; cbn; [apply peq_refl | repeat split; auto]. Qed.

(* bisimilar programs have the same expectations, the same scripted runs, the same outcomes *)
Lemma peq_dist {A} (m m' : prog A) (f : A -> Q) : peq m m' -> dist m f == dist m' f.
Proof.
  revert m'. induction m as [a | st p k IH]; intros [b | st2 p2 k2]; cbn; try tauto.
  - intros ->. reflexivity.
  - intros (_ & -> & E3). rewrite (IH true _ (E3 true)), (IH false _ (E3 false)). reflexivity.
Qed.

Lemma dist_pmap {A B} (g : A -> B) (m : prog A) (f : B -> Q) : dist (pmap g m) f == dist m (fun a => f (g a)).
Proof. induction m as [a | st p k IH]; cbn; [reflexivity | rewrite (IH true), (IH false); reflexivity]. Qed.

Lemma peq_run {A} (m m' : prog A) : peq m m' -> forall us log, run m us log = run m' us log.
Proof.
  revert m'. induction m as [a | st p k IH]; intros [b | st2 p2 k2]; cbn; try tauto.
  - intros -> us log. reflexivity.
  - intros (-> & -> & E3) us log. destruct us as [|u us]; [reflexivity|]. apply IH, E3.
Qed.

Lemma run_pmap {A B} (g : A -> B) (m : prog A) : forall us log,
  run (pmap g m) us log = match run m us log with Some (a, r, l) => Some (g a, r, l) | None => None end.
Proof.
  induction m as [a | st p k IH]; intros us log; cbn; [reflexivity|].
  destruct us as [|u us]; [reflexivity | apply IH].
Qed.

(* ---------------- the tree doubling commutes with the orbit map ---------------- *)
Section Sim.
Variable S : Type.
Variable leap : bool -> S -> S.
Variable ham : S -> ext.
Variable lgd : S -> ext.
Variable uturn : S -> S -> bool.
Variable alpha : S -> Q.
Variable logu : ext.
Variable phi : Z -> S.
Hypothesis phi_leap : forall v i, leap v (phi i) = phi (zleap v i).

Definition Hz (i : Z) : ext := ham (phi i).
Definition Lz (i : Z) : ext := lgd (phi i).
Definition Uz (a b : Z) : bool := uturn (phi a) (phi b).
Definition Az (i : Z) : Q := alpha (phi i).

Definition tmap (t : tree Z) : tree S :=
  mkT (phi (t_minus t)) (phi (t_plus t)) (phi (t_sel t)) (t_n t) (t_ok t) (t_asum t) (t_an t)
      (map phi (t_leaves t)) (map (fun mp => (phi (fst mp), phi (snd mp))) (t_tests t)).

Definition topmap (st : top Z) : top S :=
  mkTop (phi (p_cur st)) (phi (p_minus st)) (phi (p_plus st)) (p_n st) (p_s st) (p_j st) (p_acc st) (p_asum st) (p_an st)
        (map phi (p_last st)) (map phi (p_leaves st)) (map (fun mp => (phi (fst mp), phi (snd mp))) (p_tests st)).

Lemma phi_if (v : bool) a b : (if v then phi a else phi b) = phi (if v then a else b).
Proof. destruct v; reflexivity. Qed.

Theorem build_sim : forall j i v,
  peq (build S leap ham uturn alpha logu (phi i) v j) (pmap tmap (build Z zleap Hz Uz Az logu i v j)).
Proof.
  induction j as [|j IH]; intros i v.
  - cbn. rewrite phi_leap. reflexivity.
  - cbn [build].
    eapply peq_trans; [| apply peq_sym, pmap_bind].
    eapply peq_trans; [apply peq_bind; [apply IH | intros a; apply peq_refl] |].
    eapply peq_trans; [apply bind_pmap |].
    apply peq_bind; [apply peq_refl|]. intros t1. cbn [tmap t_ok t_plus t_minus].
    destruct (t_ok t1); [|apply peq_refl].
    rewrite phi_if.
    eapply peq_trans; [| apply peq_sym, pmap_bind].
    eapply peq_trans; [apply peq_bind; [apply IH | intros a; apply peq_refl] |].
    eapply peq_trans; [apply bind_pmap |].
    apply peq_bind; [apply peq_refl|]. intros t2.
    cbn [pmap peq tmap t_minus t_plus t_sel t_n t_ok t_asum t_an t_leaves t_tests]. repeat split. intros b.
    cbn [pmap peq]. unfold tmap. cbn [t_minus t_plus t_sel t_n t_ok t_asum t_an t_leaves t_tests fst snd].
    rewrite !phi_if, !map_app. unfold Uz. cbn [map fst snd]. destruct v, b; reflexivity.
Qed.

Lemma top_update_sim (st : top Z) v (t : tree Z) a :
  top_update uturn (topmap st) v (tmap t) a = topmap (top_update Uz st v t a).
Proof.
  unfold top_update, topmap, tmap. cbn [p_cur p_minus p_plus p_n p_s p_j p_acc p_asum p_an p_last p_leaves p_tests
    t_minus t_plus t_sel t_n t_ok t_asum t_an t_leaves t_tests fst snd].
  rewrite !map_app. unfold Uz. cbn [map fst snd]. destruct v, a; reflexivity.
Qed.

Theorem doubling_dir_sim guard (st : top Z) v :
  peq (doubling_dir S leap ham lgd uturn alpha logu guard (topmap st) v)
      (pmap topmap (doubling_dir Z zleap Hz Lz Uz Az logu guard st v)).
Proof.
  unfold doubling_dir.
  eapply peq_trans; [| apply peq_sym, pmap_bind].
  replace (if v then p_plus (topmap st) else p_minus (topmap st)) with (phi (if v then p_plus st else p_minus st))
    by (destruct v; reflexivity).
  replace (p_j (topmap st)) with (p_j st) by reflexivity.
  eapply peq_trans; [apply peq_bind; [apply build_sim | intros a; apply peq_refl] |].
  eapply peq_trans; [apply bind_pmap |].
  apply peq_bind; [apply peq_refl|]. intros t. cbn [tmap t_ok t_n t_sel].
  destruct (t_ok t).
  - cbn [pmap peq]. repeat split. intros b. cbn [pmap peq]. rewrite <- top_update_sim. reflexivity.
  - cbn [pmap peq]. rewrite <- top_update_sim. reflexivity.
Qed.

Theorem doublings_sim guard : forall k (st : top Z),
  peq (doublings S leap ham lgd uturn alpha logu guard k (topmap st))
      (pmap topmap (doublings Z zleap Hz Lz Uz Az logu guard k st)).
Proof.
  induction k as [|k IH]; intros st; cbn [doublings]; [reflexivity|].
  replace (p_s (topmap st)) with (p_s st) by reflexivity.
  destruct (p_s st); cbn [negb]; [|reflexivity].
  eapply peq_trans; [| apply peq_sym, pmap_bind].
  unfold doubling.
  change (peq (bind (Flip true (1 # 2) (doubling_dir S leap ham lgd uturn alpha logu guard (topmap st)))
                    (doublings S leap ham lgd uturn alpha logu guard k))
              (bind (Flip true (1 # 2) (doubling_dir Z zleap Hz Lz Uz Az logu guard st))
                    (fun a => pmap topmap (doublings Z zleap Hz Lz Uz Az logu guard k a)))).
  cbn [bind peq]. repeat split. intros v.
  eapply peq_trans; [apply peq_bind; [apply doubling_dir_sim | intros a; apply peq_refl] |].
  eapply peq_trans; [apply bind_pmap |].
  apply peq_bind; [apply peq_refl|]. intros st1. apply IH.
Qed.

Theorem transition_sim guard md i0 :
  peq (transition S leap ham lgd uturn alpha logu guard md (phi i0))
      (pmap topmap (otransition Hz Lz Uz Az logu guard md i0)).
Proof. unfold transition, otransition, transition. apply (doublings_sim guard (Datatypes.S md) (top_init i0)). Qed.

(* the form in which it is used: expectations over the state-space transition are expectations over the orbit *)
Corollary transition_dist guard md i0 (f : top S -> Q) :
  dist (transition S leap ham lgd uturn alpha logu guard md (phi i0)) f
  == dist (otransition Hz Lz Uz Az logu guard md i0) (fun st => f (topmap st)).
Proof. rewrite (peq_dist _ _ f (transition_sim guard md i0)). apply dist_pmap. Qed.

End Sim.

(* ---------------- the orbit map exists when the two directions of the integrator are mutually inverse ---------------- *)
Section OrbitMap.
Variable S : Type.
Variable leap : bool -> S -> S.
Variable Inv : S -> Prop.                     (* the states the trajectory lives in (well-shaped, caches consistent) *)
Hypothesis Inv_leap : forall v s, Inv s -> Inv (leap v s).
Hypothesis leap_back : forall v s, Inv s -> leap (negb v) (leap v s) = s.
Variable s0 : S.
Hypothesis Inv_s0 : Inv s0.

Definition orbN (v : bool) (n : nat) : S := Nat.iter n (leap v) s0.
Definition orb (i : Z) : S := if (0 <=? i)%Z then orbN true (Z.to_nat i) else orbN false (Z.to_nat (- i)).

Lemma orbN_inv v n : Inv (orbN v n).
Proof. induction n as [|n IH]; cbn; [exact Inv_s0 | apply Inv_leap, IH]. Qed.

Lemma orbN_fwd v n : leap v (orbN v n) = orbN v (Datatypes.S n).
Proof. reflexivity. Qed.

Lemma orbN_bwd v n : leap (negb v) (orbN v (Datatypes.S n)) = orbN v n.
Proof. cbn. apply leap_back, orbN_inv. Qed.

Lemma orb_0 : orb 0 = s0.
Proof. reflexivity. Qed.

Lemma orb_inv i : Inv (orb i).
Proof. unfold orb. destruct (0 <=? i)%Z; apply orbN_inv. Qed.

Theorem orb_leap : forall v i, leap v (orb i) = orb (zleap v i).
Proof.
  intros v i. unfold orb, zleap.
  destruct (0 <=? i)%Z eqn:Ei.
  - apply Z.leb_le in Ei. destruct v.
    + replace (0 <=? i + 1)%Z with true by (symmetry; apply Z.leb_le; lia).
      replace (Z.to_nat (i + 1)) with (Datatypes.S (Z.to_nat i)) by lia. apply orbN_fwd.
    + destruct (Z.eq_dec i 0) as [-> | Hne].
      * cbn. reflexivity.
      * replace (0 <=? i - 1)%Z with true by (symmetry; apply Z.leb_le; lia).
        replace (Z.to_nat i) with (Datatypes.S (Z.to_nat (i - 1))) by lia. apply (orbN_bwd true).
  - apply Z.leb_gt in Ei. destruct v.
    + destruct (Z.eq_dec i (-1)) as [-> | Hne].
      * cbn. apply (leap_back false s0 Inv_s0).
      * replace (0 <=? i + 1)%Z with false by (symmetry; apply Z.leb_gt; lia).
        replace (Z.to_nat (- i)) with (Datatypes.S (Z.to_nat (- (i + 1)))) by lia. apply (orbN_bwd false).
    + replace (0 <=? i - 1)%Z with false by (symmetry; apply Z.leb_gt; lia).
      replace (Z.to_nat (- (i - 1))) with (Datatypes.S (Z.to_nat (- i))) by lia. apply orbN_fwd.
Qed.
End OrbitMap.

(* the two together: over any state space on which the two directions of the integrator undo each other, the
   transition from s0 is the image of the orbit transition from position 0 under the orbit map through s0 *)
Theorem orbit_abstraction_exact (S : Type) (leap : bool -> S -> S) (ham lgd : S -> ext) (uturn : S -> S -> bool)
        (alpha : S -> Q) (logu : ext) (Inv : S -> Prop) :
  (forall v s, Inv s -> Inv (leap v s)) -> (forall v s, Inv s -> leap (negb v) (leap v s) = s) ->
  forall s0, Inv s0 -> forall guard md (f : top S -> Q),
  let phi := orb S leap s0 in
  phi 0%Z = s0 /\
  dist (transition S leap ham lgd uturn alpha logu guard md s0) f
  == dist (otransition (Hz S ham phi) (Lz S lgd phi) (Uz S uturn phi) (Az S alpha phi) logu guard md 0%Z)
          (fun st => f (topmap S phi st)).
Proof.
  intros HI Hb s0 H0 guard md f phi. split; [reflexivity|].
  pose proof (transition_dist S leap ham lgd uturn alpha logu phi (orb_leap S leap Inv HI Hb s0 H0) guard md 0%Z f) as E.
  exact E.
Qed.
