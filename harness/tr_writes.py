"""tr_writes.py -- fail-closed `ast` translator for C11 (DESIGN 2.2 step 2, section 5 C11).

Extracts from the anchored source files every statement that can modify an object that already exists:
augmented assignments, attribute stores, subscript stores, calls of mutating container methods and setattr calls,
each tagged with whether the receiver is provably FRESH inside the same function (bound only from copy(...),
self._make_copy(), a constructor/literal/comprehension/slice, or a **kwargs dictionary) or an ALIAS of something that
existed before the call.  The facts go to coq/gen/Gen_C11.v; coq/gen/Gen_C11_ok.v states the obligation that every
fact is accounted for by the model (Model/C11_Heap.v + Proofs/C11_Heap.v `C11_accounted`).  Any construct the
translator does not understand (setattr on a non-fresh receiver, delattr, __dict__, vars() stores, exec/eval,
global/nonlocal, del of attributes, starred/tuple attribute targets) is an error, i.e. a failed obligation."""
import ast, os, re, subprocess

ANCHORS = ["cuqi/density/_density.py", "cuqi/distribution/_distribution.py", "cuqi/distribution/_joint_distribution.py",
           "cuqi/distribution/_gaussian.py", "cuqi/distribution/_lognormal.py", "cuqi/implicitprior/_regularizedGaussian.py",
           "cuqi/likelihood/_likelihood.py", "cuqi/model/_model.py", "cuqi/experimental/mcmc/_gibbs.py", "cuqi/sampler/_gibbs.py"]

MUTATORS = {"append", "extend", "update", "remove", "pop", "sort", "insert", "clear", "setdefault", "add", "discard",
            "popitem", "reverse", "fill", "resize", "put", "itemset", "setfield", "setflags", "partition", "__setitem__",
            "__iadd__", "__setattr__"}
FRESH_CALLS = {"copy", "list", "dict", "set", "tuple", "sorted", "partial", "force_ndarray", "len", "sum", "max", "min", "int",
               "float", "str", "range", "enumerate", "zip", "csc_matrix", "hstack", "infer_len", "get_non_default_args_copy"}
FRESH_ATTR_CALLS = {"_make_copy", "copy", "zeros", "ones", "array", "identity", "eye", "diag", "cumsum", "split", "hstack",
                    "vstack", "exp", "log", "sqrt", "sum", "flatten", "ravel", "reshape", "todense", "toarray", "inv", "keys",
                    "values", "items", "get_state", "get_history", "get_samples", "_get_initial_points", "repeat", "randn",
                    "standard_normal", "solve", "spsolve", "solve_triangular", "multiply", "square", "signature", "lower"}


class Unsupported(Exception):
    pass


def _txt(node):
    return ast.unparse(node)


def _is_self_samplers(e):
    return isinstance(e, ast.Attribute) and e.attr == "samplers" and isinstance(e.value, ast.Name) and e.value.id == "self"


class FuncScan:
    def __init__(self, qual, fn, is_setter, sampler_class=False, sampler_params=()):
        self.qual, self.fn, self.is_setter = qual, fn, is_setter
        self.sampler_class = sampler_class      # the enclosing class keeps its block samplers in `self.samplers`
        self.sprov = {p: True for p in sampler_params}   # local names bound ONLY to elements of self.samplers
        self.callsites = []                      # (method name, [argument is a sampler element?]) for self.m(...) calls
        self.facts = []
        a = fn.args
        self.params = {x.arg for x in a.posonlyargs + a.args + a.kwonlyargs}
        if a.vararg:
            self.params.add(a.vararg.arg)
        self.kwdict = a.kwarg.arg if a.kwarg else None
        self.bind = {}       # local name -> "fresh" | "alias"
        self.attr_bind = {}  # "var.attr" text -> "fresh" | "alias"   (attribute of a fresh local re-bound in this function)
        for p in self.params:
            self.bind[p] = "alias"
        if self.kwdict:
            self.bind[self.kwdict] = "fresh"     # a **kwargs dict is created per call

    # ---- provenance: "this expression is one of the sampler objects held in self.samplers" ---------------------------------
    def is_sampler_expr(self, e):
        if not self.sampler_class:
            return False
        if isinstance(e, ast.Subscript) and _is_self_samplers(e.value):
            return True
        if isinstance(e, ast.Call) and isinstance(e.func, ast.Attribute) and e.func.attr == "get" and _is_self_samplers(e.func.value):
            return True
        if isinstance(e, ast.Name):
            return self.sprov.get(e.id, False)
        return False

    def note_sampler_binding(self, name, is_sampler):
        if self.sampler_class:
            self.sprov[name] = is_sampler and self.sprov.get(name, True)

    # ---- freshness of an expression -------------------------------------------------------------------------------
    def fresh_expr(self, e):
        if isinstance(e, (ast.Constant, ast.List, ast.Dict, ast.Set, ast.Tuple, ast.ListComp, ast.DictComp, ast.SetComp,
                          ast.GeneratorExp, ast.BinOp, ast.UnaryOp, ast.BoolOp, ast.Compare, ast.JoinedStr, ast.Lambda)):
            return True
        if isinstance(e, ast.Subscript) and isinstance(e.slice, ast.Slice):
            return True     # x[:] and x[a:b] of a list build a new list (numpy basic slices are views: arrays are values here)
        if isinstance(e, ast.IfExp):
            return self.fresh_expr(e.body) and self.fresh_expr(e.orelse)
        if isinstance(e, ast.Call):
            f = e.func
            if isinstance(f, ast.Name):
                return f.id in FRESH_CALLS or f.id[:1].isupper() or f.id.startswith("_Default")
            if isinstance(f, ast.Attribute):
                if f.attr in FRESH_ATTR_CALLS or f.attr[:1].isupper():
                    return True
                return False
        if isinstance(e, ast.Name):
            return self.bind.get(e.id) == "fresh"
        return False

    def receiver_kind(self, e):
        """'fresh' | 'alias' | 'self' for the object whose state a store modifies"""
        if isinstance(e, ast.Name):
            if e.id == "self":
                return "self"
            return self.bind.get(e.id, "alias")
        if isinstance(e, ast.Attribute):
            t = _txt(e)
            if t in self.attr_bind:
                return self.attr_bind[t]
            return "alias" if self.receiver_kind(e.value) != "fresh" or True else "fresh"
        if isinstance(e, ast.Subscript):
            return self.receiver_kind(e.value) if self.receiver_kind(e.value) == "fresh" else "alias"
        if isinstance(e, ast.Call):
            return "fresh" if self.fresh_expr(e) else "alias"
        return "alias"

    def fact(self, kind, target):
        self.facts.append((self.qual, kind, target))

    # ---- statements ---------------------------------------------------------------------------------------------------
    def bind_target(self, tgt, value):
        if isinstance(tgt, ast.Name):
            self.note_sampler_binding(tgt.id, self.is_sampler_expr(value))
            k = "fresh" if self.fresh_expr(value) else "alias"
            # a name is fresh only if EVERY binding in the function is fresh
            if tgt.id in self.bind and self.bind[tgt.id] != k and tgt.id not in self.params:
                k = "alias"
            if tgt.id in self.params:
                k = "fresh" if self.fresh_expr(value) else "alias"
            self.bind[tgt.id] = k
        elif isinstance(tgt, (ast.Tuple, ast.List)):
            for el in tgt.elts:
                if isinstance(el, ast.Name):
                    self.note_sampler_binding(el.id, False)
                    self.bind[el.id] = "fresh" if isinstance(value, ast.Call) and self.fresh_expr(value) else "alias"
                elif isinstance(el, ast.Starred):
                    raise Unsupported("%s: starred assignment target" % self.qual)
                else:
                    self.store(el, value)
        else:
            self.store(tgt, value)

    def store(self, tgt, value):
        if isinstance(tgt, ast.Attribute) and self.is_sampler_expr(tgt.value):
            # re-binding an attribute OF a sampler object held by this Gibbs object: modifies that sampler object only
            self.fact("sampler-attr", _txt(tgt))
        elif isinstance(tgt, ast.Attribute):
            rk = self.receiver_kind(tgt.value)
            if rk == "self":
                in_init = self.fn.name == "__init__"
                kind = "self-attr-init" if in_init else ("self-attr-setter" if self.is_setter else "self-attr")
                self.fact(kind, tgt.attr)
            elif rk == "fresh":
                self.fact("fresh-attr", _txt(tgt))
                if isinstance(tgt.value, ast.Name):
                    self.attr_bind[_txt(tgt)] = "fresh" if (value is not None and self.fresh_expr(value)) else "alias"
            else:
                self.fact("alias-attr", _txt(tgt))
        elif isinstance(tgt, ast.Subscript):
            rk = self.receiver_kind(tgt.value)
            self.fact("fresh-sub" if rk == "fresh" else "alias-sub", _txt(tgt.value))
        else:
            raise Unsupported("%s: store to %s" % (self.qual, type(tgt).__name__))

    def visit_stmt(self, s):
        if isinstance(s, (ast.FunctionDef, ast.AsyncFunctionDef, ast.ClassDef)):
            return          # nested definitions are scanned on their own (closures run later, as their own functions)
        if isinstance(s, (ast.Global, ast.Nonlocal)):
            raise Unsupported("%s: global/nonlocal" % self.qual)
        if isinstance(s, ast.Delete):
            for t in s.targets:
                if not isinstance(t, ast.Name):
                    raise Unsupported("%s: del of %s" % (self.qual, _txt(t)))
        if isinstance(s, ast.Assign):
            for t in s.targets:
                self.bind_target(t, s.value)
        elif isinstance(s, ast.AnnAssign) and s.value is not None:
            self.bind_target(s.target, s.value)
        elif isinstance(s, ast.AugAssign):
            t = s.target
            if isinstance(t, ast.Name):
                self.fact("aug-local-fresh" if self.bind.get(t.id) == "fresh" else "aug-local-alias", t.id)
            elif isinstance(t, ast.Attribute):
                rk = self.receiver_kind(t.value)
                self.fact({"fresh": "aug-attr-fresh", "self": "aug-attr-self"}.get(rk, "aug-attr-alias"), _txt(t))
            elif isinstance(t, ast.Subscript):
                rk = self.receiver_kind(t.value)
                self.fact("aug-sub-fresh" if rk == "fresh" else "aug-sub-alias", _txt(t.value))
            else:
                raise Unsupported("%s: augmented assignment to %s" % (self.qual, type(t).__name__))
        elif isinstance(s, (ast.For, ast.AsyncFor)):
            self.bind_target(s.target, ast.Name(id="__iter_element__", ctx=ast.Load()))
            it = s.iter
            if (self.sampler_class and isinstance(s.target, ast.Name) and isinstance(it, ast.Call) and isinstance(it.func, ast.Attribute)
                    and it.func.attr == "values" and _is_self_samplers(it.func.value)):
                self.sprov[s.target.id] = True      # for sampler in self.samplers.values()
        elif isinstance(s, (ast.With, ast.AsyncWith)):
            for it in s.items:
                if it.optional_vars is not None:
                    self.bind_target(it.optional_vars, it.context_expr)
        # expressions anywhere in the statement: mutating calls, setattr, forbidden reflection
        for node in ast.walk(s) if not isinstance(s, (ast.For, ast.While, ast.If, ast.With, ast.Try)) else self._header_nodes(s):
            self.visit_expr(node)
        for fld in ("body", "orelse", "finalbody"):
            for sub in getattr(s, fld, []) or []:
                self.visit_stmt(sub)
        for hnd in getattr(s, "handlers", []) or []:
            for sub in hnd.body:
                self.visit_stmt(sub)

    def _header_nodes(self, s):
        out = []
        for fld in ("test", "iter", "target"):
            n = getattr(s, fld, None)
            if n is not None:
                out += list(ast.walk(n))
        for it in getattr(s, "items", []) or []:
            out += list(ast.walk(it.context_expr))
        return out

    def visit_expr(self, node):
        if isinstance(node, (ast.Lambda,)):
            return
        if isinstance(node, ast.NamedExpr):
            raise Unsupported("%s: walrus assignment" % self.qual)
        if isinstance(node, ast.Attribute) and node.attr == "__dict__":
            raise Unsupported("%s: __dict__ access" % self.qual)
        if isinstance(node, ast.Call):
            f = node.func
            if isinstance(f, ast.Attribute) and isinstance(f.value, ast.Name) and f.value.id == "self" and not node.keywords:
                self.callsites.append((f.attr, [self.is_sampler_expr(a) for a in node.args]))
            elif isinstance(f, ast.Attribute) and isinstance(f.value, ast.Name) and f.value.id == "self":
                self.callsites.append((f.attr, None))      # keyword call: no provenance claimed
            if isinstance(f, ast.Name):
                if f.id in ("exec", "eval", "delattr", "globals", "locals"):
                    raise Unsupported("%s: call of %s" % (self.qual, f.id))
                if f.id == "setattr":
                    rk = self.receiver_kind(node.args[0]) if node.args else "alias"
                    if rk != "fresh":
                        raise Unsupported("%s: setattr on a receiver that is not a fresh copy: %s" % (self.qual, _txt(node)))
                    self.fact("fresh-setattr", _txt(node.args[0]))
            elif isinstance(f, ast.Attribute) and f.attr in MUTATORS:
                rk = self.receiver_kind(f.value)
                if rk == "self":
                    rk = "alias"
                self.fact("mutcall-fresh" if rk == "fresh" else "mutcall-alias", "%s.%s" % (_txt(f.value), f.attr))


def extract(repo):
    facts, errors, files = [], [], []
    for rel in ANCHORS:
        path = os.path.join(repo, rel)
        if not os.path.exists(path):
            errors.append("anchored file missing: %s" % rel)
            continue
        files.append(rel)
        tree = ast.parse(open(path).read(), filename=path)

        def scan_func(node, prefix, sampler_class, sparams):
            is_setter = any(isinstance(d, ast.Attribute) and d.attr == "setter" for d in node.decorator_list)
            out, errs, calls = [], [], []
            fs = FuncScan(prefix + node.name, node, is_setter, sampler_class, sparams.get(node.name, ()))
            try:
                for st in node.body:
                    fs.visit_stmt(st)
            except Unsupported as e:
                errs.append(str(e))
            out.extend(fs.facts)
            calls.extend(fs.callsites)
            for sub in ast.walk(node):       # nested functions
                if sub is not node and isinstance(sub, (ast.FunctionDef, ast.AsyncFunctionDef)):
                    fs2 = FuncScan(prefix + node.name + "." + sub.name, sub, False)
                    try:
                        for st in sub.body:
                            fs2.visit_stmt(st)
                    except Unsupported as e:
                        errs.append(str(e))
                    out.extend(fs2.facts)
            return out, errs, calls

        def scan_class(cls, prefix):
            methods = [n for n in cls.body if isinstance(n, (ast.FunctionDef, ast.AsyncFunctionDef))]
            # a class that stores `self.samplers` keeps its block samplers there (HybridGibbs, Gibbs)
            sampler_class = any(isinstance(t, ast.Attribute) and _is_self_samplers(t)
                                for m in methods for st in ast.walk(m) if isinstance(st, ast.Assign) for t in st.targets)
            sparams = {}
            for _ in range(4 if sampler_class else 1):      # parameters that receive a sampler element at EVERY call site
                allcalls = []
                for m in methods:
                    allcalls += scan_func(m, prefix + cls.name + ".", sampler_class, sparams)[2]
                newp = {}
                for m in methods:
                    pos = [a.arg for a in m.args.posonlyargs + m.args.args][1:]
                    sites = [c for c in allcalls if c[0] == m.name]
                    if not sites or any(args is None for _, args in sites):
                        continue
                    good = [p for i, p in enumerate(pos) if all(i < len(args) and args[i] for _, args in sites)]
                    if good:
                        newp[m.name] = tuple(good)
                if newp == sparams:
                    break
                sparams = newp
            for m in methods:
                out, errs, _ = scan_func(m, prefix + cls.name + ".", sampler_class, sparams)
                facts.extend(out)
                errors.extend(errs)
            for n in cls.body:
                if isinstance(n, ast.ClassDef):
                    scan_class(n, prefix + cls.name + ".")

        def scan_body(body, prefix):
            for node in body:
                if isinstance(node, ast.ClassDef):
                    scan_class(node, prefix)
                elif isinstance(node, (ast.FunctionDef, ast.AsyncFunctionDef)):
                    out, errs, _ = scan_func(node, prefix, False, {})
                    facts.extend(out)
                    errors.extend(errs)
                elif isinstance(node, (ast.Try, ast.If)):
                    scan_body(node.body, prefix)
                    for h in getattr(node, "handlers", []):
                        scan_body(h.body, prefix)
                    scan_body(node.orelse, prefix)
        scan_body(tree.body, "")
    # de-duplicate, keep order
    seen, out = set(), []
    for f in facts:
        if f not in seen:
            seen.add(f)
            out.append(f)
    return out, errors, files


def _cs(s):
    assert '"' not in s, s
    return '"%s"' % s


def generate(repo, compile_it=True):
    """Write coq/gen/Gen_C11.v (+ Gen_C11_ok.v) from the current source and compile them.
    Returns {obligations, failed, n_writes, constant_aug_assign, files}."""
    from common import GEN, coq_flags, sh, Lock
    facts, errors, files = extract(repo)
    aug = ("JointDistribution._add_constants_to_density", "aug-attr-alias", "density._constant") in facts
    lines = ["(* generated by harness/tr_writes.py from the anchored source files on every run; do not edit *)",
             "From CV Require Import Model.C11_Heap.", "From Coq Require Import List String. Import ListNotations.",
             "Open Scope string_scope.",
             "Definition extracted_writes : list write_fact := ["]
    lines.append(";\n".join("  (%s, %s, %s)" % (_cs(a), _cs(b), _cs(c.replace('"', "'"))) for a, b, c in facts))
    lines.append("].")
    lines.append("Definition inplace_constant : bool := %s." % ("true" if aug else "false"))
    lines.append("Definition translator_errors : list string := [%s]." % "; ".join(_cs(re.sub(r'["\\\\]', "'", e)[:200]) for e in errors))
    ok = ["(* generated: the obligations about the extracted facts *)",
          "From CV Require Import Model.C11_Heap.", "From CVgen Require Import Gen_C11.",
          "From Coq Require Import List String. Import ListNotations.",
          "Lemma Gen_C11_ok : writes_accounted C11_accounted extracted_writes = true.",
          "Proof. vm_compute. reflexivity. Qed.",
          "Lemma Gen_C11_supported : translator_errors = [].",
          "Proof. reflexivity. Qed."]
    failed = []
    res = {"obligations": 2, "failed": failed, "n_writes": len(facts), "constant_aug_assign": aug, "files": files,
           "facts": facts, "errors": errors}
    if not compile_it:
        return res
    os.makedirs(GEN, exist_ok=True)
    with Lock(".c11gen.lock"):
        p1, p2 = os.path.join(GEN, "Gen_C11.v"), os.path.join(GEN, "Gen_C11_ok.v")
        for p, content in ((p1, "\n".join(lines) + "\n"), (p2, "\n".join(ok) + "\n")):
            tmp = p + ".tmp%d" % os.getpid()
            with open(tmp, "w") as f:
                f.write(content)
            os.replace(tmp, p)
        rc, out = sh(["coqc"] + coq_flags() + [p1], timeout=300)
        if rc != 0:
            failed.append("Gen_C11.v does not compile: " + out[-800:])
            return res
        rc, out = sh(["coqc"] + coq_flags() + [p2], timeout=300)
        if rc != 0:
            # which obligation?  evaluate the unaccounted facts for the report
            un = unaccounted(facts)
            if errors:
                failed.append("translator met constructs it does not support (fail-closed): " + "; ".join(errors)[:600])
            if un or not errors:
                failed.append("in-place writes in the anchored files that the model does not account for: %s  [coqc: %s]" % (
                    un, out[-300:].replace("\n", " ")))
    return res


GENERIC_KINDS = {"sampler-attr", "aug-local-fresh", "aug-attr-fresh", "aug-sub-fresh", "fresh-attr", "fresh-sub", "mutcall-fresh", "fresh-setattr",
                 "self-attr-init", "self-attr-setter"}


def unaccounted(facts):
    """python mirror of the Coq checker, only used to word the failure report"""
    try:
        txt = open(os.path.join(os.path.dirname(os.path.dirname(os.path.abspath(__file__))), "coq", "theories", "Model", "C11_Heap.v")).read()
    except OSError:
        return facts
    listed = set(re.findall(r'\("([^"]*)",\s*"([^"]*)",\s*"([^"]*)"\)', txt))
    return [f for f in facts if f[1] not in GENERIC_KINDS and not (f[1] == "self-attr" and f[0].split(".")[0] in ("HybridGibbs", "Gibbs"))
            and (f[0], f[1], f[2].replace('"', "'")) not in listed]


if __name__ == "__main__":
    import sys
    fs, errs, _ = extract(sys.argv[1] if len(sys.argv) > 1 else "/repo")
    for f in fs:
        if f[1] not in GENERIC_KINDS:
            print(f)
    print(len(fs), "facts;", "errors:", errs)
