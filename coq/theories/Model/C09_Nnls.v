(* C09 -- the draw of cuqi.experimental.mcmc.RegularizedLinearRTO with a non-negativity constraint: the minimiser over
   x >= 0 of the perturbed stacked least-squares objective (the sampler runs FISTA with the projection onto the orthant).
   No proofs here.  The model enumerates the supports: on each support it solves the unconstrained normal equations
   (Model/C09_Rto.v rto_draw on the restricted rows), pads with zeros and accepts the first candidate that satisfies the
   Karush-Kuhn-Tucker conditions EXACTLY (x >= 0, gradient >= 0, x_j * gradient_j = 0). *)
From CV Require Import Base.Tac Base.Cmp Base.LinAlg Base.QcLin Model.C09_Rto.
From Coq Require Import QArith Qcanon.
Local Open Scope Qc_scope.

(* gradient of the perturbed objective at x:  A^T W A x - A^T (W c + S e) *)
Definition pgrad (n : nat) (re : noisy) (x : list Qc) : list Qc := qvsub (nrm_lhs n re x) (nrm_rhs n re).
Definition qc_leb (a b : Qc) : bool := Qle_bool (this a) (this b).

Definition kkt_ok (n : nat) (re : noisy) (x : list Qc) : bool :=
  Nat.eqb (length x) n && forallb (fun a => qc_leb 0 a) x && forallb (fun g => qc_leb 0 g) (pgrad n re x)
  && forallb (fun p => qc_eqb (fst p * snd p) 0) (combine x (pgrad n re x)).

(* keep the entries of v whose mask bit is set / put the entries of a restricted vector back, zeros elsewhere *)
Fixpoint restrict {A} (mask : list bool) (v : list A) : list A :=
  match mask, v with
  | true :: m', a :: v' => a :: restrict m' v'
  | false :: m', _ :: v' => restrict m' v'
  | _, _ => []
  end.
Fixpoint expand (mask : list bool) (v : list Qc) : list Qc :=
  match mask with
  | [] => []
  | true :: m' => match v with a :: v' => a :: expand m' v' | [] => 0 :: expand m' [] end
  | false :: m' => 0 :: expand m' v
  end.
Definition restrict_rows (mask : list bool) (re : noisy) : noisy :=
  map (fun p => (mkLS (restrict mask (ls_a (fst p))) (ls_w (fst p)) (ls_s (fst p)) (ls_c (fst p)), snd p)) re.

Fixpoint masks (n : nat) : list (list bool) :=
  match n with O => [[]] | S n' => map (cons true) (masks n') ++ map (cons false) (masks n') end.

Definition candidate (n : nat) (re : noisy) (mask : list bool) : option (list Qc) :=
  match rto_draw (length (filter (fun b : bool => b) mask)) (restrict_rows mask re) with
  | Some xf => let x := expand mask xf in if kkt_ok n re x then Some x else None
  | None => None
  end.

Fixpoint first_some {A B} (f : A -> option B) (l : list A) : option B :=
  match l with [] => None | a :: r => match f a with Some b => Some b | None => first_some f r end end.

Definition nnls_draw (n : nat) (re : noisy) : option (list Qc) := first_some (candidate n re) (masks n).

(* the perturbed objective, up to the constant 1/2 |e|^2:  1/2 sum_r w_r (c_r - <a_r,y>)^2 - sum_r s_r e_r <a_r, y>
   ( = 1/2 | S (A y - c) - e |^2 - 1/2 |e|^2 - sum_r s_r e_r c_r  when s_r^2 = w_r ) *)
Definition pobj (re : noisy) (y : list Qc) : Qc := - qcond re y - Nform re y.
