(* Vectors = lists, matrices = lists of rows, over an abstract commutative ring with
   Leibniz equality.  Definitions are executable; lemmas hold for all sizes. *)
From CV Require Import Base.Tac.
From Coq Require Import Ring.

Section LA.
Variable R : Type.
Variables (r0 r1 : R) (radd rmul rsub : R -> R -> R) (ropp : R -> R).
Hypothesis Rth : ring_theory r0 r1 radd rmul rsub ropp (@eq R).
Add Ring Rring : Rth.

Notation "x + y" := (radd x y).
Notation "x * y" := (rmul x y).
Notation "x - y" := (rsub x y).
Notation "- x" := (ropp x).

Definition vec := list R.
Definition mat := list vec.

Fixpoint dot (x y : vec) : R :=
  match x, y with
  | a :: x', b :: y' => a * b + dot x' y'
  | _, _ => r0
  end.

Fixpoint vadd (x y : vec) : vec :=
  match x, y with
  | a :: x', b :: y' => (a + b) :: vadd x' y'
  | _, _ => []
  end.

Fixpoint vsub (x y : vec) : vec :=
  match x, y with
  | a :: x', b :: y' => (a - b) :: vsub x' y'
  | _, _ => []
  end.

Definition vscale (c : R) (x : vec) : vec := map (fun a => c * a) x.
Definition vneg (x : vec) : vec := map ropp x.
Definition vzero (n : nat) : vec := repeat r0 n.
Definition vsum (x : vec) : R := fold_right radd r0 x.
Definition normsq (x : vec) : R := dot x x.

Definition matvec (A : mat) (x : vec) : vec := map (fun row => dot row x) A.

(* A^T y without materialising the transpose: sum_i y_i * row_i ; n = number of columns *)
Fixpoint mattvec (n : nat) (A : mat) (y : vec) : vec :=
  match A, y with
  | row :: A', b :: y' => vadd (vscale b row) (mattvec n A' y')
  | _, _ => vzero n
  end.

Definition wf_mat (n : nat) (A : mat) : Prop := Forall (fun r => length r = n) A.

Fixpoint unit_vec (n i : nat) : vec :=
  match n with
  | O => []
  | S n' => match i with O => r1 :: vzero n' | S i' => r0 :: unit_vec n' i' end
  end.

(* transpose, n = number of columns *)
Definition col (A : mat) (j : nat) : vec := map (fun row => nth j row r0) A.
Definition transpose (n : nat) (A : mat) : mat := map (col A) (seq 0 n).

Definition matmul (n : nat) (A B : mat) : mat :=   (* B has n columns *)
  map (fun row => mattvec n B row) A.

(* ---------- lemmas ---------- *)

Lemma vadd_length x y : length x = length y -> length (vadd x y) = length x.
Proof. revert y; induction x as [|a x IH]; intros [|b y] H; simpl in *; try lia. f_equal. apply IH. lia. Qed.

Lemma vsub_length x y : length x = length y -> length (vsub x y) = length x.
Proof. revert y; induction x as [|a x IH]; intros [|b y] H; simpl in *; try lia. f_equal. apply IH. lia. Qed.

Lemma vscale_length c x : length (vscale c x) = length x.
Proof. apply map_length. Qed.

Lemma vzero_length n : length (vzero n) = n.
Proof. apply repeat_length. Qed.

Lemma dot_comm x y : dot x y = dot y x.
Proof. revert y; induction x as [|a x IH]; intros [|b y]; simpl; try reflexivity. rewrite IH. ring. Qed.

Lemma dot_nil_r x : dot x [] = r0.
Proof. destruct x; reflexivity. Qed.

Lemma dot_vzero_l n y : dot (vzero n) y = r0.
Proof. revert y; induction n as [|n IH]; intros [|b y]; simpl; try reflexivity. rewrite IH. ring. Qed.

Lemma dot_vzero_r n y : dot y (vzero n) = r0.
Proof. rewrite dot_comm. apply dot_vzero_l. Qed.

Lemma dot_vadd_l x y z : length x = length y ->
  dot (vadd x y) z = dot x z + dot y z.
Proof.
  revert y z; induction x as [|a x IH]; intros [|b y] [|c z] H; simpl in *; try lia; try ring.
  rewrite IH by lia. ring.
Qed.

Lemma dot_vadd_r x y z : length y = length z ->
  dot x (vadd y z) = dot x y + dot x z.
Proof. intros H. rewrite dot_comm, dot_vadd_l by exact H. rewrite (dot_comm y), (dot_comm z). reflexivity. Qed.

Lemma dot_vsub_l x y z : length x = length y ->
  dot (vsub x y) z = dot x z - dot y z.
Proof.
  revert y z; induction x as [|a x IH]; intros [|b y] [|c z] H; simpl in *; try lia; try ring.
  rewrite IH by lia. ring.
Qed.

Lemma dot_vsub_r x y z : length y = length z ->
  dot x (vsub y z) = dot x y - dot x z.
Proof. intros H. rewrite dot_comm, dot_vsub_l by exact H. rewrite (dot_comm y), (dot_comm z). reflexivity. Qed.

Lemma dot_vscale_l c x y : dot (vscale c x) y = c * dot x y.
Proof. revert y; induction x as [|a x IH]; intros [|b y]; simpl; try ring. unfold vscale in IH. rewrite IH. ring. Qed.

Lemma dot_vscale_r c x y : dot x (vscale c y) = c * dot x y.
Proof. rewrite dot_comm, dot_vscale_l, dot_comm. reflexivity. Qed.

Lemma mattvec_length n A y : wf_mat n A -> length (mattvec n A y) = n.
Proof.
  intros H; revert y; induction H as [|row A Hr HA IH]; intros [|b y]; simpl; try apply vzero_length.
  rewrite vadd_length; rewrite vscale_length; [exact Hr| rewrite IH; exact Hr].
Qed.

Lemma matvec_length A x : length (matvec A x) = length A.
Proof. apply map_length. Qed.

(* The adjoint identity: <A x, y> = <x, A^T y>, every size. *)
Theorem adjoint_identity n A x y : wf_mat n A -> length x = n ->
  dot (matvec A x) y = dot x (mattvec n A y).
Proof.
  intros H Hx; revert y; induction H as [|row A Hr HA IH]; intros [|b y]; simpl;
    try (rewrite dot_vzero_r; reflexivity).
  change (map (fun row0 => dot row0 x) A) with (matvec A x).
  rewrite IH, dot_vadd_r, dot_vscale_r.
  - rewrite (dot_comm x row). ring.
  - rewrite vscale_length, mattvec_length by assumption. exact Hr.
Qed.

Lemma matvec_vadd A x y n : wf_mat n A -> length x = n -> length y = n ->
  matvec A (vadd x y) = vadd (matvec A x) (matvec A y).
Proof.
  intros H Hx Hy; induction H as [|row A Hr HA IH]; simpl; [reflexivity|].
  f_equal; [apply dot_vadd_r; lia | exact IH].
Qed.

Lemma matvec_vsub A x y n : wf_mat n A -> length x = n -> length y = n ->
  matvec A (vsub x y) = vsub (matvec A x) (matvec A y).
Proof.
  intros H Hx Hy; induction H as [|row A Hr HA IH]; simpl; [reflexivity|].
  f_equal; [apply dot_vsub_r; lia | exact IH].
Qed.

Lemma matvec_vscale A c x : matvec A (vscale c x) = vscale c (matvec A x).
Proof.
  induction A as [|row A IH]; simpl; [reflexivity|].
  f_equal; [apply dot_vscale_r | exact IH].
Qed.

Lemma normsq_matvec n A x : wf_mat n A -> length x = n ->
  normsq (matvec A x) = dot x (mattvec n A (matvec A x)).
Proof. intros. unfold normsq. apply adjoint_identity; assumption. Qed.

Lemma vadd_vzero_r x n : length x = n -> vadd x (vzero n) = x.
Proof. revert n; induction x as [|a x IH]; intros [|n] H; simpl in *; try discriminate; try reflexivity.
  rewrite IH by lia. replace (a + r0) with a by ring. reflexivity. Qed.

Lemma vscale_vzero c n : vscale c (vzero n) = vzero n.
Proof. induction n as [|n IH]; simpl; [reflexivity|]. unfold vscale, vzero in *. rewrite IH.
  replace (c * r0) with r0 by ring. reflexivity. Qed.

Lemma dot_unit_vec n i x : length x = n -> (i < n)%nat -> dot (unit_vec n i) x = nth i x r0.
Proof.
  revert i x; induction n as [|n IH]; intros i [|a x] H Hi; simpl in *; try lia.
  destruct i as [|i].
  - cbn [dot]. rewrite dot_vzero_l. ring.
  - cbn [dot]. rewrite IH by lia. ring.
Qed.

(* sum of squares over an ordered ring is handled per instance; here only the ring part *)
Lemma normsq_vscale c x : normsq (vscale c x) = c * c * normsq x.
Proof. unfold normsq. rewrite dot_vscale_l, dot_vscale_r. ring. Qed.

End LA.

Arguments dot {R} r0 radd rmul x y.
Arguments vadd {R} radd x y.
Arguments vsub {R} rsub x y.
Arguments vscale {R} rmul c x.
Arguments vneg {R} ropp x.
Arguments vzero {R} r0 n.
Arguments vsum {R} r0 radd x.
Arguments normsq {R} r0 radd rmul x.
Arguments matvec {R} r0 radd rmul A x.
Arguments mattvec {R} r0 radd rmul n A y.
Arguments wf_mat {R} n A.
Arguments unit_vec {R} r0 r1 n i.
Arguments col {R} r0 A j.
Arguments transpose {R} r0 n A.
Arguments matmul {R} r0 radd rmul n A B.
