(* C12 -- the derivative laws of Proofs/C12_Deriv.v determine the derivative: a polynomial over Q that vanishes at
   every non-zero point is the zero polynomial, hence the linear coefficient of the expansion in the step is unique. *)
From CV Require Import Base.Tac Base.LinAlg Base.QcLin Base.Cmp Model.C12_Model Model.C12_Jac Proofs.C12_Model Proofs.C12_Chain Proofs.C12_Deriv.
From Coq Require Import QArith Qcanon Ring Field.
Local Open Scope Qc_scope.

(* ---- integers inside Qc ------------------------------------------------------------------- *)
Lemma qcz_mul a b : qcz a * qcz b = qcz (a * b).
Proof.
  unfold qcz, Qcmult. apply Q2Qc_eq_iff. cbn [this Q2Qc]. rewrite !Qred_correct. rewrite inject_Z_mult. reflexivity.
Qed.

Lemma qcz_inj a b : qcz a = qcz b -> a = b.
Proof. unfold qcz. intros H. apply Q2Qc_eq_iff in H. unfold Qeq in H. simpl in H. lia. Qed.

Definition two : Qc := 1 + 1.

Definition big (m : Qc) : Prop := exists z, (1 < z)%Z /\ m = qcz z.

Lemma big_two : big two.
Proof. exists 2%Z. split; [lia|]. apply Qc_is_canon. reflexivity. Qed.

Lemma big_double m : big m -> big (two * m).
Proof.
  intros (z & Hz & ->). exists (2 * z)%Z. split; [lia|].
  replace two with (qcz 2) by (apply Qc_is_canon; reflexivity). apply qcz_mul.
Qed.

Lemma big_minus_one m : big m -> m - 1 <> 0.
Proof.
  intros (z & Hz & ->) H. assert (E : qcz z = qcz 1).
  { replace (qcz 1) with 1 by (apply Qc_is_canon; reflexivity). rewrite <- (Qcplus_0_r 1), <- H. ring. }
  apply qcz_inj in E. lia.
Qed.

(* ---- dilation with weights, subtraction ------------------------------------------------------ *)
Fixpoint pdilw (m : Qc) (p : list Qc) : list Qc :=
  match p with [] => [] | c :: r => m * c :: pdilw (two * m) r end.

Lemma peval_pdilw m p t : peval (pdilw m p) t = m * peval p (two * t).
Proof.
  revert m; induction p as [|c r IH]; intros m; [cbn [pdilw]; rewrite !peval_nil; ring|].
  cbn [pdilw]. rewrite !peval_cons, IH. ring.
Qed.

Lemma pdilw_length m p : length (pdilw m p) = length p.
Proof. revert m; induction p as [|c r IH]; intros m; [reflexivity|]. cbn [pdilw length]. rewrite IH. reflexivity. Qed.

Fixpoint psub (p q : list Qc) : list Qc :=
  match p, q with a :: p', b :: q' => (a - b) :: psub p' q' | _, _ => [] end.

Lemma peval_psub p q t : length p = length q -> peval (psub p q) t = peval p t - peval q t.
Proof.
  revert q; induction p as [|a p IH]; intros [|b q] H; simpl in H; try discriminate; [cbn [psub]; rewrite !peval_nil; ring|].
  cbn [psub]. rewrite !peval_cons, IH by lia. ring.
Qed.

Lemma psub_length p q : length p = length q -> length (psub p q) = length p.
Proof. revert q; induction p as [|a p IH]; intros [|b q] H; simpl in H; try discriminate; [reflexivity|]. cbn [psub length]. rewrite IH by lia. reflexivity. Qed.

Definition all_zero (p : list Qc) : Prop := Forall (fun c => c = 0) p.

Lemma peval_all_zero p t : all_zero p -> peval p t = 0.
Proof. induction 1 as [|c p Hc Hp IH]; [apply peval_nil|]. rewrite peval_cons, IH, Hc. ring. Qed.

Lemma weights_nonzero p m : big m -> all_zero (psub (pdilw m p) p) -> all_zero p.
Proof.
  revert m; induction p as [|c r IH]; intros m Hm H; [constructor|].
  cbn [pdilw psub] in H. inversion H as [|x l Hx Hl]; subst. constructor.
  - assert (E : (m - 1) * c = 0) by (rewrite <- Hx; ring).
    apply Qcmult_integral in E. destruct E as [E|E]; [exfalso; exact (big_minus_one m Hm E) | exact E].
  - apply (IH (two * m)); [apply big_double; exact Hm | exact Hl].
Qed.

(* a polynomial that vanishes at every non-zero rational has only zero coefficients *)
Lemma vanishing_polynomial n : forall p, (length p <= n)%nat -> (forall t, t <> 0 -> peval p t = 0) -> all_zero p.
Proof.
  induction n as [|n IH]; intros p Ln H.
  - destruct p; [constructor | simpl in Ln; lia].
  - destruct p as [|c0 p']; [constructor|]. simpl in Ln.
    assert (Hr : forall t, t <> 0 -> peval (psub (pdilw two p') p') t = 0).
    { intros t Ht. rewrite peval_psub by apply pdilw_length. rewrite peval_pdilw.
      assert (H2t : two * t <> 0).
      { intros E. apply Qcmult_integral in E. destruct E as [E|E]; [discriminate E | contradiction]. }
      pose proof (H t Ht) as E1. pose proof (H (two * t) H2t) as E2. rewrite peval_cons in E1, E2.
      assert (E : t * (two * peval p' (two * t) - peval p' t) = 0).
      { transitivity ((c0 + two * t * peval p' (two * t)) - (c0 + t * peval p' t)); [ring | rewrite E1, E2; ring]. }
      apply Qcmult_integral in E. destruct E as [E|E]; [contradiction | exact E]. }
    assert (Z' : all_zero p').
    { apply (weights_nonzero p' two big_two). apply IH; [|exact Hr].
      rewrite psub_length by apply pdilw_length. rewrite pdilw_length. lia. }
    constructor; [|exact Z'].
    assert (H1 : (1 : Qc) <> 0) by discriminate.
    pose proof (H 1 H1) as E. rewrite peval_cons, (peval_all_zero p' 1 Z') in E. rewrite <- E. ring.
Qed.

(* the linear coefficient of an expansion  F(t) = c + t a + t^2 R(t)  (all t, R a polynomial) is unique *)
Theorem linear_coefficient_unique (F : Qc -> Qc) c a b ra rb :
  (forall t, F t = c + t * a + t * t * peval ra t) ->
  (forall t, F t = c + t * b + t * t * peval rb t) -> a = b.
Proof.
  intros Ha Hb.
  set (S := (a - b) :: padd ra (pscale (- (1)) rb)).
  assert (HS : forall t, t <> 0 -> peval S t = 0).
  { intros t Ht. unfold S. rewrite peval_cons, peval_padd, peval_pscale.
    assert (E : t * ((a - b) + t * (peval ra t + - (1) * peval rb t)) = 0).
    { transitivity ((c + t * a + t * t * peval ra t) - (c + t * b + t * t * peval rb t)); [ring|].
      rewrite <- (Ha t), <- (Hb t). ring. }
    apply Qcmult_integral in E. destruct E as [E|E]; [contradiction | exact E]. }
  pose proof (vanishing_polynomial (length S) S (le_n _) HS) as Z. inversion Z as [|x l Hx Hl]; subst.
  rewrite <- (Qcplus_0_l b), <- Hx. ring.
Qed.

(* hence: the derivative of a scalar function in the sense of sderiv is unique ... *)
Corollary sderiv_unique f f1 f2 : sderiv f f1 -> sderiv f f2 -> forall x, f1 x = f2 x.
Proof.
  intros H1 H2 x. destruct (H1 x) as [r1 E1]. destruct (H2 x) as [r2 E2].
  apply (linear_coefficient_unique (fun t => f (x + t)) (f x) (f1 x) (f2 x) r1 r2); assumption.
Qed.

(* ... in particular pderiv cs is THE derivative of the polynomial cs *)
Corollary pderiv_is_the_derivative cs f' : sderiv (peval cs) f' -> forall x, f' x = peval (pderiv cs) x.
Proof. intros H x. apply (sderiv_unique (peval cs) f' (peval (pderiv cs)) H (pderiv_sderiv cs)). Qed.

(* ---- vectors: the directional derivative in the sense of dir_deriv is unique -------------------- *)
Lemma vec_linear_coefficient_unique : forall fw v v' (c c' : list (list Qc)),
  length v = length fw -> length v' = length fw -> length c = length fw -> length c' = length fw ->
  (forall t, qvadd (qvadd fw (qvscale t v)) (qvscale (t * t) (pvec_eval c t)) =
             qvadd (qvadd fw (qvscale t v')) (qvscale (t * t) (pvec_eval c' t))) -> v = v'.
Proof.
  induction fw as [|a fw IH]; intros [|b v] [|b' v'] [|p c] [|p' c'] L1 L2 L3 L4 H; simpl in L1, L2, L3, L4; try discriminate;
    [reflexivity|].
  assert (Hh : forall t, a + t * b + t * t * peval p t = a + t * b' + t * t * peval p' t).
  { intros t. specialize (H t). unfold qvadd, qvscale, vscale, pvec_eval in H. cbn [map vadd] in H. apply (f_equal (hd 0)) in H. exact H. }
  assert (Ht : forall t, qvadd (qvadd fw (qvscale t v)) (qvscale (t * t) (pvec_eval c t)) =
                         qvadd (qvadd fw (qvscale t v')) (qvscale (t * t) (pvec_eval c' t))).
  { intros t. specialize (H t). unfold qvadd, qvscale, vscale, pvec_eval in *. cbn [map vadd] in H. apply (f_equal (@tl Qc)) in H. exact H. }
  f_equal.
  - apply (linear_coefficient_unique (fun t => a + t * b + t * t * peval p t) a b b' p p'); [reflexivity | exact Hh].
  - apply (IH v v' c c'); try lia. exact Ht.
Qed.

Theorem dir_deriv_unique f w h fw v v' : length v = length fw -> length v' = length fw ->
  dir_deriv f w h fw v -> dir_deriv f w h fw v' -> v = v'.
Proof.
  intros L1 L2 (c & Lc & Hc) (c' & Lc' & Hc').
  apply (vec_linear_coefficient_unique fw v v' c c'); try assumption.
  intros t. pose proof (Hc t) as E. rewrite (Hc' t) in E.
  apply (f_equal (fun r => match r with Ok x => x | Err _ => [] end)) in E. symmetry. exact E.
Qed.

(* geo_jac is THE Jacobian of par2fun: any vector that qualifies as derivative along h is geo_jac(w) h *)
Corollary geo_jac_unique dg w wf JG h v :
  geo_jac dg w = Some JG -> g_par2fun dg w = Ok wf -> length h = length w ->
  length (qmatvec JG h) = length wf -> length v = length wf ->
  dir_deriv (g_par2fun dg) w h wf v -> v = qmatvec JG h.
Proof.
  intros HJ Hw Lh L1 L2 Hv.
  apply (dir_deriv_unique (g_par2fun dg) w h wf v (qmatvec JG h) L2 L1 Hv).
  apply geo_jac_is_jacobian; assumption.
Qed.

(* ... and J_F(par2fun w) geo_jac(w) is THE Jacobian of the parameter-to-output map *)
Corollary par2out_jacobian_unique n A csF b dg w wf JG h v :
  geo_jac dg w = Some JG -> g_par2fun dg w = Ok wf -> wf_mat n A -> length wf = n -> length b = length A ->
  length h = length w -> length (qmatvec JG h) = n -> length v = length A ->
  dir_deriv (par2out A csF b dg) w h (poly_forward A csF b wf) v ->
  v = qmatvec (poly_jac A (pderiv csF) wf) (qmatvec JG h).
Proof.
  intros HJ Hw HA Ln Lb Lh Lu Lv Hv.
  assert (LP : length (poly_forward A csF b wf) = length A).
  { unfold poly_forward. assert (E : length (qmatvec A (pmap csF wf)) = length A) by (unfold qmatvec; apply matvec_length).
    rewrite qvadd_length_eq by congruence. exact E. }
  apply (dir_deriv_unique (par2out A csF b dg) w h (poly_forward A csF b wf)); try assumption.
  - congruence.
  - rewrite LP. unfold qmatvec. rewrite matvec_length. unfold poly_jac. apply map_length.
  - apply (par2out_jacobian n); assumption.
Qed.
