"""C19 -- statistics and burn-in/thinning are exact functions of the stored chain.
Correspondence: cuqi.samples.Samples / JointSamples vs Model/C19_Stats.v (EXACT on integer arrays,
statistics to 1e-9 against the model's exact rationals)."""
import copy, itertools
from fractions import Fraction
import numpy as np
from common import *

IMPORTS = "From CV Require Import Base.Cmp Model.C19_Stats.\nFrom Coq Require Import QArith String. Open Scope string_scope."
RULE = ("integer sample arrays (1-3 function axes, Ns<=9 quick/<=13 thorough), every (Nb,Nt) incl. Nb>=Ns, Nt=0, Nt>Ns; "
        "chained burnthin; JointSamples; per-coordinate mean/var/median/std/CI at 9 credibility levels; funvals statistics via a "
        "mapped geometry; arviz dictionaries. distinct = distinct (array, operation, arguments); trivial = Ns==1 statistics and "
        "(Nb,Nt)=(0,1) burnthin")


def flat_samples(arr):
    """list of samples, each flattened in C order, from an array indexed by its last axis"""
    arr = np.asarray(arr)
    return [[int(v) for v in np.asarray(arr[..., k]).ravel()] for k in range(arr.shape[-1])]


def cchain(ch):
    return clist([czvec(s) for s in ch])


# ---------------- independent oracle (pure Python, Fractions) ----------------
def o_burnthin(ch, nb, nt):
    if nb >= len(ch) or nt == 0:
        return None
    out, k = [], nb
    while k < len(ch):
        out.append(ch[k]); k += nt
    return out


def o_percentile(vals, p):
    s = sorted(vals); n = len(s)
    h = Fraction(p) / 100 * (n - 1)
    k = h.numerator // h.denominator
    fr = h - k
    return Fraction(s[k]) + (fr * (s[k + 1] - s[k]) if fr else 0)


def o_stats(ch, dim):
    res = {"mean": [], "var": [], "median": []}
    for k in range(dim):
        col = [Fraction(s[k]) for s in ch]
        m = sum(col) / len(col)
        res["mean"].append(m)
        res["var"].append(sum((x - m) ** 2 for x in col) / len(col))
        res["median"].append(o_percentile([s[k] for s in ch], 50))
    return res


def close(a, b, tol=Fraction(1, 10**9)):
    return abs(frac(a) - b) <= tol * (1 + abs(b))


def mk_geom(cuqi, kind, dim):
    if kind == "default":
        return None
    if kind == "cont1d":
        return cuqi.geometry.Continuous1D(dim)
    if kind == "discrete":
        return cuqi.geometry.Discrete(dim)
    raise ValueError(kind)


def run(ctx):
    import cuqi
    from cuqi.samples import Samples, JointSamples
    rng = ctx.rng
    cases = []
    Nmax = ctx.n(8, 12)

    # ---- 1. burnthin over all (Nb, Nt) ---------------------------------------------------------
    shapes = [(1,), (3,), (2, 2), (2, 1, 2)]
    for Ns in range(1, Nmax + 1):
        for shp in shapes:
            if len(shp) > 1 and Ns % 3 == 1 and not ctx.thorough:
                continue
            arr = np.array([[rng.randint(-50, 50) for _ in range(Ns)] for _ in range(int(np.prod(shp)))]).reshape(shp + (Ns,))
            is_vec = len(shp) == 1
            is_par = is_vec and rng.random() < 0.5
            gkind = rng.choice(["default", "cont1d", "discrete"]) if is_vec else "default"
            geom = mk_geom(cuqi, gkind, shp[0])
            ch = flat_samples(arr)
            for nb in range(0, Ns + 2):
                for nt in list(range(0, Ns + 2)):
                    S = Samples(arr.copy(), geometry=geom, is_par=is_par, is_vec=is_vec)
                    before = S.samples.copy()
                    try:
                        R = S.burnthin(nb, nt)
                        obs = flat_samples(R.samples)
                        flags = (R.is_par == is_par and R.is_vec == is_vec and
                                 (R._geometry is S._geometry) and R.samples.shape[:-1] == S.samples.shape[:-1])
                    except (ValueError, ZeroDivisionError):
                        obs, flags = None, True
                    unchanged = bool(np.array_equal(S.samples, before)) and S.samples.shape == before.shape
                    meta = {"op": "burnthin", "shape": list(shp), "Ns": Ns, "Nb": nb, "Nt": nt, "array": arr.tolist(),
                            "is_par": is_par, "is_vec": is_vec, "geom": gkind}
                    expr = "check_burnthin %s %s %s %s %s %s" % (cnat(nb), cnat(nt), cchain(ch),
                                                                 copt(obs, cchain), cbool(flags), cbool(unchanged))
                    exp = o_burnthin(ch, nb, nt)
                    fail = None
                    if exp != obs or not flags or not unchanged:
                        fail = "burnthin(%d,%d) on Ns=%d: expected %s observed %s flags_kept=%s source_unchanged=%s" % (nb, nt, Ns, exp, obs, flags, unchanged)
                    cases.append(Case(expr=expr, meta=meta, cell="burnthin/%dax" % len(shp), trivial=(nb == 0 and nt == 1),
                                      kind="EXACT", impl_fail=fail, signature="Samples.burnthin" if fail else ""))

    # ---- 2. chained calls ------------------------------------------------------------------------
    for _ in range(ctx.n(80, 600)):
        Ns = rng.randint(3, 3 * Nmax)
        arr = np.array([[rng.randint(-9, 9) for _ in range(Ns)] for _ in range(2)])
        ops = [(rng.randint(0, 4), rng.randint(1, 4)) for _ in range(rng.randint(2, 4))]
        S = Samples(arr.copy())
        try:
            R = S
            for (b, t) in ops:
                R = R.burnthin(b, t)
            obs = flat_samples(R.samples)
        except ValueError:
            obs = None
        exp = flat_samples(arr)
        for (b, t) in ops:
            exp = o_burnthin(exp, b, t) if exp is not None else None
        fail = None if exp == obs else "chained burnthin %s: expected %s observed %s" % (ops, exp, obs)
        expr = "check_burnthin_seq %s %s %s" % (clist(["(%s, %s)" % (cnat(b), cnat(t)) for b, t in ops]), cchain(flat_samples(arr)), copt(obs, cchain))
        cases.append(Case(expr=expr, meta={"op": "burnthin_seq", "ops": ops, "array": arr.tolist()}, cell="burnthin/chained",
                          impl_fail=fail, signature="Samples.burnthin" if fail else ""))

    # ---- 3. JointSamples ---------------------------------------------------------------------------
    for _ in range(ctx.n(60, 400)):
        nvar = rng.randint(1, 3)
        names = rng.sample(["x", "y", "s", "d", "z"], nvar)
        Ns = rng.randint(1, Nmax)
        arrs = {}
        for nm in names:
            d = rng.randint(1, 3)
            nsv = Ns if rng.random() < 0.8 else rng.randint(1, Nmax)
            arrs[nm] = np.array([[rng.randint(-9, 9) for _ in range(nsv)] for _ in range(d)])
        nb, nt = rng.randint(0, Ns + 1), rng.randint(0 if rng.random() < 0.1 else 1, 3)
        J = JointSamples({k: Samples(v.copy()) for k, v in arrs.items()})
        try:
            R = J.burnthin(nb, nt)
            obs = [(k, flat_samples(v.samples)) for k, v in R.items()]
            if not isinstance(R, JointSamples):
                obs = "not a JointSamples"
        except (ValueError, ZeroDivisionError):
            obs = None
        exp = []
        for k in names:
            e = o_burnthin(flat_samples(arrs[k]), nb, nt)
            if e is None:
                exp = None
                break
            exp.append((k, e))
        fail = None if exp == obs else "JointSamples.burnthin(%d,%d): expected %s observed %s" % (nb, nt, exp, obs)
        enc = lambda L: clist(["(%s, %s)" % (cstr(k), cchain(c)) for k, c in L])
        expr = "check_joint_burnthin %s %s %s %s" % (cnat(nb), cnat(nt), enc([(k, flat_samples(arrs[k])) for k in names]), copt(obs if isinstance(obs, list) else None, enc))
        cases.append(Case(expr=expr, meta={"op": "joint_burnthin", "Nb": nb, "Nt": nt, "arrays": {k: v.tolist() for k, v in arrs.items()}},
                          cell="burnthin/joint", impl_fail=fail, signature="JointSamples.burnthin" if fail else ""))

    # ---- 4. statistics -----------------------------------------------------------------------------
    percents = [95, 50, 90, 99, 80, 0, 100, 12.5, 37]
    for it in range(ctx.n(250, 2500)):
        shp = rng.choice([(1,), (2,), (4,), (2, 2), (1, 3), (2, 1, 2)])
        Ns = rng.randint(1, Nmax + 1)
        lo, hi = rng.choice([(-3, 3), (-100, 100), (0, 1), (-10**6, 10**6)])
        dim = int(np.prod(shp))
        arr = np.array([[rng.randint(lo, hi) for _ in range(Ns)] for _ in range(dim)]).reshape(shp + (Ns,))
        is_vec = len(shp) == 1
        S = Samples(arr.astype(float) if rng.random() < 0.5 else arr.copy(), is_par=is_vec, is_vec=is_vec)
        ch = flat_samples(arr)
        mean, var, med, std = S.mean(), S.variance(), S.median(), S.std()
        fl = lambda a: [frac(v) for v in np.asarray(a, dtype=float).ravel()]
        ok_shape = all(np.asarray(a).shape == shp for a in (mean, var, med, std))
        o = o_stats(ch, dim)
        fail = None
        if not ok_shape:
            fail = "statistic has wrong shape"
        else:
            for nm, got, ex in (("mean", fl(mean), o["mean"]), ("variance", fl(var), o["var"]), ("median", fl(med), o["median"]),
                                ("std^2", [v * v for v in fl(std)], o["var"])):
                if not all(close(g, e) for g, e in zip(got, ex)) or len(got) != len(ex):
                    fail = "%s: observed %s expected %s" % (nm, [float(g) for g in got], [float(e) for e in ex])
                    break
        expr = "check_stats %s %s %s %s %s %s" % (cnat(dim), cchain(ch), cqvec(fl(mean)), cqvec(fl(var)), cqvec(fl(med)),
                                                  cqvec([v * v for v in fl(std)]))
        cases.append(Case(expr=expr, meta={"op": "stats", "array": arr.tolist()}, cell="stats/%dax" % len(shp), trivial=(Ns == 1),
                          impl_fail=fail, signature="Samples.stats" if fail else ""))
        p = percents[it % len(percents)]
        lo_c, up_c = S.compute_ci(p)
        w = S.ci_width(p)
        pf = Fraction(p)
        fail = None
        elo = [o_percentile([s[k] for s in ch], (100 - pf) / 2) for k in range(dim)]
        ehi = [o_percentile([s[k] for s in ch], 100 - (100 - pf) / 2) for k in range(dim)]
        if not (all(close(g, e) for g, e in zip(fl(lo_c), elo)) and all(close(g, e) for g, e in zip(fl(up_c), ehi))
                and all(close(g, h - l) for g, h, l in zip(fl(w), ehi, elo)) and np.asarray(w).shape == shp):
            fail = "compute_ci(%s): observed lo=%s hi=%s width=%s expected lo=%s hi=%s" % (p, np.ravel(lo_c), np.ravel(up_c), np.ravel(w), [float(e) for e in elo], [float(e) for e in ehi])
        elif not all(l <= m <= h for l, m, h in zip(fl(lo_c), fl(med), fl(up_c))):
            fail = "compute_ci(%s): lower <= median <= upper violated" % p
        expr = "check_ci %s %s %s %d%%positive %s %s %s" % (cnat(dim), cchain(ch), cz(pf.numerator), pf.denominator,
                                                             cqvec(fl(lo_c)), cqvec(fl(up_c)), cqvec(fl(w)))
        cases.append(Case(expr=expr, meta={"op": "ci", "percent": p, "array": arr.tolist()}, cell="ci/%s" % p, trivial=(Ns == 1),
                          impl_fail=fail, signature="Samples.compute_ci" if fail else ""))

    # ---- 5. statistics of function-value samples = statistics of the converted samples ---------------------
    for it in range(ctx.n(40, 300)):
        dim, Ns = rng.randint(1, 4), rng.randint(1, Nmax)
        arr = np.array([[rng.randint(-6, 6) for _ in range(Ns)] for _ in range(dim)])
        a, b = rng.randint(1, 3), rng.randint(-2, 2)
        g = cuqi.geometry.MappedGeometry(cuqi.geometry.Continuous1D(dim), map=lambda x, a=a, b=b: a * x ** 2 + b)
        S = Samples(arr.astype(float), geometry=g)
        F = S.funvals
        conv = [[a * v * v + b for v in s] for s in flat_samples(arr)]
        okrep = (F.is_par is False) and F.Ns == Ns and flat_samples(F.samples) == conv and np.array_equal(S.samples, arr)
        fl = lambda x: [frac(v) for v in np.asarray(x, dtype=float).ravel()]
        mean, var, med, std = F.mean(), F.variance(), F.median(), F.std()
        o = o_stats(conv, dim)
        fail = None
        if not okrep:
            fail = "funvals conversion is not the per-sample par2fun (or source altered)"
        elif not (all(close(g_, e) for g_, e in zip(fl(mean), o["mean"])) and all(close(g_, e) for g_, e in zip(fl(var), o["var"]))
                  and all(close(g_, e) for g_, e in zip(fl(med), o["median"]))):
            fail = "funvals statistics differ from statistics of converted samples"
        expr = "check_stats %s %s %s %s %s %s && %s" % (cnat(dim), cchain(conv), cqvec(fl(mean)), cqvec(fl(var)), cqvec(fl(med)),
                                                        cqvec([v * v for v in fl(std)]), cbool(okrep))
        cases.append(Case(expr=expr, meta={"op": "funvals_stats", "a": a, "b": b, "array": arr.tolist()}, cell="stats/funvals",
                          trivial=(Ns == 1), impl_fail=fail, signature="Samples.funvals.stats" if fail else ""))

    # ---- 6. what arviz receives ----------------------------------------------------------------------------
    import arviz
    for it in range(ctx.n(60, 400)):
        dim, Ns = rng.randint(1, 12), rng.randint(4, 8)
        arr = np.array([[100 * i + rng.randint(0, 50) for _ in range(Ns)] for i in range(dim)])
        kind = rng.choice(["default", "cont1d", "named"])
        if kind == "named":
            names = rng.sample(["a", "b", "cc", "x1", "x10", "x2", "zeta", "k", "v0", "v1", "v2", "w", "q"], dim)
            geom = cuqi.geometry.Discrete(names)
        else:
            geom = mk_geom(cuqi, kind, dim)
        S = Samples(arr.copy(), geometry=geom)
        if rng.random() < 0.5:
            vi = None
            sel = list(range(dim))
        else:
            sel = sorted(rng.sample(range(dim), rng.randint(1, dim))) if rng.random() < 0.7 else rng.sample(range(dim), rng.randint(1, dim))
            vi = np.array(sel)
        d = S.to_arviz_inferencedata(vi)
        names_all = [str(v) for v in S.geometry.variables]
        obs = [(str(k), [int(x) for x in v]) for k, v in d.items()]
        exp = [(names_all[i], [int(x) for x in arr[i]]) for i in sel]
        fail = None if obs == exp else "to_arviz_inferencedata: observed %s expected %s" % (obs, exp)
        # ESS / R-hat: what arviz is handed, and the order of what comes back
        seen = {}
        real_ess, real_rhat = arviz.ess, arviz.rhat
        def fake_ess(dd, **kw):
            seen["ess"] = [(str(k), [int(x) for x in np.ravel(v)]) for k, v in dd.items()]
            return real_ess(dd, **kw)
        arviz.ess = fake_ess
        try:
            ess = S.compute_ess()
        finally:
            arviz.ess = real_ess
        if fail is None:
            allrows = [(names_all[i], [int(x) for x in arr[i]]) for i in range(dim)]
            if seen.get("ess") != allrows:
                fail = "compute_ess hands arviz permuted/other chains: %s" % (seen.get("ess"),)
            else:
                for i in range(dim):
                    ref = float(real_ess({"v": arr[i].astype(float)})["v"].values)
                    if not (abs(ess[i] - ref) <= 1e-9 * (1 + abs(ref)) or (np.isnan(ref) and np.isnan(ess[i]))):
                        fail = "compute_ess()[%d]=%r is not the ESS of chain %d (%r)" % (i, ess[i], i, ref)
                        break
        enc = lambda L: clist(["(%s, %s)" % (cstr(k), czvec(c)) for k, c in L])
        expr = "check_arviz %s %s %s" % (clist([cstr(names_all[i]) for i in sel]), clist([czvec(arr[i]) for i in sel]), enc(obs))
        cases.append(Case(expr=expr, meta={"op": "arviz", "dim": dim, "geom": kind, "indices": sel if vi is not None else None,
                                          "array": arr.tolist()}, cell="arviz/" + kind, impl_fail=fail,
                          signature="Samples.arviz" if fail else ""))
    return Result(cases=cases, rule=RULE,
                  assumptions=["numpy's mean/var/median/percentile are the oracles being compared against the model's exact rationals (tolerance 1e-9 relative)",
                               "arviz.ess is called for real; only its argument is recorded"])


def classify(meta, detail):
    return {"burnthin": "Samples.burnthin", "burnthin_seq": "Samples.burnthin", "joint_burnthin": "JointSamples.burnthin",
            "stats": "Samples.stats", "ci": "Samples.compute_ci", "funvals_stats": "Samples.funvals.stats", "arviz": "Samples.arviz"}.get(meta.get("op"), "C19")


def replay(ctx, meta):
    print(json.dumps(meta, indent=1)[:4000])
    m = meta.get("meta", meta)
    import cuqi
    from cuqi.samples import Samples
    if m.get("op") == "burnthin":
        S = Samples(np.array(m["array"]))
        try:
            print("implementation:", flat_samples(S.burnthin(m["Nb"], m["Nt"]).samples))
        except Exception as e:
            print("implementation raised", repr(e))
        print("expected       :", o_burnthin(flat_samples(np.array(m["array"])), m["Nb"], m["Nt"]))
    return 0
