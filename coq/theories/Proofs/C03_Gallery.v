(* C03 -- DistributionGallery: each hand-derived gradient entry is the partial derivative of the log-density. *)
From CV Require Import Base.Tac Model.C03_GradR.
From Coq Require Import Reals Lra RealField.
From Coquelicot Require Import Coquelicot.
Open Scope R_scope.

Lemma rad_pos x1 x2 : x1 <> 0 \/ x2 <> 0 -> 0 < x1 ^ 2 + x2 ^ 2.
Proof. intros H. pose proof (pow2_ge_0 x1). pose proof (pow2_ge_0 x2). destruct H as [H|H]; pose proof (pow2_gt_0 _ H); lra. Qed.

(* polynomial / Gaussian-kernel ones *)
Lemma g2_derive1 p11 p12 p22 mu1 mu2 y1 y2 : is_derive (fun t => g2_logd p11 p12 p22 mu1 mu2 t y2) y1 (g2_d1 p11 p12 p22 mu1 mu2 y1 y2).
Proof. unfold g2_logd, g2_d1. auto_derive; [exact I | field]. Qed.
Lemma g2_derive2 p11 p12 p22 mu1 mu2 y1 y2 : is_derive (fun t => g2_logd p11 p12 p22 mu1 mu2 y1 t) y2 (g2_d2 p11 p12 p22 mu1 mu2 y1 y2).
Proof. unfold g2_logd, g2_d2. auto_derive; [exact I | field]. Qed.

Theorem banana_derive1 p11 p12 p22 mu1 mu2 a b x1 x2 : a <> 0 ->
  is_derive (fun t => banana_logd p11 p12 p22 mu1 mu2 a b t x2) x1 (banana_g1 p11 p12 p22 mu1 mu2 a b x1 x2).
Proof. intros Ha. unfold banana_logd, banana_g1, banana_y2, g2_logd, g2_d1, g2_d2. auto_derive; [first [exact I | exact Ha] | field; exact Ha]. Qed.
Theorem banana_derive2 p11 p12 p22 mu1 mu2 a b x1 x2 : a <> 0 ->
  is_derive (fun t => banana_logd p11 p12 p22 mu1 mu2 a b x1 t) x2 (banana_g2 p11 p12 p22 mu1 mu2 a b x1 x2).
Proof. intros Ha. unfold banana_logd, banana_g2, banana_y2, g2_logd, g2_d1, g2_d2. auto_derive; [exact I | field; exact Ha]. Qed.

Theorem squiggle_derive1 p11 p12 p22 mu1 mu2 x1 x2 :
  is_derive (fun t => squiggle_logd p11 p12 p22 mu1 mu2 t x2) x1 (squiggle_g1 p11 p12 p22 mu1 mu2 x1 x2).
Proof. unfold squiggle_logd, squiggle_g1, g2_logd, g2_d1, g2_d2. auto_derive; [exact I | field]. Qed.
Theorem squiggle_derive2 p11 p12 p22 mu1 mu2 x1 x2 :
  is_derive (fun t => squiggle_logd p11 p12 p22 mu1 mu2 x1 t) x2 (squiggle_g2 p11 p12 p22 mu1 mu2 x1 x2).
Proof. unfold squiggle_logd, squiggle_g2, g2_logd, g2_d1, g2_d2. auto_derive; [exact I | field]. Qed.

Theorem funnel_derive1 m0 m1 s1 x1 x2 : 
  is_derive (fun t => funnel_logd m0 m1 s1 t x2) x1 (funnel_g1 m0 m1 s1 x1 x2).
Proof.
  unfold funnel_logd, funnel_g1, fun_f. pose proof (exp_pos (x2 / 2)) as He.
  auto_derive; [repeat split; lra | set (e := exp (x2 / 2)) in *; field; lra].
Qed.
Theorem funnel_derive2 m0 m1 s1 x1 x2 : 0 < s1 ->
  is_derive (fun t => funnel_logd m0 m1 s1 x1 t) x2 (funnel_g2 m0 m1 s1 x1 x2).
Proof.
  intros Hs. unfold funnel_logd, funnel_g2, fun_f. pose proof (exp_pos (x2 / 2)) as He. pose proof PI_RGT_0.
  auto_derive; [repeat split; lra | unfold Rdiv in *; set (e := exp (x2 * / 2)) in *; field; split; lra].
Qed.

(* ---------- the radius: derivative of sqrt(x1^2 + x2^2) away from the origin ---------- *)
Lemma rad_derive1 x1 x2 : 0 < x1 ^ 2 + x2 ^ 2 -> is_derive (fun t => rad t x2) x1 (x1 / rad x1 x2).
Proof.
  intros H. unfold rad. pose proof (sqrt_lt_R0 _ H) as Hs.
  auto_derive; [cbn; lra|].
  replace (x1 * (x1 * 1) + x2 * (x2 * 1)) with (x1 ^ 2 + x2 ^ 2) by ring.
  set (r := sqrt (x1 ^ 2 + x2 ^ 2)) in *. field. lra.
Qed.
Lemma rad_derive2 x1 x2 : 0 < x1 ^ 2 + x2 ^ 2 -> is_derive (fun t => rad x1 t) x2 (x2 / rad x1 x2).
Proof.
  intros H. unfold rad. pose proof (sqrt_lt_R0 _ H) as Hs.
  auto_derive; [cbn; lra|].
  replace (x1 * (x1 * 1) + x2 * (x2 * 1)) with (x1 ^ 2 + x2 ^ 2) by ring.
  set (r := sqrt (x1 ^ 2 + x2 ^ 2)) in *. field. lra.
Qed.

(* CalSom91 and donut: functions of the radius (and of x2) *)
Theorem calsom_derive1 sig delta x1 x2 : sig <> 0 -> delta <> 0 -> 0 < x1 ^ 2 + x2 ^ 2 ->
  is_derive (fun t => calsom_logd sig delta t x2) x1 (calsom_g1 sig delta x1 x2).
Proof.
  intros Hs Hd H. pose proof (sqrt_lt_R0 _ H) as Hp.
  unfold calsom_logd, calsom_g1, rad.
  auto_derive; [replace (x1 * (x1 * 1) + x2 * (x2 * 1)) with (x1 ^ 2 + x2 ^ 2) by ring; exact H|].
  replace (x1 * (x1 * 1) + x2 * (x2 * 1)) with (x1 ^ 2 + x2 ^ 2) by ring.
  set (r := sqrt (x1 ^ 2 + x2 ^ 2)) in *. field. repeat split; lra.
Qed.
Theorem calsom_derive2 sig delta x1 x2 : sig <> 0 -> delta <> 0 -> 0 < x1 ^ 2 + x2 ^ 2 ->
  is_derive (fun t => calsom_logd sig delta x1 t) x2 (calsom_g2 sig delta x1 x2).
Proof.
  intros Hs Hd H. pose proof (sqrt_lt_R0 _ H) as Hp.
  unfold calsom_logd, calsom_g2, rad.
  auto_derive; [replace (x1 * (x1 * 1) + x2 * (x2 * 1)) with (x1 ^ 2 + x2 ^ 2) by ring; exact H|].
  replace (x1 * (x1 * 1) + x2 * (x2 * 1)) with (x1 ^ 2 + x2 ^ 2) by ring.
  set (r := sqrt (x1 ^ 2 + x2 ^ 2)) in *. field. repeat split; lra.
Qed.
Theorem donut_derive1 rd s2 x1 x2 : s2 <> 0 -> 0 < x1 ^ 2 + x2 ^ 2 ->
  is_derive (fun t => donut_logd rd s2 t x2) x1 (donut_g1 rd s2 x1 x2).
Proof.
  intros Hs H. pose proof (sqrt_lt_R0 _ H) as Hp.
  unfold donut_logd, donut_g1, rad.
  auto_derive; [replace (x1 * (x1 * 1) + x2 * (x2 * 1)) with (x1 ^ 2 + x2 ^ 2) by ring; exact H|].
  replace (x1 * (x1 * 1) + x2 * (x2 * 1)) with (x1 ^ 2 + x2 ^ 2) by ring.
  set (r := sqrt (x1 ^ 2 + x2 ^ 2)) in *. field. repeat split; lra.
Qed.
Theorem donut_derive2 rd s2 x1 x2 : s2 <> 0 -> 0 < x1 ^ 2 + x2 ^ 2 ->
  is_derive (fun t => donut_logd rd s2 x1 t) x2 (donut_g2 rd s2 x1 x2).
Proof.
  intros Hs H. pose proof (sqrt_lt_R0 _ H) as Hp.
  unfold donut_logd, donut_g2, rad.
  auto_derive; [replace (x1 * (x1 * 1) + x2 * (x2 * 1)) with (x1 ^ 2 + x2 ^ 2) by ring; exact H|].
  replace (x1 * (x1 * 1) + x2 * (x2 * 1)) with (x1 ^ 2 + x2 ^ 2) by ring.
  set (r := sqrt (x1 ^ 2 + x2 ^ 2)) in *. field. repeat split; lra.
Qed.

(* mixture of three isotropic Gaussians (positive variances) *)
Lemma iso_pdf_pos c x1 x2 : 0 < snd c -> 0 < iso_pdf c x1 x2.
Proof.
  destruct c as [[a b] s]. cbn. intros Hs. pose proof PI_RGT_0.
  apply Rmult_lt_0_compat; [apply Rinv_0_lt_compat; nra | apply exp_pos].
Qed.

Lemma iso_pdf_derive1 c x1 x2 : 0 < snd c -> is_derive (fun t => iso_pdf c t x2) x1 (iso_pdf c x1 x2 * iso_d1 c x1 x2).
Proof.
  destruct c as [[a b] s]. cbv beta iota zeta delta [iso_pdf iso_d1 snd]. intros Hs. pose proof PI_RGT_0.
  auto_derive; [exact I|].
  replace (- ((x1 + - a) * ((x1 + - a) * 1) + (x2 - b) * ((x2 - b) * 1)) * / (2 * s))
    with (- ((x1 - a) ^ 2 + (x2 - b) ^ 2) / (2 * s)) by (field; lra).
  set (e := exp (- ((x1 - a) ^ 2 + (x2 - b) ^ 2) / (2 * s))). field. split; lra.
Qed.
Lemma iso_pdf_derive2 c x1 x2 : 0 < snd c -> is_derive (fun t => iso_pdf c x1 t) x2 (iso_pdf c x1 x2 * iso_d2 c x1 x2).
Proof.
  destruct c as [[a b] s]. cbv beta iota zeta delta [iso_pdf iso_d2 snd]. intros Hs. pose proof PI_RGT_0.
  auto_derive; [exact I|].
  replace (- ((x1 - a) * ((x1 - a) * 1) + (x2 + - b) * ((x2 + - b) * 1)) * / (2 * s))
    with (- ((x1 - a) ^ 2 + (x2 - b) ^ 2) / (2 * s)) by (field; lra).
  set (e := exp (- ((x1 - a) ^ 2 + (x2 - b) ^ 2) / (2 * s))). field. split; lra.
Qed.

Lemma is_derive_eq' (f : R -> R) (x l l' : R) : is_derive f x l -> l = l' -> is_derive f x l'.
Proof. intros H <-. exact H. Qed.

Lemma ln_sum3_derive (p1 p2 p3 : R -> R) (x d1 d2 d3 : R) :
  0 < p1 x + p2 x + p3 x -> is_derive p1 x d1 -> is_derive p2 x d2 -> is_derive p3 x d3 ->
  is_derive (fun t => ln (p1 t + p2 t + p3 t)) x ((d1 + d2 + d3) * / (p1 x + p2 x + p3 x)).
Proof.
  intros Hp H1 H2 H3.
  assert (Hs : is_derive (fun t => p1 t + p2 t + p3 t) x (d1 + d2 + d3)).
  { apply (is_derive_plus (fun t => p1 t + p2 t) p3 x (d1 + d2) d3); [apply (is_derive_plus p1 p2 x d1 d2 H1 H2) | exact H3]. }
  assert (Hl : is_derive ln (p1 x + p2 x + p3 x) (/ (p1 x + p2 x + p3 x))).
  { auto_derive; [exact Hp | field; lra]. }
  pose proof (is_derive_comp ln (fun t => p1 t + p2 t + p3 t) x _ _ Hl Hs) as Hc.
  apply (is_derive_eq' _ _ _ _ Hc). unfold scal; cbn. unfold mult; cbn. ring.
Qed.

Theorem mixture_derive1 c1 c2 c3 x1 x2 : 0 < snd c1 -> 0 < snd c2 -> 0 < snd c3 ->
  is_derive (fun t => mixture_logd c1 c2 c3 t x2) x1 (mixture_g1 c1 c2 c3 x1 x2).
Proof.
  intros H1 H2 H3. unfold mixture_logd, mixture_g1.
  pose proof (iso_pdf_pos c1 x1 x2 H1). pose proof (iso_pdf_pos c2 x1 x2 H2). pose proof (iso_pdf_pos c3 x1 x2 H3).
  apply (ln_sum3_derive (fun t => iso_pdf c1 t x2) (fun t => iso_pdf c2 t x2) (fun t => iso_pdf c3 t x2) x1); try lra;
    apply iso_pdf_derive1; assumption.
Qed.
Theorem mixture_derive2 c1 c2 c3 x1 x2 : 0 < snd c1 -> 0 < snd c2 -> 0 < snd c3 ->
  is_derive (fun t => mixture_logd c1 c2 c3 x1 t) x2 (mixture_g2 c1 c2 c3 x1 x2).
Proof.
  intros H1 H2 H3. unfold mixture_logd, mixture_g2.
  pose proof (iso_pdf_pos c1 x1 x2 H1). pose proof (iso_pdf_pos c2 x1 x2 H2). pose proof (iso_pdf_pos c3 x1 x2 H3).
  apply (ln_sum3_derive (fun t => iso_pdf c1 x1 t) (fun t => iso_pdf c2 x1 t) (fun t => iso_pdf c3 x1 t) x2); try lra;
    apply iso_pdf_derive2; assumption.
Qed.
