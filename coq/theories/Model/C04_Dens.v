(* C04 -- log-densities are the documented normalised densities in every parameterisation.

   Executable / evaluable model of the logpdf, pdf and cdf formulas of cuqi.distribution
   (no proofs here).  Values are real numbers (R); every correspondence case is an ENCLOSURE goal
   `Rabs (model - observed) <= tol` closed by `interval`.  Decisions (support tests, refusals, which
   branch) and exact linear algebra (difference operators, Gaussian quadratic forms, determinants)
   are computed over Q / Z by vm_compute.

   Conventions
   * a parameter that the code holds as a scalar or as an array is a list of length 1 or n
     (`bc n p` is numpy broadcasting against an evaluation point of length n);
   * `fixed : bool` selects, for the three defects that have a proposed fix (fixes/C04_*.diff), the
     repaired formula (true) or the formula of the unrepaired tree (false): both are modelled so that
     the correspondence covers either state of /repo;
   * lnGamma is external (scipy): every formula takes the value(s) `g` of lnGamma at the shape
     parameter(s) as explicit arguments; for integer and half-integer shapes the harness passes the
     closed form `ln (gam_half k)`, otherwise a certificate value. *)
(* NOTE: definitions only; all proofs are in Proofs/C04_*.v *)
From CV Require Import Base.Tac Base.Cmp.
From Coq Require Import QArith Qabs Reals.
Local Open Scope R_scope.

(* ---------- generic ---------- *)
Definition rsum (l : list R) : R := fold_right Rplus 0 l.
Definition rprod (l : list R) : R := fold_right Rmult 1 l.
Definition bc (n : nat) (p : list R) : list R := match p with [a] => repeat a n | _ => p end.

Fixpoint zip2 (a b : list R) : list (R * R) :=
  match a, b with x :: a', y :: b' => (x, y) :: zip2 a' b' | _, _ => [] end.
Fixpoint zip3 (a b c : list R) : list (R * R * R) :=
  match a, b, c with x :: a', y :: b', z :: c' => (x, y, z) :: zip3 a' b' c' | _, _, _ => [] end.
Fixpoint zip4 (a b c d : list R) : list (R * R * R * R) :=
  match a, b, c, d with x :: a', y :: b', z :: c', w :: d' => (x, y, z, w) :: zip4 a' b' c' d' | _, _, _, _ => [] end.

(* numpy broadcasting of a binary operation on two arrays of length 1 or n *)
Definition bcast2 (f : R -> R -> R) (a b : list R) : list R :=
  match a, b with
  | [x], _ => map (f x) b
  | _, [y] => map (fun x => f x y) a
  | _, _ => map (fun p => f (fst p) (snd p)) (zip2 a b)
  end.

(* ---------- Normal(mean, std) ---------- *)
Definition normal_term (a : R * R * R) : R := let '(m, s, x) := a in - ln (s * sqrt (2 * PI)) - / 2 * ((x - m) / s) ^ 2.
Definition normal_pdf1 (a : R * R * R) : R := let '(m, s, x) := a in 1 / (s * sqrt (2 * PI)) * exp (- / 2 * ((x - m) / s) ^ 2).
Definition normal_args (mean std x : list R) := let n := length x in zip3 (bc n mean) (bc n std) x.
Definition normal_logpdf (mean std x : list R) : R := rsum (map normal_term (normal_args mean std x)).
Definition normal_pdf (mean std x : list R) : R := rprod (map normal_pdf1 (normal_args mean std x)).

(* ---------- Laplace(location, scale) : scalar scale ---------- *)
Definition laplace_pdf1 (b : R) (a : R * R) : R := let '(l, x) := a in 1 / (2 * b) * exp (- Rabs (x - l) / b).
Definition laplace_args (loc x : list R) := zip2 (bc (length x) loc) x.
Definition laplace_logpdf (dim : nat) (loc : list R) (b : R) (x : list R) : R :=
  INR dim * ln (/ 2 / b) - rsum (map (fun a => Rabs (snd a - fst a)) (laplace_args loc x)) / b.

(* ---------- SmoothedLaplace(location, scale, beta) ---------- *)
Definition slap_term (beta : R) (a : R * R * R) : R := let '(l, b, x) := a in ln (/ 2 / b) - sqrt ((x - l) ^ 2 + beta) / b.
Definition slap_pdf1 (beta : R) (a : R * R * R) : R := let '(l, b, x) := a in 1 / (2 * b) * exp (- sqrt ((x - l) ^ 2 + beta) / b).
Definition slap_args (loc scale x : list R) := let n := length x in zip3 (bc n loc) (bc n scale) x.
Definition slap_logpdf (fixed : bool) (loc scale : list R) (beta : R) (x : list R) : R :=
  if fixed then rsum (map (slap_term beta) (slap_args loc scale x))
  else rsum (map (fun b => ln (/ 2 / b)) scale)
       - rsum (map (fun a => let '(l, b, x) := a in sqrt ((x - l) ^ 2 + beta) / b) (slap_args loc scale x)).

(* ---------- Cauchy(location, scale) ---------- *)
Definition cauchy_term (a : R * R * R) : R := let '(l, s, x) := a in - ln (PI * s * (1 + ((x - l) / s) ^ 2)).
Definition cauchy_pdf1 (a : R * R * R) : R := let '(l, s, x) := a in 1 / (PI * s * (1 + (x - l) ^ 2 / s ^ 2)).
Definition cauchy_cdf1 (a : R * R * R) : R := let '(l, s, x) := a in atan ((x - l) / s) / PI + / 2.
Definition cauchy_args (loc scale x : list R) := let n := length x in zip3 (bc n loc) (bc n scale) x.
Definition cauchy_logpdf (loc scale x : list R) : R := rsum (map cauchy_term (cauchy_args loc scale x)).
Definition cauchy_cdf (fixed : bool) (loc scale x : list R) : R :=
  (if fixed then rprod else rsum) (map cauchy_cdf1 (cauchy_args loc scale x)).

(* ---------- Uniform(low, high) ---------- *)
Definition uniform_logpdf (fixed : bool) (dim : nat) (low high : list R) : R :=
  let diff := bcast2 Rminus high low in
  ln (1 / rprod (if fixed then bc dim diff else diff)).
Definition uniform_pdf1 (a : R * R) : R := let '(l, h) := a in 1 / (h - l).

(* ---------- Gamma / InverseGamma / Beta (formulas of scipy.stats the code delegates to);
   g, ga, gb, gab : values of lnGamma at shape, alpha, beta, alpha+beta ---------- *)
Definition gamma_term (a : R * R * R * R) : R := let '(g, sh, r, x) := a in sh * ln r + (sh - 1) * ln x - r * x - g.
Definition gamma_logpdf (g shape rate x : list R) : R :=
  let n := length x in rsum (map gamma_term (zip4 (bc n g) (bc n shape) (bc n rate) x)).
Definition invgamma_term (g : R) (a : R * R * R * R) : R :=
  let '(sh, l, sc, x) := a in sh * ln sc - (sh + 1) * ln (x - l) - sc / (x - l) - g.
(* g is passed per component in a parallel list *)
Definition invgamma_logpdf (g shape loc scale x : list R) : R :=
  let n := length x in
  rsum (map (fun p => invgamma_term (fst p) (snd p)) (combine (bc n g) (zip4 (bc n shape) (bc n loc) (bc n scale) x))).
Definition beta_term (gs : R * R * R) (a : R * R * R) : R :=
  let '(ga, gb, gab) := gs in let '(al, be, x) := a in
  (al - 1) * ln x + (be - 1) * ln (1 - x) - (ga + gb - gab).
Definition beta_logpdf (ga gb gab alpha beta x : list R) : R :=
  let n := length x in
  rsum (map (fun p => beta_term (fst p) (snd p)) (combine (zip3 (bc n ga) (bc n gb) (bc n gab)) (zip3 (bc n alpha) (bc n beta) x))).

(* Gamma function at k/2 (k >= 1): Gamma(1/2) = sqrt PI, Gamma(1) = 1, Gamma(z+1) = z Gamma(z) *)
Fixpoint gam_half (k : nat) : R :=
  match k with
  | O => 0
  | S O => sqrt PI
  | S (S O) => 1
  | S (S k') => (INR k' / 2) * gam_half k'
  end.

(* ---------- ModifiedHalfNormal(alpha, beta, gamma): the getters `beta` and `gamma` return _alpha ---------- *)
Definition mhn_doc_term (al be ga x : R) : R := (al - 1) * ln x - be * x * x + ga * x.
Definition mhn_getter_beta (al be ga : R) : R := al.      (* property beta  -> self._alpha *)
Definition mhn_getter_gamma (al be ga : R) : R := al.     (* property gamma -> self._alpha *)
Definition mhn_logpdf (al be ga : R) (x : list R) : R :=
  rsum (map (fun x => (al - 1) * ln x - mhn_getter_beta al be ga * x * x + mhn_getter_gamma al be ga * x) x).
Definition mhn_doc_logpdf (al be ga : R) (x : list R) : R := rsum (map (mhn_doc_term al be ga) x).

(* ---------- Gaussian: canonical internal form (sqrtprec, logdet, rank) ---------- *)
Definition gauss_logupdf (quad : R) : R := - / 2 * quad.                      (* _logupdf: quad = |sqrtprec (x-mean)|^2 *)
Definition gauss_canon (rank : nat) (logdet quad : R) : R :=
  - / 2 * (INR rank * ln (2 * PI) + logdet) + gauss_logupdf quad.

Inductive gform := FCov | FPrec | FSqrtcov | FSqrtprec.

(* scalar / vector / diagonal-matrix inputs: the diagonal entry of sqrtprec and the summand of logdet *)
Definition gd_sqrtprec (f : gform) (v : R) : R :=
  match f with FCov => sqrt (1 / v) | FPrec => sqrt v | FSqrtcov => 1 / v | FSqrtprec => v end.
Definition gd_logdet1 (f : gform) (v : R) : R :=
  match f with FCov => ln v | FPrec => - ln v | FSqrtcov => ln (v ^ 2) | FSqrtprec => - ln (v ^ 2) end.
Definition gd_quad (f : gform) (p mean x : list R) : R :=
  let n := length x in
  rsum (map (fun a => let '(s, m, x) := a in (gd_sqrtprec f s * (x - m)) ^ 2) (zip3 (bc n p) (bc n mean) x)).
(* scalar branch: logdet = dim * log(.) ; vector and diagonal-matrix branches: sum of logs *)
Definition gd_logdet (f : gform) (scalar : bool) (dim : nat) (p : list R) : R :=
  if scalar then INR dim * gd_logdet1 f (hd 0 p) else rsum (map (gd_logdet1 f) p).
Definition gauss_diag_logpdf (f : gform) (scalar : bool) (dim : nat) (p mean x : list R) : R :=
  gauss_canon dim (gd_logdet f scalar dim p) (gd_quad f p mean x).

(* sqrtprec stored in DIA format with off-diagonal bands: logdet summed over all stored band entries *)
Definition gauss_band_logdet (data : list R) : R := rsum (map (fun v => - ln (v ^ 2)) data).

(* Lognormal: pdf(x) = Gaussian.pdf(log x) * prod(1/x), logpdf = log(pdf); gl = Gaussian logpdf at log x *)
Definition lognormal_logpdf (gl : R) (x : list R) : R := ln (exp gl * rprod (map (fun x => 1 / x) x)).

(* ---------- exact linear algebra over Q (dense Gaussian forms, difference operators) ---------- *)
Local Open Scope Q_scope.
Definition Qlt_bool (a b : Q) : bool := negb (Qle_bool b a).
Definition qbc (n : nat) (p : list Q) : list Q := match p with [a] => repeat a n | _ => p end.
Fixpoint qdotq (a b : list Q) : Q :=
  match a, b with x :: a', y :: b' => Qred (x * y + qdotq a' b') | _, _ => 0 end.
Definition qmv (A : list (list Q)) (x : list Q) : list Q := map (fun r => qdotq r x) A.
Definition qtr (n : nat) (A : list (list Q)) : list (list Q) := map (fun j => map (fun r => nth j r 0) A) (seq 0 n).
Definition qmm (n : nat) (A B : list (list Q)) : list (list Q) := let Bt := qtr n B in map (fun r => map (qdotq r) Bt) A.
Definition qident (n : nat) : list (list Q) := map (fun i => map (fun j => if Nat.eqb i j then 1 else 0) (seq 0 n)) (seq 0 n).
Definition qvsub (a b : list Q) : list Q := map (fun p => Qred (fst p - snd p)) (combine a b).
Definition qsym (n : nat) (A : list (list Q)) : bool := qll_eqb A (qtr n A).

(* determinant by Gaussian elimination with row search (fuel = size) *)
Fixpoint pick_pivot (rows : list (list Q)) : option (bool * list Q * list (list Q)) :=
  match rows with
  | [] => None
  | r :: rest =>
      if Qeq_bool (hd 0 r) 0 then
        match pick_pivot rest with
        | Some (sw, p, others) => Some (negb sw, p, r :: others)
        | None => None
        end
      else Some (false, r, rest)
  end.
Fixpoint qdet_fuel (fuel : nat) (A : list (list Q)) : Q :=
  match fuel with
  | O => 1
  | S f =>
      match A with
      | [] => 1
      | _ => match pick_pivot A with
             | None => 0
             | Some (sw, prow, others) =>
                 let p := hd 0 prow in
                 let red := map (fun r => let c := hd 0 r / p in
                                          map (fun ab => Qred (fst ab - c * snd ab)) (combine (tl r) (tl prow))) others in
                 Qred ((if sw then - p else p) * qdet_fuel f red)
             end
      end
  end.
Definition qdet (A : list (list Q)) : Q := qdet_fuel (length A) A.

(* dense (full-matrix) Gaussian input M in form f, evaluation offset d = x - mean.
   y is a certificate for cov^{-1} d where the code inverts (cov, sqrtcov forms): it is CHECKED (cov y = d);
   dcov = determinant of the covariance the code's logdet is the log of, quad = |sqrtprec d|^2.
   sqrtcov=M : the code forms cov = M M^T (the docstring says M^T M);
   sqrtprec=M : quad = |M d|^2, logdet from det(M M^T) = det(M^T M). *)
Definition gauss_cov_of (f : gform) (n : nat) (M : list (list Q)) : list (list Q) :=
  match f with FSqrtcov | FSqrtprec => qmm n M (qtr n M) | _ => M end.
Definition gauss_dense_cert (f : gform) (n : nat) (M : list (list Q)) (y d : list Q) (dcov quad : Q) (rank_obs : nat) : bool :=
  Nat.eqb rank_obs n && Qlt_bool 0 dcov &&
  match f with
  | FCov => ql_eqb (qmv M y) d && Qeq_bool (qdet M) dcov && Qeq_bool (qdotq d y) quad
  | FPrec => Qeq_bool (qdet M * dcov) 1 && Qeq_bool (qdotq d (qmv M d)) quad
  | FSqrtcov => let S := qmm n M (qtr n M) in
                ql_eqb (qmv S y) d && Qeq_bool (qdet S) dcov && Qeq_bool (qdotq d y) quad
  | FSqrtprec => Qeq_bool (qdet (qmm n M (qtr n M)) * dcov) 1 && Qeq_bool (let z := qmv M d in qdotq z z) quad
  end.
(* the documented reading of sqrtcov=M is cov = M^T M: quadratic form certificate for that reading *)
Definition gauss_sqrtcov_doc_cert (n : nat) (M : list (list Q)) (y d : list Q) (dcov quad : Q) : bool :=
  let S := qmm n (qtr n M) M in ql_eqb (qmv S y) d && Qeq_bool (qdet S) dcov && Qeq_bool (qdotq d y) quad.
(* refusal of the cov / prec setters: dense non-symmetric input *)
Definition gauss_dense_refused (f : gform) (n : nat) (M : list (list Q)) : bool :=
  match f with FCov | FPrec => negb (qsym n M) | _ => false end.

(* the symmetry test of the cov / prec setters is numpy.allclose(M, M^T) with the default tolerances
   rtol = 1e-5, atol = 1e-8:  |a - b| <= atol + rtol |b|  entrywise.  The absolute part makes the refusal depend on
   the magnitude of the matrix (everything below ~1e-8 passes). *)
Definition np_close (a b : Q) : bool := Qle_bool (Qabs (a - b)) ((1 # 100000000) + (1 # 100000) * Qabs b).
Definition np_allclose_tr (n : nat) (M : list (list Q)) : bool := list_eqb (list_eqb np_close) M (qtr n M).
Definition gauss_sym_refused (f : gform) (n : nat) (M : list (list Q)) : bool :=
  match f with FCov | FPrec => negb (np_allclose_tr n M) | _ => false end.
(* the symmetric matrix LAPACK's lower-triangle routines (cholesky) see in a square matrix *)
Definition qlsym (A : list (list Q)) : list (list Q) :=
  map (fun ir => map (fun jv => if Nat.leb (fst jv) (fst ir) then snd jv else nth (fst ir) (nth (fst jv) A []) 0)
                     (combine (seq 0 (length (snd ir))) (snd ir)))
      (combine (seq 0 (length A)) A).
(* an ACCEPTED non-symmetric cov / prec (dense branch): logdet from the determinant of the matrix as given,
   sqrtprec = cholesky of (the lower triangle of) inv(cov) resp. prec.  C: certificate for the full inverse. *)
Definition gauss_nonsym_cert (f : gform) (n : nat) (M C : list (list Q)) (d : list Q) (dcov quad : Q) : bool :=
  Qlt_bool 0 dcov &&
  match f with
  | FCov => qll_eqb (qmm n M C) (qident n) && Qeq_bool (qdet M) dcov && Qeq_bool (qdotq d (qmv (qlsym C) d)) quad
  | FPrec => Qeq_bool (qdet M * dcov) 1 && Qeq_bool (qdotq d (qmv (qlsym M) d)) quad
  | _ => false
  end.
(* dense full matrices of dim <= MIN_DIM_SPARSE: the code takes log(numpy.linalg.det(.)); the determinant is a binary64
   number, so outside the float range it is 0 or inf and the "logdet" is -inf / +inf although ln(det) is an ordinary
   number (n ln(scale) + ...).  In terms of the determinant dcov of the covariance:  tiny -> logpdf = +inf, huge -> -inf.
   (2^-1080 / 2^1030: safely outside the range; the generator keeps away from the boundary zone.) *)
Definition det_underflow (dcov : Q) : bool := Qlt_bool dcov (1 # (2 ^ 1080)).
Definition det_overflow (dcov : Q) : bool := Qlt_bool (Zpos (2 ^ 1030) # 1) dcov.
Definition qscale (c : Q) (M : list (list Q)) : list (list Q) := map (map (fun v => Qred (c * v))) M.

(* what happens to an input of a given storage kind (cholmod is not installed):
   value, refusal by the setter, refusal by logpdf (logdet = None), or -- sqrtprec stored in scipy's DIA format with
   off-diagonal bands -- a "logdet" summed over ALL stored band entries (padding included) *)
Inductive gkind := KScalar | KVector | KDenseDiag | KDenseFull | KSpDiag | KSpFull | KSpDiaBands.
Inductive gout := OutValue | OutRefusedInit | OutRefusedLogpdf | OutBandLogdet.
Definition gauss_outcome (dia_fixed : bool) (f : gform) (k : gkind) (sym : bool) : gout :=
  match k with
  | KDenseFull => match f with FCov | FPrec => if sym then OutValue else OutRefusedInit | _ => OutValue end
  | KSpFull => OutRefusedLogpdf
  | KSpDiaBands => match f with FSqrtprec => if dia_fixed then OutRefusedLogpdf else OutBandLogdet | _ => OutRefusedLogpdf end
  | _ => OutValue
  end.
Definition gout_eqb (a b : gout) : bool :=
  match a, b with OutValue, OutValue | OutRefusedInit, OutRefusedInit | OutRefusedLogpdf, OutRefusedLogpdf
                | OutBandLogdet, OutBandLogdet => true | _, _ => false end.
(* the band "logdet": some stored entry is 0 (scipy pads the bands) -> +inf, i.e. logpdf = -inf *)
Definition band_has_zero (data : list Q) : bool := existsb (fun v => Qeq_bool v 0) data.
(* the diagonal branch is taken when all off-diagonal entries vanish *)
Definition q_is_diag (M : list (list Q)) : bool :=
  forallb (fun ir => forallb (fun jv => Nat.eqb (fst ir) (fst jv) || Qeq_bool (snd jv) 0)
                             (combine (seq 0 (length (snd ir))) (snd ir)))
          (combine (seq 0 (length M)) M).

(* ---------- finite-difference operators used by the Markov random fields (entries over Z) ---------- *)
Local Open Scope Z_scope.
Inductive bc_t := BZero | BPeriodic | BNeumann | BBackward | BNone.

(* a matrix given by its shape, a base entry function and a list of later single-entry assignments
   (i, j, v), applied in order as in the code (`Dmat[-1, 0] = 1` ...) *)
Definition build (rows cols : nat) (base : Z -> Z -> Z) (patches : list (Z * Z * Z)) : list (list Z) :=
  map (fun i => map (fun j =>
        fold_left (fun acc p => let '(pi, pj, v) := p in if (pi =? Z.of_nat i) && (pj =? Z.of_nat j) then v else acc)
                  patches (base (Z.of_nat i) (Z.of_nat j)))
      (seq 0 cols)) (seq 0 rows).

Definition D1mat (b : bc_t) (n : nat) : list (list Z) :=
  let N := Z.of_nat n in
  match b with
  | BZero => build (S n) n (fun i j => if i =? j then 1 else if i =? j + 1 then -1 else 0) []
  | BPeriodic => build (S n) n (fun i j => if i =? j then 1 else if i =? j + 1 then -1 else 0)
                       [(N, 0, 1); (0, N - 1, -1)]
  | BNeumann => build (pred n) n (fun i j => if i =? j then -1 else if i + 1 =? j then 1 else 0) []
  | BBackward => build n n (fun i j => if i =? j then -1 else if i =? j + 1 then 1 else 0) [(0, 0, 1)]
  | BNone => build n n (fun i j => if i =? j then 1 else 0) []
  end.

Definition D2mat (b : bc_t) (n : nat) : option (list (list Z)) :=
  let N := Z.of_nat n in
  let base := fun i j => if i =? j then -1 else if i =? j + 1 then 2 else if i =? j + 2 then -1 else 0 in
  match b with
  | BZero => Some (build (S (S n)) n base [])
  | BPeriodic => Some (build (S (S n)) n base
                        [(0, N - 2, -1); (0, N - 1, 2); (1, N - 1, -1); (N, 0, -1); (N + 1, 0, 2); (N + 1, 1, -1)])
  | BNeumann => Some (build (pred (pred n)) n
                        (fun i j => if i =? j then -1 else if i + 1 =? j then 2 else if i + 2 =? j then -1 else 0) [])
  | _ => None
  end.

Definition zkron (A B : list (list Z)) : list (list Z) :=
  flat_map (fun ra => map (fun rb => flat_map (fun a => map (Z.mul a) rb) ra) B) A.
Definition zident (n : nat) : list (list Z) := map (fun i => map (fun j => if Nat.eqb i j then 1 else 0) (seq 0 n)) (seq 0 n).
(* 2-d grid N x N (C order): vstack [kron(I, D); kron(D, I)] *)
Definition lift2d (N : nat) (D : list (list Z)) : list (list Z) := zkron (zident N) D ++ zkron D (zident N).

(* the difference operator of order `order` (0 = identity, as PrecisionFiniteDifference builds it);
   twod: the geometry is an N x N image and n = N *)
Definition diff_op (order : nat) (b : bc_t) (twod : bool) (n : nat) : option (list (list Z)) :=
  let D := match order with
           | O => Some (D1mat BNone n)
           | S O => Some (D1mat b n)
           | S (S O) => D2mat b n
           | _ => None
           end in
  match D with Some D => Some (if twod then lift2d n D else D) | None => None end.

Definition zq_mv (D : list (list Z)) (x : list Q) : list Q := map (fun r => qdotq (map inject_Z r) x) D.
Definition ztr (n : nat) (A : list (list Z)) : list (list Z) := map (fun j => map (fun r => nth j r 0) A) (seq 0 n).
(* P = D^T D as a rational matrix; dim = number of columns of D *)
Definition prec_of (dim : nat) (D : list (list Z)) : list (list Q) :=
  let Dq := map (map inject_Z) D in qmm dim (qtr dim Dq) Dq.

(* remove row i and column i *)
Definition drop_nth {A} (i : nat) (l : list A) : list A := firstn i l ++ skipn (S i) l.
Definition minor_ii (i : nat) (A : list (list Q)) : list (list Q) := map (drop_nth i) (drop_nth i A).
(* pseudo-determinant of a symmetric PSD matrix of co-rank 1: sum of the principal (dim-1)-minors *)
Definition pdet1 (A : list (list Q)) : Q := fold_right Qplus 0%Q (map (fun i => qdet (minor_ii i A)) (seq 0 (length A))).

(* GMRF: rank as coded, and the number whose log is `_logdet` (only where that number is a
   rational: zero b.c. -> det P; co-rank-1 cases where the coded rank is right -> product of the
   non-zero eigenvalues; order 0 with periodic/neumann -> product of dim-1 eigenvalues of I) *)
Definition gmrf_rank_code (b : bc_t) (dim : nat) : nat := match b with BZero => dim | _ => pred dim end.
Definition gmrf_true_rank (order : nat) (b : bc_t) (twod : bool) (dim : nat) : nat :=
  match order, b with
  | O, _ => dim
  | _, BZero => dim
  | S O, _ => pred dim
  | _, BPeriodic => pred dim
  | _, _ => if twod then dim - 4 else dim - 2     (* order 2, neumann: affine functions (2-d: bilinear) are annihilated *)
  end.
Definition qpow (a : Q) (k : nat) : Q := fold_right Qmult 1%Q (repeat a k).
Definition gmrf_detarg (order : nat) (b : bc_t) (P : list (list Q)) : option Q :=
  match b, order with
  | BZero, _ => Some (qdet P)
  | _, O => Some (qpow (nth 0 (nth 0 P []) 0%Q) (pred (length P)))     (* P = c I: the dim-1 "largest" eigenvalues *)
  | _, S O => Some (pdet1 P)
  | BPeriodic, _ => Some (pdet1 P)
  | _, _ => None
  end.

(* certificate check of one MRF evaluation: dd = D (x - location) and (GMRF) rank / determinant *)
Definition mrf_cert (order : nat) (b : bc_t) (twod : bool) (n : nat) (loc x dd : list Q) : bool :=
  match diff_op order b twod n with
  | Some D => ql_eqb (zq_mv D (qvsub x (qbc (length x) loc))) dd
  | None => false
  end.
Definition gmrf_cert (order : nat) (b : bc_t) (twod : bool) (n : nat) (loc x dd : list Q)
                     (rank_obs : nat) (detarg : Q) : bool :=
  let dim := length x in
  mrf_cert order b twod n loc x dd && Nat.eqb (gmrf_rank_code b dim) rank_obs &&
  match diff_op order b twod n with
  | Some D => match gmrf_detarg order b (prec_of dim D) with Some v => Qeq_bool v detarg | None => false end
  | None => false
  end.

(* standardised evaluation points of Normal.cdf over Q: z_i = (x_i - mean_i) / std_i with numpy broadcasting *)
Definition normal_zq (mean std x : list Q) : list Q :=
  let n := length x in
  map (fun p => Qred ((snd p - fst (fst p)) / snd (fst p))) (combine (combine (qbc n mean) (qbc n std)) x).

(* ---------- characteristic polynomial (Faddeev-LeVerrier) and pseudo-determinants ---------- *)
Local Open Scope Q_scope.
Definition qmadd (A B : list (list Q)) : list (list Q) :=
  map (fun p => map (fun q => Qred (fst q + snd q)) (combine (fst p) (snd p))) (combine A B).
Definition qtrace (A : list (list Q)) : Q :=
  fold_right Qplus 0 (map (fun i => nth i (nth i A []) 0) (seq 0 (length A))).
Definition qzero (n : nat) : list (list Q) := map (fun _ => repeat 0 n) (seq 0 n).
(* coefficients c_(n-1), ..., c_0 of det(lambda I - A) = lambda^n + c_(n-1) lambda^(n-1) + ... + c_0 *)
Fixpoint fl_loop (fuel k n : nat) (A Mprev : list (list Q)) (cprev : Q) : list Q :=
  match fuel with
  | O => []
  | S f => let Mk := qmadd (qmm n A Mprev) (qscale cprev (qident n)) in
           let ck := Qred (- qtrace (qmm n A Mk) / inject_Z (Z.of_nat k)) in
           ck :: fl_loop f (S k) n A Mk ck
  end.
Definition charpoly (A : list (list Q)) : list Q := let n := length A in fl_loop n 1 n A (qzero n) 1.
(* product of the non-zero eigenvalues of a symmetric PSD matrix with a k-dimensional null space: (-1)^(n-k) c_k *)
Definition qpdet (k : nat) (A : list (list Q)) : Q :=
  let n := length A in
  let c := nth (n - 1 - k) (charpoly A) 0 in
  if Nat.even (n - k) then c else - c.

(* GMRF after fixes/C20_gmrf_rank_rule.diff: rank = dim - nullity, logdet = ln of the pseudo-determinant *)
Definition gmrf_nullity (order : nat) (b : bc_t) (twod : bool) : nat :=
  match b, order with
  | BZero, _ => 0
  | _, O => 0
  | BNeumann, S (S O) => if twod then 4 else 2
  | _, _ => 1
  end%nat.
Definition gmrf_rank_v (fixed : bool) (order : nat) (b : bc_t) (twod : bool) (dim : nat) : nat :=
  if fixed then (dim - gmrf_nullity order b twod)%nat else gmrf_rank_code b dim.
Definition gmrf_detarg_v (fixed : bool) (order : nat) (b : bc_t) (twod : bool) (P : list (list Q)) : option Q :=
  if fixed then match b with BZero => Some (qdet P) | _ => Some (qpdet (gmrf_nullity order b twod) P) end
  else gmrf_detarg order b P.
Definition gmrf_cert_v (fixed : bool) (order : nat) (b : bc_t) (twod : bool) (n : nat) (loc x dd : list Q)
                       (rank_obs : nat) (detarg : Q) : bool :=
  let dim := length x in
  mrf_cert order b twod n loc x dd && Nat.eqb (gmrf_rank_v fixed order b twod dim) rank_obs &&
  match diff_op order b twod n with
  | Some D => match gmrf_detarg_v fixed order b twod (prec_of dim D) with Some v => Qeq_bool v detarg | None => false end
  | None => false
  end.

(* GMRF with dim > cuqi.config.MAX_DIM_INV and periodic / neumann boundary conditions: "approximate" log-determinant
   2 sum ln diag chol(P + delta I) = ln det(P + delta I) with delta = sqrt(machine eps) = 2^-26 -- it contains ln delta once per
   null direction of P.  After fixes/C04_gmrf_large_logdet.diff that contribution is removed (fixed = true). *)
Definition gmrf_delta : Q := 1 # (2 ^ 26).
Definition gmrf_large_detarg (fixed : bool) (nullity : nat) (P : list (list Q)) : Q :=
  let d := qdet (qmadd P (qscale gmrf_delta (qident (length P)))) in
  if fixed then d / qpow gmrf_delta nullity else d.
Definition gmrf_large_cert (fixed : bool) (order : nat) (b : bc_t) (twod : bool) (n : nat) (loc x dd : list Q)
                           (rank_obs : nat) (detarg : Q) : bool :=
  let dim := length x in
  mrf_cert order b twod n loc x dd && Nat.eqb (dim - gmrf_nullity order b twod) rank_obs &&
  match diff_op order b twod n with
  | Some D => Qeq_bool (gmrf_large_detarg fixed (gmrf_nullity order b twod) (prec_of dim D)) detarg
  | None => false
  end.

(* ---------- Gaussian.compute_cov: the covariance matrix of the distribution the logpdf denotes ---------- *)
(* S is (certified to be) that covariance: cov = M;  prec = M: M S = I;  sqrtcov = M: S = M M^T (the code's reading);
   sqrtprec = M: (M^T M) S = I  (the precision of the quadratic form |M d|^2) *)
Definition gauss_cov_cert (f : gform) (n : nat) (M S : list (list Q)) : bool :=
  match f with
  | FCov => qll_eqb S M
  | FPrec => qll_eqb (qmm n M S) (qident n)
  | FSqrtcov => qll_eqb S (qmm n M (qtr n M))
  | FSqrtprec => qll_eqb (qmm n (qmm n (qtr n M) M) S) (qident n)
  end.
Definition qmax (a b : Q) : Q := if Qle_bool a b then b else a.
Definition qmaxabs (A : list (list Q)) : Q := fold_right (fun r acc => fold_right (fun v a => qmax (Qabs v) a) acc r) 0 A.
(* entrywise |a - b| <= tol * max|B| *)
Definition qmat_close (tol : Q) (A B : list (list Q)) : bool :=
  let s := qmaxabs B in list_eqb (list_eqb (fun a b => Qle_bool (Qabs (a - b)) (tol * s))) A B.

(* ---------- symmetric positive SEMI-definite input on the sparse side of the switch (eigh branch): Sg = B B^T with B n x r
   of full column rank (certificate), G = (B^T B)^-1 (certificate): rank r, pseudo-determinant det(B^T B),
   pseudo-inverse B G G B^T, so d^T Sg^+ d = |G B^T d|^2 ---------- *)
Definition gauss_psd_cert (n r : nat) (Sg B G : list (list Q)) (d : list Q) (pdet quad : Q) (rank_obs : nat) : bool :=
  let Bt := qtr r B in
  let BtB := qmm r Bt B in
  Nat.eqb rank_obs r && qll_eqb (qmm n B Bt) Sg && qll_eqb (qmm r BtB G) (qident r) &&
  Qeq_bool (qdet BtB) pdet && Qlt_bool 0 pdet &&
  Qeq_bool (let z := qmv G (qmv Bt d) in qdotq z z) quad.
(* what a SINGULAR (rank-deficient) full matrix meets: on the sparse side of the switch the eigenvalue route gives the degenerate
   Gaussian (value); on the dense side inv / cholesky refuse it, except sqrtprec, whose logdet = -ln det(M M^T) = +inf *)
Definition gauss_singular_outcome (sparse_side : bool) (f : gform) : gout :=
  if sparse_side then OutValue else match f with FSqrtprec => OutValue | _ => OutRefusedInit end.
(* improper "precision" P = B B^T (prec / sqrtprec forms): quadratic form d^T P d = |B^T d|^2 *)
Definition gauss_psd_prec_cert (n r : nat) (P B : list (list Q)) (d : list Q) (pdet quad : Q) (rank_obs : nat) : bool :=
  let Bt := qtr r B in
  Nat.eqb rank_obs r && qll_eqb (qmm n B Bt) P && Qeq_bool (qdet (qmm r Bt B)) pdet && Qlt_bool 0 pdet &&
  Qeq_bool (let z := qmv Bt d in qdotq z z) quad.

Local Open Scope R_scope.
(* values, given the differences dd = D (x - location) *)
Definition gmrf_logpdf (rank : nat) (prec detarg : R) (dd : list R) : R :=
  / 2 * (INR rank * (ln prec - ln (2 * PI)) + ln detarg) - / 2 * (prec * rsum (map (fun t => t * t) dd)).
Definition lmrf_logpdf (scale : R) (dd : list R) : R :=
  INR (length dd) * (- (ln 2 + ln scale)) - rsum (map Rabs dd) / scale.
Definition lmrf_pdf (scale : R) (dd : list R) : R :=
  (1 / (2 * scale)) ^ (length dd) * exp (- rsum (map Rabs dd) / scale).
Definition cmrf_logpdf (scale : R) (dd : list R) : R :=
  - INR (length dd) * ln PI + rsum (map (fun t => ln scale - ln (t ^ 2 + scale ^ 2)) dd).

(* ---------- support / refusal decisions (over Q: the inputs are floats, i.e. exact rationals) ---------- *)
Definition uniform_outside (low high x : list Q) : bool :=
  let n := length x in
  existsb (fun p => Qlt_bool (snd p) (fst p)) (combine (qbc n low) x) ||
  existsb (fun p => Qlt_bool (fst p) (snd p)) (combine (qbc n high) x).
Definition beta_outside (alpha beta x : list Q) : bool :=
  existsb (fun v => Qle_bool v 0) x || existsb (fun v => Qle_bool 1 v) x ||
  existsb (fun v => Qle_bool v 0) alpha || existsb (fun v => Qle_bool v 0) beta.
Definition cauchy_outside (scale : list Q) : bool := existsb (fun v => Qle_bool v 0) scale.
Definition gamma_outside (x : list Q) : bool := existsb (fun v => Qlt_bool v 0) x.
Definition invgamma_outside (loc x : list Q) : bool :=
  existsb (fun p => Qle_bool (snd p) (fst p)) (combine (qbc (length x) loc) x).
Definition lognormal_outside (x : list Q) : bool := existsb (fun v => Qle_bool v 0) x.

(* ---------- checks used by the generated case files ---------- *)
Definition check_dec (model observed : bool) : bool := Bool.eqb model observed.

