(* C01 -- proofs about the conditioning algebra of Model/C01_Cond.v.
   Everything is for an arbitrary value type and an arbitrary commutative monoid of log-densities
   (laws with Leibniz equality: Z, Qc, R, ... are instances), every number of factors, every
   dependency structure, every list of conditioning steps. *)
From CV Require Import Base.Tac Base.Cmp Model.C01_Cond.
From Coq Require Import Permutation.

Record MonLaws (M : Mon) : Prop := mkLaws {
  madd_assoc : forall a b c, madd M a (madd M b c) = madd M (madd M a b) c;
  madd_comm : forall a b, madd M a b = madd M b a;
  madd_0_l : forall a, madd M (mzero M) a = a }.

Lemma ZM_laws : MonLaws ZM.
Proof. constructor; intros; cbn; lia. Qed.

(* ---------------- membership ---------------- *)
Lemma mem_In v l : mem v l = true <-> In v l.
Proof.
  unfold mem. rewrite existsb_exists. split.
  - intros [x [Hx E]]. apply Nat.eqb_eq in E. now subst.
  - intros H. exists v. split; [assumption | apply Nat.eqb_refl].
Qed.

Lemma mem_false v l : mem v l = false <-> ~ In v l.
Proof. rewrite <- mem_In. destruct (mem v l); split; intros; congruence. Qed.

Lemma nodupb_NoDup l : nodupb l = true <-> NoDup l.
Proof.
  induction l as [|x r IH]; cbn.
  - split; intros; [constructor | reflexivity].
  - rewrite andb_true_iff, negb_true_iff, mem_false, IH. split.
    + intros [A B]. now constructor.
    + intros H. inversion H. tauto.
Qed.

Lemma filter_filter {A} (p q : A -> bool) l : filter p (filter q l) = filter (fun x => q x && p x) l.
Proof.
  induction l as [|a l IH]; cbn; [reflexivity|].
  destruct (q a); cbn; [destruct (p a); cbn; now rewrite IH | assumption].
Qed.

Lemma filter_nil_iff {A} (p : A -> bool) l : filter p l = [] <-> forall x, In x l -> p x = false.
Proof.
  induction l as [|a l IH]; cbn.
  - split; [intros _ x [] | reflexivity].
  - destruct (p a) eqn:E.
    + split; [discriminate | intros H; specialize (H a (or_introl eq_refl)); congruence].
    + rewrite IH. split.
      * intros H x [->|Hx]; [assumption | now apply H].
      * intros H x Hx. apply H. now right.
Qed.

Lemma filter_all {A} (p : A -> bool) l : (forall x, In x l -> p x = true) -> filter p l = l.
Proof.
  induction l as [|a l IH]; cbn; intros H; [reflexivity|].
  rewrite (H a (or_introl eq_refl)). f_equal. apply IH. intros x Hx. apply H. now right.
Qed.

Lemma set_eqb_single a : set_eqb [a] [a] = true.
Proof. unfold set_eqb, mem. cbn. now rewrite Nat.eqb_refl. Qed.

Section Proofs.
Variable val : Type.
Variable M : Mon.
Hypothesis ML : MonLaws M.
Notation V := (car M).
Notation vadd := (madd M).
Notation v0 := (mzero M).
Notation asg := (list (var * val)).
Notation dist := (dist val M).
Notation dens := (dens val M).
Notation obj := (obj val M).

Lemma vadd_0_r a : vadd a v0 = a.
Proof. rewrite (madd_comm _ ML). apply (madd_0_l _ ML). Qed.

(* ---------------- assignments ---------------- *)
Lemma amem_In v (a : asg) : amem v a = true <-> In v (dom a).
Proof. apply mem_In. Qed.

Lemma amem_false v (a : asg) : amem v a = false <-> ~ In v (dom a).
Proof. apply mem_false. Qed.

Lemma dom_app (a b : asg) : dom (a ++ b) = dom a ++ dom b.
Proof. unfold dom. apply map_app. Qed.

Lemma amem_app v (a b : asg) : amem v (a ++ b) = amem v a || amem v b.
Proof. unfold amem, mem. rewrite dom_app. apply existsb_app. Qed.

Lemma lookup_app v (a b : asg) :
  lookup v (a ++ b) = match lookup v a with Some x => Some x | None => lookup v b end.
Proof.
  induction a as [|[k x] a IH]; cbn; [reflexivity|]. destruct (Nat.eqb v k); [reflexivity | apply IH].
Qed.

Lemma lookup_None v (a : asg) : lookup v a = None <-> ~ In v (dom a).
Proof.
  induction a as [|[k x] a IH]; cbn.
  - tauto.
  - destruct (Nat.eqb v k) eqn:E.
    + apply Nat.eqb_eq in E. subst. split; [discriminate | intros H; exfalso; apply H; now left].
    + apply Nat.eqb_neq in E. rewrite IH. split; [intros H [A|A]; [congruence | tauto] | tauto].
Qed.

Lemma lookup_Some_In v (a : asg) x : lookup v a = Some x -> In v (dom a).
Proof.
  intros H. destruct (in_dec Nat.eq_dec v (dom a)) as [I|N]; [assumption|].
  apply lookup_None in N. congruence.
Qed.

Lemma In_lookup v (a : asg) : In v (dom a) -> exists x, lookup v a = Some x.
Proof.
  intros H. destruct (lookup v a) eqn:E; [eauto|]. apply lookup_None in E. contradiction.
Qed.

Lemma amem_lookup v (a : asg) : amem v a = match lookup v a with Some _ => true | None => false end.
Proof.
  destruct (lookup v a) eqn:E.
  - apply amem_In. eapply lookup_Some_In; eauto.
  - apply amem_false. now apply lookup_None.
Qed.

Lemma dom_restrict (a : asg) ps : dom (restrict a ps) = filter (fun k => mem k ps) (dom a).
Proof.
  unfold dom, restrict. induction a as [|[k x] a IH]; cbn; [reflexivity|]. destruct (mem k ps); cbn; now rewrite IH.
Qed.

Lemma lookup_restrict v (a : asg) ps : mem v ps = true -> lookup v (restrict a ps) = lookup v a.
Proof.
  intros H. induction a as [|[k x] a IH]; cbn; [reflexivity|].
  destruct (Nat.eqb v k) eqn:E.
  - apply Nat.eqb_eq in E. subst k. rewrite H. cbn. now rewrite Nat.eqb_refl.
  - destruct (mem k ps); cbn; [rewrite E|]; apply IH.
Qed.

Lemma amem_restrict v (a : asg) ps : amem v (restrict a ps) = amem v a && mem v ps.
Proof.
  destruct (mem v ps) eqn:E.
  - rewrite !amem_lookup, lookup_restrict by assumption. now rewrite andb_true_r.
  - rewrite andb_false_r. apply amem_false. intros H. rewrite dom_restrict in H. apply filter_In in H as [_ H]. congruence.
Qed.

Lemma lookup_all_ext vs (a b : asg) :
  (forall v, In v vs -> lookup v a = lookup v b) -> lookup_all vs a = lookup_all vs b.
Proof.
  induction vs as [|v vs IH]; cbn; intros H; [reflexivity|].
  rewrite (H v (or_introl eq_refl)), IH; [reflexivity|]. intros w Hw. apply H. now right.
Qed.

Lemma lookup_all_Some vs (a : asg) : (forall v, In v vs -> In v (dom a)) -> exists xs, lookup_all vs a = Some xs.
Proof.
  induction vs as [|v vs IH]; cbn; intros H; [eauto|].
  destruct (In_lookup v a (H v (or_introl eq_refl))) as [x ->].
  destruct IH as [xs ->]; [intros w Hw; apply H; now right | eauto].
Qed.

(* ---------------- exact key sets ---------------- *)
Definition complete (a : asg) (ps : list var) : Prop :=
  NoDup (dom a) /\ forall v, In v (dom a) <-> In v ps.

Lemma dom_length (a : asg) : length (dom a) = length a.
Proof. apply map_length. Qed.

Lemma keys_ok_iff (a : asg) ps : NoDup ps -> (keys_ok a ps = true <-> complete a ps).
Proof.
  intros ND. unfold keys_ok, complete. rewrite andb_true_iff, Nat.eqb_eq, forallb_forall. split.
  - intros [HL HA].
    assert (I : incl ps (dom a)) by (intros v Hv; apply amem_In, HA, Hv).
    assert (LE : length (dom a) <= length ps) by (rewrite dom_length; lia).
    split.
    + eapply NoDup_incl_NoDup; eauto.
    + intros v; split; [|apply I]. apply (NoDup_length_incl ND LE I).
  - intros [NDa HI]. split.
    + rewrite <- dom_length. apply Nat.le_antisymm.
      * apply NoDup_incl_length; [assumption | intros v; apply HI].
      * apply NoDup_incl_length; [assumption | intros v; apply HI].
    + intros v Hv. apply amem_In, HI, Hv.
Qed.

Lemma complete_restrict (a : asg) ps qs :
  complete a ps -> incl qs ps -> complete (restrict a qs) qs.
Proof.
  intros [ND HI] Hq. split.
  - rewrite dom_restrict. now apply NoDup_filter.
  - intros v. rewrite dom_restrict, filter_In, mem_In, HI. split; [tauto | intros H; split; [now apply Hq | assumption]].
Qed.

Lemma NoDup_app_iff {T} (l1 l2 : list T) :
  NoDup (l1 ++ l2) <-> NoDup l1 /\ NoDup l2 /\ (forall x, In x l1 -> ~ In x l2).
Proof.
  induction l1 as [|a l1 IH]; cbn.
  - split; [intros H; repeat split; [constructor | assumption | tauto] | tauto].
  - split.
    + intros H. inversion H as [|? ? N ND]; subst. apply IH in ND as [A [B C]].
      repeat split; [constructor; [intros I; apply N, in_or_app; now left | assumption] | assumption |].
      intros x [->|Hx]; [intros I; apply N, in_or_app; now right | now apply C].
    + intros [A [B C]]. inversion A as [|? ? N ND]; subst. constructor.
      * intros I. apply in_app_or in I as [I|I]; [contradiction | apply (C a); [now left | assumption]].
      * apply IH. repeat split; [assumption | assumption | intros x Hx; apply C; now right].
Qed.

(* fixing kw (over current parameters) and then giving rest is complete iff kw ++ rest is complete *)
Lemma complete_step (kw rest : asg) ps :
  NoDup (dom kw) -> incl (dom kw) ps -> (forall v, In v (dom kw) -> ~ In v (dom rest)) ->
  (complete (kw ++ rest) ps <-> complete rest (filter (fun v => negb (amem v kw)) ps)).
Proof.
  intros NDk Hk Hd. unfold complete. rewrite dom_app, NoDup_app_iff. split.
  - intros [[_ [NDr _]] HI]. split; [assumption|]. intros v. rewrite filter_In, negb_true_iff, amem_false.
    split.
    + intros Hv. split; [apply HI, in_or_app; now right | intros I; exact (Hd v I Hv)].
    + intros [Hv N]. apply HI in Hv. apply in_app_or in Hv as [I|I]; [contradiction | assumption].
  - intros [NDr HI]. split; [repeat split; assumption|]. intros v. split.
    + intros Hv. apply in_app_or in Hv as [I|I]; [now apply Hk|]. apply HI, filter_In in I. tauto.
    + intros Hv. apply in_or_app. destruct (in_dec Nat.eq_dec v (dom kw)) as [I|N]; [now left | right].
      apply HI, filter_In. split; [assumption|]. now apply negb_true_iff, amem_false.
Qed.

Lemma keys_ok_step (kw rest : asg) ps :
  NoDup ps -> NoDup (dom kw) -> incl (dom kw) ps -> (forall v, In v (dom kw) -> ~ In v (dom rest)) ->
  keys_ok (kw ++ rest) ps = keys_ok rest (filter (fun v => negb (amem v kw)) ps).
Proof.
  intros ND NDk Hk Hd.
  pose proof (keys_ok_iff (kw ++ rest) ps ND) as A.
  pose proof (keys_ok_iff rest _ (NoDup_filter (fun v => negb (amem v kw)) ND)) as B.
  pose proof (complete_step kw rest ps NDk Hk Hd) as C.
  destruct (keys_ok (kw ++ rest) ps), (keys_ok rest (filter (fun v => negb (amem v kw)) ps)); try reflexivity.
  - assert (true = true) as T by reflexivity. apply A, C, B in T. congruence.
  - assert (true = true) as T by reflexivity. apply B, C, A in T. congruence.
Qed.

(* ---------------- sums in a commutative monoid, and their lift to results that may be errors ---------------- *)
Lemma oadd_assoc (a b c : option V) : oadd a (oadd b c) = oadd (oadd a b) c.
Proof. destruct a, b, c; cbn; try reflexivity. now rewrite (madd_assoc _ ML). Qed.
Lemma oadd_comm (a b : option V) : oadd a b = oadd b a.
Proof. destruct a, b; cbn; try reflexivity. now rewrite (madd_comm _ ML). Qed.
Lemma oadd_0_l (a : option V) : oadd (Some v0) a = a.
Proof. destruct a; cbn; [now rewrite (madd_0_l _ ML) | reflexivity]. Qed.
Lemma oadd_0_r (a : option V) : oadd a (Some v0) = a.
Proof. rewrite oadd_comm. apply oadd_0_l. Qed.

Definition osumR (l : list (option V)) : option V := fold_right oadd (Some v0) l.

Lemma fold_left_oadd l a : fold_left oadd l a = oadd a (osumR l).
Proof.
  revert a. induction l as [|x l IH]; intros a; cbn; [now rewrite oadd_0_r|].
  rewrite IH. now rewrite oadd_assoc.
Qed.

Lemma osum_osumR l : osum l = osumR l.
Proof. unfold osum. rewrite fold_left_oadd. apply oadd_0_l. Qed.

Definition evalsR (J : list dens) : V :=
  fold_right (fun f acc => match f with E _ v => vadd v acc | _ => acc end) v0 J.

Lemma evsum_fold (J : list dens) a :
  fold_left (fun acc f => match f with E _ v => vadd acc v | _ => acc end) J a = vadd a (evalsR J).
Proof.
  revert a. induction J as [|f J IH]; intros a; cbn; [now rewrite vadd_0_r|].
  destruct f; rewrite IH; try reflexivity. now rewrite (madd_assoc _ ML).
Qed.

Lemma evsum_evalsR J : evsum J = evalsR J.
Proof. unfold evsum. rewrite evsum_fold. apply (madd_0_l _ ML). Qed.

Lemma osumR_cons x l : osumR (x :: l) = oadd x (osumR l).
Proof. reflexivity. Qed.
Lemma evalsR_cons f J :
  evalsR (f :: J) = match f with E _ v => vadd v (evalsR J) | _ => evalsR J end.
Proof. destruct f; reflexivity. Qed.

(* the sum over all factors, regrouped as  likelihoods + distributions + evaluated constants *)
Lemma jsum_split (g : dens -> option V) (J : list dens) :
  (forall n v, g (E n v) = Some v) ->
  osumR (map g J) = oadd (oadd (osumR (map g (filter isL J))) (osumR (map g (filter isD J)))) (Some (evalsR J)).
Proof.
  intros HE. induction J as [|f J IH].
  - cbn. now rewrite !(madd_0_l _ ML).
  - destruct f as [d|d x|n ev]; cbn [map filter isL isD]; rewrite ?osumR_cons, evalsR_cons, IH.
    + set (a := g (D d)). set (l := osumR (map g (filter isL J))). set (dd := osumR (map g (filter isD J))).
      rewrite (oadd_assoc a), (oadd_assoc a l dd), (oadd_comm a l), <- (oadd_assoc l a dd). reflexivity.
    + now rewrite !oadd_assoc.
    + rewrite HE. set (ld := oadd (osumR _) _).
      change (Some (vadd ev (evalsR J))) with (oadd (Some ev) (Some (evalsR J))).
      rewrite oadd_assoc, (oadd_comm (Some ev) ld), <- oadd_assoc. reflexivity.
Qed.

(* ---------------- distributions ---------------- *)
Lemma dfree_In (d : dist) v : In v (dfree d) <-> In v (dvars d) /\ ~ In v (dom (dbound d)).
Proof. unfold dfree. rewrite filter_In, negb_true_iff, amem_false. tauto. Qed.

Lemma dist_eval_ext (d : dist) e1 e2 x :
  (forall v, In v (dfree d) -> lookup v e1 = lookup v e2) -> dist_eval d e1 x = dist_eval d e2 x.
Proof.
  intros H. unfold dist_eval.
  rewrite (lookup_all_ext (dvars d) (dbound d ++ e1) (dbound d ++ e2)); [reflexivity|].
  intros v Hv. rewrite !lookup_app. destruct (lookup v (dbound d)) eqn:E; [reflexivity|].
  apply H, dfree_In. split; [assumption | now apply lookup_None].
Qed.

Lemma dist_eval_bind (d : dist) kw env x :
  dist_eval (dist_bind d kw) env x = dist_eval d (restrict kw (dfree d) ++ env) x.
Proof. unfold dist_eval, dist_bind; cbn [dvars dbound dconst df]. now rewrite <- app_assoc. Qed.

Lemma dfree_bind (d : dist) kw : dfree (dist_bind d kw) = filter (fun v => negb (amem v kw)) (dfree d).
Proof.
  transitivity (filter (fun v => negb (amem v (dbound d)) && negb (amem v kw)) (dvars d)).
  - change (dfree (dist_bind d kw))
      with (filter (fun v => negb (amem v (dbound d ++ restrict kw (dfree d)))) (dvars d)).
    apply filter_ext_in. intros v Hv. rewrite amem_app, amem_restrict, negb_orb.
    destruct (amem v (dbound d)) eqn:E; cbn; [reflexivity|].
    replace (mem v (dfree d)) with true; [now rewrite andb_true_r|].
    symmetry. apply mem_In, dfree_In. split; [assumption | now apply amem_false].
  - unfold dfree. now rewrite filter_filter.
Qed.

Lemma is_cond_false (d : dist) : is_cond d = false <-> dfree d = [].
Proof. unfold is_cond. destruct (dfree d); split; intros; congruence. Qed.
Lemma is_cond_true (d : dist) : is_cond d = true <-> dfree d <> [].
Proof. unfold is_cond. destruct (dfree d); split; intros; congruence. Qed.

Definition wf_dist (d : dist) : Prop := NoDup (dvars d) /\ ~ In (dname d) (dvars d).

(* conditional factors carry no constant: the only constants ever added (reduction to a single
   Distribution / Posterior) go to non-conditional distributions *)
Definition wf_dens (f : dens) : Prop :=
  match f with
  | D d => wf_dist d /\ (dfree d <> [] -> dconst d = v0)
  | L d _ => wf_dist d /\ dfree d <> [] /\ dconst d = v0
  | E _ _ => True
  end.

Lemma wf_dist_bind (d : dist) kw : wf_dist d -> wf_dist (dist_bind d kw).
Proof. intros H. exact H. Qed.

Lemma NoDup_dfree (d : dist) : wf_dist d -> NoDup (dfree d).
Proof. intros [H _]. unfold dfree. now apply NoDup_filter. Qed.

Lemma name_notin_dfree (d : dist) : wf_dist d -> ~ In (dname d) (dfree d).
Proof. intros [_ H] I. apply dfree_In in I. tauto. Qed.

Lemma NoDup_dparams (d : dist) : wf_dist d -> NoDup (dparams d).
Proof.
  intros W. unfold dparams. apply NoDup_app_iff. repeat split.
  - now apply NoDup_dfree.
  - constructor; [intros [] | constructor].
  - intros v Hv [<-|[]]. now apply (name_notin_dfree d W).
Qed.

Lemma NoDup_dens_params (f : dens) : wf_dens f -> NoDup (dens_params f).
Proof.
  destruct f as [d|d x|n ev]; cbn.
  - intros [W _]. now apply NoDup_dparams.
  - intros [W _]. now apply NoDup_dfree.
  - intros _. constructor.
Qed.

Lemma dens_val_ext (f : dens) e1 e2 :
  (forall v, In v (dens_params f) -> lookup v e1 = lookup v e2) -> dens_val f e1 = dens_val f e2.
Proof.
  destruct f as [d|d x|n ev]; cbn [dens_val dens_params]; intros H.
  - rewrite (H (dname d)) by (unfold dparams; apply in_or_app; right; now left).
    destruct (lookup (dname d) e2) as [y|]; [|reflexivity]. apply dist_eval_ext.
    intros w Hw. apply H. unfold dparams. apply in_or_app. now left.
  - now rewrite (dist_eval_ext d e1 e2 x H).
  - reflexivity.
Qed.

(* ---------------- conditioning one factor ---------------- *)
Lemma filter_notin_ext (kw : asg) ps (l : list var) :
  incl l ps ->
  filter (fun v => negb (amem v (restrict kw ps))) l = filter (fun v => negb (amem v kw)) l.
Proof.
  intros H. apply filter_ext_in. intros v Hv. rewrite amem_restrict.
  replace (mem v ps) with true; [now rewrite andb_true_r|]. symmetry. now apply mem_In, H.
Qed.

Lemma incl_dfree_dparams (d : dist) : incl (dfree d) (dparams d).
Proof. intros v Hv. unfold dparams. apply in_or_app. now left. Qed.

Lemma name_in_dparams (d : dist) : In (dname d) (dparams d).
Proof. unfold dparams. apply in_or_app. right. now left. Qed.

Definition notin (kw : asg) := fun v : var => negb (amem v kw).

Lemma cond_dens_spec (f f' : dens) (kw : asg) :
  wf_dens f -> cond_dens f (restrict kw (dens_params f)) = Some f' ->
  dens_name f' = dens_name f /\
  dens_params f' = filter (notin kw) (dens_params f) /\
  isD f' = isD f && negb (amem (dens_name f) kw) /\
  wf_dens f'.
Proof.
  unfold notin. destruct f as [d|d x|n ev]; cbn [cond_dens dens_params dens_name isD wf_dens].
  - intros [W C]. set (kwf := restrict kw (dparams d)). set (d' := dist_bind d kwf).
    assert (F : dfree d' = filter (fun v => negb (amem v kw)) (dfree d)).
    { unfold d', kwf. rewrite dfree_bind. apply filter_notin_ext, incl_dfree_dparams. }
    assert (LK : lookup (dname d) kwf = lookup (dname d) kw).
    { apply lookup_restrict, mem_In, name_in_dparams. }
    assert (FP : filter (fun v => negb (amem v kw)) (dparams d) =
                 dfree d' ++ (if amem (dname d) kw then [] else [dname d])).
    { unfold dparams. rewrite filter_app, F. cbn. now destruct (amem (dname d) kw). }
    assert (NZ : dfree d' <> [] -> dfree d <> []).
    { intros A Z. apply A. rewrite F, Z. reflexivity. }
    rewrite LK. rewrite (amem_lookup (dname d) kw) in *.
    destruct (lookup (dname d) kw) as [x|] eqn:EL.
    + unfold to_likelihood. destruct (is_cond d') eqn:IC.
      * intros [= <-]. cbn [dens_name dens_params isD wf_dens]. rewrite FP, app_nil_r.
        apply is_cond_true in IC.
        split; [reflexivity | split; [reflexivity | split; [reflexivity |]]].
        split; [exact W | split; [exact IC | exact (C (NZ IC))]].
      * destruct (dist_eval d' [] x); [|discriminate]. intros [= <-]. cbn [dens_name dens_params isD wf_dens].
        apply is_cond_false in IC. rewrite FP, IC.
        split; [reflexivity | split; [reflexivity | split; [reflexivity | exact I]]].
    + intros [= <-]. cbn [dens_name dens_params isD wf_dens]. rewrite FP.
      split; [reflexivity | split; [reflexivity | split; [reflexivity |]]].
      split; [exact W | intros A; exact (C (NZ A))].
  - intros [W [NE C]]. set (kwf := restrict kw (dfree d)). set (d' := dist_bind d kwf).
    assert (F : dfree d' = filter (fun v => negb (amem v kw)) (dfree d)).
    { unfold d', kwf. rewrite dfree_bind. apply filter_notin_ext, incl_refl. }
    destruct (is_cond d') eqn:IC.
    + intros [= <-]. cbn [dens_name dens_params isD wf_dens]. rewrite <- F.
      apply is_cond_true in IC.
      split; [reflexivity | split; [reflexivity | split; [reflexivity |]]].
      split; [exact W | split; [exact IC | exact C]].
    + unfold to_likelihood. rewrite IC. destruct (dist_eval d' [] x); [|discriminate]. intros [= <-].
      cbn [dens_name dens_params isD wf_dens].
      apply is_cond_false in IC. rewrite <- F, IC.
      split; [reflexivity | split; [reflexivity | split; [reflexivity | exact I]]].
  - intros _ [= <-]. cbn. repeat split; reflexivity.
Qed.

(* conditioning never raises on a well-formed factor *)
Lemma cond_dens_defined (f : dens) (kw : asg) :
  wf_dens f -> exists f', cond_dens f (restrict kw (dens_params f)) = Some f'.
Proof.
  destruct f as [d|d x|n ev]; cbn [cond_dens dens_params wf_dens]; [| |eauto].
  - intros [W C]. set (kwf := restrict kw (dparams d)). set (d' := dist_bind d kwf).
    destruct (lookup (dname d) kwf) as [x|]; [|eauto].
    unfold to_likelihood. destruct (is_cond d') eqn:IC; [eauto|].
    apply is_cond_false in IC. unfold dist_eval.
    destruct (lookup_all_Some (dvars d') (dbound d' ++ [])) as [xs ->]; [|eauto].
    intros v Hv. rewrite app_nil_r. destruct (in_dec Nat.eq_dec v (dom (dbound d'))) as [I|N]; [assumption|].
    exfalso. assert (In v (dfree d')) as I by (apply dfree_In; tauto). rewrite IC in I. destruct I.
  - intros [W [NE C]]. set (kwf := restrict kw (dfree d)). set (d' := dist_bind d kwf).
    destruct (is_cond d') eqn:IC; [eauto|]. unfold to_likelihood. rewrite IC.
    apply is_cond_false in IC. unfold dist_eval.
    destruct (lookup_all_Some (dvars d') (dbound d' ++ [])) as [xs ->]; [|eauto].
    intros v Hv. rewrite app_nil_r. destruct (in_dec Nat.eq_dec v (dom (dbound d'))) as [I|N]; [assumption|].
    exfalso. assert (In v (dfree d')) as I by (apply dfree_In; tauto). rewrite IC in I. destruct I.
Qed.

(* THE per-factor fact: the conditioned factor at the remaining variables = the factor at everything *)
Lemma cond_dens_val (f f' : dens) (kw rest : asg) :
  wf_dens f -> cond_dens f (restrict kw (dens_params f)) = Some f' ->
  dens_val f' rest = dens_val f (kw ++ rest).
Proof.
  destruct f as [d|d x|n ev]; cbn [cond_dens dens_params wf_dens].
  - intros [W C]. set (kwf := restrict kw (dparams d)). set (d' := dist_bind d kwf).
    assert (F : dfree d' = filter (fun v => negb (amem v kw)) (dfree d)).
    { unfold d', kwf. rewrite dfree_bind. apply filter_notin_ext, incl_dfree_dparams. }
    assert (LK : lookup (dname d) kwf = lookup (dname d) kw).
    { apply lookup_restrict, mem_In, name_in_dparams. }
    assert (EV : forall env y, dist_eval d' env y = dist_eval d (kw ++ env) y).
    { intros env y. unfold d'. rewrite dist_eval_bind. apply dist_eval_ext. intros v Hv.
      rewrite !lookup_app. unfold kwf.
      rewrite (lookup_restrict v (restrict kw (dparams d)) (dfree d)) by now apply mem_In.
      rewrite (lookup_restrict v kw (dparams d)) by now apply mem_In, incl_dfree_dparams.
      reflexivity. }
    rewrite LK. destruct (lookup (dname d) kw) as [x|] eqn:EL.
    + unfold to_likelihood. destruct (is_cond d') eqn:IC.
      * intros [= <-]. cbn [dens_val]. rewrite lookup_app, EL, EV.
        change (dconst d') with (dconst d). rewrite C.
        { destruct (dist_eval d (kw ++ rest) x); [now rewrite vadd_0_r | reflexivity]. }
        apply is_cond_true in IC. intros Z. apply IC. rewrite F, Z. reflexivity.
      * destruct (dist_eval d' [] x) as [v|] eqn:EE; [|discriminate]. intros [= <-]. cbn [dens_val].
        rewrite lookup_app, EL. rewrite <- EE, EV. apply dist_eval_ext.
        intros v' Hv'. rewrite !lookup_app.
        apply is_cond_false in IC. rewrite F in IC.
        assert (amem v' kw = true) as A.
        { pose proof (proj1 (filter_nil_iff _ _) IC v' Hv') as Q. now apply negb_false_iff in Q. }
        rewrite amem_lookup in A. destruct (lookup v' kw); [reflexivity | discriminate].
    + intros [= <-]. cbn [dens_val]. change (dname d') with (dname d). rewrite lookup_app, EL.
      destruct (lookup (dname d) rest); [apply EV | reflexivity].
  - intros [W [NE C]]. set (kwf := restrict kw (dfree d)). set (d' := dist_bind d kwf).
    assert (F : dfree d' = filter (fun v => negb (amem v kw)) (dfree d)).
    { unfold d', kwf. rewrite dfree_bind. apply filter_notin_ext, incl_refl. }
    assert (EV : forall env y, dist_eval d' env y = dist_eval d (kw ++ env) y).
    { intros env y. unfold d'. rewrite dist_eval_bind. apply dist_eval_ext. intros v Hv.
      rewrite !lookup_app. unfold kwf.
      rewrite (lookup_restrict v (restrict kw (dfree d)) (dfree d)) by now apply mem_In.
      rewrite (lookup_restrict v kw (dfree d)) by now apply mem_In.
      reflexivity. }
    destruct (is_cond d') eqn:IC.
    + intros [= <-]. cbn [dens_val]. rewrite EV. reflexivity.
    + unfold to_likelihood. rewrite IC. destruct (dist_eval d' [] x) as [v|] eqn:EE; [|discriminate].
      intros [= <-]. cbn [dens_val]. rewrite C.
      assert (dist_eval d (kw ++ rest) x = Some v) as ->.
      { rewrite <- EE, EV. apply dist_eval_ext. intros v' Hv'. rewrite !lookup_app.
        apply is_cond_false in IC. rewrite F in IC.
        assert (amem v' kw = true) as A.
        { pose proof (proj1 (filter_nil_iff _ _) IC v' Hv') as Q. now apply negb_false_iff in Q. }
        rewrite amem_lookup in A. destruct (lookup v' kw); [reflexivity | discriminate]. }
      now rewrite vadd_0_r.
  - intros _ [= <-]. reflexivity.
Qed.


(* ---------------- joints ---------------- *)
(* JointDistribution.__init__ enforces exactly this: unique names, every parameter of every factor
   has a distribution; plus the per-factor conditions above *)
Definition wf (J : list dens) : Prop :=
  NoDup (map dens_name J) /\ Forall wf_dens J /\ Forall (fun f => incl (dens_params f) (jparams J)) J.

Lemma NoDup_map_filter {A B} (g : A -> B) (p : A -> bool) l : NoDup (map g l) -> NoDup (map g (filter p l)).
Proof.
  induction l as [|a l IH]; cbn; intros H; [constructor|]. inversion H as [|? ? N ND]; subst.
  destruct (p a); cbn; [|now apply IH]. constructor; [|now apply IH].
  intros I. apply N. apply in_map_iff in I as [x [Ex I]]. apply filter_In in I as [I _].
  apply in_map_iff. eauto.
Qed.

Lemma NoDup_jparams J : wf J -> NoDup (jparams J).
Proof. intros [H _]. unfold jparams. now apply NoDup_map_filter. Qed.

Definition jval (J : list dens) (a : asg) : option V := osumR (map (fun f => dens_val f a) J).

Lemma jlogd_kw_val J a : wf J -> jlogd_kw J a = if keys_ok a (jparams J) then jval J a else None.
Proof.
  intros W. unfold jlogd_kw. destruct (keys_ok a (jparams J)) eqn:K; [|reflexivity].
  rewrite osum_osumR. unfold jval. f_equal. apply map_ext_in. intros f Hf.
  pose proof (NoDup_jparams J W) as NDJ. destruct W as [_ [WD WI]]. rewrite Forall_forall in WD, WI.
  pose proof (NoDup_dens_params f (WD f Hf)) as NDf.
  unfold dens_logd_kw.
  assert (keys_ok (restrict a (dens_params f)) (dens_params f) = true) as ->.
  { apply keys_ok_iff; [assumption|]. eapply complete_restrict; [|apply (WI f Hf)].
    apply keys_ok_iff; [exact NDJ | exact K]. }
  apply dens_val_ext. intros v Hv. apply lookup_restrict. now apply mem_In.
Qed.

Lemma map_opt_Forall2 {A B} (f : A -> option B) l l' :
  map_opt f l = Some l' -> Forall2 (fun a b => f a = Some b) l l'.
Proof.
  revert l'. induction l as [|a l IH]; cbn; intros l' H.
  - injection H as <-. constructor.
  - destruct (f a) eqn:E; [|discriminate]. destruct (map_opt f l); [|discriminate].
    injection H as <-. constructor; [assumption | now apply IH].
Qed.

Lemma map_opt_defined {A B} (f : A -> option B) l :
  (forall a, In a l -> exists b, f a = Some b) -> exists l', map_opt f l = Some l'.
Proof.
  induction l as [|a l IH]; cbn; intros H; [eauto|].
  destruct (H a (or_introl eq_refl)) as [b ->].
  destruct IH as [l' ->]; [intros x Hx; apply H; now right | eauto].
Qed.

Lemma Forall2_In_r {A B} (R : A -> B -> Prop) l l' b :
  Forall2 R l l' -> In b l' -> exists a, In a l /\ R a b.
Proof.
  induction 1 as [|x y l l' Hxy _ IH]; cbn; [intros []|].
  intros [<-|I]; [eauto | destruct (IH I) as [a [Ia Ra]]; eauto].
Qed.

Definition condf (kw : asg) (f : dens) : option dens := cond_dens f (restrict kw (dens_params f)).

Lemma cond_all_spec J J' kw :
  Forall wf_dens J -> Forall2 (fun f f' => condf kw f = Some f') J J' ->
  map dens_name J' = map dens_name J /\
  jparams J' = filter (notin kw) (jparams J) /\
  Forall wf_dens J' /\
  forall rest, jval J' rest = jval J (kw ++ rest).
Proof.
  intros WD H. induction H as [|f f' J J' Hf _ IH].
  - split; [reflexivity | split; [reflexivity | split; [constructor | reflexivity]]].
  - inversion WD as [|? ? Wf WJ]; subst. destruct (IH WJ) as [A [B [C Dv]]].
    destruct (cond_dens_spec f f' kw Wf Hf) as [N [P [I W']]].
    split; [cbn; now rewrite N, A|]. split; [|split; [now constructor|]].
    + unfold jparams in *. cbn [filter]. rewrite I.
      destruct (isD f); cbn [andb]; [|exact B].
      destruct (negb (amem (dens_name f) kw)) eqn:Q; cbn [map filter]; unfold notin at 1; rewrite Q.
      * rewrite N. f_equal. exact B.
      * exact B.
    + intros rest. unfold jval in *. cbn [map]. rewrite !osumR_cons, Dv.
      now rewrite (cond_dens_val f f' kw rest Wf Hf).
Qed.

Lemma wf_step J J' kw :
  wf J -> map_opt (condf kw) J = Some J' ->
  wf J' /\ jparams J' = filter (notin kw) (jparams J) /\ forall rest, jval J' rest = jval J (kw ++ rest).
Proof.
  intros [ND [WD WI]] H. apply map_opt_Forall2 in H.
  destruct (cond_all_spec J J' kw WD H) as [A [B [C Dv]]].
  split; [|split; assumption]. split; [now rewrite A|]. split; [assumption|].
  apply Forall_forall. intros f' Hf'.
  destruct (Forall2_In_r _ _ _ _ H Hf') as [f [If Hc]].
  rewrite Forall_forall in WD, WI.
  destruct (cond_dens_spec f f' kw (WD f If) Hc) as [_ [P _]].
  rewrite P, B. intros v Hv. apply filter_In in Hv as [Hv Q]. apply filter_In. split; [|assumption].
  now apply (WI f If).
Qed.

Lemma cond_all_defined J kw : wf J -> exists J', map_opt (condf kw) J = Some J'.
Proof.
  intros [_ [WD _]]. apply map_opt_defined. intros f Hf. rewrite Forall_forall in WD.
  apply cond_dens_defined. now apply WD.
Qed.

(* ---------------- the reduction to a single density ---------------- *)
Lemma filter_In_isL (J : list dens) f : In f (filter isL J) -> exists d x, f = L d x /\ In f J.
Proof. intros H. apply filter_In in H as [I Q]. destruct f; try discriminate. eauto. Qed.
Lemma filter_In_isD (J : list dens) f : In f (filter isD J) -> exists d, f = D d /\ In f J.
Proof. intros H. apply filter_In in H as [I Q]. destruct f; try discriminate. eauto. Qed.

Lemma NoDup_incl_singleton (l : list var) a : NoDup l -> l <> [] -> incl l [a] -> l = [a].
Proof.
  intros ND NE I. destruct l as [|x [|y r]]; [congruence| |].
  - destruct (I x (or_introl eq_refl)) as [<-|[]]. reflexivity.
  - exfalso. destruct (I x (or_introl eq_refl)) as [<-|[]]. destruct (I y (or_intror (or_introl eq_refl))) as [<-|[]].
    inversion ND as [|? ? N _]. apply N. now left.
Qed.

(* a likelihood's parameters are names of distributions: a joint without distributions has no
   likelihood (the constants-dropping branch n_dist = 0, n_likelihood = 1 is dead, and so is the
   fall-through that returns None) *)
Lemma lik_needs_dist J d x : wf J -> In (L d x) J -> filter isD J <> [].
Proof.
  intros [_ [WD WI]] I Z. rewrite Forall_forall in WD, WI.
  destruct (WD _ I) as [_ [NE _]]. pose proof (WI _ I) as Inc. cbn in Inc.
  unfold jparams in Inc. rewrite Z in Inc. destruct (dfree d) as [|v r]; [congruence|].
  destruct (Inc v (or_introl eq_refl)).
Qed.

Lemma single_dist J d : wf J -> filter isD J = [D d] ->
  dfree d = [] /\ jparams J = [dname d] /\ forall ld x, In (L ld x) J -> dfree ld = [dname d].
Proof.
  intros W E. pose proof W as [_ [WD WI]]. rewrite Forall_forall in WD, WI.
  assert (JP : jparams J = [dname d]) by (unfold jparams; now rewrite E).
  assert (ID : In (D d) J). { assert (In (D d) (filter isD J)) as Q by (rewrite E; now left). now apply filter_In in Q. }
  destruct (WD _ ID) as [Wd _]. pose proof (WI _ ID) as Inc. cbn in Inc. rewrite JP in Inc.
  split; [|split; [assumption|]].
  - destruct (dfree d) as [|v r] eqn:F; [reflexivity|]. exfalso.
    assert (In v (dparams d)) as Q by (unfold dparams; rewrite F; now left).
    destruct (Inc v Q) as [<-|[]]. apply (name_notin_dfree d Wd). rewrite F. now left.
  - intros ld x I. destruct (WD _ I) as [Wl [NE _]]. pose proof (WI _ I) as IncL. cbn in IncL. rewrite JP in IncL.
    apply NoDup_incl_singleton; [now apply NoDup_dfree | assumption | assumption].
Qed.

Lemma filter_DL_length (J : list dens) : length (filter isD J) + length (filter isL J) <= length J.
Proof. induction J as [|f J IH]; cbn; [lia|]. destruct f; cbn; lia. Qed.

Lemma wf_init_ok J : wf J -> joint_init_ok J = true.
Proof.
  intros [ND [_ WI]]. unfold joint_init_ok. apply andb_true_iff. split; [now apply nodupb_NoDup|].
  apply forallb_forall. intros f Hf. apply forallb_forall. intros p Hp. apply mem_In.
  rewrite Forall_forall in WI. now apply (WI f Hf).
Qed.

Lemma dens_val_add_const (d : dist) c env :
  dens_val (D (add_const d c)) env = oadd (dens_val (D d) env) (Some c).
Proof.
  cbn [dens_val]. change (dname (add_const d c)) with (dname d).
  destruct (lookup (dname d) env) as [x|]; [|reflexivity].
  unfold dist_eval. cbn [dvars dbound df dconst add_const].
  destruct (lookup_all (dvars d) (dbound d ++ env)); [|reflexivity]. cbn. now rewrite (madd_assoc _ ML).
Qed.

Definition wf_obj (o : obj) : Prop :=
  match o with
  | OJ _ J => wf J
  | OP ld _ pr _ => dfree pr = [] /\ dfree ld = [dname pr] /\ wf_dist pr /\ wf_dist ld
  | OD f => wf_dens f
  end.

Lemma osumR_one (a : option V) : osumR [a] = a.
Proof. unfold osumR. cbn. apply oadd_0_r. Qed.

(* what conditioning a well-formed joint returns, whichever branch of the reduction is taken *)
Lemma reduce_spec fl J o :
  wf J -> reduce fl J = Some o ->
  obj_params o = jparams J /\ wf_obj o /\
  (forall rest, obj_logd_kw o rest = if keys_ok rest (jparams J) then jval J rest else None) /\
  (forall d x, o <> OD (L d x)).
Proof.
  intros W. pose proof (filter_DL_length J) as LEN. unfold reduce.
  destruct (filter isD J) as [|fd [|fd2 rd]] eqn:ED.
  - (* no distribution: no likelihood either *)
    destruct (filter isL J) as [|f1 rl] eqn:EL.
    + cbn. intros [= <-]. cbn [obj_params wf_obj obj_logd_kw].
      split; [reflexivity | split; [assumption | split; [intros rest; now apply jlogd_kw_val | congruence]]].
    + exfalso. assert (In f1 (filter isL J)) as I by (rewrite EL; now left).
      apply filter_In_isL in I as [d [x [-> I]]]. now apply (lik_needs_dist J d x W I).
  - (* exactly one distribution *)
    assert (In fd (filter isD J)) as I by (rewrite ED; now left).
    apply filter_In_isD in I as [pr [-> Ipr]].
    destruct (single_dist J pr W ED) as [Fpr [JP LP]].
    assert (DP : dparams pr = [dname pr]) by (unfold dparams; now rewrite Fpr).
    destruct (filter isL J) as [|f1 [|f2 rl]] eqn:EL.
    + (* Distribution with the constants folded in *)
      cbn. intros [= <-]. cbn [obj_params wf_obj obj_logd_kw dens_params].
      change (dparams (add_const pr (evsum J))) with (dparams pr).
      destruct W as [ND [WD WI]]. rewrite Forall_forall in WD. destruct (WD _ Ipr) as [Wpr _].
      split; [now rewrite JP, DP|]. split; [split; [exact Wpr | intros NZ; now elim NZ]|].
      split; [|congruence]. intros rest. unfold dens_logd_kw. cbn [dens_params].
      change (dparams (add_const pr (evsum J))) with (dparams pr). rewrite DP, JP.
      destruct (keys_ok rest [dname pr]); [|reflexivity].
      rewrite dens_val_add_const. unfold jval.
      rewrite (jsum_split (fun f => dens_val f rest) J) by reflexivity.
      rewrite ED, EL. cbn [map]. rewrite osumR_one, evsum_evalsR.
      change (osumR []) with (Some v0). now rewrite oadd_0_l.
    + (* Posterior *)
      assert (In f1 (filter isL J)) as I by (rewrite EL; now left).
      apply filter_In_isL in I as [ld [x [-> Il]]].
      pose proof (LP ld x Il) as Fld.
      cbn. rewrite Fld, DP. cbn. rewrite set_eqb_single. cbn. unfold is_cond. rewrite Fpr.
      intros [= <-]. cbn [obj_params wf_obj obj_logd_kw].
      assert (WP : wf_dist pr /\ wf_dist ld).
      { destruct W as [_ [WD _]]. rewrite Forall_forall in WD. split; [apply (WD _ Ipr) | apply (WD _ Il)]. }
      split; [now rewrite JP, DP|]. split; [split; [exact Fpr | split; [exact Fld | exact WP]]|]. split; [|congruence]. intros rest.
      rewrite DP, JP, Fld. destruct (keys_ok rest [dname pr]) eqn:K; [|reflexivity].
      apply keys_ok_iff in K; [|constructor; [intros [] | constructor]].
      destruct (In_lookup (dname pr) rest) as [y Ey]. { apply K. now left. }
      rewrite Ey. unfold jval. rewrite (jsum_split (fun f => dens_val f rest) J) by reflexivity.
      rewrite ED, EL. cbn [map]. rewrite !osumR_one, evsum_evalsR. do 2 f_equal.
      apply dens_val_ext. cbn [dens_params]. rewrite Fld. intros v [<-|[]]. cbn. now rewrite Nat.eqb_refl.
    + (* MultipleLikelihoodPosterior *)
      cbn. rewrite (wf_init_ok J W). cbn.
      assert (3 <= length J) as L3 by (cbn in LEN; lia).
      destruct (length J) as [|[|[|n3]]]; [lia | lia | lia |]. intros [= <-]. cbn [obj_params wf_obj obj_logd_kw].
      split; [reflexivity | split; [assumption | split; [intros rest; now apply jlogd_kw_val | congruence]]].
  - (* several distributions: stays a joint *)
    cbn. intros [= <-]. cbn [obj_params wf_obj obj_logd_kw].
    split; [reflexivity | split; [assumption | split; [intros rest; now apply jlogd_kw_val | congruence]]].
Qed.

(* the reduction never raises and never returns None on a well-formed joint *)
Lemma reduce_defined fl J : wf J -> exists o, reduce fl J = Some o.
Proof.
  intros W. pose proof (filter_DL_length J) as LEN. unfold reduce.
  destruct (filter isD J) as [|fd [|fd2 rd]] eqn:ED.
  - destruct (filter isL J) as [|f1 rl] eqn:EL; [cbn; eauto|].
    exfalso. assert (In f1 (filter isL J)) as I by (rewrite EL; now left).
    apply filter_In_isL in I as [d [x [-> I]]]. now apply (lik_needs_dist J d x W I).
  - assert (In fd (filter isD J)) as I by (rewrite ED; now left).
    apply filter_In_isD in I as [pr [-> Ipr]].
    destruct (single_dist J pr W ED) as [Fpr [JP LP]].
    assert (DP : dparams pr = [dname pr]) by (unfold dparams; now rewrite Fpr).
    destruct (filter isL J) as [|f1 [|f2 rl]] eqn:EL.
    + cbn. eauto.
    + assert (In f1 (filter isL J)) as I by (rewrite EL; now left).
      apply filter_In_isL in I as [ld [x [-> Il]]]. pose proof (LP ld x Il) as Fld.
      cbn. rewrite Fld, DP. cbn. rewrite set_eqb_single. cbn. unfold is_cond. rewrite Fpr. eauto.
    + cbn. rewrite (wf_init_ok J W). cbn.
      assert (3 <= length J) as L3 by (cbn in LEN; lia).
      destruct (length J) as [|[|[|n3]]]; [lia | lia | lia |]. eauto.
  - cbn. eauto.
Qed.


(* ---------------- one conditioning step ---------------- *)
Lemma jcond_kw_spec fl J kw o :
  wf J -> jcond_kw fl J kw = Some o ->
  obj_params o = filter (notin kw) (jparams J) /\ wf_obj o /\
  (forall rest, obj_logd_kw o rest =
                if keys_ok rest (filter (notin kw) (jparams J)) then jval J (kw ++ rest) else None) /\
  (forall d x, o <> OD (L d x)).
Proof.
  intros W H. unfold jcond_kw in H.
  destruct (map_opt (fun f => cond_dens f (restrict kw (dens_params f))) J) as [J'|] eqn:EM; [|discriminate].
  destruct (wf_step J J' kw W EM) as [W' [JP Dv]].
  destruct (reduce_spec fl J' o W' H) as [P [WO [LG NL]]].
  split; [now rewrite P, JP|]. split; [assumption|]. split; [|assumption].
  intros rest. rewrite LG, JP, Dv. reflexivity.
Qed.

Lemma step_joint fl J kw o rest :
  wf J -> NoDup (dom kw) -> incl (dom kw) (jparams J) -> (forall v, In v (dom kw) -> ~ In v (dom rest)) ->
  jcond_kw fl J kw = Some o ->
  obj_logd_kw o rest = jlogd_kw J (kw ++ rest).
Proof.
  intros W NDk Hk Hd H. destruct (jcond_kw_spec fl J kw o W H) as [_ [_ [LG _]]].
  rewrite LG, (jlogd_kw_val J _ W). unfold notin.
  now rewrite (keys_ok_step kw rest (jparams J) (NoDup_jparams J W) NDk Hk Hd).
Qed.

Lemma jcond_kw_defined fl J kw : wf J -> exists o, jcond_kw fl J kw = Some o.
Proof.
  intros W. unfold jcond_kw. destruct (cond_all_defined J kw W) as [J' EM].
  unfold condf in EM. rewrite EM. apply reduce_defined. now destruct (wf_step J J' kw W EM).
Qed.

Lemma notin_nil (ps : list var) : filter (notin (@nil (var * val))) ps = ps.
Proof. apply filter_all. reflexivity. Qed.

Lemma NoDup_obj_params o : wf_obj o -> match o with OP _ _ _ _ => True | _ => NoDup (obj_params o) end.
Proof. destruct o; cbn; intros W; [now apply NoDup_jparams | exact I | now apply NoDup_dens_params]. Qed.

(* exactly one distribution and one likelihood left: always a Posterior (the "parameter names
   differ, stay joint" branch is dead for well-formed joints) *)
Lemma reduce_posterior fl J :
  wf J -> length (filter isD J) = 1 -> length (filter isL J) = 1 ->
  exists ld x pr, reduce fl J = Some (OP ld x pr (evsum J)) /\ In (L ld x) J /\ In (D pr) J.
Proof.
  intros W HD HL. unfold reduce.
  destruct (filter isD J) as [|fd [|fd2 rd]] eqn:ED; try discriminate.
  destruct (filter isL J) as [|f1 [|f2 rl]] eqn:EL; try discriminate.
  assert (In fd (filter isD J)) as I by (rewrite ED; now left).
  apply filter_In_isD in I as [pr [-> Ipr]].
  destruct (single_dist J pr W ED) as [Fpr [JP LP]].
  assert (DP : dparams pr = [dname pr]) by (unfold dparams; now rewrite Fpr).
  assert (In f1 (filter isL J)) as I by (rewrite EL; now left).
  apply filter_In_isL in I as [ld [x [-> Il]]]. pose proof (LP ld x Il) as Fld.
  exists ld, x, pr. cbn. rewrite Fld, DP. cbn. rewrite set_eqb_single. cbn. unfold is_cond. rewrite Fpr.
  now split.
Qed.


(* ---------------- positional arguments ---------------- *)
Lemma dom_combine (keys : list var) (args : list val) :
  length args <= length keys -> dom (combine keys args) = firstn (length args) keys.
Proof.
  revert args. induction keys as [|k keys IH]; intros [|a args] L; cbn in *; try reflexivity; try lia.
  f_equal. apply IH. lia.
Qed.

Lemma In_firstn_In {A} n (l : list A) x : In x (firstn n l) -> In x l.
Proof. revert l. induction n; intros [|a l]; cbn; try tauto. intros [->|I]; [now left | right; now apply IHn]. Qed.

Lemma jparse_Some keys : NoDup keys -> forall (args : list val) (kw kw' : asg),
  jparse keys args kw = Some kw' ->
  length args <= length keys /\ (forall k, In k (firstn (length args) keys) -> ~ In k (dom kw)) /\
  kw' = kw ++ combine keys args.
Proof.
  induction 1 as [|k keys N ND IH]; intros [|a args] kw kw' H; cbn in H.
  - injection H as <-. cbn. rewrite app_nil_r. split; [lia | split; [intros k [] | reflexivity]].
  - discriminate.
  - injection H as <-. cbn. rewrite app_nil_r. split; [lia | split; [intros k' [] | reflexivity]].
  - destruct (amem k kw) eqn:A; [discriminate|]. apply IH in H as [L [Hn ->]].
    cbn [length firstn combine]. split; [lia|]. split.
    + intros k' [<-|I]; [now apply amem_false|]. intros I2. apply (Hn k' I). rewrite dom_app. apply in_or_app. now left.
    + now rewrite <- app_assoc.
Qed.

Lemma jparse_ok keys : NoDup keys -> forall (args : list val) (kw : asg),
  length args <= length keys -> (forall k, In k (firstn (length args) keys) -> ~ In k (dom kw)) ->
  jparse keys args kw = Some (kw ++ combine keys args).
Proof.
  induction 1 as [|k keys N ND IH]; intros [|a args] kw L Hn; cbn in *.
  - now rewrite app_nil_r.
  - lia.
  - now rewrite app_nil_r.
  - assert (amem k kw = false) as -> by (apply amem_false, Hn; now left).
    rewrite IH; [now rewrite <- app_assoc | lia |].
    intros k' I. rewrite dom_app. intros I2. apply in_app_or in I2 as [I2|[<-|[]]].
    + apply (Hn k'); [now right | assumption].
    + apply N. eapply In_firstn_In; eauto.
Qed.

(* a call with positional and keyword arguments names every parameter exactly once *)
Definition call_complete (ps : list var) (args : list val) (kw : asg) : Prop :=
  length args <= length ps /\
  (forall k, In k (firstn (length args) ps) -> ~ In k (dom kw)) /\
  complete (kw ++ combine ps args) ps.

Lemma combine_nil_r {A B} (l : list A) : combine l (@nil B) = [].
Proof. destruct l; reflexivity. Qed.

Lemma cc_kw ps (kw : asg) : NoDup ps -> keys_ok kw ps = true -> call_complete ps [] kw.
Proof.
  intros ND K. split; [cbn; lia|]. split; [intros k []|]. rewrite combine_nil_r, app_nil_r. now apply keys_ok_iff.
Qed.

Lemma cc_pos ps (args : list val) : NoDup ps -> length args = length ps -> call_complete ps args [].
Proof.
  intros ND L. split; [lia|]. split; [intros k _ []|]. cbn [app]. split.
  - rewrite dom_combine by lia. rewrite L, firstn_all. assumption.
  - intros v. rewrite dom_combine by lia. rewrite L, firstn_all. tauto.
Qed.

Lemma jlogd_positional J (args : list val) (kw : asg) :
  wf J -> length args <= length (jparams J) ->
  (forall k, In k (firstn (length args) (jparams J)) -> ~ In k (dom kw)) ->
  jlogd J args kw = jlogd_kw J (kw ++ combine (jparams J) args).
Proof.
  intros W L Hn. unfold jlogd. now rewrite (jparse_ok _ (NoDup_jparams J W) args kw L Hn).
Qed.

Lemma jcond_positional fl J (args : list val) (kw : asg) :
  wf J -> length args <= length (jparams J) ->
  (forall k, In k (firstn (length args) (jparams J)) -> ~ In k (dom kw)) ->
  jcond fl J args kw = jcond_kw fl J (kw ++ combine (jparams J) args).
Proof.
  intros W L Hn. unfold jcond. now rewrite (jparse_ok _ (NoDup_jparams J W) args kw L Hn).
Qed.

Lemma jlogd_Some J (args : list val) (kw : asg) v :
  wf J -> jlogd J args kw = Some v -> call_complete (jparams J) args kw.
Proof.
  intros W H. unfold jlogd in H. destruct (jparse (jparams J) args kw) as [kw'|] eqn:EP; [|discriminate].
  apply (jparse_Some _ (NoDup_jparams J W)) in EP as [L [Hn ->]].
  split; [assumption | split; [assumption|]]. unfold jlogd_kw in H.
  destruct (keys_ok (kw ++ combine (jparams J) args) (jparams J)) eqn:K; [|discriminate].
  apply keys_ok_iff in K; [assumption | now apply NoDup_jparams].
Qed.

Lemma lik_positional (d : dist) x (args : list val) :
  wf_dist d -> length args = length (dfree d) ->
  lik_logd d x args [] = dens_logd_kw (L d x) (combine (dfree d) args).
Proof.
  intros W L. unfold lik_logd, dens_logd_kw. cbn [dens_params dens_val]. rewrite L, Nat.eqb_refl.
  assert (keys_ok (combine (dfree d) args) (dfree d) = true) as ->; [|reflexivity].
  apply keys_ok_iff; [now apply NoDup_dfree|].
  destruct (cc_pos (dfree d) args (NoDup_dfree d W) L) as [_ [_ C]]. exact C.
Qed.

Lemma lik_logd_Some (d : dist) x (args : list val) (kw : asg) v :
  wf_dist d -> lik_logd d x args kw = Some v -> call_complete (dfree d) args kw.
Proof.
  intros W H. unfold lik_logd in H. destruct kw as [|p kw].
  - destruct (length args =? length (dfree d))%nat eqn:E; [|discriminate]. apply Nat.eqb_eq in E.
    apply cc_pos; [now apply NoDup_dfree | assumption].
  - destruct args; [|discriminate]. destruct (keys_ok (p :: kw) (dfree d)) eqn:K; [|discriminate].
    apply cc_kw; [now apply NoDup_dfree | assumption].
Qed.

Lemma dist_noncond_positional strict (d : dist) y :
  dfree d = [] -> dist_logd strict d [y] [] = dens_logd_kw (D d) [(dname d, y)].
Proof.
  intros F. unfold dist_logd, dens_logd_kw. cbn [dens_params dens_val]. unfold is_cond, dparams. rewrite F.
  cbn. rewrite Nat.eqb_refl. cbn. apply dist_eval_ext. rewrite F. intros v [].
Qed.

Lemma dist_noncond_Some strict (d : dist) (args : list val) (kw : asg) v :
  dfree d = [] -> dist_logd strict d args kw = Some v -> call_complete (dparams d) args kw.
Proof.
  intros F H. unfold dist_logd in H. unfold is_cond in H. rewrite F in H.
  assert (DP : dparams d = [dname d]) by (unfold dparams; now rewrite F).
  assert (ND : NoDup (dparams d)) by (rewrite DP; constructor; [intros [] | constructor]).
  destruct kw as [|p kw].
  - destruct args as [|y [|z r]]; try discriminate. apply cc_pos; [assumption | now rewrite DP].
  - destruct args; [|discriminate]. destruct (keys_ok (p :: kw) [dname d]) eqn:K; [|discriminate].
    apply cc_kw; [assumption | now rewrite DP].
Qed.

Lemma post_positional strict ld x pr c y :
  wf_obj (OP ld x pr c) ->
  post_logd strict ld x pr c [y] [] = obj_logd_kw (OP ld x pr c) [(dname pr, y)].
Proof.
  intros [Fpr [Fld [Wp Wl]]].
  assert (DP : dparams pr = [dname pr]) by (unfold dparams; now rewrite Fpr).
  unfold post_logd. cbv beta zeta iota.
  rewrite (lik_positional ld x [y] Wl) by now rewrite Fld.
  rewrite (dist_noncond_positional strict pr y Fpr).
  cbn [obj_logd_kw]. unfold dens_logd_kw. cbn [dens_params]. rewrite DP, Fld.
  unfold keys_ok. cbn. rewrite Nat.eqb_refl. cbn. reflexivity.
Qed.

Lemma post_keyword strict ld x pr c (kw : asg) :
  wf_obj (OP ld x pr c) -> kw <> [] -> post_logd strict ld x pr c [] kw = obj_logd_kw (OP ld x pr c) kw.
Proof.
  intros W NE. destruct kw as [|p kw]; [congruence|].
  unfold post_logd. cbv beta zeta iota. cbn [obj_logd_kw].
  destruct (keys_ok (p :: kw) (dparams pr)); [|reflexivity].
  destruct (lookup (dname pr) (p :: kw)) as [y|] eqn:EL; [|reflexivity].
  change (oadd (oadd (lik_logd ld x [y] []) (dist_logd strict pr [y] [])) (Some c))
    with (post_logd strict ld x pr c [y] []).
  rewrite (post_positional strict ld x pr c y W). cbn [obj_logd_kw].
  destruct W as [Fpr [Fld _]].
  assert (DP : dparams pr = [dname pr]) by (unfold dparams; now rewrite Fpr).
  rewrite DP. unfold keys_ok. cbn [length Nat.eqb forallb amem dom map fst mem existsb lookup].
  rewrite Nat.eqb_refl. cbn [orb andb]. do 2 f_equal.
  apply dens_val_ext. cbn [dens_params]. rewrite DP. intros v [<-|[]]. rewrite EL. cbn. now rewrite Nat.eqb_refl.
Qed.

Lemma obj_step pnamed o kw o' rest :
  wf_obj o -> obj_cond_kw pnamed o kw = Some o' -> NoDup (dom kw) -> incl (dom kw) (obj_params o) ->
  (forall v, In v (dom kw) -> ~ In v (dom rest)) ->
  obj_logd_kw o' rest = obj_logd_kw o (kw ++ rest) /\ wf_obj o' /\
  obj_params o' = filter (notin kw) (obj_params o).
Proof.
  intros W H NDk Hk Hd. destruct o as [fl J|ld x pr c|f]; cbn [obj_cond_kw wf_obj obj_params] in *.
  - destruct (jcond_kw_spec fl J kw o' W H) as [P [WO _]].
    split; [now apply (step_joint fl J kw o' rest)|]. now split.
  - unfold post_cond in H. destruct kw as [|[k y] [|q kw]]; [| |discriminate].
    + injection H as <-. cbn [app]. split; [reflexivity | split; [exact W | now rewrite notin_nil]].
    + destruct (pnamed && Nat.eqb k (dname pr)) eqn:EK; [|discriminate].
      apply andb_true_iff in EK as [_ EK]. apply Nat.eqb_eq in EK. subst k.
      destruct (post_logd false ld x pr c [y] []) as [v|] eqn:EV; [|discriminate]. injection H as <-.
      pose proof (post_positional false ld x pr c y W) as PP. rewrite EV in PP.
      destruct W as [Fpr [Fld _]].
      assert (DP : dparams pr = [dname pr]) by (unfold dparams; now rewrite Fpr).
      split; [|split; [exact I|]].
      * cbn [obj_logd_kw app]. unfold dens_logd_kw. cbn [dens_params dens_val]. rewrite DP.
        destruct rest as [|r0 rest].
        { cbn [obj_logd_kw] in PP. rewrite DP in PP. exact PP. }
        { unfold keys_ok. cbn [length]. cbn. reflexivity. }
      * cbn [obj_params dens_params]. rewrite DP. unfold notin, amem, mem. cbn. now rewrite Nat.eqb_refl.
  - destruct (cond_dens f (restrict kw (dens_params f))) as [f'|] eqn:EC; [|discriminate]. injection H as <-.
    destruct (cond_dens_spec f f' kw W EC) as [_ [P [_ W']]].
    split; [|split; [exact W' | exact P]].
    cbn [obj_logd_kw]. unfold dens_logd_kw. rewrite P. unfold notin.
    rewrite (keys_ok_step kw rest (dens_params f) (NoDup_dens_params f W) NDk Hk Hd).
    now rewrite (cond_dens_val f f' kw rest W EC).
Qed.

(* ---------------- any list of conditioning steps ---------------- *)
Lemma sequence_steps pnamed steps : forall o o' rest,
  wf_obj o -> run_steps_kw pnamed o steps = Some o' ->
  NoDup (dom (concat steps ++ rest)) -> incl (dom (concat steps)) (obj_params o) ->
  obj_logd_kw o' rest = obj_logd_kw o (concat steps ++ rest) /\ wf_obj o'.
Proof.
  induction steps as [|kw r IH]; intros o o' rest W H ND Hk.
  - cbn in H. injection H as <-. now split.
  - cbn [run_steps_kw] in H. destruct (obj_cond_kw pnamed o kw) as [o1|] eqn:E1; [|discriminate].
    cbn [concat] in *. rewrite <- app_assoc in ND. rewrite <- app_assoc.
    rewrite dom_app in ND. apply NoDup_app_iff in ND as [NDk [NDr Hd]].
    rewrite dom_app in Hk.
    destruct (obj_step pnamed o kw o1 (concat r ++ rest) W E1 NDk) as [LG [W1 P1]].
    { intros v Hv. apply Hk, in_or_app. now left. }
    { exact Hd. }
    destruct (IH o1 o' rest W1 H NDr) as [LG' W'].
    { intros v Hv. rewrite P1. apply filter_In. split; [apply Hk, in_or_app; now right|].
      unfold notin. apply negb_true_iff, amem_false. intros I. apply (Hd v I).
      rewrite dom_app. apply in_or_app. now left. }
    split; [now rewrite LG', LG | exact W'].
Qed.

(* ---------------- the order and grouping of the steps do not matter ---------------- *)
Lemma lookup_perm (a b : asg) v : NoDup (dom a) -> Permutation a b -> lookup v a = lookup v b.
Proof.
  intros ND P. induction P as [|[k x] l l' P IH|[k x] [k' x'] l|l l' l'' P1 IH1 P2 IH2].
  - reflexivity.
  - cbn in *. inversion ND; subst. destruct (Nat.eqb v k); [reflexivity | now apply IH].
  - cbn in *. inversion ND as [|? ? N _]; subst.
    destruct (Nat.eqb v k) eqn:E1, (Nat.eqb v k') eqn:E2; try reflexivity.
    apply Nat.eqb_eq in E1, E2. subst. exfalso. apply N. now left.
  - rewrite IH1 by assumption. apply IH2.
    eapply Permutation_NoDup; [|exact ND]. unfold dom. now apply Permutation_map.
Qed.

Lemma keys_ok_perm (a b : asg) ps : Permutation a b -> keys_ok a ps = keys_ok b ps.
Proof.
  intros P. unfold keys_ok. rewrite (Permutation_length P). f_equal.
  induction ps as [|p ps IH]; cbn; [reflexivity|]. rewrite IH. f_equal.
  assert (PD : Permutation (dom a) (dom b)) by (unfold dom; now apply Permutation_map).
  destruct (amem p b) eqn:B.
  - apply amem_In. apply amem_In in B. eapply Permutation_in; [apply Permutation_sym; exact PD | exact B].
  - apply amem_false. apply amem_false in B. intros I. apply B. eapply Permutation_in; eauto.
Qed.

Lemma dens_logd_kw_perm (f : dens) a b : NoDup (dom a) -> Permutation a b -> dens_logd_kw f a = dens_logd_kw f b.
Proof.
  intros ND P. unfold dens_logd_kw. rewrite (keys_ok_perm a b _ P).
  destruct (keys_ok b (dens_params f)); [|reflexivity].
  apply dens_val_ext. intros v _. now apply lookup_perm.
Qed.

Lemma obj_logd_kw_perm o a b : wf_obj o -> NoDup (dom a) -> Permutation a b -> obj_logd_kw o a = obj_logd_kw o b.
Proof.
  intros W ND P. destruct o as [fl J|ld x pr c|f]; cbn [obj_logd_kw wf_obj] in *.
  - rewrite !(jlogd_kw_val J _ W), (keys_ok_perm a b _ P).
    destruct (keys_ok b (jparams J)); [|reflexivity]. unfold jval. f_equal. apply map_ext.
    intros f. apply dens_val_ext. intros v _. now apply lookup_perm.
  - rewrite (keys_ok_perm a b _ P), (lookup_perm a b (dname pr) ND P).
    destruct (keys_ok b (dparams pr)); [|reflexivity]. destruct (lookup (dname pr) b) as [y|]; [|reflexivity].
    do 2 f_equal. apply dens_val_ext. intros w _. now apply lookup_perm.
  - now apply dens_logd_kw_perm.
Qed.

Lemma order_irrelevant pnamed o s1 s2 o1 o2 rest :
  wf_obj o -> run_steps_kw pnamed o s1 = Some o1 -> run_steps_kw pnamed o s2 = Some o2 ->
  Permutation (concat s1) (concat s2) ->
  NoDup (dom (concat s1 ++ rest)) -> incl (dom (concat s1)) (obj_params o) ->
  obj_logd_kw o1 rest = obj_logd_kw o2 rest.
Proof.
  intros W H1 H2 P ND Hk.
  assert (PA : Permutation (concat s1 ++ rest) (concat s2 ++ rest)) by now apply Permutation_app_tail.
  assert (ND2 : NoDup (dom (concat s2 ++ rest))).
  { eapply Permutation_NoDup; [|exact ND]. unfold dom. now apply Permutation_map. }
  assert (Hk2 : incl (dom (concat s2)) (obj_params o)).
  { intros v Hv. apply Hk. eapply Permutation_in; [|exact Hv]. unfold dom. apply Permutation_map. now apply Permutation_sym. }
  destruct (sequence_steps pnamed s1 o o1 rest W H1 ND Hk) as [L1 _].
  destruct (sequence_steps pnamed s2 o o2 rest W H2 ND2 Hk2) as [L2 _].
  rewrite L1, L2. now apply obj_logd_kw_perm.
Qed.

Lemma post_logd_Some strict ld x pr c (args : list val) (kw : asg) v :
  wf_obj (OP ld x pr c) -> post_logd strict ld x pr c args kw = Some v -> call_complete (dparams pr) args kw.
Proof.
  intros [Fpr [Fld [Wp Wl]]] H. unfold post_logd in H.
  assert (DP : dparams pr = [dname pr]) by (unfold dparams; now rewrite Fpr).
  assert (ND : NoDup (dparams pr)) by (rewrite DP; constructor; [intros [] | constructor]).
  destruct kw as [|p kw].
  - destruct args as [|y [|z r]]; try discriminate. apply cc_pos; [assumption | now rewrite DP].
  - destruct args; [|discriminate]. destruct (keys_ok (p :: kw) (dparams pr)) eqn:K; [|discriminate].
    now apply cc_kw.
Qed.

(* Distribution._parse_args_add_to_kwargs *)
Lemma dparse_Some cond : NoDup cond -> forall (args : list val) (kw kw' : asg) main,
  dparse cond args kw = Some (kw', main) ->
  (forall k, In k (firstn (length args) cond) -> ~ In k (dom kw)) /\
  ((main = None /\ length args <= length cond /\ kw' = kw ++ combine cond args) \/
   (exists pre y, main = Some y /\ args = pre ++ [y] /\ length pre = length cond /\ kw' = kw ++ combine cond pre)).
Proof.
  induction 1 as [|k cond N ND IH]; intros args kw kw' main H.
  - destruct args as [|a [|b r]]; cbn in H; try discriminate; injection H as <- <-.
    + split; [intros k []|]. left. cbn. rewrite app_nil_r. repeat split. lia.
    + split; [intros k Hk; destruct Hk|]. right. exists [], a. cbn. rewrite app_nil_r. repeat split.
  - destruct args as [|a args]; cbn in H.
    + injection H as <- <-. split; [intros k' []|]. left. cbn. rewrite app_nil_r. repeat split. lia.
    + destruct (amem k kw) eqn:A; [discriminate|]. apply IH in H as [Hn Hc]. split.
      * cbn [length firstn]. intros k' [<-|I]; [now apply amem_false|]. intros I2. apply (Hn k' I).
        rewrite dom_app. apply in_or_app. now left.
      * destruct Hc as [[-> [L ->]]|[pre [y [-> [-> [L ->]]]]]].
        { left. cbn [length combine]. rewrite <- app_assoc. repeat split. lia. }
        { right. exists (a :: pre), y. cbn [length combine app]. rewrite <- app_assoc. repeat split. lia. }
Qed.

Lemma length_combine_eq {A B} (l : list A) (r : list B) : length r <= length l -> length (combine l r) = length r.
Proof. intros H. rewrite combine_length. lia. Qed.

(* strict (repaired) reading of Distribution.logd on a conditional distribution *)
Lemma dist_cond_Some strict (d : dist) (args : list val) (kw : asg) v :
  wf_dist d -> NoDup (dom kw) -> dfree d <> [] ->
  strict = true \/ kw = [] \/ length args <= length (dfree d) ->
  dist_logd strict d args kw = Some v -> call_complete (dparams d) args kw.
Proof.
  intros W NDk NE G H. unfold dist_logd in H. replace (is_cond d) with true in H by (symmetry; now apply is_cond_true).
  destruct (dparse (dfree d) args kw) as [[kw' main]|] eqn:EP; [|discriminate].
  destruct (dparse_Some _ (NoDup_dfree d W) args kw kw' main EP) as [Hn Hc].
  destruct ((length kw' + match main with Some _ => 1 | None => 0 end <? length (dfree d) + 1)%nat) eqn:E1; [discriminate|].
  destruct (forallb (fun v => amem v kw') (dfree d)) eqn:E2; [|discriminate]. cbn [negb] in H.
  destruct Hc as [[-> [L ->]]|[pre [y [-> [-> [L ->]]]]]].
  - (* main parameter by keyword *)
    set (kw' := kw ++ combine (dfree d) args) in *.
    destruct (filter (fun kx => negb (mem (fst kx) (dfree d))) kw') as [|p mk] eqn:EM; [discriminate|].
    rewrite <- EM in H.
    destruct (keys_ok (filter (fun kx => negb (mem (fst kx) (dfree d))) kw') [dname d]) eqn:K; [|discriminate].
    apply keys_ok_iff in K; [|constructor; [intros [] | constructor]]. destruct K as [_ KI].
    assert (NDk' : NoDup (dom kw')).
    { unfold kw'. rewrite dom_app, dom_combine by assumption. apply NoDup_app_iff. split; [assumption|]. split.
      - pose proof (NoDup_dfree d W) as Q. rewrite <- (firstn_skipn (length args) (dfree d)) in Q.
        now apply NoDup_app_iff in Q.
      - intros k I1 I2. exact (Hn k I2 I1). }
    assert (DF : forall k, In k (dom (filter (fun kx => negb (mem (fst kx) (dfree d))) kw')) <->
                           In k (dom kw') /\ ~ In k (dfree d)).
    { intros k. unfold dom. rewrite !in_map_iff. split.
      - intros [[k0 x0] [<- I]]. apply filter_In in I as [I Q]. cbn in *. apply negb_true_iff, mem_false in Q.
        split; [exists (k0, x0); now split | assumption].
      - intros [[[k0 x0] [<- I]] Q]. exists (k0, x0). split; [reflexivity|]. apply filter_In. split; [assumption|].
        cbn. now apply negb_true_iff, mem_false. }
    split; [unfold dparams; rewrite app_length; cbn; lia|].
    assert (FN : firstn (length args) (dparams d) = firstn (length args) (dfree d)).
    { unfold dparams. rewrite firstn_app. replace (length args - length (dfree d)) with 0 by lia.
      cbn. now rewrite app_nil_r. }
    assert (CB : combine (dparams d) args = combine (dfree d) args).
    { unfold dparams. clear - L. revert args L. induction (dfree d) as [|k r IH]; intros [|a args] L; cbn in *; try reflexivity; try lia.
      f_equal. apply IH. lia. }
    split; [now rewrite FN|]. rewrite CB. fold kw'. split; [assumption|].
    intros k. unfold dparams. rewrite in_app_iff. split.
    + intros I. destruct (in_dec Nat.eq_dec k (dfree d)) as [Q|Q]; [now left | right].
      apply KI, DF. now split.
    + intros [I|[<-|[]]].
      * rewrite forallb_forall in E2. apply amem_In, E2, I.
      * assert (In (dname d) [dname d]) as Q by now left. apply KI, DF in Q. tauto.
  - (* main parameter by position: the strict reading refuses any keyword beyond the conditioning variables *)
    assert (kw = []) as ->.
    { destruct G as [->|[->|G]]; [|reflexivity | rewrite app_length in G; cbn in G; lia].
      cbn [andb] in H.
      destruct (length (kw ++ combine (dfree d) pre) =? length (dfree d))%nat eqn:E3; cbn [negb] in H; [|discriminate].
      apply Nat.eqb_eq in E3. rewrite app_length, length_combine_eq in E3 by lia.
      destruct kw; [reflexivity | cbn in E3; lia]. }
    apply cc_pos; [now apply NoDup_dparams|]. unfold dparams. rewrite !app_length. cbn. lia.
Qed.

(* the code as it stands does not have this property (the finding): witness in Props *)

(* the class on which the code as it stands does NOT refuse: a conditional distribution evaluated
   with its main parameter by position together with keywords *)
Definition main_positional_with_keywords (o : obj) (args : list val) (kw : asg) : Prop :=
  exists d, o = OD (D d) /\ dfree d <> [] /\ length args = length (dfree d) + 1 /\ kw <> [].

Lemma dens_logd_Some strict (f : dens) (args : list val) (kw : asg) v :
  wf_dens f -> NoDup (dom kw) ->
  strict = true \/ ~ main_positional_with_keywords (OD f) args kw ->
  dens_logd strict f args kw = Some v -> call_complete (dens_params f) args kw.
Proof.
  destruct f as [d|d x|n ev]; cbn [wf_dens dens_logd dens_params].
  - intros [W _] ND G H. destruct (dfree d) as [|v0' r0] eqn:F.
    + now apply (dist_noncond_Some strict d args kw v F).
    + apply (dist_cond_Some strict d args kw v W ND); [rewrite F; discriminate | | assumption].
      destruct G as [->|G]; [now left | right].
      destruct kw as [|p kw]; [now left | right].
      destruct (le_lt_dec (length args) (length (dfree d))) as [Q|Q]; [assumption|]. exfalso.
      assert (HP : exists kw' main, dparse (dfree d) args (p :: kw) = Some (kw', main)).
      { unfold dist_logd in H. replace (is_cond d) with true in H by (symmetry; apply is_cond_true; rewrite F; discriminate).
        destruct (dparse (dfree d) args (p :: kw)) as [[kw' main]|]; [eauto | discriminate]. }
      destruct HP as [kw' [main EP]].
      assert (NDf : NoDup (dfree d)) by now apply NoDup_dfree.
      destruct (dparse_Some _ NDf args (p :: kw) kw' main EP) as [_ [[_ [L _]]|[pre [y [_ [-> [L _]]]]]]]; [lia|].
      apply G. exists d. split; [reflexivity|]. split; [rewrite F; discriminate|].
      split; [rewrite app_length; cbn; lia | discriminate].
  - intros [W _] _ _ H. now apply (lik_logd_Some d x args kw v W).
  - intros _ _ _ H. destruct args; [|discriminate]. destruct kw; [|discriminate].
    apply cc_kw; [constructor | reflexivity].
Qed.

Lemma obj_logd_Some vsplit strict o (args : list val) (kw : asg) v :
  wf_obj o -> NoDup (dom kw) -> (forall J, o <> OJ FStacked J) ->
  strict = true \/ ~ main_positional_with_keywords o args kw ->
  obj_logd vsplit strict o args kw = Some v -> call_complete (obj_params o) args kw.
Proof.
  destruct o as [fl J|ld x pr c|f]; cbn [wf_obj obj_logd obj_params]; intros W ND NS G H.
  - destruct fl; [now apply (jlogd_Some J args kw v) | now apply (jlogd_Some J args kw v) | now elim (NS J)].
  - now apply (post_logd_Some strict ld x pr c args kw v).
  - now apply (dens_logd_Some strict f args kw v).
Qed.

(* the stacked object takes exactly one positional argument (no keywords) *)
Lemma stacked_call_Some vsplit (J : list dens) (args : list val) (kw : asg) v :
  stacked_call vsplit J args kw = Some v ->
  exists x, ((args = [x] /\ kw = []) \/ (args = [] /\ kw = [(stacked_key, x)])) /\
            jlogd_kw J (combine (jparams J) (vsplit (jdims J) x)) = Some v.
Proof.
  unfold stacked_call. destruct args as [|x [|y r]].
  - destruct kw as [|[k x] [|q kw]]; try discriminate.
    destruct (Nat.eqb k stacked_key) eqn:E; [|discriminate]. apply Nat.eqb_eq in E. subst k. eauto.
  - destruct kw; [|discriminate]. eauto.
  - discriminate.
Qed.

(* what "names every parameter exactly once" excludes *)
Lemma call_complete_cases ps (args : list val) (kw : asg) :
  call_complete ps args kw ->
  length args <= length ps /\
  (forall k, In k (dom kw) -> In k ps /\ ~ In k (firstn (length args) ps)) /\
  (forall v, In v ps -> In v (dom kw) \/ In v (firstn (length args) ps)).
Proof.
  intros [L [Hn [ND C]]]. split; [assumption|]. rewrite dom_app, dom_combine in * by assumption. split.
  - intros k Ik. split; [apply C, in_or_app; now left | intros I; exact (Hn k I Ik)].
  - intros v Hv. apply C in Hv. now apply in_app_or in Hv.
Qed.

End Proofs.

(* ---------------- slots: order of the conditioning variables ---------------- *)
Lemma filter_comm {A} (p q : A -> bool) l : filter p (filter q l) = filter q (filter p l).
Proof. rewrite !filter_filter. apply filter_ext. intros a. apply andb_comm. Qed.

Lemma dedup_filter (p : var -> bool) l : dedup (filter p l) = filter p (dedup l).
Proof.
  induction l as [|x r IH]; cbn; [reflexivity|]. destruct (p x) eqn:Px; cbn.
  - rewrite IH. f_equal. apply filter_comm.
  - rewrite IH, filter_filter. apply filter_ext_in. intros y _.
    destruct (Nat.eqb y x) eqn:E; cbn; [|reflexivity]. apply Nat.eqb_eq in E. now subst.
Qed.

Lemma flat_map_filter {A} (g : A -> list var) (h : A -> A) (p : var -> bool) l :
  (forall a, g (h a) = filter p (g a)) -> flat_map g (map h l) = filter p (flat_map g l).
Proof.
  intros H. induction l as [|a l IH]; cbn; [reflexivity|]. now rewrite filter_app, H, IH.
Qed.

Lemma cond_vars_bind (keys : list var) (ss : list slot) :
  cond_vars (map (bind_slot keys) ss) = filter (fun v => negb (mem v keys)) (cond_vars ss).
Proof.
  unfold cond_vars. rewrite filter_app. f_equal.
  - apply flat_map_filter. intros [|v|a]; cbn; try reflexivity.
    + destruct (mem v keys); reflexivity.
    + destruct (filter (fun v => negb (mem v keys)) a); reflexivity.
  - rewrite <- dedup_filter. f_equal. apply flat_map_filter. intros [|v|a]; cbn; try reflexivity.
    + destruct (mem v keys); reflexivity.
    + destruct (filter (fun v => negb (mem v keys)) a) eqn:E; reflexivity.
Qed.

(* a distribution built from its slots and conditioned: its free variables are those of the bound slots *)
Lemma dfree_mk_dist {val M} name dim ss attrs c f (kw : list (var * val)) :
  dfree (dist_bind (@mk_dist val M name dim ss attrs c f) kw) = cond_vars (map (bind_slot (dom kw)) ss).
Proof.
  rewrite cond_vars_bind, dfree_bind.
  assert (dfree (@mk_dist val M name dim ss attrs c f) = cond_vars ss) as ->; [|reflexivity].
  unfold dfree, mk_dist. cbn [dvars dbound]. apply filter_all. reflexivity.
Qed.

(* ---------------- the stacked view ---------------- *)
Lemma firstn_length_app {A} (v r : list A) : firstn (length v) (v ++ r) = v.
Proof. induction v; cbn; [reflexivity | now f_equal]. Qed.
Lemma skipn_length_app {A} (v r : list A) : skipn (length v) (v ++ r) = r.
Proof. induction v; cbn; [reflexivity | assumption]. Qed.

Lemma split_at_concat {A} (vals : list (list A)) : split_at (map (@length A) vals) (concat vals) = vals.
Proof.
  induction vals as [|v [|w r] IH]; cbn [map concat split_at].
  - reflexivity.
  - now rewrite app_nil_r.
  - rewrite firstn_length_app, skipn_length_app. f_equal. exact IH.
Qed.

Lemma stacked_ok {A M} (J : list (dens (list A) M)) (vals : list (list A)) :
  map (@length A) vals = jdims J -> stacked_logd J (concat vals) = jlogd_kw J (combine (jparams J) vals).
Proof. intros H. unfold stacked_logd. now rewrite <- H, split_at_concat. Qed.

(* ---------------- positional call of a conditional distribution ---------------- *)
Section DistPositional.
Variable val : Type.
Variable M : Mon.
Notation asg := (list (var * val)).

Lemma dparse_ok cond : NoDup cond -> forall (pre : list val) (kw : asg) y,
  length pre = length cond -> (forall k, In k cond -> ~ In k (dom kw)) ->
  dparse cond (pre ++ [y]) kw = Some (kw ++ combine cond pre, Some y).
Proof.
  induction 1 as [|k cond N ND IH]; intros [|a pre] kw y L Hn; cbn in *; try lia.
  - now rewrite app_nil_r.
  - assert (amem k kw = false) as -> by (apply amem_false, Hn; now left).
    rewrite IH; [now rewrite <- app_assoc | lia |].
    intros k' I. rewrite dom_app. intros I2. apply in_app_or in I2 as [I2|[<-|[]]].
    + apply (Hn k'); [now right | assumption].
    + contradiction.
Qed.

Lemma dist_cond_positional strict (d : dist val M) (pre : list val) y :
  wf_dist val M d -> dfree d <> [] -> length pre = length (dfree d) ->
  dist_logd strict d (pre ++ [y]) [] = dens_logd_kw (D d) (combine (dfree d) pre ++ [(dname d, y)]).
Proof.
  intros W NE L. pose proof (NoDup_dfree val M d W) as NDf.
  assert (DC : dom (combine (dfree d) pre) = dfree d).
  { rewrite dom_combine by lia. rewrite L. apply firstn_all. }
  unfold dist_logd. replace (is_cond d) with true by (symmetry; now apply is_cond_true).
  rewrite (dparse_ok (dfree d) NDf pre [] y L) by (intros k _ []). cbn [app].
  rewrite combine_length, L, Nat.min_id.
  replace (length (dfree d) + 1 <? length (dfree d) + 1)%nat with false by (symmetry; apply Nat.ltb_irrefl).
  assert (forallb (fun v => amem v (combine (dfree d) pre)) (dfree d) = true) as ->.
  { apply forallb_forall. intros v Hv. apply amem_In. now rewrite DC. }
  rewrite Nat.eqb_refl. cbn [negb]. rewrite andb_false_r.
  unfold dens_logd_kw. cbn [dens_params dens_val].
  assert (keys_ok (combine (dfree d) pre ++ [(dname d, y)]) (dparams d) = true) as ->.
  { apply keys_ok_iff; [now apply NoDup_dparams|]. unfold complete. rewrite dom_app, DC. cbn.
    split; [now apply (NoDup_dparams val M d W) | intros v; reflexivity]. }
  rewrite lookup_app.
  assert (lookup (dname d) (combine (dfree d) pre) = None) as ->.
  { apply lookup_None. rewrite DC. now apply name_notin_dfree. }
  cbn [lookup]. rewrite Nat.eqb_refl. apply dist_eval_ext. intros v Hv. rewrite lookup_app.
  destruct (In_lookup val v (combine (dfree d) pre)) as [z ->]; [now rewrite DC | reflexivity].
Qed.

(* a keyword-only call through the general entry point is the keyword model *)
Lemma lik_keyword (d : dist val M) x (kw : asg) :
  wf_dist val M d -> kw <> [] -> lik_logd d x [] kw = dens_logd_kw (L d x) kw.
Proof.
  intros W NE. unfold lik_logd, dens_logd_kw. cbn [dens_params dens_val]. destruct kw as [|p kw]; [congruence|].
  cbv beta iota zeta. remember (p :: kw) as e eqn:He. clear He NE p kw.
  destruct (keys_ok e (dfree d)) eqn:K; [|reflexivity].
  pose proof (NoDup_dfree val M d W) as NDf.
  apply (keys_ok_iff val) in K; [|assumption]. destruct K as [NDk KI].
  destruct (lookup_all_Some val (dfree d) e) as [a Ea]; [intros v Hv; now apply KI|]. rewrite Ea.
  assert (LA : length a = length (dfree d)).
  { clear - Ea. revert a Ea. induction (dfree d) as [|v r IH]; intros a Ea; cbn [lookup_all] in Ea.
    - injection Ea as <-. reflexivity.
    - destruct (lookup v e); [|discriminate]. destruct (lookup_all r e); [|discriminate].
      injection Ea as <-. cbn. f_equal. now apply IH. }
  rewrite LA, Nat.eqb_refl.
  rewrite (dist_eval_ext val M d (combine (dfree d) a) e x); [reflexivity|].
  intros v Hv. clear - Ea NDf Hv. revert a Ea NDf Hv.
  induction (dfree d) as [|w r IH]; intros a Ea NDf Hv; cbn [lookup_all] in Ea; [destruct Hv|].
  destruct (lookup w e) as [xw|] eqn:Ew; [|discriminate].
  destruct (lookup_all r e) as [xs|] eqn:Er; [|discriminate]. injection Ea as <-.
  inversion NDf as [|? ? N ND]; subst. cbn [combine lookup].
  destruct (Nat.eqb v w) eqn:E.
  - apply Nat.eqb_eq in E. subst. now rewrite Ew.
  - destruct Hv as [->|Hv]; [rewrite Nat.eqb_refl in E; discriminate|]. now apply (IH xs).
Qed.
End DistPositional.

(* ---------------- the order of summation (no monoid law is used) ---------------- *)
Section Order.
Variable val : Type.
Variable M : Mon.
Notation asg := (list (var * val)).

(* JointDistribution.logd: logd = 0; logd += factor.logd(...) over the factors in their order *)
Lemma jlogd_kw_order (J : list (dens val M)) (a : asg) :
  wf val M J ->
  jlogd_kw J a = if keys_ok a (jparams J)
                 then fold_left oadd (map (fun f => dens_val f a) J) (Some (mzero M)) else None.
Proof.
  intros W. unfold jlogd_kw. destruct (keys_ok a (jparams J)) eqn:K; [|reflexivity].
  unfold osum. f_equal. apply map_ext_in. intros f Hf.
  pose proof (NoDup_jparams val M J W) as NDJ. destruct W as [_ [WD WI]]. rewrite Forall_forall in WD, WI.
  pose proof (NoDup_dens_params val M f (WD f Hf)) as NDf.
  unfold dens_logd_kw.
  assert (keys_ok (restrict a (dens_params f)) (dens_params f) = true) as ->.
  { apply keys_ok_iff; [assumption|]. eapply complete_restrict; [|apply (WI f Hf)].
    apply keys_ok_iff; [exact NDJ | exact K]. }
  apply dens_val_ext. intros v Hv. apply lookup_restrict. now apply mem_In.
Qed.

(* reduction to a single Distribution: its own _constant + (0 + e1 + e2 + ...) *)
Lemma reduce_distribution fl (J : list (dens val M)) :
  wf val M J -> length (filter isD J) = 1 -> filter isL J = [] ->
  exists d, In (D d) J /\ reduce fl J = Some (OD (D (add_const d (evsum J)))).
Proof.
  intros W HD HL. unfold reduce. rewrite HL.
  destruct (filter isD J) as [|fd [|fd2 rd]] eqn:ED; try discriminate.
  assert (In fd (filter isD J)) as I by (rewrite ED; now left).
  apply filter_In_isD in I as [d [-> Id]]. exists d. split; [assumption | reflexivity].
Qed.
End Order.

(* ---------------- BayesianProblem views and the stacked object ---------------- *)
Section Views.
Variable val : Type.
Variable M : Mon.
Notation asg := (list (var * val)).

Lemma problem_views ld data pr (c : car M) (x : val) :
  wf_obj val M (OP ld data pr c) ->
  obj_view 0 (OP ld data pr c) = Some (OD (L ld data)) /\
  obj_view 1 (OP ld data pr c) = Some (OD (D pr)) /\
  obj_logd_kw (OP ld data pr c) [(dname pr, x)] =
    oadd (oadd (obj_logd_kw (OD (L ld data)) [(dname pr, x)]) (obj_logd_kw (OD (D pr)) [(dname pr, x)])) (Some c).
Proof.
  intros [Fpr [Fld _]]. split; [reflexivity | split; [reflexivity|]].
  assert (DP : dparams pr = [dname pr]) by (unfold dparams; now rewrite Fpr).
  cbn [obj_logd_kw]. unfold dens_logd_kw. cbn [dens_params]. rewrite DP, Fld.
  unfold keys_ok. cbn. now rewrite Nat.eqb_refl.
Qed.

Lemma stacked_object vsplit strict fl (J : list (dens val M)) (x : val) (vals : list val) :
  wf val M J -> vsplit (jdims J) x = vals ->
  obj_stack (OJ fl J) = Some (OJ FStacked J) /\
  obj_logd vsplit strict (OJ FStacked J) [x] [] = obj_logd_kw (OJ FStacked J) (combine (jparams J) vals).
Proof.
  intros W <-. split; [|reflexivity]. cbn. now rewrite (wf_init_ok val M J W).
Qed.
End Views.

(* ---------------- re-assembly and user-built posteriors ---------------- *)
Section Reassembly.
Variable val : Type.
Variable M : Mon.
Hypothesis ML : MonLaws M.
Notation asg := (list (var * val)).

(* a reduced (non-conditional) Distribution, with whatever constant it carries, is a well-formed
   one-factor joint, and that joint evaluates like the distribution *)
Lemma join_single (d : dist val M) :
  wf_dens val M (D d) -> dfree d = [] ->
  obj_join [Some (OD (D d))] = Some (OJ FJoint [D d]) /\ wf val M [D d] /\
  forall a : asg, jlogd_kw [D d] a = dens_logd_kw (D d) a.
Proof.
  intros W F. assert (DP : dparams d = [dname d]) by (unfold dparams; now rewrite F).
  assert (WJ : wf val M [D d]).
  { split; [cbn; constructor; [intros [] | constructor]|]. split; [now constructor|].
    constructor; [|constructor]. cbn. rewrite DP. apply incl_refl. }
  split; [|split; [exact WJ|]].
  - unfold obj_join. cbn [map map_opt]. now rewrite (wf_init_ok val M _ WJ).
  - intros a. rewrite (jlogd_kw_val val M ML _ a WJ). unfold jval, dens_logd_kw. cbn [map jparams filter isD dens_name dens_params].
    rewrite DP. destruct (keys_ok a [dname d]); [|reflexivity]. rewrite osumR_cons. apply (oadd_0_r M ML).
Qed.

(* any well-formed list of single densities of a history can be re-assembled *)
Lemma join_wf (fs : list (dens val M)) :
  wf val M fs -> obj_join (map (fun f => Some (OD f)) fs) = Some (OJ FJoint fs).
Proof.
  intros W. unfold obj_join.
  assert (map_opt (fun o => match o with Some (OD f) => Some f | _ => None end) (map (fun f => Some (OD f)) fs) = Some fs) as ->.
  { clear W. induction fs as [|f fs IH]; cbn; [reflexivity | now rewrite IH]. }
  now rewrite (wf_init_ok val M fs W).
Qed.

(* Posterior(likelihood, prior) built by the user = what the joint's reduction builds from the same
   two factors (no evaluated factor: constant 0) *)
Lemma mkpost_reduce (ld pr : dist val M) (data : val) :
  wf val M [L ld data; D pr] ->
  obj_mkpost (OD (L ld data)) (OD (D pr)) = Some (OP ld data pr (mzero M)) /\
  reduce FJoint [L ld data; D pr] = Some (OP ld data pr (mzero M)) /\
  wf_obj val M (OP ld data pr (mzero M)).
Proof.
  intros W.
  destruct (single_dist val M [L ld data; D pr] pr W eq_refl) as [Fpr [_ LP]].
  pose proof (LP ld data (or_introl eq_refl)) as Fld.
  assert (R : reduce FJoint [L ld data; D pr] = Some (OP ld data pr (mzero M))).
  { unfold reduce. cbn. rewrite Fld. unfold dparams. rewrite Fpr. cbn. rewrite set_eqb_single. cbn.
    unfold is_cond. now rewrite Fpr. }
  split; [|split; [exact R|]].
  - unfold obj_mkpost. rewrite Fld. unfold is_cond. now rewrite Fpr.
  - destruct (reduce_spec val M ML FJoint _ _ W R) as [_ [WO _]]. exact WO.
Qed.
End Reassembly.

(* ---------------- the general entry point with keywords only = the keyword layer ---------------- *)
Section DirectCalls.
Variable val : Type.
Variable M : Mon.
Notation asg := (list (var * val)).

Lemma restrict_all (kw : asg) ps : incl (dom kw) ps -> restrict kw ps = kw.
Proof.
  intros H. unfold restrict. apply filter_all. intros [k x] I. apply mem_In, H.
  unfold dom. apply in_map_iff. exists (k, x). now split.
Qed.

Lemma attrs_ok_params (d : dist val M) (kw : asg) :
  ~ In (dname d) (dattrs d) -> incl (dom kw) (dparams d) -> attrs_ok d kw = true.
Proof.
  intros N H. unfold attrs_ok. apply forallb_forall. intros k Hk. apply H in Hk.
  unfold dparams in Hk. apply in_app_or in Hk as [I|[<-|[]]].
  - apply orb_true_iff. right. now apply mem_In.
  - apply orb_true_iff. left. apply negb_true_iff. now apply mem_false.
Qed.

Lemma dparse_nil (c : list var) (kw : asg) : dparse c [] kw = Some (kw, None).
Proof. destruct c; reflexivity. Qed.
Lemma jparse_nil (c : list var) (kw : asg) : jparse c [] kw = Some kw.
Proof. destruct c; reflexivity. Qed.

(* a direct call  density(keywords)  over current parameters does what the joint does to that factor *)
Lemma dens_cond_kw (f : dens val M) (kw : asg) :
  (match f with D d => ~ In (dname d) (dattrs d) | _ => True end) ->
  incl (dom kw) (dens_params f) ->
  dens_cond f [] kw = cond_dens f (restrict kw (dens_params f)).
Proof.
  intros N H. rewrite (restrict_all kw _ H). destruct f as [d|d x|n ev]; cbn [dens_cond cond_dens dparse dens_params] in *.
  - rewrite dparse_nil, (attrs_ok_params d kw N H). cbn [negb].
    destruct (lookup (dname d) kw) as [x|] eqn:EL; [reflexivity|].
    assert (forallb (fun k => mem k (dfree d)) (dom kw) = true) as ->; [|reflexivity].
    apply forallb_forall. intros k Hk. apply mem_In. pose proof (H k Hk) as I.
    unfold dparams in I. apply in_app_or in I as [I|[<-|[]]]; [assumption|].
    exfalso. apply (proj1 (lookup_None val (dname d) kw) EL Hk).
  - rewrite dparse_nil.
    assert (forallb (fun k => mem k (dfree d)) (dom kw) = true) as ->; [|reflexivity].
    apply forallb_forall. intros k Hk. now apply mem_In, H.
  - reflexivity.
Qed.

Lemma post_logd_strict_irrelevant s1 s2 (ld : dist val M) data pr c x :
  dfree pr = [] -> post_logd s1 ld data pr c [x] [] = post_logd s2 ld data pr c [x] [].
Proof.
  intros F. unfold post_logd. cbv beta zeta iota. unfold dist_logd, is_cond. rewrite F. reflexivity.
Qed.

Lemma obj_cond_keywords pnamed strict (o : obj val M) (kw : asg) :
  wf_obj val M o ->
  (match o with OD (D d) => ~ In (dname d) (dattrs d) | _ => True end) ->
  incl (dom kw) (obj_params o) ->
  obj_cond pnamed strict o [] kw = obj_cond_kw pnamed o kw.
Proof.
  intros W N H. destruct o as [fl J|ld x pr c|f]; cbn [obj_cond obj_cond_kw obj_params] in *.
  - unfold jcond. now rewrite jparse_nil.
  - destruct W as [Fpr _]. unfold post_cond.
    destruct kw as [|[k y] [|q kw]]; try reflexivity.
    now rewrite (post_logd_strict_irrelevant strict false ld x pr c y Fpr).
  - rewrite (dens_cond_kw f kw); [reflexivity | destruct f; exact N || exact I | exact H].
Qed.
End DirectCalls.
