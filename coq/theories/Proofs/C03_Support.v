(* C03 -- the NaN clause.  The executable guard of Model/C03_Support.v (the tests the gradient methods run) decides
   EXACTLY the proposition `guarded` over the reals; `guarded` implies the support `supp` on which the derivative
   theorems hold; hence: a finite vector is handed back only where it is the derivative of the log-kernel, and a point
   with one coordinate outside the support (or a non-positive parameter the family tests) yields NaN. *)
From CV Require Import Base.Tac Base.LinAlg Model.C03_GradR Model.C03_GradQ Model.C03_Support Proofs.C03_GradR.
From Coq Require Import Reals Lra QArith Qreals.
From Coquelicot Require Import Coquelicot.

Definition parR (p : qpar) : par := let '(a, b, c) := p in (Q2R a, Q2R b, Q2R c).

Open Scope R_scope.

(* what the code's test decides, per coordinate, as a proposition over the reals *)
Definition guarded (f : dfamily) (p : par) (x : R) : Prop :=
  let '(a, b, c) := p in
  match f with
  | Cauchy          => 0 < b
  | Beta            => (0 < x /\ x < 1) /\ 0 < a /\ 0 < b
  | InvGamma        => b < x /\ 0 < a /\ 0 < c
  | SmoothedLaplace => 0 < b
  | MHN             => 0 < x
  | LognormalDiag   => 0 < x
  | NormalKernel    => True
  | Uniform         => a <= x /\ x <= b
  end.

Lemma Q2R_0' : Q2R 0 = 0.
Proof. unfold Q2R. cbn. lra. Qed.
Lemma Q2R_1' : Q2R 1 = 1.
Proof. unfold Q2R. cbn. lra. Qed.

Lemma qlt_spec a b : qlt a b = true <-> Q2R a < Q2R b.
Proof.
  unfold qlt. rewrite negb_true_iff. split.
  - intros H. apply Qlt_Rlt. apply Qnot_le_lt. intros Hle. apply Qle_bool_iff in Hle. congruence.
  - intros H. destruct (Qle_bool b a) eqn:E; [|reflexivity]. apply Qle_bool_iff in E. apply Qle_Rle in E. lra.
Qed.
Lemma qle_spec a b : Qle_bool a b = true <-> Q2R a <= Q2R b.
Proof. rewrite Qle_bool_iff. split; [apply Qle_Rle | apply Rle_Qle]. Qed.

Lemma coord_finite_spec f p x : coord_finite f p x = true <-> guarded f (parR p) (Q2R x).
Proof.
  destruct p as [[a b] c]. destruct f; cbn [coord_finite guarded parR];
    rewrite ?andb_true_iff, ?qlt_spec, ?qle_spec, ?Q2R_0', ?Q2R_1'; tauto.
Qed.

Lemma forallb2_Forall2 {A B} (t : A -> B -> bool) (Pr : A -> B -> Prop) :
  (forall a b, t a b = true <-> Pr a b) -> forall l l', forallb2 t l l' = true <-> Forall2 Pr l l'.
Proof.
  intros Ht. induction l as [|a l IH]; intros [|b l']; cbn.
  - split; [constructor | reflexivity].
  - split; [discriminate | intros H; inversion H].
  - split; [discriminate | intros H; inversion H].
  - rewrite andb_true_iff, Ht, IH. split; [intros [H1 H2]; constructor; assumption | intros H; inversion H; subst; tauto].
Qed.

Lemma Forall2_map {A B A' B'} (fa : A -> A') (fb : B -> B') (Pr : A' -> B' -> Prop) : forall l l',
  Forall2 (fun a b => Pr (fa a) (fb b)) l l' <-> Forall2 Pr (map fa l) (map fb l').
Proof.
  induction l as [|a l IH]; intros [|b l']; cbn; split; intros H; try (inversion H; fail); try constructor;
    inversion H; subst; try assumption; apply IH; assumption.
Qed.

(* the guard decides `guarded` on every coordinate (parameters broadcast as numpy does) *)
Theorem sep_guard_spec f a b c xs :
  sep_guard f a b c xs = true <-> Forall2 (guarded f) (map parR (qparams (length xs) a b c)) (map Q2R xs).
Proof.
  unfold sep_guard. rewrite <- Forall2_map. apply forallb2_Forall2. intros p x. apply coord_finite_spec.
Qed.

(* `guarded` is the support of the derivative theorems, except: SmoothedLaplace's smoothing constant beta is not tested
   by the code (supp asks beta > 0), and Uniform's test is the CLOSED box (supp is its interior) *)
Lemma guarded_supp f p x : guarded f p x ->
  (f = SmoothedLaplace -> 0 < snd p) -> (f = Uniform -> fst (fst p) <> x /\ x <> snd (fst p)) -> supp f p x.
Proof.
  destruct p as [[a b] c]. destruct f; cbn [guarded supp fst snd]; intros H Hs Hu; try tauto.
  - split; [apply Hs; reflexivity | lra].
  - destruct (Hu eq_refl). lra.
Qed.

Definition strict_family (f : dfamily) : bool :=
  match f with SmoothedLaplace | Uniform => false | _ => true end.

Lemma guarded_supp_strict f p x : strict_family f = true -> guarded f p x -> supp f p x.
Proof. intros Hf H. apply guarded_supp; [exact H | |]; intros ->; discriminate Hf. Qed.

(* the real-valued parameter table of the derivative theorems is the image of the rational one *)
Lemma map_repeat' {A B} (g : A -> B) (a : A) n : map g (repeat a n) = repeat (g a) n.
Proof. induction n as [|n IH]; cbn; [reflexivity | f_equal; exact IH]. Qed.
Lemma bcast_map n (p : list Q) : bcast n (map Q2R p) = map Q2R (qbc n p).
Proof. destruct p as [|a [|b p]]; cbn; try reflexivity. symmetry. apply map_repeat'. Qed.

Lemma zip3_map : forall a b c : list Q, zip3 (map Q2R a) (map Q2R b) (map Q2R c) = map parR (qzip3 a b c).
Proof.
  induction a as [|x a IH]; intros [|y b] [|z c]; cbn; try reflexivity. f_equal. apply IH.
Qed.

Lemma params_map n (a b c : list Q) : params n (map Q2R a) (map Q2R b) (map Q2R c) = map parR (qparams n a b c).
Proof. unfold params, qparams. rewrite !bcast_map. apply zip3_map. Qed.

Lemma Forall2_len {A B} (Pr : A -> B -> Prop) l l' : Forall2 Pr l l' -> length l = length l'.
Proof. intros H. induction H; cbn; [reflexivity | f_equal; assumption]. Qed.

Lemma Forall2_impl {A B} (P1 P2 : A -> B -> Prop) : (forall a b, P1 a b -> P2 a b) ->
  forall l l', Forall2 P1 l l' -> Forall2 P2 l l'.
Proof. intros Hi l l' H. induction H; constructor; auto. Qed.

(* A FINITE VECTOR ONLY ON THE SUPPORT, AND THERE IT IS THE DERIVATIVE: whenever the guard lets the formula through
   (the model says SVec), the vector of the code's formula has <gradient, d> = derivative of the log-kernel along every
   direction d.  Families whose test coincides with the support of the derivative theorem (Cauchy, Beta, InverseGamma,
   ModifiedHalfNormal, Lognormal (diagonal), Normal kernel). *)
Theorem guard_pass_gradient_is_derivative f (a b c xs : list Q) (ds : list R) :
  strict_family f = true -> sep_kind f a b c xs = SVec -> length ds = length xs ->
  is_derive (fun t => fam_logk f (map Q2R a) (map Q2R b) (map Q2R c) (rvadd (map Q2R xs) (rvscale t ds))) 0
            (rdot (fam_grad f (map Q2R a) (map Q2R b) (map Q2R c) (map Q2R xs)) ds).
Proof.
  intros Hf Hk Hd. unfold sep_kind in Hk. destruct (sep_guard f a b c xs) eqn:Hg; [|discriminate Hk].
  apply sep_guard_spec in Hg.
  assert (Hlen : length (map Q2R xs) = length xs) by apply map_length.
  apply fam_directional_derive.
  - rewrite Hlen, params_map. rewrite (Forall2_len _ _ _ Hg). apply map_length.
  - rewrite Hlen. exact Hd.
  - rewrite Hlen, params_map. revert Hg. apply Forall2_impl. intros p x. apply guarded_supp_strict. exact Hf.
Qed.

(* SmoothedLaplace (beta > 0 not tested by the code: hypothesis) and Uniform (interior of the box) *)
Theorem guard_pass_supp_general f (a b c xs : list Q) :
  sep_kind f a b c xs = SVec ->
  (f = SmoothedLaplace -> List.Forall (fun p : par => 0 < snd p) (map parR (qparams (length xs) a b c))) ->
  (f = Uniform -> Forall2 (fun (p : par) (x : R) => fst (fst p) <> x /\ x <> snd (fst p)) (map parR (qparams (length xs) a b c)) (map Q2R xs)) ->
  Forall2 (supp f) (params (length (map Q2R xs)) (map Q2R a) (map Q2R b) (map Q2R c)) (map Q2R xs).
Proof.
  intros Hk Hs Hu. unfold sep_kind in Hk. destruct (sep_guard f a b c xs) eqn:Hg; [|discriminate Hk].
  apply sep_guard_spec in Hg. rewrite map_length, params_map.
  set (ps := map parR (qparams (length xs) a b c)) in *. set (X := map Q2R xs) in *. clearbody ps X.
  induction Hg as [|p x ps' X' Hpx Hg IH]; [constructor|]. constructor.
  - apply guarded_supp; [exact Hpx | |].
    + intros E. specialize (Hs E). apply (Forall_inv Hs).
    + intros E. specialize (Hu E). inversion Hu; subst; assumption.
  - apply IH.
    + intros E. specialize (Hs E). apply (Forall_inv_tail Hs).
    + intros E. specialize (Hu E). inversion Hu; subst; assumption.
Qed.

(* OUTSIDE THE SUPPORT: NaN.  If some coordinate fails the family's test (one x_i outside the support, or a non-positive
   parameter the family tests), the model's answer is NaN -- never a finite vector *)
Theorem outside_support_is_nan f (a b c xs : list Q) :
  ~ Forall2 (guarded f) (map parR (qparams (length xs) a b c)) (map Q2R xs) -> sep_kind f a b c xs = SNaN.
Proof.
  intros H. unfold sep_kind. destruct (sep_guard f a b c xs) eqn:Hg; [|reflexivity].
  exfalso. apply H. apply sep_guard_spec. exact Hg.
Qed.

(* one bad coordinate is enough *)
Theorem one_bad_coordinate_is_nan f (a b c xs : list Q) (i : nat) (p : qpar) (x : Q) :
  nth_error (qparams (length xs) a b c) i = Some p -> nth_error xs i = Some x ->
  ~ guarded f (parR p) (Q2R x) -> sep_kind f a b c xs = SNaN.
Proof.
  intros Hp Hx Hbad. apply outside_support_is_nan. intros HF. apply Hbad.
  apply Forall2_map in HF.
  revert i Hp Hx. induction HF as [|p0 x0 ps X H0 HF IH]; intros [|i] Hp Hx; cbn in Hp, Hx; try discriminate.
  - inversion Hp; inversion Hx; subst. exact H0.
  - exact (IH i Hp Hx).
Qed.

(* the observation check accepts a vector only when the guard passes, NaN only when it fails *)
Theorem check_support_sound f a b c xs o : check_support f a b c xs o = true ->
  match o with
  | ObsVec g => sep_guard f a b c xs = true /\ length g = length xs
  | ObsNaN => sep_guard f a b c xs = false
  | _ => False
  end.
Proof.
  unfold check_support, sep_kind. destruct (sep_guard f a b c xs); destruct o; try discriminate; intros H; try reflexivity.
  split; [reflexivity | apply Nat.eqb_eq; exact H].
Qed.

(* non-vacuity: Beta(alpha 3/2, beta 2) at (1/4, 1/2) passes, at (1/4, 1) and with alpha = 0 it does not *)
Example support_examples :
  let q (n : Z) (d : positive) : Q := Qmake n d in
  sep_kind Beta (q 3%Z 2%positive :: nil) (q 2%Z 1%positive :: nil) (q 0%Z 1%positive :: nil) (q 1%Z 4%positive :: q 1%Z 2%positive :: nil) = SVec /\
  sep_kind Beta (q 3%Z 2%positive :: nil) (q 2%Z 1%positive :: nil) (q 0%Z 1%positive :: nil) (q 1%Z 4%positive :: q 1%Z 1%positive :: nil) = SNaN /\
  sep_kind Beta (q 0%Z 1%positive :: nil) (q 2%Z 1%positive :: nil) (q 0%Z 1%positive :: nil) (q 1%Z 4%positive :: q 1%Z 2%positive :: nil) = SNaN /\
  sep_kind Uniform (q 0%Z 1%positive :: nil) (q 1%Z 1%positive :: nil) (q 0%Z 1%positive :: nil) (q 0%Z 1%positive :: q 1%Z 2%positive :: nil) = SVec.
Proof. repeat split; reflexivity. Qed.
