(* C12 -- Forward models act identically on every representation of their input.
   Property theorems only: each is closed by `exact <lemma>` and followed by Print Assumptions.
   Model: Model/C12_Model.v (cuqi.model.Model._2fun/_2par/_apply_func/forward/gradient, the Jacobian
   wrapper, PDEModel._gradient_func, forward on a distribution).  `q : quirks` selects today's behaviour
   (q_today) or the repaired one (q_fixed) of three sites; theorems hold for every q under the stated guards.

   Vocabulary: core F rg fv = fun2par_range (F fv); out_of arr rg v = v as ndarray / as
   CUQIarray(is_par=True, geometry=rg), with the 0-d flag of the range geometry;
   eq_confused q a b = the geometry comparison `a == b` misbehaves (IndexError for Discrete geometries of
   different size; KeyError when only the left object has a `gradient` attribute attached; "equal" for a
   default 1-d geometry against a StepExpansion / user Continuous1D subclass on the same grid) -- all
   only under q_today. *)
From CV Require Import Base.Tac Base.LinAlg Base.QcLin Base.Cmp Model.C12_Model Model.C12_Jac Model.C12_Pde Model.C12_Args
     Proofs.C12_Model Proofs.C12_Chain Proofs.C12_Instances Proofs.C12_Pde Proofs.C12_Deriv Proofs.C12_Unique Proofs.C12_Img Proofs.C12_Tie Proofs.C12_Args.
From Coq Require Import QArith Qcanon.

(* Parameter vector, function values flagged as such, CUQIarray carrying the domain geometry as parameters
   and as function values (whatever the is_par keyword says): the same values fun2par_range(F(par2fun p)),
   wrapped like the input.  Guard: the exact complement of the two geometry-comparison classes (only
   needed when the forward callable hands the CUQIarray subclass on to its output). *)
Theorem C12_representations_agree : forall q F rg dg p fv,
  g_par2fun dg p = Ok fv ->
  (f_keeps_tag F = true -> eq_confused q dg rg = false) ->
  forward q F rg dg (InVec p) true = rmap (out_of false rg) (core F rg fv) /\
  forward q F rg dg (InVec fv) false = rmap (out_of false rg) (core F rg fv) /\
  (forall flag, forward q F rg dg (InArr dg true p) flag = rmap (out_of true rg) (core F rg fv)) /\
  (forall flag, forward q F rg dg (InArr dg false fv) flag = rmap (out_of true rg) (core F rg fv)).
Proof. exact forward_representations_agree. Qed.
Print Assumptions C12_representations_agree.

(* with the repaired comparisons the guard is void *)
Theorem C12_representations_agree_fixed : forall F rg dg p fv,
  g_par2fun dg p = Ok fv ->
  forward q_fixed F rg dg (InVec p) true = rmap (out_of false rg) (core F rg fv) /\
  forward q_fixed F rg dg (InVec fv) false = rmap (out_of false rg) (core F rg fv) /\
  (forall flag, forward q_fixed F rg dg (InArr dg true p) flag = rmap (out_of true rg) (core F rg fv)) /\
  (forall flag, forward q_fixed F rg dg (InArr dg false fv) flag = rmap (out_of true rg) (core F rg fv)).
Proof. intros F rg dg p fv H. apply forward_representations_agree; [exact H | intros _; apply eq_confused_fixed]. Qed.
Print Assumptions C12_representations_agree_fixed.

(* a sample collection of parameters: the output collection carries the range geometry and its k-th
   column is what the k-th column gives as a single parameter vector; refused iff some column is *)
Theorem C12_samples_columnwise : forall q F rg dg cols flag outs,
  (if q_samples_par q then true else flag) = true ->
  (forward q F rg dg (InSamples false cols) flag = Ok (OutSamples rg outs) <->
   Forall2 (fun c o => forward q F rg dg (InVec c) true = Ok (out_of false rg o)) cols outs).
Proof. exact forward_samples_columnwise. Qed.
Print Assumptions C12_samples_columnwise.

(* a sample collection of function values flagged is_par=False -- only when the keyword is honoured *)
Theorem C12_samples_funvals_columnwise : forall q F rg dg s2d cols outs,
  q_samples_par q = false ->
  (forward q F rg dg (InSamples s2d cols) false = Ok (OutSamples rg outs) <->
   Forall2 (fun c o => forward q F rg dg (InVec c) false = Ok (out_of false rg o)) cols outs).
Proof. exact forward_samples_fun_columnwise. Qed.
Print Assumptions C12_samples_funvals_columnwise.

(* today's code ignores the keyword: function values [1;9;25] of a squaring geometry, F = 3x:
   single input gives [3;27;75], the same column inside Samples(is_par=False) gives [3;243;1875] *)
Theorem C12_samples_funvals_refuted :
  q_samples_par q_today = true /\
  check_out (forward q_today w3_F (g_default1d 3) w3_dg (InVec w3_f) false) (ObsVal 0 [[3#1; 27#1; 75#1]]) = true /\
  check_out (forward q_today w3_F (g_default1d 3) w3_dg (InSamples false [w3_f]) false) (ObsVal 2 [[3#1; 243#1; 1875#1]]) = true.
Proof. exact witness_samples. Qed.
Print Assumptions C12_samples_funvals_refuted.

(* inside the first excluded class: default 1-d domain, StepExpansion(6 nodes, 3 steps, max) range, F = 2x:
   the vector gives the 3 parameters [4;8;12], the CUQIarray of the same vector gives 6 values *)
Theorem C12_representations_agree_refuted_default_eq :
  eq_confused q_today w1_dg w1_rg = true /\
  check_out (forward q_today w1_F w1_rg w1_dg (InVec w1_p) true) (ObsVal 0 [[4#1; 8#1; 12#1]]) = true /\
  check_out (forward q_today w1_F w1_rg w1_dg (InArr w1_dg true w1_p) true)
            (ObsVal 1 [[2#1; 4#1; 6#1; 8#1; 10#1; 12#1]]) = true.
Proof. exact witness_defeq. Qed.
Print Assumptions C12_representations_agree_refuted_default_eq.

(* inside the second excluded class: Discrete(4) -> Discrete(3): the vector gives [0;0;7], the CUQIarray
   of the same vector raises IndexError *)
Theorem C12_representations_agree_refuted_discrete_eq :
  eq_confused q_today (g_discrete 4) (g_discrete 3) = true /\
  check_out (forward q_today w2_F (g_discrete 3) (g_discrete 4) (InVec w2_p) true) (ObsVal 0 [[0#1; 0#1; 7#1]]) = true /\
  check_out (forward q_today w2_F (g_discrete 3) (g_discrete 4) (InArr (g_discrete 4) true w2_p) true) (ObsErr EIndex) = true.
Proof. exact witness_eqidx. Qed.
Print Assumptions C12_representations_agree_refuted_discrete_eq.

(* inside the third excluded class: the same StepExpansion on both sides, `gradient` attached to the domain
   object only: the vector gives [1;2], the CUQIarray of the same vector raises KeyError *)
Theorem C12_representations_agree_refuted_attribute_eq :
  eq_confused q_today w6_dg w6_rg = true /\
  check_out (forward q_today w6_F w6_rg w6_dg (InVec (zq [1;2]%Z)) true) (ObsVal 0 [[1#1; 2#1]]) = true /\
  check_out (forward q_today w6_F w6_rg w6_dg (InArr w6_dg true (zq [1;2]%Z)) true) (ObsErr EKey) = true.
Proof. exact witness_eqkey. Qed.
Print Assumptions C12_representations_agree_refuted_attribute_eq.

(* "always expressed as parameters of the range geometry": the value is fun2par_range(...) by the theorems
   above, the wrapper carries the range geometry; its SHAPE is the parameter shape except for a
   single-step StepExpansion range (0-d array, kind 3 instead of 0), whichever state the tree is in *)
Theorem C12_output_is_range_par_refuted_0d :
  g_f2p_0d w4_rg = true /\ g_pdim w4_rg = 1%nat /\
  check_out (forward q_today w4_F w4_rg (g_default1d 3) (InVec (zq [1;2;3]%Z)) true) (ObsVal 3 [[11#2]]) = true /\
  check_out (forward q_fixed w4_F w4_rg (g_default1d 3) (InVec (zq [1;2;3]%Z)) true) (ObsVal 3 [[11#2]]) = true.
Proof. exact witness_0d. Qed.
Print Assumptions C12_output_is_range_par_refuted_0d.

(* the Jacobian wrapper: direction @ J(wrt) = J(wrt)^T direction (Model(jacobian=...), PDEModel) *)
Theorem C12_jacobian_wrapper : forall n J jt d w,
  wf_mat n (J w) -> length d = length (J w) ->
  run_gfun (GJac n J jt) false d w = Ok (qmattvec n (J w) d, true, jac_sel jt) /\
  run_gfun (GPde None (Some (n, J, jt))) false d w = Ok (qmattvec n (J w) d, true, jac_sel jt).
Proof. exact jacobian_wrapper. Qed.
Print Assumptions C12_jacobian_wrapper.

(* chain rule through a domain geometry that provides `gradient`: with JF the Jacobian of the forward map
   at par2fun(wrt) (law of the model's gradient callable) and JG the Jacobian of par2fun at wrt (law of the
   geometry's gradient), the result is (JF JG)^T direction *)
Theorem C12_gradient_chain : forall q gf rg dg gg d w wf n m (JF JG : mat) flat sel,
  has_gradient_func gf = true -> plain1d (g_cls rg) = true ->
  g_grad dg = Some gg -> g_par2fun dg w = Ok wf ->
  run_gfun gf false d wf = Ok (qmattvec n JF d, flat, sel) ->
  (forall v, length v = n -> ggrad_apply gg v w = qmattvec m JG v) ->
  wf_mat n JF -> wf_mat m JG -> length JG = n ->
  gradient q gf rg dg (GiVec d) (GiVec w) true true = Ok (OutVec (qmattvec m (qmatmul m JF JG) d) false).
Proof. exact gradient_chain. Qed.
Print Assumptions C12_gradient_chain.

(* identity-like domain geometry (no `gradient`): JF^T direction read as parameters *)
Theorem C12_gradient_identity_domain : forall q gf rg dg d w wf n (JF : mat) flat sel,
  has_gradient_func gf = true -> plain1d (g_cls rg) = true ->
  g_grad dg = None -> identity_class (g_cls dg) = true -> g_par2fun dg w = Ok wf ->
  run_gfun gf false d wf = Ok (qmattvec n JF d, flat, sel) ->
  gradient q gf rg dg (GiVec d) (GiVec w) true true =
  rmap (fun v => OutVec v (g_f2p_0d dg)) (g_fun2par_gen dg flat (qmattvec n JF d)).
Proof. exact gradient_identity_domain. Qed.
Print Assumptions C12_gradient_identity_domain.

(* the linearisation point given as a CUQIarray carrying the domain geometry (as parameters or as function
   values) gives the same gradient values as the plain parameter vector.  Guard: the exact complement of
   the tag-leak class (the gradient callable hands on wrt's subclass AND the geometry's gradient hands on
   its first argument's subclass). *)
Theorem C12_gradient_wrt_representations_agree : forall q gf rg dg d (ap : bool) x w wpflag,
  has_gradient_func gf = true -> identity_class (g_cls rg) = true ->
  (has_grad dg = true \/ identity_class (g_cls dg) = true) ->
  (if ap then Ok x else g_fun2par dg x) = Ok w ->
  (if ap then g_par2fun dg x else Ok x) = g_par2fun dg w ->
  (forall gg df wf gv flat sel, g_grad dg = Some gg -> run_gfun gf (fun_is_2d rg) df wf = Ok (gv, flat, sel) ->
     tag_leaks sel (ggrad_sel gg) = false) ->
  out_values (gradient q gf rg dg (GiVec d) (GiArr dg ap x) true wpflag) =
  out_values (gradient q gf rg dg (GiVec d) (GiVec w) true true).
Proof. exact gradient_wrt_array_agrees. Qed.
Print Assumptions C12_gradient_wrt_representations_agree.

(* inside the excluded class (today; with the tag stripped -- q_fixed -- the right values come back): domain f = 2p+1 with imap and
   gradient = direction*2, F(f) = A f^2 with gradient callable 2 wrt (A^T d): wrt = [1;2;3] as ndarray gives
   [12;20;-84], as CUQIarray gives imap of it *)
Theorem C12_gradient_wrt_representations_refuted :
  tag_leaks SelWrtDir SelDirWrt = true /\
  check_out (gradient q_today w5_gf (g_default1d 2) w5_dg (GiVec w5_d) (GiVec w5_w) true true)
            (ObsVal 0 [[12#1; 20#1; -84#1]]) = true /\
  check_out (gradient q_today w5_gf (g_default1d 2) w5_dg (GiVec w5_d) (GiArr w5_dg true w5_w) true true)
            (ObsVal 1 [[11#2; 19#2; -85#2]]) = true /\
  check_out (gradient q_fixed w5_gf (g_default1d 2) w5_dg (GiVec w5_d) (GiArr w5_dg true w5_w) true true)
            (ObsVal 1 [[12#1; 20#1; -84#1]]) = true.
Proof. exact witness_tagleak. Qed.
Print Assumptions C12_gradient_wrt_representations_refuted.

(* the gradient is refused unless it can be formed *)
Theorem C12_gradient_guard : forall q gf rg dg d w dp wp,
  (forall out, gradient q gf rg dg d w dp wp = Ok out ->
     has_gradient_func gf = true /\ gi_samples d = false /\ gi_samples w = false /\
     identity_class (g_cls rg) = true /\ (has_grad dg = true \/ identity_class (g_cls dg) = true)) /\
  (has_gradient_func gf = false \/ gi_samples d = true \/ gi_samples w = true \/
   identity_class (g_cls rg) = false \/ (has_grad dg = false /\ identity_class (g_cls dg) = false) ->
   exists e, gradient q gf rg dg d w dp wp = Err e).
Proof. intros. split; [intros out; apply gradient_guard | apply gradient_refused]. Qed.
Print Assumptions C12_gradient_guard.

(* applying a model to a distribution: a model with every attribute shared and only the argument name
   replaced (the original is a value, hence untouched); refused iff the dimensions differ; the copy
   answers to the new name only *)
Theorem C12_rename_only : forall m name dim,
  (dim = m_domain_dim m ->
   exists m', forward_dist m name dim = Ok m' /\
     m_forward_func m' = m_forward_func m /\ m_gradient_func m' = m_gradient_func m /\
     m_range m' = m_range m /\ m_domain m' = m_domain m /\ m_domain_dim m' = m_domain_dim m /\
     m_extra m' = m_extra m /\ m_args m' = [name]) /\
  (dim <> m_domain_dim m -> forward_dist m name dim = Err EValue).
Proof. exact rename_only. Qed.
Print Assumptions C12_rename_only.

Theorem C12_rename_binding : forall m name dim m',
  forward_dist m name dim = Ok m' ->
  bind_args m' 1 [] = Ok name /\ bind_args m' 0 [name] = Ok name /\
  (forall k, k <> name -> bind_args m' 0 [k] = Err EValue).
Proof. exact rename_binding. Qed.
Print Assumptions C12_rename_binding.

(* non-vacuity: a mapped domain geometry (f = 2p+1, with imap and gradient), default range, F = A f:
   the hypotheses of the agreement theorems hold and the representations give [13;26]; a gradient with a
   CUQIarray linearisation point outside the leak class *)
Example C12_example :
  g_par2fun ex_dg (zq [1;2;3]%Z) = Ok (zq [3;5;7]%Z) /\
  eq_confused q_today ex_dg (g_default1d 2) = false /\
  check_out (forward q_today ex_F (g_default1d 2) ex_dg (InVec (zq [1;2;3]%Z)) true) (ObsVal 0 [[13#1; 26#1]]) = true /\
  check_out (forward q_today ex_F (g_default1d 2) ex_dg (InArr ex_dg false (zq [3;5;7]%Z)) true) (ObsVal 1 [[13#1; 26#1]]) = true /\
  check_out (gradient q_today (GAdjMat 3 w5_A) (g_default1d 2) ex_dg (GiVec w5_d) (GiArr ex_dg true w5_w) true true)
            (ObsVal 1 [[2#1; 2#1; -6#1]]) = true.
Proof. exact example_nonvacuous. Qed.

(* ---------------------------------------------------------------------------------------------------
   Deepening round: the Jacobian laws are PROVED for the polynomial model family F(x) = A phi_F(x) + b and
   element-wise geometry maps phi_G that the correspondence runs, so the chain rule needs no assumed law.
   --------------------------------------------------------------------------------------------------- *)

(* pderiv (computed by the model, not handed over by the harness) is the derivative.  Round 3: stated at full strength --
   the remainder is ONE polynomial in h chosen before h (with `exists r` after `forall h`, as in round 2, any value
   would qualify as "derivative" for h <> 0) *)
Theorem C12_pderiv_is_derivative : forall cs x,
  exists rs, forall h, peval cs (x + h) = peval cs x + h * peval (pderiv cs) x + h * h * peval rs h.
Proof. exact pderiv_sderiv. Qed.
Print Assumptions C12_pderiv_is_derivative.

(* the direction-Jacobian product written by a user, phi'(w) * (A^T d), is the transposed Jacobian
   A diag(phi'(w)) applied to d (all sizes) *)
Theorem C12_gradient_callable_is_transposed_jacobian : forall n A dcs d w,
  wf_mat n A -> length w = n -> poly_dir n A dcs d w = qmattvec n (poly_jac A dcs w) d.
Proof. exact poly_dir_is_transposed_jacobian. Qed.
Print Assumptions C12_gradient_callable_is_transposed_jacobian.

(* (the Jacobian law of the parameter-to-output map is C12_par2out_jacobian_law below, for every geometry instance) *)

(* FULL chain rule (no assumed law): for every model of the polynomial family given by Jacobian, by
   direction-Jacobian product or as a PDE model (either attribute), every element-wise domain geometry with
   its `gradient`, every plain 1-d range geometry, all sizes: gradient = (Jacobian of the parameter-to-output
   map at wrt)^T direction *)
Theorem C12_gradient_chain_full : forall q gf rg dg n A csF csG gsel d w,
  poly_gfun gf n A csF -> elementwise_geo dg csG gsel -> plain1d (g_cls rg) = true ->
  wf_mat n A -> length w = n -> length d = length A ->
  gradient q gf rg dg (GiVec d) (GiVec w) true true =
  Ok (OutVec (qmattvec n (par2out_jac A csF csG w) d) false).
Proof. exact gradient_chain_poly. Qed.
Print Assumptions C12_gradient_chain_full.

(* the direction given as a CUQIarray carrying the range geometry (as parameters or function values, either
   flag), or as plain function values, gives the values of the plain parameter direction; together with
   C12_gradient_wrt_representations_agree the chain rule extends to these representations.  Guard: the
   geometry comparison range == domain does not misbehave (void in the repaired state). *)
Theorem C12_gradient_direction_representations_agree : forall q gf rg dg d (ap dflag : bool) w,
  has_gradient_func gf = true -> plain1d (g_cls rg) = true ->
  (has_grad dg = true \/ identity_class (g_cls dg) = true) ->
  eq_confused q rg dg = false ->
  out_values (gradient q gf rg dg (GiArr rg ap d) (GiVec w) dflag true) =
    out_values (gradient q gf rg dg (GiVec d) (GiVec w) true true) /\
  gradient q gf rg dg (GiVec d) (GiVec w) false true = gradient q gf rg dg (GiVec d) (GiVec w) true true.
Proof. exact gradient_direction_forms_agree. Qed.
Print Assumptions C12_gradient_direction_representations_agree.

(* direction AND wrt both given as CUQIarrays (each as parameters or function values, any flags), or only wrt:
   the values of the plain-vector call.  The guard is needed only while gradient hands wrt.funvals on with its
   CUQIarray tag (q_tagleak): with the tag stripped (fixes/C12_gradient_tag_strip.diff) it is void. *)
Theorem C12_gradient_array_forms_agree : forall q gf rg dg (dplain : bool) d (apd dflag : bool) x (apw wflag : bool) w,
  has_gradient_func gf = true -> plain1d (g_cls rg) = true ->
  (has_grad dg = true \/ identity_class (g_cls dg) = true) ->
  eq_confused q rg dg = false ->
  (if apw then Ok x else g_fun2par dg x) = Ok w ->
  (if apw then g_par2fun dg x else Ok x) = g_par2fun dg w ->
  (q_tagleak q = true ->
   forall gg df wf gv flat sel, g_grad dg = Some gg -> run_gfun gf (fun_is_2d rg) df wf = Ok (gv, flat, sel) ->
     (if dplain then tag_leaks sel (ggrad_sel gg) else tag_leaks_both sel (ggrad_sel gg)) = false) ->
  out_values (gradient q gf rg dg (if dplain then GiVec d else GiArr rg apd d) (GiArr dg apw x) (if dplain then true else dflag) wflag) =
  out_values (gradient q gf rg dg (GiVec d) (GiVec w) true true).
Proof. exact gradient_array_forms_agree. Qed.
Print Assumptions C12_gradient_array_forms_agree.

Theorem C12_gradient_array_forms_agree_fixed : forall gf rg dg (dplain : bool) d (apd dflag : bool) x (apw wflag : bool) w,
  has_gradient_func gf = true -> plain1d (g_cls rg) = true ->
  (has_grad dg = true \/ identity_class (g_cls dg) = true) ->
  (if apw then Ok x else g_fun2par dg x) = Ok w ->
  (if apw then g_par2fun dg x else Ok x) = g_par2fun dg w ->
  out_values (gradient q_fixed gf rg dg (if dplain then GiVec d else GiArr rg apd d) (GiArr dg apw x) (if dplain then true else dflag) wflag) =
  out_values (gradient q_fixed gf rg dg (GiVec d) (GiVec w) true true).
Proof.
  intros. apply gradient_array_forms_agree; try assumption; [apply eq_confused_fixed | intros Q; discriminate Q].
Qed.
Print Assumptions C12_gradient_array_forms_agree_fixed.

(* StepExpansion: par2fun is the linear map of the 0/1 matrix S = step_jac (node k takes the parameter of the step
   that owns it) and the step-sum gradient used with it is S^T -- for every index family that is the partition by
   `owner` (step_wf; checked by vm_compute for every StepExpansion the correspondence runs) *)
Theorem C12_step_par2fun_is_linear : forall nfun idx p, length p = length idx ->
  step_par2fun nfun idx p = qmatvec (step_jac nfun idx) p.
Proof. exact step_par2fun_is_matvec. Qed.
Print Assumptions C12_step_par2fun_is_linear.

Theorem C12_step_gradient_is_transpose : forall nfun idx v w, step_wf nfun idx = true -> length v = nfun ->
  ggrad_apply (GGStepSum idx) v w = qmattvec (length idx) (step_jac nfun idx) v.
Proof. exact step_gradient_is_transpose. Qed.
Print Assumptions C12_step_gradient_is_transpose.

(* chain rule through a StepExpansion domain with that gradient, no assumed law: (J_F(S w) S)^T direction *)
Theorem C12_gradient_chain_step : forall q gf rg dg n A csF idx pj sq d w,
  poly_gfun gf n A csF -> step_geo dg n idx pj sq -> plain1d (g_cls rg) = true ->
  step_wf n idx = true -> wf_mat n A -> length w = length idx -> length d = length A ->
  gradient q gf rg dg (GiVec d) (GiVec w) true true =
  Ok (OutVec (qmattvec (length idx)
                (qmatmul (length idx) (poly_jac A (pderiv csF) (step_par2fun n idx w)) (step_jac n idx)) d) false).
Proof. exact gradient_chain_step. Qed.
Print Assumptions C12_gradient_chain_step.

(* non-vacuity: the index family of StepExpansion(4 nodes, 2 steps) is well formed; a step geometry and a user
   geometry derived from Geometry (class KUser, own inverse) satisfy the hypotheses of the two full chain rules *)
Example C12_chain_geometries_example :
  step_wf 4 [[0;1];[2;3]]%nat = true /\
  step_geo (mkGeo KStep 2 4 (CvStep 4 [[0;1];[2;3]]%nat PMax true) None F2Base (Some (GGStepSum [[0;1];[2;3]]%nat)) 0) 4 [[0;1];[2;3]]%nat PMax true /\
  elementwise_geo (mkGeo KUser 3 3 CvId (Some (zq [1;2]%Z)) (F2Imap [qc (-1#2); qc (1#2)]) (Some (GGDiag (pderiv (zq [1;2]%Z)) SelDirWrt)) 0)
                  (zq [1;2]%Z) SelDirWrt.
Proof. repeat split. Qed.

(* an instance of a user subclass of CUQIarray carrying the domain geometry: like a CUQIarray, once the
   re-wrapping decision is made by isinstance (q_typeis = false) *)
Theorem C12_subclass_input_agrees : forall q F rg dg g ap v flag,
  q_typeis q = false -> forward q F rg dg (InSub g ap v) flag = forward q F rg dg (InArr g ap v) flag.
Proof. exact forward_subclass_agrees. Qed.
Print Assumptions C12_subclass_input_agrees.

(* today (`type(x) is CUQIarray`): right numbers [2; 7/2], but a subclass instance labelled is_par=False with the
   DOMAIN geometry where a CUQIarray input gives CUQIarray(is_par=True, range geometry) *)
Theorem C12_subclass_input_refuted :
  q_typeis q_today = true /\
  check_out (forward q_today w7_F w7_rg w7_dg (InArr w7_dg true (zq [1;2;3]%Z)) true) (ObsVal 1 [[2#1; 7#2]]) = true /\
  check_out (forward q_today w7_F w7_rg w7_dg (InSub w7_dg true (zq [1;2;3]%Z)) true) (ObsVal 7 [[2#1; 7#2]]) = true /\
  match forward q_today w7_F w7_rg w7_dg (InSub w7_dg true (zq [1;2;3]%Z)) true with
  | Ok (OutSub g ip _ _) => fields_eqb g w7_dg && negb ip | _ => false end = true.
Proof. exact witness_subclass. Qed.
Print Assumptions C12_subclass_input_refuted.

(* non-vacuity of C12_gradient_chain_full: MappedGeometry f = 2p+1 with gradient, F(f) = A f^2 *)
Example C12_chain_example :
  elementwise_geo (g_mapped 3 [1;2]%Z F2NoImap (Some (GGDiag (pderiv (zq [1;2]%Z)) SelWrtDir))) (zq [1;2]%Z) SelWrtDir /\
  poly_gfun (GDir (poly_dir 3 w5_A (pderiv (zq [0;0;1]%Z))) false SelWrtDir) 3 w5_A (zq [0;0;1]%Z) /\
  wf_mat 3 w5_A /\
  qcl_eqb (qmattvec 3 (par2out_jac w5_A (zq [0;0;1]%Z) (zq [1;2]%Z) w5_w) w5_d) (zq [12;20;-84]%Z) = true.
Proof.
  split; [repeat split|]. split; [right; left; exists SelWrtDir; reflexivity|].
  split; [repeat constructor | vm_compute; reflexivity].
Qed.

(* ===================================================================================================
   ROUND 3
   =================================================================================================== *)

(* ---- (i) the chain rule as a theorem about the instances the correspondence evaluates ---------------
   geo_jac dg w (Model/C12_Jac.v) is the Jacobian of par2fun computed BY THE MODEL for: identity-type geometries
   (Continuous1D, Discrete, int default, Image2D C-order / visual_only, Continuous2D, tuple default; with or without an
   attached gradient that multiplies by 1), element-wise geometries with their gradient (MappedGeometry, user subclasses
   of Continuous1D / Geometry: diag(phi_G'(w)), phi_G' by pderiv), StepExpansion with the step-sum gradient (0/1 matrix),
   linear expansions (KLExpansion) with the gradient K^T direction (K).  model_gfun: Model(jacobian=), Model(gradient=),
   PDEModel with gradient_wrt_parameter / jacobian_wrt_parameter / both, LinearModel(matrix), LinearModel(callables).
   No Jacobian law is a hypothesis (the hypothesis-taking general lemma remains C12_gradient_chain). *)
Theorem C12_gradient_chain_rule : forall q gf rg dg n A csF d w wf JG,
  model_gfun gf n A csF -> plain1d (g_cls rg) = true ->
  wf_mat n A -> length d = length A ->
  geo_jac dg w = Some JG -> g_par2fun dg w = Ok wf -> length wf = n ->
  gradient q gf rg dg (GiVec d) (GiVec w) true true =
  Ok (OutVec (qmattvec (length w) (qmatmul (length w) (poly_jac A (pderiv csF) wf) JG) d) false).
Proof. exact gradient_chain_rule. Qed.
Print Assumptions C12_gradient_chain_rule.

(* the value the generated cells compute with check_chain_rule and compare with the implementation's gradient *)
Theorem C12_chain_rule_value_is_gradient : forall q gf rg dg n A csF d w g,
  model_gfun gf n A csF -> plain1d (g_cls rg) = true -> wf_mat n A -> length d = length A ->
  (forall wf, g_par2fun dg w = Ok wf -> length wf = n) ->
  chain_rule_value A csF dg d w = Some g ->
  gradient q gf rg dg (GiVec d) (GiVec w) true true = Ok (OutVec g false).
Proof. exact chain_rule_value_is_gradient. Qed.
Print Assumptions C12_chain_rule_value_is_gradient.

(* geo_jac IS the Jacobian of par2fun: along every line w + t h, par2fun is wf + t (J_G h) + t^2 R(t) for all t with one
   vector R of polynomials (exactly linear, R = 0, for the identity-type, step and linear-expansion instances) *)
Theorem C12_geo_jac_is_jacobian : forall dg w wf JG,
  geo_jac dg w = Some JG -> g_par2fun dg w = Ok wf ->
  forall h, length h = length w ->
  exists c2, length c2 = length wf /\
    forall t, g_par2fun dg (qvadd w (qvscale t h)) =
              Ok (qvadd (qvadd wf (qvscale t (qmatvec JG h))) (qvscale (t * t)%Qc (pvec_eval c2 t))).
Proof. exact geo_jac_is_jacobian. Qed.
Print Assumptions C12_geo_jac_is_jacobian.

(* ... and J_F(par2fun w) J_G(w) is the Jacobian of the parameter-to-output map p |-> A phi_F(par2fun p) + b (plain range
   geometry): the matrix whose transpose C12_gradient_chain_rule says Model.gradient applies *)
Theorem C12_par2out_jacobian_law : forall n A csF b dg w wf JG,
  geo_jac dg w = Some JG -> g_par2fun dg w = Ok wf -> wf_mat n A -> length wf = n -> length b = length A ->
  forall h, length h = length w -> length (qmatvec JG h) = n ->
  exists c2, length c2 = length (poly_forward A csF b wf) /\
    forall t, par2out A csF b dg (qvadd w (qvscale t h)) =
              Ok (qvadd (qvadd (poly_forward A csF b wf) (qvscale t (qmatvec (poly_jac A (pderiv csF) wf) (qmatvec JG h))))
                        (qvscale (t * t)%Qc (pvec_eval c2 t))).
Proof. exact par2out_jacobian. Qed.
Print Assumptions C12_par2out_jacobian_law.

Theorem C12_jacobian_product_apply : forall m (JF JG : mat) h, wf_mat m JG -> length h = m ->
  qmatvec JF (qmatvec JG h) = qmatvec (qmatmul m JF JG) h.
Proof. exact jacobian_product_apply. Qed.
Print Assumptions C12_jacobian_product_apply.

(* UNIQUENESS: the three laws above determine the derivative.  A polynomial over Q that vanishes at every non-zero point is
   zero, so the linear coefficient of  F(t) = c + t a + t^2 R(t)  (all t, R a polynomial) is unique: pderiv is THE derivative,
   geo_jac(w) h is THE derivative of par2fun at w along h, J_F J_G h THE derivative of the parameter-to-output map. *)
Theorem C12_derivative_is_unique : forall (F : Qc -> Qc) c a b ra rb,
  (forall t, F t = c + t * a + t * t * peval ra t) ->
  (forall t, F t = c + t * b + t * t * peval rb t) -> a = b.
Proof. exact linear_coefficient_unique. Qed.
Print Assumptions C12_derivative_is_unique.

Theorem C12_pderiv_is_the_derivative : forall cs (f' : Qc -> Qc),
  (forall x, exists rs, forall h, peval cs (x + h) = peval cs x + h * f' x + h * h * peval rs h) ->
  forall x, f' x = peval (pderiv cs) x.
Proof. exact pderiv_is_the_derivative. Qed.
Print Assumptions C12_pderiv_is_the_derivative.

Theorem C12_geo_jac_is_the_jacobian : forall dg w wf JG h v,
  geo_jac dg w = Some JG -> g_par2fun dg w = Ok wf -> length h = length w ->
  length (qmatvec JG h) = length wf -> length v = length wf ->
  (exists c2, length c2 = length wf /\
     forall t, g_par2fun dg (qvadd w (qvscale t h)) = Ok (qvadd (qvadd wf (qvscale t v)) (qvscale (t * t)%Qc (pvec_eval c2 t)))) ->
  v = qmatvec JG h.
Proof. exact geo_jac_unique. Qed.
Print Assumptions C12_geo_jac_is_the_jacobian.

Theorem C12_par2out_jacobian_is_unique : forall n A csF b dg w wf JG h v,
  geo_jac dg w = Some JG -> g_par2fun dg w = Ok wf -> wf_mat n A -> length wf = n -> length b = length A ->
  length h = length w -> length (qmatvec JG h) = n -> length v = length A ->
  (exists c2, length c2 = length (poly_forward A csF b wf) /\
     forall t, par2out A csF b dg (qvadd w (qvscale t h)) =
               Ok (qvadd (qvadd (poly_forward A csF b wf) (qvscale t v)) (qvscale (t * t)%Qc (pvec_eval c2 t)))) ->
  v = qmatvec (poly_jac A (pderiv csF) wf) (qmatvec JG h).
Proof. exact par2out_jacobian_unique. Qed.
Print Assumptions C12_par2out_jacobian_is_unique.

(* non-vacuity: geo_jac is defined for one geometry of each instance kind (identity with a unit gradient attached, mapped
   f = 2p+1 with gradient, StepExpansion(4 nodes, 2 steps), a 3x2 linear expansion) and model_gfun holds for a matrix model *)
Example C12_chain_rule_instances_example :
  geo_jac (mkGeo KCont1D 3 3 CvId None F2Base (Some (GGDiag (pderiv (zq [0;1]%Z)) SelWrtDir)) 0) (zq [1;2;3]%Z) <> None /\
  geo_jac (g_mapped 3 [1;2]%Z F2NoImap (Some (GGDiag (pderiv (zq [1;2]%Z)) SelDirWrt))) (zq [1;2;3]%Z) <> None /\
  geo_jac (mkGeo KStep 2 4 (CvStep 4 [[0;1];[2;3]]%nat PMax false) None F2Base (Some (GGStepSum [[0;1];[2;3]]%nat)) 0) (zq [1;2]%Z) <> None /\
  geo_jac (mkGeo KStep 2 3 (CvLin (map zq [[1;0];[1;1];[0;2]]%Z) (map zq [[1;0;0];[0;0;1]]%Z)) None F2Base
                 (Some (GGMatT 2 (map zq [[1;0];[1;1];[0;2]]%Z))) 3) (zq [1;2]%Z) <> None /\
  model_gfun (GAdjMat 3 w5_A) 3 w5_A (zq [0;1]%Z) /\
  match chain_rule_value w5_A (zq [0;0;1]%Z) (g_mapped 3 [1;2]%Z F2NoImap (Some (GGDiag (pderiv (zq [1;2]%Z)) SelDirWrt))) w5_d w5_w with
  | Some g => qcl_eqb g (zq [12;20;-84]%Z) | None => false end = true.
Proof.
  split; [vm_compute; discriminate|]. split; [vm_compute; discriminate|]. split; [vm_compute; discriminate|].
  split; [vm_compute; discriminate|].
  split; [right; right; right; right; left; split; reflexivity|].
  vm_compute. reflexivity.
Qed.

(* THE GRADIENT CLAUSE IN ONE STATEMENT, about Model.forward itself: for every instance there is ONE matrix
   J = J_F(par2fun w) geo_jac(w) such that (1) Model.gradient(direction, w) = J^T direction and (2) Model.forward, applied to the
   parameter vectors of any line through w, is  forward(w) + t (J h) + t^2 R(t)  for all t (R polynomials chosen before t) -- by
   C12_derivative_is_unique no other matrix-vector product J h qualifies.  (F(x) = A phi_F(x) + b, plain range geometry.) *)
Theorem C12_gradient_is_transposed_jacobian_of_forward : forall q gf (kt : bool) rg dg n A csF b d w wf JG,
  model_gfun gf n A csF -> plain1d (g_cls rg) = true ->
  wf_mat n A -> length d = length A -> length b = length A ->
  geo_jac dg w = Some JG -> g_par2fun dg w = Ok wf -> length wf = n ->
  let J := qmatmul (length w) (poly_jac A (pderiv csF) wf) JG in
  gradient q gf rg dg (GiVec d) (GiVec w) true true = Ok (OutVec (qmattvec (length w) J d) false) /\
  forall h, length h = length w ->
    exists c2, length c2 = length A /\ forall t,
      forward q (mkFwd (poly_forward A csF b) kt) rg dg (InVec (qvadd w (qvscale t h))) true =
      Ok (OutVec (qvadd (qvadd (poly_forward A csF b wf) (qvscale t (qmatvec J h))) (qvscale (t * t)%Qc (pvec_eval c2 t))) false).
Proof. exact gradient_is_transposed_jacobian_of_forward. Qed.
Print Assumptions C12_gradient_is_transposed_jacobian_of_forward.

(* the same value for every representation of direction and linearisation point (state of today's tree, q_fixed: no guard) *)
Theorem C12_gradient_chain_rule_all_forms : forall gf rg dg n A csF (dplain : bool) d (apd dflag : bool) x (apw wflag : bool) w wf JG,
  model_gfun gf n A csF -> plain1d (g_cls rg) = true ->
  wf_mat n A -> length d = length A ->
  geo_jac dg w = Some JG -> g_par2fun dg w = Ok wf -> length wf = n ->
  (if apw then Ok x else g_fun2par dg x) = Ok w ->
  (if apw then g_par2fun dg x else Ok x) = g_par2fun dg w ->
  let g := qmattvec (length w) (qmatmul (length w) (poly_jac A (pderiv csF) wf) JG) d in
  out_values (gradient q_fixed gf rg dg (if dplain then GiVec d else GiArr rg apd d) (GiArr dg apw x)
                       (if dplain then true else dflag) wflag) = Ok [g] /\
  out_values (gradient q_fixed gf rg dg (GiArr rg apd d) (GiVec w) dflag true) = Ok [g] /\
  gradient q_fixed gf rg dg (GiVec d) (GiVec w) false true = Ok (OutVec g false).
Proof. exact gradient_chain_rule_all_forms. Qed.
Print Assumptions C12_gradient_chain_rule_all_forms.

(* "wrapped like the input", gradient: whenever a value comes back for a CUQIarray direction it is a CUQIarray carrying the
   model's domain geometry (every model kind, geometry, representation of wrt, flag and state q) *)
Theorem C12_gradient_wrapped_like_direction : forall q gf rg dg direction wrt dp wp out,
  gradient q gf rg dg direction wrt dp wp = Ok out -> gi_is_arr direction = true ->
  exists v z, out = OutArr dg v z.
Proof. exact gradient_wrapped_like_direction. Qed.
Print Assumptions C12_gradient_wrapped_like_direction.

(* what the conjuncts of the generated cells establish: check_chain_rule = true gives the hypotheses of
   C12_chain_rule_value_is_gradient with the OBSERVED gradient as value; pde_ops_ok = true gives the hypothesis of C12_pde_case_forward *)
Theorem C12_check_chain_rule_sound : forall A csF dg d w obs,
  check_chain_rule false A csF dg d w obs = true -> chain_rule_value A csF dg d w = Some (qvec obs).
Proof. exact check_chain_rule_sound. Qed.
Print Assumptions C12_check_chain_rule_sound.

(* the `fd/*` cells: the exact central difference of the implementation's forward() along h equals J h for the SAME J whose transpose
   the gradient conjunct of the cell compares with gradient() *)
Theorem C12_check_fd_sound : forall A csF dg w h obs, check_fd false A csF dg w h obs = true ->
  exists JG wf, geo_jac dg w = Some JG /\ g_par2fun dg w = Ok wf /\
    qvec obs = qmatvec (qmatmul (length w) (poly_jac A (pderiv csF) wf) JG) h.
Proof. exact check_fd_sound. Qed.
Print Assumptions C12_check_fd_sound.

(* the oracle of the `fd/*` cells is exact: the 7-point central difference recovers the linear coefficient of every polynomial of
   degree <= 6 (q9 = 9, q45 = 45, q60 = 60 as elements of Qc) -- the degree of t |-> forward(w + t h) for phi_F of degree <= 3 after a
   geometry map of degree <= 2 *)
Theorem C12_fd_stencil_exact : forall a0 a1 a2 a3 a4 a5 a6,
  let F := peval [a0; a1; a2; a3; a4; a5; a6] in
  (- F (- q3) + q9 * F (- q2) - q45 * F (- (1)) + q45 * F 1 - q9 * F q2 + F q3 = q60 * a1)%Qc.
Proof. exact stencil7_exact. Qed.
Print Assumptions C12_fd_stencil_exact.

Theorem C12_pde_ops_ok_sound : forall n (xdep : bool) T xs, pde_ops_ok n xdep T xs = true ->
  forall x, (xdep = true -> In x xs) -> inv_ok n (if xdep then pde_xop T x else T) = true.
Proof. exact pde_ops_ok_sound. Qed.
Print Assumptions C12_pde_ops_ok_sound.

(* ---- Image2D(order='F') domains (round 2 listed this as "correspondence only") -----------------------
   par2fun is the permutation p |-> P p, P = img_perm r c computed by the model, and fun2par is P^T; the gradient through such a
   domain is (J_F(par2fun w) P)^T direction for every model kind as written for a 2-d domain (flat Jacobians / flat PDE
   gradients indexed like the parameter vector; 2-d gradient / adjoint results ravelled by Image2D.fun2par). *)
Theorem C12_imgF_conversions_are_permutation : forall r c v, length v = (r * c)%nat ->
  img_par2fun r c v = qmatvec (img_perm r c) v /\ img_fun2par r c v = qmattvec (r * c) (img_perm r c) v.
Proof. intros r c v H. split; [apply img_par2fun_is_matvec | apply img_fun2par_is_mattvec]; exact H. Qed.
Print Assumptions C12_imgF_conversions_are_permutation.

Theorem C12_gradient_chain_rule_imgF : forall q gf rg dg r c n A csF d w,
  model_gfun_F gf r c n A csF -> imgF_geo dg r c -> plain1d (g_cls rg) = true -> n = (r * c)%nat ->
  wf_mat n A -> length d = length A -> length w = n ->
  gradient q gf rg dg (GiVec d) (GiVec w) true true =
  Ok (OutVec (qmattvec n (qmatmul n (poly_jac A (pderiv csF) (img_par2fun r c w)) (img_perm r c)) d) false).
Proof. exact gradient_chain_rule_imgF. Qed.
Print Assumptions C12_gradient_chain_rule_imgF.

Theorem C12_imgF_jacobian_law : forall dg r c w h, imgF_geo dg r c -> length w = (r * c)%nat -> length h = (r * c)%nat ->
  exists c2, length c2 = length (img_par2fun r c w) /\
    forall t, g_par2fun dg (qvadd w (qvscale t h)) =
              Ok (qvadd (qvadd (img_par2fun r c w) (qvscale t (qmatvec (img_perm r c) h))) (qvscale (t * t)%Qc (pvec_eval c2 t))).
Proof. exact imgF_jacobian_law. Qed.
Print Assumptions C12_imgF_jacobian_law.

Theorem C12_gradient_is_transposed_jacobian_of_forward_imgF : forall q gf (kt : bool) rg dg r c n A csF b d w,
  model_gfun_F gf r c n A csF -> imgF_geo dg r c -> plain1d (g_cls rg) = true -> n = (r * c)%nat ->
  wf_mat n A -> length d = length A -> length b = length A -> length w = n ->
  let wf := img_par2fun r c w in
  let J := qmatmul n (poly_jac A (pderiv csF) wf) (img_perm r c) in
  gradient q gf rg dg (GiVec d) (GiVec w) true true = Ok (OutVec (qmattvec n J d) false) /\
  forall h, length h = n ->
    exists c2, length c2 = length A /\ forall t,
      forward q (mkFwd (poly_forward A csF b) kt) rg dg (InVec (qvadd w (qvscale t h))) true =
      Ok (OutVec (qvadd (qvadd (poly_forward A csF b wf) (qvscale t (qmatvec J h))) (qvscale (t * t)%Qc (pvec_eval c2 t))) false).
Proof. exact gradient_is_transposed_jacobian_of_forward_imgF. Qed.
Print Assumptions C12_gradient_is_transposed_jacobian_of_forward_imgF.

Theorem C12_imgF_jacobian_is_unique : forall dg r c w h v,
  imgF_geo dg r c -> length w = (r * c)%nat -> length h = (r * c)%nat -> length v = (r * c)%nat ->
  (exists c2, length c2 = length (img_par2fun r c w) /\
     forall t, g_par2fun dg (qvadd w (qvscale t h)) =
               Ok (qvadd (qvadd (img_par2fun r c w) (qvscale t v)) (qvscale (t * t)%Qc (pvec_eval c2 t)))) ->
  v = qmatvec (img_perm r c) h.
Proof. exact imgF_jacobian_unique. Qed.
Print Assumptions C12_imgF_jacobian_is_unique.

Example C12_imgF_example :
  imgF_geo (mkGeo KImage2D 6 6 (CvImgF 2 3) None F2Base None 0) 2 3 /\
  qcll_eqb (img_perm 2 2) (qmat [[1#1;0#1;0#1;0#1];[0#1;0#1;1#1;0#1];[0#1;1#1;0#1;0#1];[0#1;0#1;0#1;1#1]]) = true.
Proof. exact imgF_example. Qed.

(* ---- LinearModel(matrix) with the geometries LinearModel.__init__ derives from the matrix shape: every clause, concretely ---- *)
Theorem C12_linear_matrix_model : forall q A n p d,
  wf_mat n A -> length p = n -> length d = length A ->
  let '(F, rg, dg, gf) := linear_matrix_model A n in
  forward q F rg dg (InVec p) true = Ok (OutVec (qmatvec A p) false) /\
  forward q F rg dg (InVec p) false = Ok (OutVec (qmatvec A p) false) /\
  (forall ap flag, forward q F rg dg (InArr dg ap p) flag = Ok (OutArr rg (qmatvec A p) false)) /\
  (forall cols, forward q F rg dg (InSamples false cols) true = Ok (OutSamples rg (map (qmatvec A) cols))) /\
  gradient q gf rg dg (GiVec d) (GiVec p) true true = Ok (OutVec (qmattvec n A d) false).
Proof. exact linear_matrix_model_clauses. Qed.
Print Assumptions C12_linear_matrix_model.

Import String.StringSyntax.
Local Open Scope string_scope.

(* ---- (ii) get_non_default_args and the call func(x) ------------------------------------------------
   A signature is the list of (name, kind, has a default) in declaration order, every parameter kind; the model names
   the parameters that are neither variadic nor defaulted (non_default_args false = today's code, by kind).  For a
   signature Python accepts (pos_defaults_ok) with exactly one such parameter p0: the model names exactly [p0], and the
   call func(x) that _apply_func makes hands x to p0 with every other parameter at its default -- or, when p0 is
   keyword-only, is refused with TypeError (never bound to another parameter). *)
Theorem C12_forward_call_binds_named_argument : forall sg p0,
  pos_defaults_ok false sg = true ->
  filter required sg = [p0] ->
  non_default_args false sg = [pa_name p0] /\
  (positional (pa_kind p0) = true -> call1 sg = Some (BoundParam (pa_name p0))) /\
  (pa_kind p0 = KKwOnly -> call1 sg = None).
Proof. exact forward_call_binds_named_argument. Qed.
Print Assumptions C12_forward_call_binds_named_argument.

(* conversely, for ANY signature: if func(x) succeeds, every argument the model names is the parameter that received x *)
Theorem C12_call_receiver_is_named : forall sg b, call1 sg = Some b ->
  forall a, In a (non_default_args false sg) -> b = BoundParam a.
Proof. exact call_receiver_is_named. Qed.
Print Assumptions C12_call_receiver_is_named.

(* Model.forward on top: positionally or under exactly that keyword, nothing else *)
Theorem C12_forward_accepts_named : forall sg a bnd, call1 sg = Some bnd ->
  forward_accepts [a] sg 1 [] = true /\ forward_accepts [a] sg 0 [a] = true /\
  (forall k, k <> a -> forward_accepts [a] sg 0 [k] = false) /\
  (forall k k' ks, forward_accepts [a] sg 0 (k :: k' :: ks) = false) /\
  (forall n k ks, forward_accepts [a] sg (S n) (k :: ks) = false) /\
  (forall n, forward_accepts [a] sg (S (S n)) [] = false).
Proof. exact forward_accepts_named. Qed.
Print Assumptions C12_forward_accepts_named.

(* "multiple-input models": a forward callable with several required parameters is refused however forward is called *)
Theorem C12_forward_refuses_several_inputs : forall nda sg npos kws,
  NoDup nda -> (2 <= length nda)%nat -> forward_accepts nda sg npos kws = false.
Proof. exact forward_refuses_several_inputs. Qed.
Print Assumptions C12_forward_refuses_several_inputs.

(* ... stated on the signature itself (Python forbids duplicate parameter names), and the callable without any required parameter *)
Theorem C12_several_required_parameters_refused : forall sg npos kws,
  NoDup (map pa_name sg) -> (2 <= length (filter required sg))%nat ->
  forward_accepts (non_default_args false sg) sg npos kws = false.
Proof. exact several_required_parameters_refused. Qed.
Print Assumptions C12_several_required_parameters_refused.

Theorem C12_no_required_parameter_refused : forall sg npos kws, forward_accepts [] sg npos kws = false.
Proof. exact no_required_parameter_refused. Qed.
Print Assumptions C12_no_required_parameter_refused.

(* COMPLETE CHARACTERISATION: a positional input is accepted exactly when the callable has ONE required parameter and that
   parameter takes positional arguments *)
Theorem C12_forward_accepts_iff : forall sg,
  pos_defaults_ok false sg = true ->
  (forward_accepts (non_default_args false sg) sg 1 [] = true <->
   exists p0, filter required sg = [p0] /\ positional (pa_kind p0) = true).
Proof. exact forward_accepts_iff. Qed.
Print Assumptions C12_forward_accepts_iff.

(* the code before /repo 074a70c (variadics recognised by the NAMES args / kwargs) was right exactly under the naming
   convention, and wrong outside it: FIXED in /repo; witness kept *)
Theorem C12_non_default_args_by_name_agrees_under_convention : forall sg,
  (forall p, In p sg -> is_variadic (pa_kind p) = (String.eqb (pa_name p) "args" || String.eqb (pa_name p) "kwargs")) ->
  non_default_args true sg = non_default_args false sg.
Proof. exact by_name_agrees_under_convention. Qed.
Print Assumptions C12_non_default_args_by_name_agrees_under_convention.

Theorem C12_non_default_args_by_name_refuted :
  non_default_args true sg_args = [] /\ non_default_args false sg_args = ["args"] /\
  call1 sg_args = Some (BoundParam "args") /\
  forward_accepts (non_default_args true sg_args) sg_args 1 [] = false /\
  forward_accepts (non_default_args false sg_args) sg_args 1 [] = true /\
  non_default_args true sg_rest = ["x"; "rest"; "options"] /\ non_default_args false sg_rest = ["x"] /\
  forward_accepts (non_default_args true sg_rest) sg_rest 1 [] = false /\
  forward_accepts (non_default_args false sg_rest) sg_rest 1 [] = true.
Proof. exact witness_by_name. Qed.
Print Assumptions C12_non_default_args_by_name_refuted.

Example C12_args_example :
  pos_defaults_ok false sg_example = true /\ filter required sg_example = [mkParam "a" KPosOnly false] /\
  call1 sg_example = Some (BoundParam "a").
Proof. exact args_example. Qed.

(* ---- (iii) PDEModel inside the model ---------------------------------------------------------------
   PDEModel._forward_func = assemble (stores operator and right-hand side ON the PDE object), solve, observe.  Whatever
   state earlier calls left the PDE object in, the observation is a function of the input alone and the state afterwards
   depends on the last input only. *)
Theorem C12_pde_forward_is_function_of_input : forall P slv st x,
  fst (pde_forward_func P slv st x) = Ok (f_apply (pde_fwd P slv) x) /\
  snd (pde_forward_func P slv st x) = Some (pde_form P x).
Proof. exact pde_forward_is_function_of_input. Qed.
Print Assumptions C12_pde_forward_is_function_of_input.

Theorem C12_pde_columns_are_independent : forall P slv st cols,
  fst (pde_forward_columns P slv st cols) = map (fun x => Ok (f_apply (pde_fwd P slv) x)) cols /\
  snd (pde_forward_columns P slv st cols) = match rev cols with x :: _ => Some (pde_form P x) | [] => st end.
Proof. exact pde_columns_are_independent. Qed.
Print Assumptions C12_pde_columns_are_independent.

(* the solver the correspondence evaluates is CHECKED (inv_ok: elimination result multiplied back from both sides): its
   answer solves the system and every solution equals it; so any solver that returns a solution returns this one *)
Theorem C12_pde_solver_is_exact : forall n A rhs, inv_ok n A = true -> length rhs = n ->
  qmatvec A (model_solve n A rhs) = rhs /\
  (forall u, length u = n -> qmatvec A u = rhs -> u = model_solve n A rhs).
Proof. exact model_solve_correct. Qed.
Print Assumptions C12_pde_solver_is_exact.

Theorem C12_pde_any_solver_agrees : forall n A rhs (slv : mat -> vec -> vec), inv_ok n A = true -> length rhs = n ->
  length (slv A rhs) = n -> qmatvec A (slv A rhs) = rhs -> slv A rhs = model_solve n A rhs.
Proof. exact any_solver_agrees. Qed.
Print Assumptions C12_pde_any_solver_agrees.

(* the generated PDE forms (constant or parameter-dependent operator, optional observation map) *)
Theorem C12_pde_case_forward : forall n (xdep : bool) T A0 cs b0 obs x,
  inv_ok n (if xdep then pde_xop T x else T) = true -> length (poly_forward A0 cs b0 x) = n ->
  f_apply (pde_fwd (mkPde (pde_case_form xdep T A0 cs b0) obs) (model_solve n)) x =
  match obs with Some f => f (poly_forward A0 cs b0 x) | None => poly_forward A0 cs b0 x end.
Proof. exact pde_case_forward. Qed.
Print Assumptions C12_pde_case_forward.

(* "same result for every representation of the input" for PDE models: NO guard (the solver hands back a plain array, so the
   geometry comparison of the output never happens), any solver, any PDE form, any state of the PDE object *)
Theorem C12_pde_representations_agree : forall q P slv rg dg p fv,
  g_par2fun dg p = Ok fv ->
  let F := pde_fwd P slv in
  forward q F rg dg (InVec p) true = rmap (out_of false rg) (core F rg fv) /\
  forward q F rg dg (InVec fv) false = rmap (out_of false rg) (core F rg fv) /\
  (forall flag, forward q F rg dg (InArr dg true p) flag = rmap (out_of true rg) (core F rg fv)) /\
  (forall flag, forward q F rg dg (InArr dg false fv) flag = rmap (out_of true rg) (core F rg fv)) /\
  (forall st, rmap (fun y => g_fun2par rg y) (fst (pde_forward_func P slv st fv)) = Ok (core F rg fv)).
Proof. exact pde_representations_agree. Qed.
Print Assumptions C12_pde_representations_agree.

Theorem C12_pde_samples_columnwise : forall q P slv rg dg cols outs,
  forward q (pde_fwd P slv) rg dg (InSamples false cols) true = Ok (OutSamples rg outs) <->
  Forall2 (fun c o => forward q (pde_fwd P slv) rg dg (InVec c) true = Ok (out_of false rg o)) cols outs.
Proof. exact pde_samples_columnwise. Qed.
Print Assumptions C12_pde_samples_columnwise.

Example C12_pde_example :
  inv_ok 3 (qmat [[0#1; 2#1; 0#1]; [1#1; 0#1; 0#1]; [1#2; 1#1; 4#1]]) = true /\
  inv_ok 3 (pde_xop (qmat [[1#1; 0#1; 0#1]; [-1#1; 1#1; 0#1]; [1#1; 1#1; 1#1]]) (qvec [1#2; -2#1; 3#1])) = true /\
  inv_ok 2 (qmat [[1#1; 2#1]; [2#1; 4#1]]) = false.
Proof. exact pde_example. Qed.
