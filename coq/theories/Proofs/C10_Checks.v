(* C10 -- what a `true` of the comparison functions evaluated in the generated case files MEANS at the level of the
   real-valued theorems: the observed numpy.random.gamma arguments are the theorems' shape / rate (shape exactly, rate
   within the stated relative tolerance). *)
From CV Require Import Base.Tac Base.LinAlg Base.Cmp Model.C10_Conj Model.C10_ConjR Proofs.C10_Carrier.
From Coq Require Import QArith Qabs Qreals Reals Lra.

Lemma Q2R_abs x : Q2R (Qabs x) = Rabs (Q2R x).
Proof.
  destruct (Qlt_le_dec x 0) as [H|H].
  - rewrite (Qeq_eqR _ _ (Qabs_neg x (Qlt_le_weak _ _ H))). rewrite Q2R_opp.
    apply Qlt_Rlt in H. rewrite RMicromega.Q2R_0 in H. rewrite Rabs_left by exact H. reflexivity.
  - rewrite (Qeq_eqR _ _ (Qabs_pos x H)). apply Qle_Rle in H. rewrite RMicromega.Q2R_0 in H.
    rewrite Rabs_right by (apply Rle_ge; exact H). reflexivity.
Qed.

Theorem check_shape_sound k rk bq alpha obs :
  check_shape k rk bq alpha obs = true -> Q2R obs = r_shape (sampler_m k rk bq) (Q2R alpha).
Proof.
  unfold check_shape. intros H. apply Qeq_bool_eq in H. rewrite (Qeq_eqR _ _ H). apply shape_carriers_agree.
Qed.

Lemma q_rel_sound tol a b : q_rel tol a b = true -> (Rabs (Q2R a - Q2R b) <= Q2R tol * Rabs (Q2R b))%R.
Proof.
  unfold q_rel. intros H. apply Qle_bool_iff in H. apply Qle_Rle in H.
  rewrite Q2R_abs, Q2R_minus, Q2R_mult, Q2R_abs in H. exact H.
Qed.

Theorem check_rate_sound n P reg L Ax b beta obs_rate obs_scale :
  check_rate n P reg L Ax b beta obs_rate obs_scale = true ->
  (Rabs (Q2R obs_rate - r_rate (Q2Rm L) (Q2Rv Ax) (Q2Rv b) (Q2R beta))
   <= Q2R tol9 * Rabs (r_rate (Q2Rm L) (Q2Rv Ax) (Q2Rv b) (Q2R beta)))%R.
Proof.
  unfold check_rate. intros H.
  apply andb_true_iff in H as [H _]. apply andb_true_iff in H as [H _]. apply andb_true_iff in H as [_ H].
  apply q_rel_sound in H. rewrite rate_carriers_agree in H. exact H.
Qed.
