(* C02 -- Metropolis-type kernels accept with exactly the Metropolis-Hastings probability.
   Property theorems only: each is closed by `exact <lemma>` and followed by Print Assumptions.
   The models (Model/C02_MH.v) are the transitions of cuqi.experimental.mcmc.{MH,CWMH,PCN,MALA,ULA}.step and
   cuqi.sampler.{MH,CWMH,pCN,MALA,ULA}.single_update; `guard` says which NaN/inf guard a site has:
     GNanInf  every site of the current tree (/repo since fix 7ac16b1; the harness probes the tree under test and runs the model in
              the variant it finds -- all ten sites probe as GNanInf today, both pCN sites as the centred proposal)
     GNan     legacy MALA before that repair      GNone  legacy MH, CWMH, pCN and experimental PCN before that repair
     (the `_refuted` theorems about GNan / GNone and the uncentred pCN proposal document the repaired defects; their return is
     reported as VIOLATION).
   Invariance beyond finite state spaces (round 5): proved in full on every COUNTABLE state space (Coquelicot series; pi >= 0,
   q >= 0, rows of q summing to 1 -- nothing else), and for densities on a compact interval of R as an identity of Riemann
   integrals against every continuous test function: in full for continuous pi, q (C02_invariance_interval_continuous, with
   Fubini for continuous integrands proved, C02_fubini_continuous), and under four named integrability hypotheses for
   non-continuous densities (C02_invariance_interval_partial).  NOT proved: unbounded supports (improper integrals), R^n. *)
From CV Require Import Base.Tac Base.Cmp Base.Ext Model.C02_MH
  Model.C02_Tune Proofs.C02_MH Proofs.C02_Balance Proofs.C02_Vec Proofs.C02_Real Proofs.C02_Witness Proofs.C02_Tune Proofs.C02_Bilinear Proofs.C02_Measure Proofs.C02_Countable Proofs.C02_Continuous Proofs.C02_Fubini Proofs.C02_Link Proofs.C02_Steps Proofs.C02_Reversible.
From Coq Require Import QArith Qreals Reals.
From Coquelicot Require Import Hierarchy Series RInt Continuity Lim_seq.
Close Scope R_scope.   (* Coquelicot opens it globally; this file writes %R / %Q explicitly *)

(* ---- the log-domain decision is the MH decision ------------------------------------------------------- *)
Theorem C02_decision_is_MH : forall (u r : R), (0 < u)%R -> (u <= 1)%R ->
  ((ln u <= Rmin 0 r)%R <-> (u <= Rmin 1 (exp r))%R).
Proof. exact decision_is_MH_R. Qed.
Print Assumptions C02_decision_is_MH.

(* every site's accept rule, on finite values and with log u = ln u for a uniform u in (0,1]:
   accepted  <->  u <= min(1, exp(star - cur)) *)
Theorem C02_accept_is_MH : forall (g : guard) (l a b : Q) (u : R), (0 < u)%R -> (u <= 1)%R -> Q2R l = ln u ->
  (accept g (Fin l) (ext_sub (Fin a) (Fin b)) (Fin a) = true <-> (u <= Rmin 1 (exp (Q2R a - Q2R b)))%R).
Proof. exact accept_is_MH. Qed.
Print Assumptions C02_accept_is_MH.

(* ---- random walk: the ratio is log pi(x') - log pi(x); the proposal is symmetric ------------------------- *)
Theorem C02_rw_ratio : forall (logd : vec -> ext) (g : guard) (s : Q) (st : state) (xi : vec) (l a b : Q),
  sld st = logd (sx st) -> logd (mh_prop s (sx st) xi) = Fin a -> logd (sx st) = Fin b ->
  (snd (mh_step logd g s st xi (Fin l)) = true <-> (l <= 0 /\ l <= a - b)%Q).
Proof. exact mh_decision. Qed.
Print Assumptions C02_rw_ratio.

Theorem C02_rw_symmetric : forall (s : Q) (x xi : vec), length x = length xi ->
  veq (mh_prop s (mh_prop s x xi) (vscale (-1) xi)) x.
Proof. exact mh_prop_reverse. Qed.
Print Assumptions C02_rw_symmetric.

(* per-component scale (MH given an array scale): same rule *)
Theorem C02_rw_ratio_vector_scale : forall (logd : vec -> ext) (g : guard) (scales : vec) (st : state) (xi : vec) (l a b : Q),
  sld st = logd (sx st) -> logd (mh_prop_v scales (sx st) xi) = Fin a -> logd (sx st) = Fin b ->
  (snd (mh_step_v logd g scales st xi (Fin l)) = true <-> (l <= 0 /\ l <= a - b)%Q) /\
  (snd (mh_step_v logd g scales st xi (Fin l)) = false -> fst (mh_step_v logd g scales st xi (Fin l)) = st) /\
  (nonfinite (logd (mh_prop_v scales (sx st) xi)) = true -> mh_step_v logd GNanInf scales st xi (Fin l) = (st, false)).
Proof.
  intros logd g scales st xi l a b H1 H2 H3. split; [exact (mhv_decision logd g scales st xi l a b H1 H2 H3)|].
  split; [exact (mhv_rejected_state logd g scales st xi (Fin l)) | exact (mhv_nonfinite logd scales st xi (Fin l))].
Qed.
Print Assumptions C02_rw_ratio_vector_scale.

(* the random-walk move is symmetric exactly when the proposal distribution has mean zero:
   x' | x ~ N(x + s mu, s^2).  (Repaired in /repo, 0f15211: a proposal= with non-zero mean is refused.  STILL OPEN: a proposal
   distribution symmetric about a non-zero centre that has no `mean` attribute -- Uniform(0,1) -- is accepted: C02_shifted_noise_refuted) *)
Theorem C02_rw_zero_mean_symmetric : forall s x x' : Q, (log_q_rw s 0 x x' == log_q_rw s 0 x' x)%Q.
Proof. exact rw_zero_mean_symmetric. Qed.
Print Assumptions C02_rw_zero_mean_symmetric.

Theorem C02_rw_nonzero_mean_refuted :
  exists s mu x x' : Q, ~ (s == 0)%Q /\ ~ (mu == 0)%Q /\ ~ (log_q_rw s mu x' x - log_q_rw s mu x x' == 0)%Q.
Proof. exact rw_nonzero_mean_refuted. Qed.
Print Assumptions C02_rw_nonzero_mean_refuted.

(* ---- component-wise: every coordinate update is such a step against the running point; coordinates already
        visited stay in place; the running cached value is the target's value at the running point ------------ *)
Theorem C02_cw_ratio : forall (logd : vec -> ext) (g : guard) (j : nat) (p l : Q) (xt : vec) (lt : ext) (a b : Q)
  (props : vec) (logus : list ext),
  lt = logd xt -> logd (upd xt j p) = Fin a -> logd xt = Fin b ->
  cw_loop logd g j (p :: props) (Fin l :: logus) xt lt =
    (let '(x1, l1, a1) := cw_one logd g j p (Fin l) xt lt in
     let '(x, l', acc) := cw_loop logd g (S j) props logus x1 l1 in (x, l', a1 :: acc)) /\
  (snd (cw_one logd g j p (Fin l) xt lt) = true <-> (l <= 0 /\ l <= a - b)%Q).
Proof.
  intros logd g j p l xt lt a b props logus H1 H2 H3.
  split; [exact (cw_loop_cons logd g j p props (Fin l) logus xt lt) | exact (cw_one_decision logd g j p l xt lt a b H1 H2 H3)].
Qed.
Print Assumptions C02_cw_ratio.

Theorem C02_cw_invariant : forall (logd : vec -> ext) (g : guard) (props : vec) (j : nat) (logus : list ext) (xt : vec) (lt : ext),
  lt = logd xt ->
  let '(x, l, _) := cw_loop logd g j props logus xt lt in
  l = logd x /\ forall i d, (i < j)%nat -> nth i x d = nth i xt d.
Proof.
  intros logd g props j logus xt lt H.
  pose proof (cw_loop_consistent logd g props j logus xt lt H) as H1.
  pose proof (fun i d => cw_loop_earlier logd g props j logus xt lt i d) as H2.
  destruct (cw_loop logd g j props logus xt lt) as [[x l] a]. split; [exact H1 | exact H2].
Qed.
Print Assumptions C02_cw_invariant.

(* ---- MALA: _log_proposal is the log-density of the law of x + (s/2) grad + noise, and the ratio is
        log pi(x') + log q(x|x') - log pi(x) - log q(x'|x) ------------------------------------------------------ *)
Theorem C02_mala_ratio : forall (logd : vec -> ext) (grad : vec -> vec) (g : guard) (s : Q) (st : state) (xi : vec) (l a b : Q),
  let xs := mala_prop s (sx st) (sgr st) xi in
  sld st = logd (sx st) -> sgr st = grad (sx st) -> logd xs = Fin a -> logd (sx st) = Fin b ->
  (snd (mala_step logd grad g s st xi (Fin l)) = true <->
   (l <= 0 /\ l <= (a + log_prop s (sx st) xs (grad xs)) - (b + log_prop s xs (sx st) (grad (sx st))))%Q).
Proof. exact mala_decision. Qed.
Print Assumptions C02_mala_ratio.

Theorem C02_mala_proposal_density : forall (s : Q) (x g xi : vec), length x = length g -> length x = length xi ->
  (log_prop s (mala_prop s x g xi) x g == - (1 # 2) * ((1 / s) * dot xi xi))%Q.
Proof. exact log_prop_is_noise_density. Qed.
Print Assumptions C02_mala_proposal_density.

(* ---- pCN: the decision uses the likelihood ratio alone ...                                              *)
Theorem C02_pcn_ratio : forall (lik : vec -> ext) (c : bool) (g : guard) (a s : Q) (m : vec) (st : state) (xi : vec) (l la lb : Q),
  sld st = lik (sx st) -> lik (pcn_prop c a s m (sx st) xi) = Fin la -> lik (sx st) = Fin lb ->
  (snd (pcn_step lik c g a s m st xi (Fin l)) = true <-> (l <= 0 /\ l <= la - lb)%Q).
Proof. exact pcn_decision. Qed.
Print Assumptions C02_pcn_ratio.

(* ... which IS the MH ratio of the proposal used when the prior has mean zero: for any symmetric bilinear form B
   (the prior precision) and a^2 + s^2 = 1, prior(x) q(x'|x) is symmetric in x <-> x' *)
Theorem C02_pcn_prior_reversible : forall (V : Type) (B : V -> V -> Q) (lin : Q -> V -> Q -> V -> V),
  (forall u v, B u v == B v u)%Q -> (forall a u b v w, B (lin a u b v) w == a * B u w + b * B v w)%Q ->
  forall (a s : Q) (x x' : V) (l l' : Q), (a * a + s * s == 1)%Q -> ~ (s == 0)%Q ->
  (energy V B lin a s x x' == energy V B lin a s x' x)%Q /\
  ((l' + log_prior V B x' + log_q V B lin a s x' x) - (l + log_prior V B x + log_q V B lin a s x x') == l' - l)%Q.
Proof.
  intros V B lin Hs Hl a s x x' l l' H1 H2.
  split; [exact (pcn_energy_symmetric V B lin Hs Hl a s x x' H1 H2) | exact (pcn_ratio_is_MH V B lin Hs Hl a s x x' l l' H1 H2)].
Qed.
Print Assumptions C02_pcn_prior_reversible.

(* a concrete instance of the abstract form, in every dimension n: any dense symmetric precision matrix P
   (B(u,v) = sum_ij P_ij u_i v_j); both the zero-mean and the centred statement *)
Theorem C02_pcn_dense_precision : forall (P : nat -> nat -> Q) (n : nat), (forall i j, P i j == P j i)%Q ->
  forall (m : nat -> Q) (a s : Q) (x x' : nat -> Q) (l l' : Q), (a * a + s * s == 1)%Q -> ~ (s == 0)%Q ->
  ((l' + log_prior _ (BM P n) x' + log_q _ (BM P n) linF a s x' x) - (l + log_prior _ (BM P n) x + log_q _ (BM P n) linF a s x x') == l' - l)%Q /\
  ((l' + log_prior_m _ (BM P n) linF m x' + log_q_centred _ (BM P n) linF m a s x' x)
   - (l + log_prior_m _ (BM P n) linF m x + log_q_centred _ (BM P n) linF m a s x x') == l' - l)%Q.
Proof. exact pcn_dense_precision. Qed.
Print Assumptions C02_pcn_dense_precision.

(* the repaired, centred proposal m + a(x-m) + s(xi-m) has the same property for EVERY prior mean m, and coincides
   with the code's proposal when m = 0 *)
Theorem C02_pcn_centred_reversible : forall (V : Type) (B : V -> V -> Q) (lin : Q -> V -> Q -> V -> V),
  (forall u v, B u v == B v u)%Q -> (forall a u b v w, B (lin a u b v) w == a * B u w + b * B v w)%Q ->
  forall (m : V) (a s : Q) (x x' : V) (l l' : Q), (a * a + s * s == 1)%Q -> ~ (s == 0)%Q ->
  ((l' + log_prior_m V B lin m x' + log_q_centred V B lin m a s x' x)
   - (l + log_prior_m V B lin m x + log_q_centred V B lin m a s x x') == l' - l)%Q.
Proof. exact pcn_centred_ratio_is_MH. Qed.
Print Assumptions C02_pcn_centred_reversible.

Theorem C02_pcn_proposal_laws : forall (a s : Q) (m x e : vec), length x = length m -> length x = length e ->
  veq (pcn_prop false a s m x (vadd m e)) (vadd (vadd (vscale a x) (vscale s m)) (vscale s e)) /\
  veq (pcn_prop true a s m x (vadd m e)) (vadd (vadd m (vscale a (vsub x m))) (vscale s e)) /\
  veq (pcn_prop true a s (repeat 0%Q (length x)) x e) (pcn_prop false a s (repeat 0%Q (length x)) x e).
Proof.
  intros a s m x e H1 H2. split; [exact (pcn_uncentred_law a s m x e H1 H2)|].
  split; [exact (pcn_centred_law a s m x e H1 H2) | exact (pcn_centred_zero_mean a s x e H2)].
Qed.
Print Assumptions C02_pcn_proposal_laws.

(* repaired defect (e67a6d1; refuted class = prior mean <> 0 with the UNCENTRED proposal the code had before): x' | x ~ N(a x + s m, s^2 C)
   is not prior-reversible, so the likelihood-only ratio is not the MH ratio of the proposal used *)
Theorem C02_pcn_nonzero_mean_refuted :
  exists a s m x x' : Q, (a * a + s * s == 1)%Q /\ ~ (s == 0)%Q /\ ~ (m == 0)%Q /\
    ~ ((log_prior1 m x' + log_q_code a s m x' x) - (log_prior1 m x + log_q_code a s m x x') == 0)%Q.
Proof. exact pcn_uncentred_refuted. Qed.
Print Assumptions C02_pcn_nonzero_mean_refuted.

(* ---- detailed balance for every pair of states, any positive pi and q (over Q and over R) ------------------ *)
Theorem C02_detailed_balance : forall (A : Type) (pi : A -> Q) (q : A -> A -> Q),
  (forall x, 0 < pi x)%Q -> (forall x y, 0 < q x y)%Q ->
  forall x y, (pi x * q x y * alpha A pi q x y == pi y * q y x * alpha A pi q y x)%Q.
Proof. exact detailed_balance. Qed.
Print Assumptions C02_detailed_balance.

Theorem C02_detailed_balance_R : forall (px py qxy qyx : R), (0 < px)%R -> (0 < py)%R -> (0 < qxy)%R -> (0 < qyx)%R ->
  (px * qxy * Rmin 1 (py * qyx / (px * qxy)) = py * qyx * Rmin 1 (px * qxy / (py * qyx)))%R.
Proof. exact detailed_balance_R. Qed.
Print Assumptions C02_detailed_balance_R.

(* ---- invariance on every finite state space: the MH kernel with its rejection mass satisfies pi K = pi.
   `_partial`: the property's "reversible w.r.t. its target and leaves it invariant" on a CONTINUOUS state space is the
   integral version of this statement; it is proved here only as detailed balance for every pair (above) and as
   pi K = pi on finite spaces; the measure-theoretic lift is not formalised. *)
Theorem C02_invariance_finite_partial : forall (A : Type) (eqb : A -> A -> bool), (forall x y, eqb x y = true <-> x = y) ->
  forall (S : list A), NoDup S ->
  forall (pi : A -> Q) (q : A -> A -> Q), (forall x, 0 < pi x)%Q -> (forall x y, 0 < q x y)%Q -> stochastic A S q ->
  stochastic A S (mh_kernel A eqb S pi q) /\ reversible A pi (mh_kernel A eqb S pi q) /\ invariant A S pi (mh_kernel A eqb S pi q).
Proof.
  intros A eqb He S Hn pi q Hp Hq Hs. split; [|split].
  - exact (mh_kernel_stochastic A eqb He S Hn pi q Hs).
  - exact (mh_kernel_reversible A eqb He S pi q Hp Hq).
  - exact (mh_kernel_invariant A eqb He S Hn pi q Hp Hq Hs).
Qed.
Print Assumptions C02_invariance_finite_partial.

(* a sweep (CWMH: one kernel per coordinate; also used by C09) of invariant kernels is invariant *)
Theorem C02_composition_invariant : forall (A : Type) (S : list A) (pi : A -> Q) (K1 K2 : A -> A -> Q),
  invariant A S pi K1 -> invariant A S pi K2 -> invariant A S pi (compose A S K1 K2).
Proof. exact compose_invariant. Qed.
Print Assumptions C02_composition_invariant.

(* a sweep over ANY number of invariant kernels (CWMH in any dimension: one MH kernel per coordinate) is invariant *)
Theorem C02_sweep_invariant : forall (A : Type) (eqb : A -> A -> bool), (forall x y, eqb x y = true <-> x = y) ->
  forall (S : list A), NoDup S -> forall (pi : A -> Q) (Ks : list (A -> A -> Q)),
  Forall (invariant A S pi) Ks -> invariant A S pi (compose_list A eqb S Ks).
Proof. intros A eqb He S Hn pi Ks. exact (compose_list_invariant A eqb He S Hn pi Ks). Qed.
Print Assumptions C02_sweep_invariant.

(* ---- warm-up: the adapted scale of MH / CWMH / PCN (experimental tune, legacy sample_adapt) ---------------------
   scale_temp' = exp(ln scale_temp + (hat_acc - star)/sqrt(k)),  scale = min(scale_temp', 1) *)
Theorem C02_tune_scale_bounds : forall (lam : R) (k : Z) (h star : R),
  (0 < tune_temp lam k h star)%R /\ (0 < tune_scale lam k h star <= 1)%R.
Proof. intros. split; [exact (tune_temp_pos lam k h star) | exact (tune_scale_bounds lam k h star)]. Qed.
Print Assumptions C02_tune_scale_bounds.

Theorem C02_tune_seq_bounds : forall (windows : list (Z * Z)) (lam : R) (k : Z) (star : R),
  Forall (fun s => (0 < s <= 1)%R) (tune_seq lam k star windows) /\ length (tune_seq lam k star windows) = length windows.
Proof. intros. split; [exact (tune_seq_bounds windows lam k star) | exact (tune_seq_length windows lam k star)]. Qed.
Print Assumptions C02_tune_seq_bounds.

(* vanishing adaptation: the log of the adapted parameter moves by at most 1/sqrt(k) in the k-th tuning step,
   up when the observed acceptance rate is above the target rate and down when it is below *)
Theorem C02_tune_vanishing : forall (lam : R) (k : Z) (h star : R),
  (0 < lam)%R -> (1 <= k)%Z -> (0 <= h <= 1)%R -> (0 <= star <= 1)%R ->
  (Rabs (ln (tune_temp lam k h star) - ln lam) <= zeta k)%R /\ (0 < zeta k <= 1)%R /\
  ((star <= h)%R -> (lam <= tune_temp lam k h star)%R) /\ ((h <= star)%R -> (tune_temp lam k h star <= lam)%R).
Proof.
  intros lam k h star Hl Hk Hh Hs. split; [exact (tune_log_step lam k h star Hl Hk Hh Hs)|].
  split; [exact (zeta_pos k Hk) | exact (tune_monotone lam k h star Hl Hk)].
Qed.
Print Assumptions C02_tune_vanishing.

(* detailed balance WITHOUT positivity: targets vanishing on part of the space (log-density -inf) and proposals with bounded
   support (Uniform); from a zero-density state every proposed move is accepted, a move into a zero-density region never is *)
Theorem C02_detailed_balance_nonneg : forall (A : Type) (pi : A -> Q) (q : A -> A -> Q),
  (forall x, 0 <= pi x)%Q -> (forall x y, 0 <= q x y)%Q ->
  forall x y, (pi x * q x y * alpha0 A pi q x y == pi y * q y x * alpha0 A pi q y x)%Q /\
              ((pi x == 0)%Q -> alpha0 A pi q x y = 1%Q) /\
              ((0 < pi x * q x y)%Q -> (pi y == 0)%Q -> (alpha0 A pi q x y == 0)%Q).
Proof.
  intros A pi q Hp Hq x y. split; [exact (detailed_balance_nonneg A pi q Hp Hq x y)|].
  split; [exact (alpha0_zero_density A pi q x y) | exact (alpha0_into_zero A pi q x y)].
Qed.
Print Assumptions C02_detailed_balance_nonneg.

(* reversibility INCLUDING the rejection atom as an identity between measures on rectangles X x Y of any finite lattice
   (hence of every refinement): sum_{x in X} pi(x) K(x,Y) = sum_{y in Y} pi(y) K(y,X); with X the whole lattice: (pi K)(Y) = pi(Y).
   This is the strongest form proved; the limit of lattice refinements (continuous state space) is not formalised. *)
Theorem C02_detailed_balance_rectangles : forall (A : Type) (eqb : A -> A -> bool), (forall x y, eqb x y = true <-> x = y) ->
  forall (S : list A) (pi : A -> Q) (q : A -> A -> Q), (forall x, 0 < pi x)%Q -> (forall x y, 0 < q x y)%Q ->
  forall X Y : list A, (flow A pi (mh_kernel A eqb S pi q) X Y == flow A pi (mh_kernel A eqb S pi q) Y X)%Q.
Proof. exact mh_kernel_rectangles. Qed.
Print Assumptions C02_detailed_balance_rectangles.

Theorem C02_invariant_sets : forall (A : Type) (eqb : A -> A -> bool), (forall x y, eqb x y = true <-> x = y) ->
  forall (S : list A) (pi : A -> Q) (q : A -> A -> Q), NoDup S -> (forall x, 0 < pi x)%Q -> (forall x y, 0 < q x y)%Q ->
  stochastic A S q -> forall Y : list A, (forall y, In y Y -> In y S) ->
  (flow A pi (mh_kernel A eqb S pi q) S Y == sumQ A pi Y)%Q.
Proof. exact mh_kernel_invariant_sets. Qed.
Print Assumptions C02_invariant_sets.

(* ANY symmetric proposal density gives the target-ratio rule; a random walk x + s*xi is symmetric for ANY even noise
   density (Gaussian, Uniform(-a,a), Cauchy(0,g), ...); an even density shifted away from 0 is not *)
Theorem C02_symmetric_proposal_ratio : forall (A : Type) (pi : A -> Q) (q : A -> A -> Q),
  (forall x, 0 < pi x)%Q -> (forall x y, 0 < q x y)%Q -> (forall x y, q x y == q y x)%Q ->
  forall x y, (alpha A pi q x y == qmin 1 (pi y / pi x))%Q.
Proof. exact symmetric_proposal_alpha. Qed.
Print Assumptions C02_symmetric_proposal_ratio.

Theorem C02_even_noise_symmetric : forall (rho : Q -> Q), (forall t, rho (- t) == rho t)%Q ->
  (forall a b, a == b -> rho a == rho b)%Q -> forall s x y : Q, (q_rw rho s x y == q_rw rho s y x)%Q.
Proof. exact q_rw_symmetric. Qed.
Print Assumptions C02_even_noise_symmetric.

Theorem C02_shifted_noise_refuted :
  exists mu s x y : Q, ~ (mu == 0)%Q /\ ~ (q_rw_shift tri mu s x y == q_rw_shift tri mu s y x)%Q.
Proof. exact shifted_noise_refuted. Qed.
Print Assumptions C02_shifted_noise_refuted.

Example C02_even_noise_example : forall s x y : Q, (q_rw tri s x y == q_rw tri s y x)%Q.
Proof. exact tri_rw_symmetric. Qed.

(* affine change of variables as a density identity: for y = mean + s e the Gaussian exponent of the proposal at y is the
   Gaussian exponent of the noise at e (dense symmetric or any precision P, every dimension); for pCN the residual x' - a x is s xi *)
Theorem C02_affine_noise_density : forall (P : nat -> nat -> Q) (n : nat) (s : Q) (mean e : nat -> Q), ~ (s == 0)%Q ->
  let y := linF 1 mean s e in
  (BM P n (linF 1 y (- (1)) mean) (linF 1 y (- (1)) mean) / (s * s) == BM P n e e)%Q.
Proof. exact affine_noise_density. Qed.
Print Assumptions C02_affine_noise_density.

Theorem C02_pcn_residual_is_noise : forall (P : nat -> nat -> Q) (n : nat) (a s : Q) (x xi : nat -> Q), ~ (s == 0)%Q ->
  let x' := linF a x s xi in
  (BM P n (res _ linF a x x') (res _ linF a x x') / (s * s) == BM P n xi xi)%Q.
Proof. exact pcn_residual_is_noise. Qed.
Print Assumptions C02_pcn_residual_is_noise.

(* ---- invariance on every COUNTABLE state space (states enumerated by nat), over R: the MH kernel with its rejection atom
   KR x y = q x y * alpha + [x = y] * (1 - sum_z q x z * alpha) is non-negative, every row is a convergent series with sum 1, it is
   reversible for every pair, and  sum_x pi(x) K(x,y)  CONVERGES and equals pi(y).  Hypotheses: pi >= 0, q >= 0 (no positivity,
   pi need not be normalised or summable), every row of q is a convergent series with sum 1. ------------------------------------ *)
Theorem C02_invariance_countable : forall (pi : nat -> R) (q : nat -> nat -> R),
  (forall x, 0 <= pi x)%R -> (forall x y, 0 <= q x y)%R -> (forall x, is_series (q x) 1%R) ->
  (forall x y, 0 <= KR pi q x y)%R /\ (forall x, is_series (KR pi q x) 1%R) /\
  (forall x y, pi x * KR pi q x y = pi y * KR pi q y x)%R /\
  (forall y, is_series (fun x => (pi x * KR pi q x y)%R) (pi y)).
Proof.
  intros pi q Hp Hq Hs. split; [|split; [|split]].
  - exact (KR_nonneg pi q Hp Hq Hs).
  - exact (KR_stochastic pi q Hp Hq Hs).
  - exact (KR_reversible pi q Hp Hq).
  - exact (KR_invariant pi q Hp Hq Hs).
Qed.
Print Assumptions C02_invariance_countable.

(* ... hence after ANY number of transitions started in pi the law is pi, and for a summable pi every SET of states keeps its mass *)
Theorem C02_invariance_countable_steps : forall (pi : nat -> R) (q : nat -> nat -> R),
  (forall x, 0 <= pi x)%R -> (forall x y, 0 <= q x y)%R -> (forall x, is_series (q x) 1%R) ->
  (forall (n : nat) (y : nat), Nat.iter n (push pi q) pi y = pi y) /\
  (ex_series pi -> forall Y : nat -> bool, is_series (fun y => (indic Y y * push pi q pi y)%R) (Series (fun y => (indic Y y * pi y)%R))).
Proof.
  intros pi q Hp Hq Hs. split.
  - exact (KR_invariant_iter pi q Hp Hq Hs).
  - intros He Y. exact (KR_invariant_sets pi q Hp Hq Hs Y He).
Qed.
Print Assumptions C02_invariance_countable_steps.

(* a SWEEP on a countable state space (CWMH on a lattice of any dimension: one MH kernel per coordinate, each with its own proposal that
   moves one coordinate): propagating the law through ANY sequence of MH kernels with target pi gives pi again (law / push-forward form:
   no composed kernel, hence no interchange of double series is needed) *)
Theorem C02_sweep_invariant_countable : forall (pi : nat -> R) (qs : list (nat -> nat -> R)),
  (forall x, 0 <= pi x)%R ->
  Forall (fun q => (forall x y, 0 <= q x y)%R /\ (forall x, is_series (q x) 1%R)) qs ->
  forall y, fold_left (fun m K => pushK K m) (map (KR pi) qs) pi y = pi y.
Proof. exact mh_sweep_invariant_countable. Qed.
Print Assumptions C02_sweep_invariant_countable.

Example C02_countable_example :
  (forall x, 0 <= geo_pi x)%R /\ (forall x y, 0 <= geo_q x y)%R /\ (forall x, is_series (geo_q x) 1%R) /\ ex_series geo_pi.
Proof. exact geo_hyps. Qed.

(* the acceptance probability used there is the MH probability: in [0,1], equal to min(1, backward flow / forward flow) wherever the
   forward flow is positive, and pi(x) q(x,y) alpha(x,y) = min(forward flow, backward flow) (symmetric: detailed balance) *)
Theorem C02_alpha_flow : forall a b : R, (0 <= a)%R -> (0 <= b)%R ->
  (0 <= acc0 a b <= 1)%R /\ (a * acc0 a b = Rmin a b)%R /\ (a * acc0 a b = b * acc0 b a)%R /\ ((0 < a)%R -> acc0 a b = Rmin 1 (b / a)).
Proof.
  intros a b Ha Hb. split; [exact (acc0_range a b Ha Hb)|]. split; [exact (flow_acc0 a b Ha Hb)|]. split; [exact (acc0_balance a b Ha Hb)|].
  intro P. unfold acc0. destruct (Req_EM_T a 0) as [E|E]; [exfalso; rewrite E in P; exact (Rlt_irrefl 0 P) | reflexivity].
Qed.
Print Assumptions C02_alpha_flow.

(* ---- invariance for DENSITIES ON A COMPACT INTERVAL [a,b] of R, Riemann integrals: with
        (K f)(x) = f(x) + int_a^b q(x,y) alpha(x,y) (f(y) - f(x)) dy     (accepted moves + rejection atom)
   int_a^b pi (K f) = int_a^b pi f for every test function f.  `_partial`: the four integrability hypotheses are ASSUMED, not derived
   from regularity of pi, q, f:  (I1) every accepted-move integrand is integrable in y; (I2) pi f is integrable; (I3) the inner
   integral of h(x,y) = min(pi(x)q(x,y), pi(y)q(y,x)) (f(y) - f(x)) is integrable in x; (I4) the two iterated integrals of h over
   the square agree (Fubini).  For continuous pi, q, f they are proved (next theorem); this form also covers densities with jumps
   (Uniform proposals) PROVIDED (I1)-(I4) hold for them; unbounded supports are not covered. ------------- *)
Theorem C02_invariance_interval_partial : forall (a b : R) (pi : R -> R) (q : R -> R -> R),
  (forall x, 0 <= pi x)%R -> (forall x y, 0 <= q x y)%R -> forall f : R -> R,
  (forall x, ex_RInt (moveint pi q f x) a b) ->
  ex_RInt (fun x => (pi x * f x)%R) a b ->
  ex_RInt (fun x => RInt (hflow pi q f x) a b) a b ->
  RInt (fun x => RInt (fun y => hflow pi q f x y) a b) a b = RInt (fun y => RInt (fun x => hflow pi q f x y) a b) a b ->
  RInt (fun x => (pi x * Kf a b pi q f x)%R) a b = RInt (fun x => (pi x * f x)%R) a b.
Proof. exact invariance_RInt. Qed.
Print Assumptions C02_invariance_interval_partial.

Example C02_interval_example :
  let pi := fun _ : R => 1%R in let q := fun _ _ : R => 1%R in let f := fun x : R => x in
  (forall x, 0 <= pi x)%R /\ (forall x y, 0 <= q x y)%R /\
  (forall x, ex_RInt (moveint pi q f x) 0 1) /\ ex_RInt (fun x => (pi x * f x)%R) 0 1 /\
  ex_RInt (fun x => RInt (hflow pi q f x) 0 1) 0 1 /\
  RInt (fun x => RInt (fun y => hflow pi q f x y) 0 1) 0 1 = RInt (fun y => RInt (fun x => hflow pi q f x y) 0 1) 0 1.
Proof. exact uniform_example. Qed.

(* Fubini for a jointly continuous integrand on any rectangle (Coquelicot has none): the two iterated Riemann integrals agree *)
Theorem C02_fubini_continuous : forall (h : R -> R -> R), (forall x y, continuity_2d_pt h x y) ->
  forall a b c d : R,
  RInt (fun x => RInt (fun y => h x y) c d) a b = RInt (fun y => RInt (fun x => h x y) a b) c d.
Proof. intros h Hh a b c d. exact (fubini_continuous h Hh a c d b). Qed.
Print Assumptions C02_fubini_continuous.

(* FULL statement on a compact interval: for a continuous target density pi >= 0 (zeros allowed: compact support inside [a,b]), a
   jointly continuous proposal density q >= 0 and every continuous test function f, all four hypotheses above are PROVED and
   int_a^b pi (K f) = int_a^b pi f.  Where pi vanishes there is no flow in either direction (second part), so for a target supported in
   [A,B] the statement on any [a,b] containing [A,B] is the statement on the support. *)
Theorem C02_invariance_interval_continuous : forall (pi : R -> R) (q : R -> R -> R) (f : R -> R),
  (forall x, 0 <= pi x)%R -> (forall x y, 0 <= q x y)%R ->
  (forall x, continuity_pt pi x) -> (forall x y, continuity_2d_pt q x y) -> (forall x, continuity_pt f x) ->
  (forall a b : R, RInt (fun x => (pi x * Kf a b pi q f x)%R) a b = RInt (fun x => (pi x * f x)%R) a b) /\
  (forall x y : R, pi y = 0%R -> hflow pi q f x y = 0%R /\ hflow pi q f y x = 0%R) /\
  (forall x y : R, (pi x * moveint pi q f x y)%R = hflow pi q f x y /\ hflow pi q f x y = (- hflow pi q f y x)%R).
Proof.
  intros pi q f Hp Hq Cp Cq Cf. split; [|split].
  - intros a b. exact (invariance_RInt_continuous pi q f Hp Hq Cp Cq Cf a b).
  - exact (hflow_outside pi q f Hp Hq).
  - intros x y. split; [exact (hflow_move pi q Hp Hq f x y) | exact (hflow_anti pi q f x y)].
Qed.
Print Assumptions C02_invariance_interval_continuous.

(* REVERSIBILITY on a compact interval, rejection atom included, as self-adjointness in L2(pi) (stronger than invariance; with g = 1 it IS
   invariance because K 1 = 1): int_a^b pi f (K g) = int_a^b pi g (K f) for all continuous f, g, continuous pi >= 0 (zeros allowed) and jointly
   continuous q >= 0.  The hypotheses are those of the example below plus a second continuous test function. *)
Theorem C02_reversible_interval_continuous : forall (a b : R) (pi : R -> R) (q : R -> R -> R),
  (forall x, 0 <= pi x)%R -> (forall x y, 0 <= q x y)%R -> (forall x, continuity_pt pi x) -> (forall x y, continuity_2d_pt q x y) ->
  (forall f g : R -> R, (forall x, continuity_pt f x) -> (forall x, continuity_pt g x) ->
     RInt (fun x => (pi x * f x * Kf a b pi q g x)%R) a b = RInt (fun x => (pi x * g x * Kf a b pi q f x)%R) a b) /\
  (forall x, Kf a b pi q (fun _ => 1%R) x = 1%R).
Proof.
  intros a b pi q Hp Hq Cp Cq. split.
  - intros f g Cf Cg. exact (reversible_RInt_continuous a b pi q Hp Hq Cp Cq f g Cf Cg).
  - exact (Kf_one a b pi q).
Qed.
Print Assumptions C02_reversible_interval_continuous.

Example C02_interval_continuous_example :
  let pi := fun x : R => (Rmin x (1 - x) + Rabs (Rmin x (1 - x)))%R in let q := fun _ _ : R => 1%R in let f := fun x : R => x in
  (forall x, 0 <= pi x)%R /\ (forall x y, 0 <= q x y)%R /\ (forall x, continuity_pt pi x) /\ (forall x y, continuity_2d_pt q x y) /\
  (forall x, continuity_pt f x) /\ pi 0%R = 0%R /\ pi 1%R = 0%R /\ pi (1 / 2)%R = 1%R.
Proof. exact tent_hyps. Qed.

(* the proposals the samplers use, in one dimension: Gaussian N(m(x), sigma^2) with ANY continuous mean map m -- random walk m(x) = x,
   MALA m(x) = x + (s/2) grad(x) with sigma^2 = s, pCN m(x) = sqrt(1-s^2) x with sigma = s -- for every continuous target density pi >= 0
   (compact support inside [a,b] allowed) and every continuous test function: invariance on [a,b] with no analytic hypothesis left; for
   the random walk the kernel's acceptance probability is min(1, pi(y)/pi(x)), the rule the code applies *)
Theorem C02_gaussian_proposal_interval : forall (pi m f : R -> R) (c sigma : R),
  (forall x, 0 <= pi x)%R -> (forall x, continuity_pt pi x) -> (forall x, continuity_pt m x) -> (forall x, continuity_pt f x) -> (0 <= c)%R ->
  (forall a b : R, RInt (fun x => (pi x * Kf a b pi (gauss_q c sigma m) f x)%R) a b = RInt (fun x => (pi x * f x)%R) a b) /\
  (forall x y : R, (0 < pi x)%R -> (0 < c)%R -> alphaC pi (gauss_q c sigma (fun t => t)) x y = Rmin 1 (pi y / pi x)).
Proof.
  intros pi m f c sigma Hp Cp Cm Cf Hc. split.
  - intros a b. exact (gaussian_proposal_invariant pi m f c sigma a b Hp Cp Cm Cf Hc).
  - intros x y Hx Hc'. exact (rw_gauss_alpha pi c sigma x y Hp Hx Hc').
Qed.
Print Assumptions C02_gaussian_proposal_interval.

(* a compactly supported target AND a proposal with BOUNDED support: the triangular random walk q(x,y) = max(0, w - |y - x|) is
   non-negative, zero for |y - x| >= w, symmetric and jointly continuous, so the interval theorem applies with no further hypothesis *)
Theorem C02_bounded_support_proposal_interval : forall (pi f : R -> R) (w : R),
  (forall x, 0 <= pi x)%R -> (forall x, continuity_pt pi x) -> (forall x, continuity_pt f x) ->
  (forall a b : R, RInt (fun x => (pi x * Kf a b pi (tent_q w) f x)%R) a b = RInt (fun x => (pi x * f x)%R) a b) /\
  (forall x y, 0 <= tent_q w x y)%R /\ (forall x y, (w <= Rabs (y - x))%R -> tent_q w x y = 0%R) /\ (forall x y, tent_q w x y = tent_q w y x).
Proof.
  intros pi f w Hp Cp Cf. destruct (tent_q_facts w) as [Q0 [Q1 [Q2 _]]]. split; [|split; [exact Q0 | split; [exact Q1 | exact Q2]]].
  intros a b. exact (bounded_support_proposal_invariant pi f w a b Hp Cp Cf).
Qed.
Print Assumptions C02_bounded_support_proposal_interval.

(* ANY NUMBER of transitions and ANY schedule of proposals (e.g. the different scales a sampler has before, during and after warm-up) on a
   compact interval: for a continuous target density that is positive everywhere the image K f of a continuous test function is continuous
   again, so the one-step statement iterates: int pi (K_q1 (K_q2 (... (K_qn f)))) = int pi f for every list of jointly continuous q_i >= 0 *)
Theorem C02_invariance_interval_any_schedule : forall (a b : R) (pi : R -> R),
  (forall x, 0 < pi x)%R -> (forall x, continuity_pt pi x) ->
  forall (qs : list (R -> R -> R)) (f : R -> R),
  Forall (fun q => (forall x y, 0 <= q x y)%R /\ (forall x y, continuity_2d_pt q x y)) qs -> (forall x, continuity_pt f x) ->
  RInt (fun x => (pi x * Kiter a b pi qs f x)%R) a b = RInt (fun x => (pi x * f x)%R) a b /\
  (forall x, continuity_pt (Kiter a b pi qs f) x).
Proof.
  intros a b pi Hp Cp qs f HF Cf. split.
  - exact (invariance_any_schedule a b pi Hp Cp qs f HF Cf).
  - exact (Kiter_cont a b pi Hp Cp qs f HF Cf).
Qed.
Print Assumptions C02_invariance_interval_any_schedule.

Example C02_any_schedule_example :
  (forall x : R, 0 < 1 + x * x)%R /\ (forall x : R, continuity_pt (fun x => (1 + x * x)%R) x) /\
  Forall good_q (gauss_q 1 1 (fun t => t) :: gauss_q 1 (1 / 2) (fun t => t) :: nil).
Proof. exact steps_example. Qed.

(* unbounded supports, as far as proved: for continuous pi, q, f on the whole line the net flow of the MH kernel vanishes over EVERY
   square [a,b]^2, hence so does its limit along the squares [-n,n]^2.  `_partial`: passing from the squares to the kernel integrated
   over all of R (improper integrals in both variables, dominated convergence) is not formalised. *)
Theorem C02_whole_line_net_flow_partial : forall (pi : R -> R) (q : R -> R -> R) (f : R -> R),
  (forall x, 0 <= pi x)%R -> (forall x y, 0 <= q x y)%R ->
  (forall x, continuity_pt pi x) -> (forall x y, continuity_2d_pt q x y) -> (forall x, continuity_pt f x) ->
  (forall a b : R, RInt (fun x => RInt (hflow pi q f x) a b) a b = 0%R) /\
  is_lim_seq (fun n : nat => RInt (fun x => RInt (hflow pi q f x) (- INR n)%R (INR n)) (- INR n)%R (INR n)) (Rbar.Finite 0%R).
Proof.
  intros pi q f Hp Hq Cp Cq Cf. split.
  - exact (net_flow_zero_every_box pi q f Hp Hq Cp Cq Cf).
  - exact (net_flow_limit_along_squares pi q f Hp Hq Cp Cq Cf).
Qed.
Print Assumptions C02_whole_line_net_flow_partial.

(* R^2 (and, with more parameters, R^n): ONE coordinate update of CWMH -- an MH move in x1 for the conditional density pi(., x2) with x2
   held fixed -- leaves the joint density invariant on the rectangle [a,b] x [c,d] (iterated Riemann integrals), for slices that are
   continuous and non-negative.  `_partial`: the composition of the coordinate kernels into a sweep on a continuous space is not
   formalised (on finite spaces: C02_sweep_invariant). *)
Theorem C02_coordinate_kernel_2d_partial : forall (pi2 : R -> R -> R) (q2 : R -> R -> R -> R) (f2 : R -> R -> R) (a b c d : R),
  (forall x2 x1, 0 <= pi2 x1 x2)%R -> (forall x2 x1 y1, 0 <= q2 x2 x1 y1)%R ->
  (forall x2 x1, continuity_pt (fun t => pi2 t x2) x1) -> (forall x2 x y, continuity_2d_pt (q2 x2) x y) ->
  (forall x2 x1, continuity_pt (fun t => f2 t x2) x1) ->
  RInt (fun x2 => RInt (fun x1 => (pi2 x1 x2 * Kf a b (fun t => pi2 t x2) (q2 x2) (fun t => f2 t x2) x1)%R) a b) c d =
  RInt (fun x2 => RInt (fun x1 => (pi2 x1 x2 * f2 x1 x2)%R) a b) c d.
Proof. exact coordinate_kernel_invariant_2d. Qed.
Print Assumptions C02_coordinate_kernel_2d_partial.

(* ---- scale adaptation, every tuning window: more accepted flags in a window never give a smaller scale, the scale stays in (0,1];
        two runs with pointwise ordered windows stay ordered after EVERY adaptation step; the vanishing-adaptation bound with its
        hypotheses discharged for every window the samplers form (0 <= accepted <= n, n > 0) and the three target rates used ---------- *)
Theorem C02_tune_window_monotone : forall (lam : R) (k : Z) (star : R) (a1 a2 n : Z),
  (1 <= k)%Z -> (0 < n)%Z -> (a1 <= a2)%Z ->
  (tune_scale lam k (hat_acc a1 n) star <= tune_scale lam k (hat_acc a2 n) star)%R /\
  (0 < tune_scale lam k (hat_acc a1 n) star <= 1)%R.
Proof. exact tune_window_mono. Qed.
Print Assumptions C02_tune_window_monotone.

Theorem C02_tune_monotone_in_rate : forall (lam : R) (k : Z) (h1 h2 star : R), (1 <= k)%Z ->
  ((h1 <= h2)%R -> (tune_temp lam k h1 star <= tune_temp lam k h2 star)%R /\ (tune_scale lam k h1 star <= tune_scale lam k h2 star)%R) /\
  ((h1 < h2)%R -> (tune_temp lam k h1 star < tune_temp lam k h2 star)%R).
Proof.
  intros lam k h1 h2 star Hk. split.
  - intro H. split; [exact (tune_temp_mono_h lam k h1 h2 star Hk H) | exact (tune_scale_mono_h lam k h1 h2 star Hk H)].
  - exact (tune_temp_strict_h lam k h1 h2 star Hk).
Qed.
Print Assumptions C02_tune_monotone_in_rate.

Theorem C02_tune_runs_ordered : forall (w1 w2 : list (Z * Z)) (lam1 lam2 : R) (k : Z) (star : R),
  Forall2 win_le w1 w2 -> (0 < lam1)%R -> (lam1 <= lam2)%R -> (1 <= k)%Z ->
  Forall2 Rle (tune_temps lam1 k star w1) (tune_temps lam2 k star w2) /\
  Forall2 Rle (tune_seq lam1 k star w1) (tune_seq lam2 k star w2) /\
  Forall (fun t => (0 < t)%R) (tune_temps lam1 k star w1) /\
  tune_seq lam1 k star w1 = map (fun t => Rmin t 1) (tune_temps lam1 k star w1).
Proof.
  intros w1 w2 lam1 lam2 k star HW H1 H12 Hk. split; [exact (tune_temps_mono w1 w2 lam1 lam2 k star HW H1 H12 Hk)|].
  split; [exact (tune_seq_mono w1 w2 lam1 lam2 k star HW H1 H12 Hk)|].
  split; [exact (tune_temps_pos w1 lam1 k star) | exact (tune_seq_clip w1 lam1 k star)].
Qed.
Print Assumptions C02_tune_runs_ordered.

(* closed form of a run of adaptations: the parameter after the j-th step is the starting value times the exponential of the accumulated
   Robbins-Monro drift sum_{i <= j} (hat_i - star)/sqrt(k+i) -- a purely multiplicative recursion, hence positive for every history *)
Theorem C02_tune_closed_form : forall (windows : list (Z * Z)) (lam : R) (k : Z) (star : R), (0 < lam)%R ->
  tune_temps lam k star windows = map (fun d => (lam * exp d)%R) (drifts k star windows 0%R).
Proof. exact tune_temps_closed. Qed.
Print Assumptions C02_tune_closed_form.

Theorem C02_tune_window_vanishing : forall (lam : R) (k a n : Z) (star : R),
  (0 < lam)%R -> (1 <= k)%Z -> (0 <= a <= n)%Z -> (0 < n)%Z ->
  (star = star_mh \/ star = star_pcn \/ exists d, (1 <= d)%Z /\ star = star_cw d) ->
  (Rabs (ln (tune_temp lam k (hat_acc a n) star) - ln lam) <= zeta k)%R.
Proof. exact tune_window_vanishing. Qed.
Print Assumptions C02_tune_window_vanishing.

Example C02_tune_monotone_example :
  Forall2 win_le [(1, 4); (0, 4)]%Z [(3, 4); (2, 4)]%Z /\ (0 < 1 / 4)%R /\ (1 / 4 <= 1 / 2)%R /\ (1 <= 1)%Z /\ (0 <= 3 <= 4)%Z /\ (0 < 4)%Z.
Proof. exact tune_mono_example. Qed.

(* ---- the windows tune() reads (Model/C02_Tune.v win_last = _acc[-T:] for MH/PCN, win_slice = _acc[i*T:(i+1)*T] for CWMH): for a 0/1
        history and a non-empty window EVERY tune() call gives a positive parameter, a scale in (0,1] and a log-step <= 1/sqrt(i+1),
        with no hypothesis on the observed rate; under warmup()'s call pattern both conventions read the same T flags; pointwise
        larger flags give a larger-or-equal parameter and scale ------------------------------------------------------------------- *)
Theorem C02_tune_call_sound : forall (cw : bool) (T i : nat) (acc : list Z) (lam star : R),
  (0 < lam)%R -> flags acc -> (if cw then win_slice T i acc else win_last T acc) <> nil ->
  (star = star_mh \/ star = star_pcn \/ exists d, (1 <= d)%Z /\ star = star_cw d) ->
  (0 < tune_call cw T i acc lam star)%R /\ (0 < Rmin (tune_call cw T i acc lam star) 1 <= 1)%R /\
  (Rabs (ln (tune_call cw T i acc lam star) - ln lam) <= zeta (Z.of_nat i + 1))%R.
Proof. exact tune_call_sound. Qed.
Print Assumptions C02_tune_call_sound.

Theorem C02_tune_windows_coincide : forall (T i : nat) (acc : list Z), length acc = ((i + 1) * T)%nat ->
  win_last T acc = win_slice T i acc /\ length (win_last T acc) = T.
Proof. exact windows_coincide. Qed.
Print Assumptions C02_tune_windows_coincide.

(* ... and that length hypothesis is a fact about warmup()'s loop: in iteration idx tune(T, idx / T) is called when (idx+1) mod T = 0, the
   history then holds the initial 1 and the idx flags of the completed iterations *)
Theorem C02_warmup_windows_coincide : forall (T idx : nat) (acc : list Z),
  (1 <= T)%nat -> ((idx + 1) mod T = 0)%nat -> length acc = (1 + idx)%nat ->
  win_last T acc = win_slice T (idx / T) acc /\ length (win_last T acc) = T.
Proof. exact warmup_windows_coincide. Qed.
Print Assumptions C02_warmup_windows_coincide.

Theorem C02_tune_flags_monotone : forall (lam : R) (i : nat) (star : R) (w1 w2 : list Z), Forall2 Z.le w1 w2 -> w1 <> nil ->
  (tune_temp lam (Z.of_nat i + 1) (win_rate w1) star <= tune_temp lam (Z.of_nat i + 1) (win_rate w2) star)%R /\
  (tune_scale lam (Z.of_nat i + 1) (win_rate w1) star <= tune_scale lam (Z.of_nat i + 1) (win_rate w2) star)%R.
Proof. exact tune_flags_mono. Qed.
Print Assumptions C02_tune_flags_monotone.

Example C02_tune_window_example :
  flags [1; 0; 1; 1; 0; 1]%Z /\ length [1; 0; 1; 1; 0; 1]%Z = ((1 + 1) * 3)%nat /\ win_last 3 [1; 0; 1; 1; 0; 1]%Z = [1; 0; 1]%Z /\
  win_slice 3 1 [1; 0; 1; 1; 0; 1]%Z = [1; 0; 1]%Z /\ Forall2 Z.le [0; 0; 1]%Z [1; 0; 1]%Z.
Proof. exact window_example. Qed.

(* ---- the link between the two layers: the accept rule of the transition MODEL (the rule the correspondence evaluates) accepts, for
        a uniform u in (0,1] with log u = l, exactly when u <= acc0 (pi(x) c) (pi(x') c) -- the acceptance probability of the kernel-level
        invariance theorems -- for a symmetric proposal density value c > 0, pi = exp(logd) and pi = 0 where logd = -inf; all support
        cases except both points outside the support (there the guarded code rejects; the flow is zero either way) ------------------ *)
Theorem C02_model_accept_is_alpha : forall (l : Q) (u c : R) (sx sy : ext),
  (0 < u)%R -> (u <= 1)%R -> Q2R l = ln u -> (0 < c)%R ->
  (is_fin sx = true \/ sx = NInf) -> (is_fin sy = true \/ sy = NInf) -> ~ (sx = NInf /\ sy = NInf) ->
  (accept GNanInf (Fin l) (ext_sub sy sx) sy = true <-> (u <= acc0 (dens sx * c) (dens sy * c))%R).
Proof. exact accept_is_acc0. Qed.
Print Assumptions C02_model_accept_is_alpha.

Theorem C02_model_step_is_alpha : forall (logd : vec -> ext) (s : Q) (st : state) (xi : vec) (l : Q) (u c : R),
  (0 < u)%R -> (u <= 1)%R -> Q2R l = ln u -> (0 < c)%R -> sld st = logd (sx st) ->
  (is_fin (logd (sx st)) = true \/ logd (sx st) = NInf) ->
  (is_fin (logd (mh_prop s (sx st) xi)) = true \/ logd (mh_prop s (sx st) xi) = NInf) ->
  ~ (logd (sx st) = NInf /\ logd (mh_prop s (sx st) xi) = NInf) ->
  (snd (mh_step logd GNanInf s st xi (Fin l)) = true <->
   (u <= acc0 (dens (logd (sx st)) * c) (dens (logd (mh_prop s (sx st) xi)) * c))%R).
Proof. exact mh_step_is_acc0. Qed.
Print Assumptions C02_model_step_is_alpha.

(* asymmetric proposals (MALA): the model's rule on (log pi(x') - log pi(x)) + (log q(x|x') - log q(x'|x)) accepts exactly when
   u <= acc0 (pi(x) q(x'|x)) (pi(x') q(x|x')); and this is the rule of one whole MALA transition of the model *)
Theorem C02_model_accept_is_alpha_asymmetric : forall (g : guard) (l a b lf lb : Q) (u : R),
  (0 < u)%R -> (u <= 1)%R -> Q2R l = ln u ->
  (accept g (Fin l) (ext_add (ext_sub (Fin a) (Fin b)) (Fin (lb - lf))) (Fin a) = true <->
   (u <= acc0 (exp (Q2R b) * exp (Q2R lf)) (exp (Q2R a) * exp (Q2R lb)))%R).
Proof. exact accept_is_acc0_asym. Qed.
Print Assumptions C02_model_accept_is_alpha_asymmetric.

Theorem C02_model_mala_step_is_alpha : forall (logd : vec -> ext) (grad : vec -> vec) (g : guard) (s : Q) (st : state) (xi : vec) (l a b : Q) (u : R),
  (0 < u)%R -> (u <= 1)%R -> Q2R l = ln u -> sld st = Fin b -> logd (mala_prop s (sx st) (sgr st) xi) = Fin a ->
  let xs := mala_prop s (sx st) (sgr st) xi in
  (snd (mala_step logd grad g s st xi (Fin l)) = true <->
   (u <= acc0 (exp (Q2R b) * exp (Q2R (log_prop s xs (sx st) (sgr st))))
              (exp (Q2R a) * exp (Q2R (log_prop s (sx st) xs (grad xs)))))%R).
Proof. exact mala_step_is_acc0. Qed.
Print Assumptions C02_model_mala_step_is_alpha.

(* pCN: the model decides on the LIKELIHOOD ratio alone; for a symmetric bilinear prior precision B and a^2 + s^2 = 1 that IS the decision
   u <= acc0 (prior(x) lik(x) q(x,x')) (prior(x') lik(x') q(x',x)) of the kernel whose target is the posterior and whose proposal is the
   Crank-Nicolson move (zero-mean form; the centred form is the same statement in x - m, C02_pcn_centred_reversible) *)
Theorem C02_model_pcn_accept_is_alpha : forall (V : Type) (B : V -> V -> Q) (lin : Q -> V -> Q -> V -> V),
  (forall u v, B u v == B v u)%Q -> (forall a u b v w, B (lin a u b v) w == a * B u w + b * B v w)%Q ->
  forall (g : guard) (a s : Q) (x x' : V) (lk lk' l : Q) (u : R),
  (a * a + s * s == 1)%Q -> ~ (s == 0)%Q -> (0 < u)%R -> (u <= 1)%R -> Q2R l = ln u ->
  (accept g (Fin l) (ext_sub (Fin lk') (Fin lk)) (Fin lk') = true <->
   (u <= acc0 (exp (Q2R (lk + log_prior V B x)) * exp (Q2R (log_q V B lin a s x x')))
              (exp (Q2R (lk' + log_prior V B x')) * exp (Q2R (log_q V B lin a s x' x))))%R).
Proof. exact pcn_accept_is_acc0. Qed.
Print Assumptions C02_model_pcn_accept_is_alpha.

(* the same for one coordinate update of the CWMH model and for one whole pCN transition of the model (the prior and proposal terms cancel
   for EVERY pair X, X' of the abstract space, in particular for the images of the model's current point and proposal) *)
Theorem C02_model_cw_step_is_alpha : forall (logd : vec -> ext) (j : nat) (p : Q) (xt : vec) (l : Q) (u c : R),
  (0 < u)%R -> (u <= 1)%R -> Q2R l = ln u -> (0 < c)%R ->
  (is_fin (logd xt) = true \/ logd xt = NInf) -> (is_fin (logd (upd xt j p)) = true \/ logd (upd xt j p) = NInf) ->
  ~ (logd xt = NInf /\ logd (upd xt j p) = NInf) ->
  (snd (cw_one logd GNanInf j p (Fin l) xt (logd xt)) = true <-> (u <= acc0 (dens (logd xt) * c) (dens (logd (upd xt j p)) * c))%R).
Proof. exact cw_one_is_acc0. Qed.
Print Assumptions C02_model_cw_step_is_alpha.

Theorem C02_model_pcn_step_is_alpha : forall (V : Type) (B : V -> V -> Q) (lin : Q -> V -> Q -> V -> V),
  (forall u v, B u v == B v u)%Q -> (forall a u b v w, B (lin a u b v) w == a * B u w + b * B v w)%Q ->
  forall (lik : vec -> ext) (cen : bool) (g : guard) (a s : Q) (m : vec) (st : state) (xi : vec) (X X' : V) (lk lk' l : Q) (u : R),
  (a * a + s * s == 1)%Q -> ~ (s == 0)%Q -> (0 < u)%R -> (u <= 1)%R -> Q2R l = ln u ->
  sld st = Fin lk -> lik (pcn_prop cen a s m (sx st) xi) = Fin lk' ->
  (snd (pcn_step lik cen g a s m st xi (Fin l)) = true <->
   (u <= acc0 (exp (Q2R (lk + log_prior V B X)) * exp (Q2R (log_q V B lin a s X X')))
              (exp (Q2R (lk' + log_prior V B X')) * exp (Q2R (log_q V B lin a s X' X))))%R).
Proof. exact pcn_step_is_acc0. Qed.
Print Assumptions C02_model_pcn_step_is_alpha.

Example C02_link_example :
  (0 < 1)%R /\ (1 <= 1)%R /\ Q2R 0 = ln 1 /\ (is_fin (Fin 0) = true \/ Fin 0 = NInf) /\ (is_fin NInf = true \/ NInf = NInf) /\
  ~ (Fin 0 = NInf /\ NInf = NInf) /\ ((3 # 5) * (3 # 5) + (4 # 5) * (4 # 5) == 1)%Q /\ ~ ((4 # 5) == 0)%Q.
Proof. exact link_example. Qed.

(* the rational alpha0 evaluated by the lattice cells of the correspondence IS the real acc0 of the countable / interval theorems *)
Theorem C02_alpha0_is_acc0 : forall (A : Type) (pi : A -> Q) (q : A -> A -> Q) (x y : A),
  Q2R (alpha0 A pi q x y) = acc0 (Q2R (pi x * q x y)) (Q2R (pi y * q y x)).
Proof. exact alpha0_is_acc0. Qed.
Print Assumptions C02_alpha0_is_acc0.

(* ---- otherwise the state and its cached density/gradient are unchanged ---------------------------------------- *)
Theorem C02_reject_unchanged : forall (logd : vec -> ext) (grad : vec -> vec) (k : kernel) (sc : vec) (st : state)
  (xi : vec) (logus : list ext),
  forallb negb (snd (kstep logd grad k sc st xi logus)) = true -> fst (kstep logd grad k sc st xi logus) = st.
Proof. exact kstep_rejected. Qed.
Print Assumptions C02_reject_unchanged.

(* ---- the cached values describe the current point after ANY history of transitions (any draws), tuning steps
        (any new scale, scalar or per component) and reloads of consistent checkpoints ------------------------- *)
Theorem C02_cache_consistent : forall (logd : vec -> ext) (grad : vec -> vec) (k : kernel) (ops : list op) (S : sampler),
  consistent logd grad k (s_st S) -> Forall (op_ok logd grad k) ops ->
  consistent logd grad k (s_st (run_ops logd grad k S ops)).
Proof. intros logd grad k ops S. exact (run_ops_consistent logd grad k ops S). Qed.
Print Assumptions C02_cache_consistent.

(* the state a sampler starts from (point, its log-density, its gradient) is consistent, so the invariant above holds
   after every history of a freshly initialised sampler with no further hypothesis on the starting state *)
Theorem C02_cache_consistent_from_init : forall (logd : vec -> ext) (grad : vec -> vec) (k : kernel) (ops : list op) (x0 sc : vec),
  Forall (op_ok logd grad k) ops ->
  consistent logd grad k (s_st (run_ops logd grad k (mkS (mkSt x0 (logd x0) (grad x0)) sc) ops)).
Proof.
  intros logd grad k ops x0 sc H. apply (run_ops_consistent logd grad k ops); [|exact H].
  split; [reflexivity | intros _; reflexivity].
Qed.
Print Assumptions C02_cache_consistent_from_init.

Theorem C02_tune_keeps_state : forall (logd : vec -> ext) (grad : vec -> vec) (k : kernel) (S : sampler) (sc : vec),
  s_st (apply_op logd grad k S (OTune sc)) = s_st S.
Proof. exact tune_keeps_state. Qed.
Print Assumptions C02_tune_keeps_state.

(* ---- a proposal whose log-density is NaN or +-inf is never accepted by the guarded sites (GNanInf) ------------- *)
Theorem C02_nonfinite_never_accepted : forall (logd : vec -> ext) (grad : vec -> vec) (s : Q) (st : state) (xi : vec) (logu : ext),
  (nonfinite (logd (mh_prop s (sx st) xi)) = true -> mh_step logd GNanInf s st xi logu = (st, false)) /\
  (nonfinite (logd (mala_prop s (sx st) (sgr st) xi)) = true -> mala_step logd grad GNanInf s st xi logu = (st, false)) /\
  (nonfinite (logd (mala_prop s (sx st) (sgr st) xi)) = true -> ula_step logd grad false s st xi = Some (st, false)) /\
  (forall c a m, nonfinite (logd (pcn_prop c a s m (sx st) xi)) = true -> pcn_step logd c GNanInf a s m st xi logu = (st, false)) /\
  (forall j p xt lt, nonfinite (logd (upd xt j p)) = true -> cw_one logd GNanInf j p logu xt lt = (xt, lt, false)).
Proof.
  intros logd grad s st xi logu. repeat split.
  - exact (mh_nonfinite logd s st xi logu).
  - exact (mala_nonfinite logd grad s st xi logu).
  - exact (ula_nonfinite logd grad s st xi).
  - intros c a m. exact (pcn_nonfinite logd c a s m st xi logu).
  - intros j p xt lt. exact (cw_one_nonfinite logd j p logu xt lt).
Qed.
Print Assumptions C02_nonfinite_never_accepted.

(* the NaN-only guard of legacy MALA refuses NaN (but not -inf: see C02_nanguard_mala_refuted) *)
Theorem C02_nan_never_accepted_nanguard : forall (logd : vec -> ext) (grad : vec -> vec) (s : Q) (st : state) (xi : vec) (logu : ext),
  logd (mala_prop s (sx st) (sgr st) xi) = NaN -> mala_step logd grad GNan s st xi logu = (st, false).
Proof. exact mala_nanguard_nan. Qed.
Print Assumptions C02_nan_never_accepted_nanguard.

(* repaired defects (7ac16b1; refuted classes = the sites that lacked the full guard before) *)
Theorem C02_unguarded_mh_refuted :
  exists (T : target) (st : state) (s : Q) (xi : vec) (l : Q),
    sld st = t_logd T (sx st) /\ is_nan (t_logd T (mh_prop s (sx st) xi)) = true /\
    snd (mh_step (t_logd T) GNone s st xi (Fin l)) = true.
Proof. exact mh_unguarded_accepts_nan. Qed.
Print Assumptions C02_unguarded_mh_refuted.

Theorem C02_unguarded_cw_refuted :
  exists (T : target) (st : state) (sc z : vec) (logus : list ext),
    sld st = t_logd T (sx st) /\ is_nan (t_logd T (upd (sx st) 0 (nth 0 (cw_prop sc (sx st) z) 0%Q))) = true /\
    nth 0 (snd (cwmh_step (t_logd T) GNone sc st z logus)) false = true.
Proof. exact cw_unguarded_accepts_nan. Qed.
Print Assumptions C02_unguarded_cw_refuted.

Theorem C02_unguarded_pcn_refuted :
  exists (T : target) (st : state) (a s : Q) (m xi : vec) (l : Q),
    (a * a + s * s == 1)%Q /\ sld st = t_logd T (sx st) /\ is_nan (t_logd T (pcn_prop false a s m (sx st) xi)) = true /\
    snd (pcn_step (t_logd T) false GNone a s m st xi (Fin l)) = true.
Proof. exact pcn_unguarded_accepts_nan. Qed.
Print Assumptions C02_unguarded_pcn_refuted.

Theorem C02_nanguard_mala_refuted :
  exists (T : target) (st : state) (s : Q) (xi : vec) (l : Q),
    sld st = t_logd T (sx st) /\ sgr st = t_grad T (sx st) /\
    t_logd T (mala_prop s (sx st) (sgr st) xi) = NInf /\
    snd (mala_step (t_logd T) (t_grad T) GNan s st xi (Fin l)) = true.
Proof. exact mala_nanguard_accepts_neginf. Qed.
Print Assumptions C02_nanguard_mala_refuted.

(* ---- non-vacuity: the hypotheses of the theorems above are satisfiable and both outcomes occur ---------------- *)
Example C02_example :
  sld st0 = t_logd Tq (sx st0) /\ sgr st0 = t_grad Tq (sx st0) /\
  ext_eqb (t_logd Tq (mh_prop (1 # 2) (sx st0) [1 # 2; - (1 # 4)])) (Fin (- (101 # 128))) = true /\
  mh_step (t_logd Tq) GNanInf (1 # 2) st0 [1 # 2; - (1 # 4)] (Fin (- (1 # 8))) = (st0, false) /\
  snd (mh_step (t_logd Tq) GNanInf (1 # 2) st0 [1 # 2; - (1 # 4)] (Fin (- (1 # 2)))) = true /\
  snd (mala_step (t_logd Tq) (t_grad Tq) GNanInf (1 # 4) st0 [1 # 2; - (1 # 4)] (Fin (- (1 # 2)))) = true /\
  snd (cwmh_step (t_logd Tq) GNanInf [1 # 2; 1 # 2] st0 [1 # 2; - (1 # 4)] [Fin (- (1 # 8)); Fin (- (1 # 8))]) = [false; true].
Proof. exact example_mh. Qed.

Example C02_tune_example :
  (0 < 1 / 2)%R /\ (1 <= 3)%Z /\ (0 <= hat_acc 1 2 <= 1)%R /\ (0 <= star_mh <= 1)%R /\ (0 <= star_pcn <= 1)%R /\ (0 <= star_cw 2 <= 1)%R.
Proof. exact tune_example. Qed.
