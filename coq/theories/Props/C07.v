(* C07 -- A linear model's adjoint is the transpose of its forward map.
   Property theorems only: each is closed by `exact <lemma>` and followed by Print Assumptions.
   The model (Model/C07_Adj.v) is cuqi.model.LinearModel (forward / adjoint / get_matrix / T) with the
   geometry maps it applies and the convolution operators of the shipped test problems; vectors are
   lists over Qc, <.,.> is qdot.  Every theorem is for all sizes and all inputs.

   Classes used in the statements (Proofs/C07_Geom.v, C07_Model.v, C07_Conv.v):
     orth_geom g     identity-like geometries, Image2D in C or F order, StepExpansion with one node per
                     step, a linear expansion whose fun2par acts as the transpose of par2fun, and a
                     scaling map c.x whose inverse map is c.x again (c = 1/c) around such a geometry
     vec_geom g      function values are vectors (no image)
     idem_geom g     par2fun / fun2par are idempotent on their own output (identity-like geometries)
     transposes m    the two callables are transposes of each other on function values
     periodic_or_zero bc   boundary condition wrap (periodic) or constant (zero)                     *)
From CV Require Import Base.Tac Base.LinAlg Base.Cmp Base.QcLin Model.C07_Adj
  Proofs.C07_Lists Proofs.C07_Geom Proofs.C07_Model Proofs.C07_Conv Proofs.C07_Deconv1 Proofs.C07_Linear Proofs.C07_Defect Proofs.C07_Deepen Proofs.C07_Deepen2.
From Coq Require Import QArith Qcanon.

Local Notation flip2 := C07_Adj.flip2.

(* ---- adjointness: <forward x, y> = <x, adjoint y> ------------------------------------------------ *)

(* any model whose callables are transposes on function values, through orthogonal geometries *)
Theorem C07_adjoint_orthogonal : forall m : lmodel,
  orth_geom (lm_D m) -> orth_geom (lm_R m) -> transposes m ->
  forall x y, length x = par_dim (lm_D m) -> length y = par_dim (lm_R m) ->
  exists fx ay, forward m (V1 x) = Some (V1 fx) /\ adjoint m (V1 y) = Some (V1 ay) /\
                length fx = par_dim (lm_R m) /\ length ay = par_dim (lm_D m) /\
                qdot fx y = qdot x ay.
Proof. exact adjoint_orthogonal. Qed.
Print Assumptions C07_adjoint_orthogonal.

(* the syntactic class really has fun2par = (par2fun)^T, on arrays of the right size *)
Theorem C07_orthogonal_geometries : forall g : geom, orth_geom g ->
  forall p fl, length p = par_dim g -> length fl = fun_dim g ->
  exists xs q, p2f g (V1 p) = Some (funval g xs) /\ length xs = fun_dim g /\
               f2p g (funval g fl) = Some (V1 q) /\ length q = par_dim g /\
               qdot xs fl = qdot p q.
Proof. exact orth_geom_adjoint_pair. Qed.
Print Assumptions C07_orthogonal_geometries.

(* matrix-backed models (dense or sparse: the same model), every matrix shape *)
Theorem C07_adjoint_matrix_model : forall (n : nat) (A : list (list Qc)) (D R : geom),
  wf_mat n A -> n = fun_dim D -> length A = fun_dim R -> vec_geom D -> vec_geom R ->
  orth_geom D -> orth_geom R ->
  forall x y, length x = par_dim D -> length y = par_dim R ->
  exists fx ay, forward (mat_model n A D R) (V1 x) = Some (V1 fx) /\
                adjoint (mat_model n A D R) (V1 y) = Some (V1 ay) /\
                length fx = par_dim R /\ length ay = par_dim D /\ qdot fx y = qdot x ay.
Proof. exact adjoint_matrix_model. Qed.
Print Assumptions C07_adjoint_matrix_model.

(* function-backed models, every orthogonal geometry on either side (images in C or F order included) *)
Theorem C07_adjoint_function_model : forall (n : nat) (M : list (list Qc)) (D R : geom),
  wf_mat n M -> n = fun_dim D -> length M = fun_dim R -> orth_geom D -> orth_geom R ->
  forall x y, length x = par_dim D -> length y = par_dim R ->
  exists fx ay, forward (fun_model n M D R) (V1 x) = Some (V1 fx) /\
                adjoint (fun_model n M D R) (V1 y) = Some (V1 ay) /\
                length fx = par_dim R /\ length ay = par_dim D /\ qdot fx y = qdot x ay.
Proof. exact adjoint_function_model. Qed.
Print Assumptions C07_adjoint_function_model.

(* FINDING (LinearModel.adjoint|nonorthogonal-geometry:FAMILY): outside the class the identity fails --
   StepExpansion with two nodes per step (domain side, range side), a linear expansion whose fun2par
   is the inverse instead of the transpose (what KLExpansion does), MappedGeometry with map 2x *)
Theorem C07_adjoint_nonorthogonal_refuted :
  (exists m x y, lm_D m = GStep [2; 2; 2]%nat /\ adjoint_fails m x y) /\
  (exists m x y, lm_R m = GStep [2; 2; 2]%nat /\ adjoint_fails m x y) /\
  (exists m x y G Gi, lm_D m = GLin 2 2 G Gi /\ adjoint_fails m x y) /\
  (exists m x y g, lm_D m = GScale (qc 2) (qc (1 # 2)) g /\ adjoint_fails m x y).
Proof.
  split; [|split; [|split]].
  - do 3 eexists. split; [|exact adjoint_step_refuted]. reflexivity.
  - do 3 eexists. split; [|exact adjoint_step_range_refuted]. reflexivity.
  - do 5 eexists. split; [|exact adjoint_linear_expansion_refuted]. reflexivity.
  - do 4 eexists. split; [|exact adjoint_scaling_refuted]. reflexivity.
Qed.
Print Assumptions C07_adjoint_nonorthogonal_refuted.

(* the size of that defect for a step expansion on the domain of a matrix model, every matrix and every
   partition into steps: <A x, y> = <x, w . A* y> with w_i = number of nodes of step i
   (fun2par takes block means where the transpose of par2fun takes block sums) *)
Theorem C07_step_expansion_defect : forall (n : nat) (A : list (list Qc)) (cnt : list nat) (r : nat) (x y : list Qc),
  Forall (fun k => (0 < k)%nat) cnt -> wf_mat n A -> n = fold_right Nat.add 0%nat cnt -> length A = r ->
  length x = length cnt -> length y = r ->
  exists fx ay, forward (mat_model n A (GStep cnt) (GId r)) (V1 x) = Some (V1 fx) /\
                adjoint (mat_model n A (GStep cnt) (GId r)) (V1 y) = Some (V1 ay) /\
                qdot fx y = qdot x (qvmul (step_weights cnt) ay).
Proof. exact step_domain_defect. Qed.
Print Assumptions C07_step_expansion_defect.

(* ---- get_matrix ------------------------------------------------------------------------------------ *)

(* function-backed branch: if forward (parameters to parameters) is linear, the assembled matrix has
   the shape of the parameter map, reproduces forward on every input, and its j-th column is forward(e_j) *)
Theorem C07_get_matrix_columns : forall (m : lmodel) (f : list Qc -> list Qc),
  lm_mat m = None ->
  (forall x, length x = par_dim (lm_D m) -> forward m (V1 x) = Some (V1 (f x))) ->
  linear_map (par_dim (lm_D m)) (par_dim (lm_R m)) f ->
  exists G, get_matrix m = Some G /\ wf_mat (par_dim (lm_D m)) G /\ length G = par_dim (lm_R m) /\
    (forall x, length x = par_dim (lm_D m) -> qmatvec G x = f x) /\
    (forall j, (j < par_dim (lm_D m))%nat -> col (Q2Qc 0) G j = f (qunit (par_dim (lm_D m)) j)).
Proof. exact get_matrix_columns. Qed.
Print Assumptions C07_get_matrix_columns.

(* a linear map is determined by its values on the unit vectors (what makes the assembly right) *)
Theorem C07_linear_map_columns : forall (n m : nat) (f : list Qc -> list Qc), linear_map n m f ->
  forall x, length x = n -> f x = qmattvec m (map (fun i => f (qunit n i)) (seq 0 n)) x.
Proof. exact linear_columns. Qed.
Print Assumptions C07_linear_map_columns.

(* every geometry of the model (orthogonal or not; wf_geom = positive step counts, expansion matrices of
   the declared shapes) converts by a LINEAR map in both directions *)
Theorem C07_geometry_maps_linear : forall g : geom, wf_geom g ->
  linear_map (par_dim g) (fun_dim g) (pmap g) /\ linear_map (fun_dim g) (par_dim g) (fmap g) /\
  (forall p, length p = par_dim g -> p2f g (V1 p) = Some (funval g (pmap g p))) /\
  (forall f, length f = fun_dim g -> f2p g (funval g f) = Some (V1 (fmap g f))).
Proof.
  intros g W. split; [exact (pmap_linear g W)|]. split; [exact (fmap_linear g W)|].
  split; [exact (p2f_pmap g) | intros f; exact (f2p_fmap g f W)].
Qed.
Print Assumptions C07_geometry_maps_linear.

(* ... hence for a function pair get_matrix reproduces forward for EVERY domain and range geometry
   (expansions and scaling maps included): right shape, get_matrix() @ x = forward(x), column j = forward(e_j) *)
Theorem C07_function_model_get_matrix : forall (n : nat) (M : list (list Qc)) (D R : geom),
  wf_geom D -> wf_geom R -> wf_mat n M -> n = fun_dim D -> length M = fun_dim R ->
  exists G, get_matrix (fun_model n M D R) = Some G /\ wf_mat (par_dim D) G /\ length G = par_dim R /\
    (forall x, length x = par_dim D -> forward (fun_model n M D R) (V1 x) = Some (V1 (qmatvec G x))) /\
    (forall j, (j < par_dim D)%nat ->
       forward (fun_model n M D R) (V1 (qunit (par_dim D) j)) = Some (V1 (col (Q2Qc 0) G j))).
Proof. exact function_model_get_matrix. Qed.
Print Assumptions C07_function_model_get_matrix.

(* stored-matrix branch, identity geometries: the stored matrix is the forward map *)
Theorem C07_get_matrix_stored : forall (n : nat) (A : list (list Qc)) (k1 k2 : nat),
  get_matrix (mat_model n A (GId k1) (GId k2)) = Some A /\
  forall x, forward (mat_model n A (GId k1) (GId k2)) (V1 x) = Some (V1 (qmatvec A x)).
Proof. exact get_matrix_stored. Qed.
Print Assumptions C07_get_matrix_stored.

(* FINDING (LinearModel.get_matrix|stored-matrix+nonidentity-geometry): the stored matrix is returned
   whatever the geometries -- wrong shape (StepExpansion) or right shape but not the forward map (scaling) *)
Theorem C07_get_matrix_stored_refuted :
  (exists m G, get_matrix m = Some G /\ ~ wf_mat (par_dim (lm_D m)) G) /\
  (exists m G x fx, get_matrix m = Some G /\ wf_mat (par_dim (lm_D m)) G /\ length G = par_dim (lm_R m) /\
                    forward m (V1 x) = Some (V1 fx) /\ qmatvec G x <> fx).
Proof. split; [exact get_matrix_stored_shape_refuted | exact get_matrix_stored_value_refuted]. Qed.
Print Assumptions C07_get_matrix_stored_refuted.

(* ---- the transposed model -------------------------------------------------------------------------- *)

(* T.forward = adjoint and T.adjoint = forward on EVERY input array (also where they raise), geometries
   swapped, stored matrix transposed -- when conversions are idempotent on their own output *)
Theorem C07_transpose_consistent : forall (k : nat) (m : lmodel),
  idem_geom (lm_D m) -> idem_geom (lm_R m) ->
  (forall v, forward (lmT k m) v = adjoint m v /\ adjoint (lmT k m) v = forward m v) /\
  lm_D (lmT k m) = lm_R m /\ lm_R (lmT k m) = lm_D m /\
  (forall A, lm_mat m = Some A -> get_matrix (lmT k m) = Some (tr k A)) /\
  (forall A y, wf_mat k A -> length y = length A -> qmatvec (tr k A) y = qmattvec k A y).
Proof.
  intros k m HD HR. split; [exact (transpose_consistent k m HD HR)|].
  destruct (transpose_geometries_and_matrix k m) as (E1 & E2 & E3).
  split; [exact E1|]. split; [exact E2|]. split; [exact E3|].
  intros A y. exact (transpose_stored_matrix_acts k A y).
Qed.
Print Assumptions C07_transpose_consistent.

(* identity-like geometries (incl. images, one-node steps) are in that class *)
Theorem C07_identity_like_idempotent : forall g : geom, idlike_geom g -> idem_geom g /\ orth_geom g.
Proof. intros g H. split; [exact (idlike_geom_idem g H) | exact (idlike_geom_orth g H)]. Qed.
Print Assumptions C07_identity_like_idempotent.

(* function-backed model: the matrix T assembles acts as the transpose of the matrix the model assembles *)
Theorem C07_transpose_get_matrix : forall (k : nat) (m : lmodel) (f g : list Qc -> list Qc),
  lm_mat m = None -> idem_geom (lm_D m) -> idem_geom (lm_R m) ->
  (forall x, length x = par_dim (lm_D m) -> forward m (V1 x) = Some (V1 (f x))) ->
  linear_map (par_dim (lm_D m)) (par_dim (lm_R m)) f ->
  (forall y, length y = par_dim (lm_R m) -> adjoint m (V1 y) = Some (V1 (g y))) ->
  linear_map (par_dim (lm_R m)) (par_dim (lm_D m)) g ->
  (forall x y, length x = par_dim (lm_D m) -> length y = par_dim (lm_R m) -> qdot (f x) y = qdot x (g y)) ->
  exists G GT, get_matrix m = Some G /\ get_matrix (lmT k m) = Some GT /\
    wf_mat (par_dim (lm_D m)) G /\ length G = par_dim (lm_R m) /\
    wf_mat (par_dim (lm_R m)) GT /\ length GT = par_dim (lm_D m) /\
    forall y, length y = par_dim (lm_R m) -> qmatvec GT y = qmattvec (par_dim (lm_D m)) G y.
Proof. exact transpose_get_matrix. Qed.
Print Assumptions C07_transpose_get_matrix.

(* ... in fact it IS the (structural) transpose of that matrix *)
Theorem C07_transpose_get_matrix_is_transpose : forall (k : nat) (m : lmodel) (f g : list Qc -> list Qc),
  lm_mat m = None -> idem_geom (lm_D m) -> idem_geom (lm_R m) ->
  (forall x, length x = par_dim (lm_D m) -> forward m (V1 x) = Some (V1 (f x))) ->
  linear_map (par_dim (lm_D m)) (par_dim (lm_R m)) f ->
  (forall y, length y = par_dim (lm_R m) -> adjoint m (V1 y) = Some (V1 (g y))) ->
  linear_map (par_dim (lm_R m)) (par_dim (lm_D m)) g ->
  (forall x y, length x = par_dim (lm_D m) -> length y = par_dim (lm_R m) -> qdot (f x) y = qdot x (g y)) ->
  exists G, get_matrix m = Some G /\ get_matrix (lmT k m) = Some (tr (par_dim (lm_D m)) G).
Proof. exact transpose_get_matrix_eq. Qed.
Print Assumptions C07_transpose_get_matrix_is_transpose.

(* ... all hypotheses discharged for function pairs with identity / image (C order) geometries *)
Theorem C07_function_model_matrices : forall (k n : nat) (M : list (list Qc)) (D R : geom),
  wf_mat n M -> n = par_dim D -> length M = par_dim R -> plain_geom D -> plain_geom R ->
  exists G GT, get_matrix (fun_model n M D R) = Some G /\ get_matrix (lmT k (fun_model n M D R)) = Some GT /\
    (forall x, length x = par_dim D -> forward (fun_model n M D R) (V1 x) = Some (V1 (qmatvec G x))) /\
    (forall y, length y = par_dim R -> adjoint (fun_model n M D R) (V1 y) = Some (V1 (qmatvec GT y))) /\
    (forall y, length y = par_dim R -> qmatvec GT y = qmattvec (par_dim D) G y).
Proof. exact function_model_matrices. Qed.
Print Assumptions C07_function_model_matrices.

(* FINDING (LinearModel.T|double-conversion:FAMILY): T is built from the bound methods, so the conversions are
   applied twice -- a different value (scaling map) or an exception (StepExpansion) *)
Theorem C07_transpose_refuted :
  (exists m k y a b, adjoint m (V1 y) = Some (V1 a) /\ forward (lmT k m) (V1 y) = Some (V1 b) /\ a <> b) /\
  (exists m k y a, adjoint m (V1 y) = Some (V1 a) /\ forward (lmT k m) (V1 y) = None).
Proof. split; [exact transpose_scaling_refuted | exact transpose_step_refuted]. Qed.
Print Assumptions C07_transpose_refuted.

(* ---- convolution operators of the test problems ------------------------------------------------------- *)

(* periodic / zero boundary: the transpose of the operator with weights (c_k, offset d_k) is the operator
   with weights (c_k, -d_k); every signal length, every weight list *)
Theorem C07_conv_shift_transpose : forall (bcm : bc) (w : list (Qc * Z)) (x y : list Qc),
  periodic_or_zero bcm -> length x = length y ->
  qdot (conv1_terms bcm w x) y = qdot x (conv1_terms bcm (map negw w) y).
Proof. exact conv1_terms_adjoint. Qed.
Print Assumptions C07_conv_shift_transpose.

(* 1-d: odd PSF size 2h+1, periodic / zero: convolution with the flipped PSF is the exact transpose *)
Theorem C07_conv_periodic_zero : forall (bcm : bc) (P : list Qc) (h : nat) (x y : list Qc),
  periodic_or_zero bcm -> length P = (2 * h + 1)%nat -> length x = length y ->
  qdot (conv1 bcm P x) y = qdot x (conv1 bcm (rev P) y).
Proof. exact conv1_flip_adjoint. Qed.
Print Assumptions C07_conv_periodic_zero.

(* 2-d (_proj_forward_2D / _proj_backward_2D): every image shape nr x nc, odd PSF size *)
Theorem C07_conv2_periodic_zero : forall (bcm : bc) (h nr nc : nat) (P X Y : list (list Qc)),
  periodic_or_zero bcm -> wf_mat (2 * h + 1) P -> length P = (2 * h + 1)%nat ->
  wf_mat nc X -> length X = nr -> wf_mat nc Y -> length Y = nr ->
  fdot (conv2 bcm (2 * h + 1) nr nc P X) Y = fdot X (conv2 bcm (2 * h + 1) nr nc (flip2 P) Y).
Proof. exact conv2_flip_adjoint. Qed.
Print Assumptions C07_conv2_periodic_zero.

(* Deconvolution2D's LinearModel (function pair through Image2D geometries), periodic / zero, odd PSF size *)
Theorem C07_deconv2_adjoint : forall (bcm : bc) (h n : nat) (P : list (list Qc)),
  periodic_or_zero bcm -> wf_mat (2 * h + 1) P -> length P = (2 * h + 1)%nat ->
  forall x y, length x = (n * n)%nat -> length y = (n * n)%nat ->
  exists fx ay, forward (deconv2_model bcm (2 * h + 1) n P) (V1 x) = Some (V1 fx) /\
                adjoint (deconv2_model bcm (2 * h + 1) n P) (V1 y) = Some (V1 ay) /\
                length fx = (n * n)%nat /\ length ay = (n * n)%nat /\ qdot fx y = qdot x ay.
Proof. exact deconv2_adjoint. Qed.
Print Assumptions C07_deconv2_adjoint.

(* FINDING (_proj_backward_2D|even-PSF, |pad:edge, |pad:symmetric, |pad:reflect): outside
   {periodic, zero} x {odd PSF size} the flipped-PSF operator is not the transpose *)
Theorem C07_deconv2_refuted :
  (exists P x y, deconv2_fails BWrap 2 3 P x y) /\ (exists P x y, deconv2_fails BConstant 2 3 P x y) /\
  (exists P x y, deconv2_fails BEdge 3 3 P x y) /\ (exists P x y, deconv2_fails BSymmetric 3 3 P x y) /\
  (exists P x y, deconv2_fails BReflect 3 3 P x y).
Proof.
  repeat split; do 3 eexists;
    [exact deconv2_even_refuted | exact deconv2_even_zero_refuted | exact deconv2_edge_refuted
    | exact deconv2_symmetric_refuted | exact deconv2_reflect_refuted].
Qed.
Print Assumptions C07_deconv2_refuted.

(* the same classes in 1-d *)
Theorem C07_conv1_refuted :
  (exists P x y, Nat.even (length P) = true /\ conv1_flip_fails BWrap P x y) /\
  (exists P x y, Nat.even (length P) = true /\ conv1_flip_fails BConstant P x y) /\
  (exists P x y, Nat.odd (length P) = true /\ conv1_flip_fails BEdge P x y) /\
  (exists P x y, Nat.odd (length P) = true /\ conv1_flip_fails BSymmetric P x y) /\
  (exists P x y, Nat.odd (length P) = true /\ conv1_flip_fails BReflect P x y).
Proof.
  repeat split; do 3 eexists; (split; [|first [exact conv1_even_periodic_refuted | exact conv1_even_zero_refuted
    | exact conv1_edge_refuted | exact conv1_symmetric_refuted | exact conv1_reflect_refuted]]); reflexivity.
Qed.
Print Assumptions C07_conv1_refuted.

(* ---- Deconvolution1D's matrix ----------------------------------------------------------------------- *)

(* the 1-d operator (scipy.ndimage.convolve1d, all five boundary modes, every PSF) is linear ... *)
Theorem C07_conv1_linear : forall (bcm : bc) (P : list Qc) (n : nat), linear_map n n (conv1 bcm P).
Proof. exact conv1_linear. Qed.
Print Assumptions C07_conv1_linear.

(* ... so the matrix whose COLUMNS are the images of the unit vectors (the assembly of
   fixes/C07_deconv1d_assembly.diff) is the operator: all five boundary modes, every PSF, every size *)
Theorem C07_deconv1_column_assembly : forall (bcm : bc) (P : list Qc) (n : nat) (x : list Qc),
  length x = n -> qmatvec (deconv1_matrix false bcm P n) x = conv1 bcm P x.
Proof. exact deconv1_cols_operator. Qed.
Print Assumptions C07_deconv1_column_assembly.

(* FINDING (Deconvolution1D.__init__|transposed-assembly): today's assembly puts those images in the ROWS,
   which is the transpose of the operator (all modes); under periodic / zero boundary and an odd PSF size
   that is the convolution with the FLIPPED PSF, i.e. the documented operator only for symmetric PSFs *)
Theorem C07_deconv1_row_assembly_transposed : forall (bcm : bc) (P : list Qc) (n : nat),
  (forall x y, length x = n -> length y = n ->
     qdot (qmatvec (deconv1_matrix true bcm P n) x) y = qdot x (conv1 bcm P y)) /\
  (forall h x, periodic_or_zero bcm -> length P = (2 * h + 1)%nat -> length x = n ->
     qmatvec (deconv1_matrix true bcm P n) x = conv1 bcm (rev P) x /\
     (rev P = P -> qmatvec (deconv1_matrix true bcm P n) x = conv1 bcm P x)).
Proof.
  intros bcm P n. split.
  - intros x y. exact (deconv1_rows_transposed bcm P n x y).
  - intros h x Hm HP Hx. split; [exact (deconv1_rows_flipped bcm P h n x Hm HP Hx)|].
    intros Hs. exact (deconv1_rows_symmetric_ok bcm P h n x Hm HP Hs Hx).
Qed.
Print Assumptions C07_deconv1_row_assembly_transposed.

Theorem C07_deconv1_row_assembly_refuted :
  (exists P n x, rev P <> P /\ qmatvec (deconv1_matrix true BConstant P n) x <> conv1 BConstant P x) /\
  (exists P n x, rev P = P /\ qmatvec (deconv1_matrix true BEdge P n) x <> conv1 BEdge P x).
Proof.
  split.
  - do 3 eexists. split; [|exact deconv1_rows_asymmetric_refuted].
    intros H. apply (f_equal (fun l => qcl_eqb l (zv [1; 2; 3]%Z))) in H. vm_compute in H. discriminate.
  - do 3 eexists. split; [|exact deconv1_rows_edge_refuted]. reflexivity.
Qed.
Print Assumptions C07_deconv1_row_assembly_refuted.

(* non-vacuity: the hypotheses are satisfiable -- an F-order image geometry on the domain and a one-node
   step expansion on the range of a function-backed model, and an odd PSF under periodic boundary *)
Example C07_example :
  orth_geom (GImage 2 3 OF) /\ orth_geom (GStep [1; 1]%nat) /\
  (exists fx ay,
     forward (fun_model 6 (zm [[1; 2; 0; 1; 3; 1]; [0; 1; 1; 2; 0; 1]]%Z) (GImage 2 3 OF) (GStep [1; 1]%nat))
             (V1 (zv [1; 2; 3; 4; 5; 6]%Z)) = Some (V1 fx) /\
     adjoint (fun_model 6 (zm [[1; 2; 0; 1; 3; 1]; [0; 1; 1; 2; 0; 1]]%Z) (GImage 2 3 OF) (GStep [1; 1]%nat))
             (V1 (zv [1; -1]%Z)) = Some (V1 ay) /\
     qdot fx (zv [1; -1]%Z) = qdot (zv [1; 2; 3; 4; 5; 6]%Z) ay) /\
  periodic_or_zero BWrap /\
  qc_eqb (qdot (conv1 BWrap (zv [1; 2; 3]%Z) (zv [1; 0; 2; 0]%Z)) (zv [0; 1; 1; 3]%Z))
         (qdot (zv [1; 0; 2; 0]%Z) (conv1 BWrap (rev (zv [1; 2; 3]%Z)) (zv [0; 1; 1; 3]%Z))) = true.
Proof.
  split; [exact I|]. split; [repeat constructor|]. split.
  - eexists; eexists. split; [vm_compute; reflexivity|]. split; [vm_compute; reflexivity|].
    apply qc_eqb_eq. vm_compute. reflexivity.
  - split; [left; reflexivity | vm_compute; reflexivity].
Qed.

(* ==== deepening round ================================================================================== *)

(* the step-expansion guard of C07_adjoint_orthogonal is EXACT: every partition (positive step sizes) with a
   step of more than one node has a matrix model and inputs on which the identity fails *)
Theorem C07_step_partition_refuted : forall cnt : list nat,
  Forall (fun k => (0 < k)%nat) cnt -> Exists (fun k => k <> 1%nat) cnt ->
  exists n A x y, wf_mat n A /\ n = fold_right Nat.add 0%nat cnt /\ length x = length cnt /\ length y = length A /\
                  adjoint_fails (mat_model n A (GStep cnt) (GId (length A))) x y.
Proof. exact step_partition_fails. Qed.
Print Assumptions C07_step_partition_refuted.

(* linear expansions (KLExpansion: par2fun = G, fun2par = Ginv, Ginv (G p) = p by C13 under the dst/idst law):
   a left inverse can only be the transpose if G preserves inner products; wherever it does not, the
   identity-matrix model through that geometry fails at x = p, y = G p *)
Theorem C07_left_inverse_expansion_refuted : forall (np nf : nat) (G Ginv : list (list Qc)) (p : list Qc),
  wf_mat np G -> length G = nf -> length Ginv = np -> length p = np ->
  qmatvec Ginv (qmatvec G p) = p ->
  qdot (qmatvec G p) (qmatvec G p) <> qdot p p ->
  adjoint_fails (mat_model nf (map (qunit nf) (seq 0 nf)) (GLin np nf G Ginv) (GId nf)) p (qmatvec G p).
Proof. exact left_inverse_expansion_fails. Qed.
Print Assumptions C07_left_inverse_expansion_refuted.

(* every representation of the input gives the same map: ndarray / CUQIarray of parameters (own or foreign
   geometry), and function values (ndarray with is_par=False or CUQIarray) of par2fun(x) -- so the adjoint
   identity holds whatever the representation; Samples are mapped column by column *)
Theorem C07_representations : forall (m : lmodel) (v : val),
  forward_rep m RArrayPar v = forward m v /\ forward_rep m RCuqiPar v = forward m v /\ forward_rep m RCuqiOther v = forward m v /\
  adjoint_rep m RArrayPar v = adjoint m v /\ adjoint_rep m RCuqiPar v = adjoint m v /\ adjoint_rep m RCuqiOther v = adjoint m v /\
  forward_rep m RCuqiFun v = forward_rep m RArrayFun v /\ adjoint_rep m RCuqiFun v = adjoint_rep m RArrayFun v /\
  (forall F, p2f (lm_D m) v = Some F -> forward_rep m RArrayFun F = forward m v) /\
  (forall F, p2f (lm_R m) v = Some F -> adjoint_rep m RArrayFun F = adjoint m v).
Proof. exact representations_agree. Qed.
Print Assumptions C07_representations.

Theorem C07_samples_columnwise : forall (m : lmodel) (r : rep) (cols outs : list val),
  forward_samples m r cols = Some outs -> Forall2 (fun c o => forward_rep m r c = Some o) cols outs.
Proof. exact samples_columnwise. Qed.
Print Assumptions C07_samples_columnwise.

(* function values as input (is_par=False), ANY function value, not only images of par2fun *)
Theorem C07_adjoint_function_value_inputs : forall m : lmodel,
  geom_adjoint_pair (lm_D m) -> geom_adjoint_pair (lm_R m) -> transposes m ->
  forall xs y, length xs = fun_dim (lm_D m) -> length y = par_dim (lm_R m) ->
  exists fx ys v, forward_rep m RArrayFun (funval (lm_D m) xs) = Some (V1 fx) /\
                  p2f (lm_R m) (V1 y) = Some (funval (lm_R m) ys) /\ lm_adj m (funval (lm_R m) ys) = Some (funval (lm_D m) v) /\
                  qdot fx y = qdot xs v.
Proof. exact adjoint_function_value_inputs. Qed.
Print Assumptions C07_adjoint_function_value_inputs.

(* a MATRIX applied through image geometries (X |-> A X, any storage orders): the identity holds, every shape *)
Theorem C07_adjoint_matrix_through_images : forall (n : nat) (A : list (list Qc)) (c : nat) (o o' : C07_Adj.order), wf_mat n A ->
  forall x y, length x = (n * c)%nat -> length y = (length A * c)%nat ->
  exists fx ay, forward (mat_model n A (GImage n c o) (GImage (length A) c o')) (V1 x) = Some (V1 fx) /\
                adjoint (mat_model n A (GImage n c o) (GImage (length A) c o')) (V1 y) = Some (V1 ay) /\
                length fx = (length A * c)%nat /\ length ay = (n * c)%nat /\ qdot fx y = qdot x ay.
Proof. exact adjoint_matrix_through_images. Qed.
Print Assumptions C07_adjoint_matrix_through_images.

(* the repaired T (fixes/C07_transpose_underlying_callables.diff: built from _adjoint_func/_forward_func):
   consistent for EVERY geometry, no idempotence needed *)
Theorem C07_transpose_underlying : forall (k : nat) (m : lmodel),
  (forall v, forward (lmT2 k m) v = adjoint m v /\ adjoint (lmT2 k m) v = forward m v) /\
  lm_D (lmT2 k m) = lm_R m /\ lm_R (lmT2 k m) = lm_D m /\
  (forall A, lm_mat m = Some A -> get_matrix (lmT2 k m) = Some (tr k A)) /\
  (forall v, forward (lmT2 k (lmT2 k m)) v = forward m v).
Proof. exact transpose_underlying. Qed.
Print Assumptions C07_transpose_underlying.

(* the repaired get_matrix (fixes/C07_get_matrix_parameter_map.diff): for a MATRIX model with any well-formed vector
   geometries (expansions, scaling included) the matrix assembled through forward has the shape of the parameter map and
   reproduces forward; where the given matrix is returned as it is (identity geometries) it is the forward map *)
Theorem C07_get_matrix_repaired : forall (n : nat) (A : list (list Qc)) (D R : geom),
  wf_geom D -> wf_geom R -> vec_geom D -> vec_geom R -> wf_mat n A -> n = fun_dim D -> length A = fun_dim R ->
  exists G, get_matrix_gen false (mat_model n A D R) = Some G /\ wf_mat (par_dim D) G /\ length G = par_dim R /\
    (forall x, length x = par_dim D -> forward (mat_model n A D R) (V1 x) = Some (V1 (qmatvec G x))) /\
    (forall j, (j < par_dim D)%nat ->
       forward (mat_model n A D R) (V1 (qunit (par_dim D) j)) = Some (V1 (col (Q2Qc 0) G j))).
Proof. exact matrix_model_get_matrix_repaired. Qed.
Print Assumptions C07_get_matrix_repaired.

Theorem C07_get_matrix_as_is : forall m : lmodel, get_matrix_gen true m = get_matrix m.
Proof. exact get_matrix_gen_true. Qed.
Print Assumptions C07_get_matrix_as_is.

(* StepExpansion with fun2par_projection = 'max' / 'min' (GStepX): over one-node steps it is in the orthogonal class
   (covered by C07_adjoint_orthogonal / C07_orthogonal_geometries); with a two-node step fun2par is not even additive,
   the adjoint identity fails for both projections, and the matrix assembled by get_matrix does not reproduce forward *)
Theorem C07_step_max_min_refuted :
  (exists x x' a b c, forward (fun_model 2 wI2 (GId 2) (GStepX true [2%nat])) (V1 x) = Some (V1 a) /\
                      forward (fun_model 2 wI2 (GId 2) (GStepX true [2%nat])) (V1 x') = Some (V1 b) /\
                      forward (fun_model 2 wI2 (GId 2) (GStepX true [2%nat])) (V1 (qvadd x x')) = Some (V1 c) /\
                      c <> qvadd a b) /\
  (exists x y, adjoint_fails (mat_model 2 wI2 (GStepX true [2%nat]) (GId 2)) x y) /\
  (exists x y, adjoint_fails (mat_model 2 wI2 (GStepX false [2%nat]) (GId 2)) x y) /\
  (exists G x fx, get_matrix (fun_model 2 wI2 (GId 2) (GStepX true [2%nat])) = Some G /\
                  forward (fun_model 2 wI2 (GId 2) (GStepX true [2%nat])) (V1 x) = Some (V1 fx) /\ qmatvec G x <> fx).
Proof.
  split; [exact step_max_not_additive|]. split; [do 2 eexists; exact step_max_adjoint_refuted|].
  split; [do 2 eexists; exact step_min_adjoint_refuted | exact step_max_get_matrix_refuted].
Qed.
Print Assumptions C07_step_max_min_refuted.

(* what the exact transpose is for EVERY PSF size (even included), periodic / zero boundary: the flipped PSF with
   the result trimmed on the OTHER side (conv1T/conv2T; equal to conv1/conv2 for odd sizes).  The repo's
   test-suite pins the untrimmed variant for size 20, so this stays a finding, not a fix. *)
Theorem C07_conv_transpose_any_size : forall (bcm : bc) (P : list Qc) (x y : list Qc),
  periodic_or_zero bcm -> length x = length y -> qdot (conv1 bcm P x) y = qdot x (conv1T bcm (rev P) y).
Proof. exact conv1_flipT_adjoint. Qed.
Print Assumptions C07_conv_transpose_any_size.

Theorem C07_conv2_transpose_any_size : forall (bcm : bc) (S nr nc : nat) (P X Y : list (list Qc)),
  periodic_or_zero bcm -> wf_mat S P -> length P = S ->
  wf_mat nc X -> length X = nr -> wf_mat nc Y -> length Y = nr ->
  fdot (conv2 bcm S nr nc P X) Y = fdot X (conv2T bcm S nr nc (flip2 P) Y).
Proof. exact conv2_flipT_adjoint. Qed.
Print Assumptions C07_conv2_transpose_any_size.

Theorem C07_deconv2_trimmed_adjoint : forall (bcm : bc) (S n : nat) (P : list (list Qc)),
  periodic_or_zero bcm -> wf_mat S P -> length P = S ->
  forall x y, length x = (n * n)%nat -> length y = (n * n)%nat ->
  exists fx ay, forward (deconv2_model_gen true bcm S n P) (V1 x) = Some (V1 fx) /\
                adjoint (deconv2_model_gen true bcm S n P) (V1 y) = Some (V1 ay) /\
                length fx = (n * n)%nat /\ length ay = (n * n)%nat /\ qdot fx y = qdot x ay.
Proof. exact deconv2_fixed_adjoint. Qed.
Print Assumptions C07_deconv2_trimmed_adjoint.

(* one witness per padding x PSF parity: the three non-periodic paddings with an EVEN PSF (odd ones and the
   even periodic/zero ones are in C07_deconv2_refuted); trimming on the other side does not help them *)
Theorem C07_deconv2_even_paddings_refuted :
  (exists P x y, deconv2_fails BEdge 2 3 P x y) /\ (exists P x y, deconv2_fails BSymmetric 2 3 P x y) /\
  (exists P x y, deconv2_fails BReflect 2 3 P x y) /\
  (exists P x y, adjoint_fails (deconv2_model_gen true BEdge 3 3 P) x y).
Proof.
  repeat split; do 3 eexists;
    [exact deconv2_edge_even_refuted | exact deconv2_symmetric_even_refuted | exact deconv2_reflect_even_refuted
    | exact deconv2_fixed_edge_refuted].
Qed.
Print Assumptions C07_deconv2_even_paddings_refuted.

(* non-vacuity of the new hypotheses: a partition with a two-node step; an expansion with a left inverse that is
   not an isometry; a matrix through F- and C-order images; an even PSF under periodic boundary *)
Example C07_example_deepening :
  (Forall (fun k => (0 < k)%nat) [1; 2]%nat /\ Exists (fun k => k <> 1%nat) [1; 2]%nat) /\
  (qmatvec (qmat [[1 # 2; 0]; [0; 1]]%Q) (qmatvec (zm [[2; 0]; [0; 1]]%Z) (zv [1; 1]%Z)) = zv [1; 1]%Z /\
   qdot (qmatvec (zm [[2; 0]; [0; 1]]%Z) (zv [1; 1]%Z)) (qmatvec (zm [[2; 0]; [0; 1]]%Z) (zv [1; 1]%Z)) <> qdot (zv [1; 1]%Z) (zv [1; 1]%Z)) /\
  wf_mat 2 (zm [[1; 2]; [0; 1]; [3; 1]]%Z) /\
  qc_eqb (qdot (conv1 BWrap (zv [1; 2; 3; 4]%Z) (zv [1; 0; 2; 0; 1]%Z)) (zv [0; 1; 1; 3; 2]%Z))
         (qdot (zv [1; 0; 2; 0; 1]%Z) (conv1T BWrap (rev (zv [1; 2; 3; 4]%Z)) (zv [0; 1; 1; 3; 2]%Z))) = true.
Proof.
  split; [split; [repeat constructor | right; left; discriminate]|].
  split; [split; [apply (list_eqb_spec qc_eqb qc_eqb_eq); vm_compute; reflexivity | apply qc_neq_of_eqb; vm_compute; reflexivity]|].
  split; [repeat constructor | vm_compute; reflexivity].
Qed.

(* ==== second deepening round =========================================================================== *)

(* gradient of a LinearModel (Model.gradient with _gradient_func = adjoint callable): for geometries of identity type it
   IS adjoint(direction) whatever wrt, also with the direction given as function values; it is refused otherwise *)
Theorem C07_gradient_is_adjoint : forall (m : lmodel) (d : val), id_type (lm_R m) = true -> id_type (lm_D m) = true ->
  gradient None false m d = adjoint m d /\ gradient None true m d = adjoint_rep m RArrayFun d.
Proof. exact gradient_is_adjoint. Qed.
Print Assumptions C07_gradient_is_adjoint.

Theorem C07_gradient_refused : forall (m : lmodel) (b : bool) (d : val),
  (id_type (lm_R m) = false -> forall u, gradient u b m d = None) /\
  (id_type (lm_D m) = false -> gradient None b m d = None).
Proof. exact gradient_refused. Qed.
Print Assumptions C07_gradient_refused.

(* hence the gradient is the transposed forward map *)
Theorem C07_gradient_transposes_forward : forall m : lmodel,
  id_type (lm_R m) = true -> id_type (lm_D m) = true -> transposes m ->
  forall x d, length x = par_dim (lm_D m) -> length d = par_dim (lm_R m) ->
  exists fx g, forward m (V1 x) = Some (V1 fx) /\ gradient None false m (V1 d) = Some (V1 g) /\ qdot fx d = qdot x g.
Proof. exact gradient_transposes_forward. Qed.
Print Assumptions C07_gradient_transposes_forward.

(* a user geometry c.x that brings its own gradient method (g |-> c.g): the chain-rule factor makes the gradient the TRUE
   transpose of forward for every c, although adjoint (which maps back through x/c) is not (witness below) *)
Theorem C07_gradient_chain_rule : forall (n : nat) (A : list (list Qc)) (c cinv : Qc) (k r : nat) (x d : list Qc),
  wf_mat n A -> n = k -> length A = r -> length x = k -> length d = r ->
  exists fx g, forward (mat_model n A (GScale c cinv (GId k)) (GId r)) (V1 x) = Some (V1 fx) /\
               gradient (Some c) false (mat_model n A (GScale c cinv (GId k)) (GId r)) (V1 d) = Some (V1 g) /\
               qdot fx d = qdot x g.
Proof. exact gradient_chain_rule. Qed.
Print Assumptions C07_gradient_chain_rule.

Theorem C07_gradient_vs_adjoint_refuted :
  exists g a, gradient (Some (qc 2)) false (mat_model 3 wA23 (GScale (qc 2) (qc (1 # 2)) (GId 3)) (GId 2)) (V1 (zv [1; -1]%Z)) = Some (V1 g) /\
              adjoint (mat_model 3 wA23 (GScale (qc 2) (qc (1 # 2)) (GId 3)) (GId 2)) (V1 (zv [1; -1]%Z)) = Some (V1 a) /\ g <> a.
Proof. exact gradient_vs_adjoint_scaling_refuted. Qed.
Print Assumptions C07_gradient_vs_adjoint_refuted.

(* KLExpansion written out in the model (kl_geom: par2fun = idst(pad(coefs p / tau))/2, fun2par = coefs^-1 dst(2f)[:m] tau/(2N),
   dst/idst as matrices).  C13's law restated as hypothesis -- dst(idst v) = 2N v -- gives: the geometry that runs is a linear
   expansion with fun2par a left inverse of par2fun, i.e. exactly the situation of C07_left_inverse_expansion_refuted *)
Theorem C07_kl_left_inverse : forall (N m : nat) (coefs : list Qc) (tau : Qc) (dstM idstM : list (list Qc)),
  wf_mat N idstM -> length idstM = N -> length coefs = m -> (m <= N)%nat -> (0 < N)%nat -> (m <= length dstM)%nat ->
  Forall (fun c => c <> Q2Qc 0) coefs -> tau <> Q2Qc 0 ->
  (forall v, length v = N -> qmatvec dstM (qmatvec idstM v) = qvscale (qcz 2 * qcz (Z.of_nat N))%Qc v) ->
  exists G Ginv, kl_geom N m coefs tau dstM idstM = GLin m N G Ginv /\ wf_mat m G /\ length G = N /\ length Ginv = m /\
    forall p, length p = m -> qmatvec Ginv (qmatvec G p) = p.
Proof. exact kl_geom_is_left_inverse_expansion. Qed.
Print Assumptions C07_kl_left_inverse.

(* StepExpansion by index lists, as the code has it (fun[idx_i] = p_i ; par_i = mean f[idx_i]).  C13's law restated as
   hypothesis -- the index lists are the consecutive blocks of 0..N-1 -- gives the block-count model that runs (GStep) *)
Theorem C07_step_blocks_from_indices : forall (idx : list (list nat)) (f : list Qc),
  concat idx = seq 0 (length f) ->
  map (fun ids => (qsum (map (fun j => nth j f (Q2Qc 0)) ids) / qcz (Z.of_nat (length ids)))%Qc) idx = step_mean (counts idx) f /\
  forall p, length p = length idx ->
    gather idx f = zipw (fun (ids : list nat) a => repeat a (length ids)) idx p -> f = step_expand (counts idx) p.
Proof.
  intros idx f H. split; [exact (step_fun2par_by_indices idx f H)|].
  intros p Hp Hg. exact (step_par2fun_by_indices idx p f H Hp Hg).
Qed.
Print Assumptions C07_step_blocks_from_indices.

(* Deconvolution1D's LinearModel as the check runs it (the matrix is COMPUTED by the model from the PSF and the boundary mode):
   forward is the documented convolution for all five boundary modes, every PSF and size, and adjoint is its transpose *)
Theorem C07_deconv1_model_runs : forall (bcm : bc) (P : list Qc) (n : nat) (x y : list Qc), length x = n -> length y = n ->
  forward (mat_model n (deconv1_matrix false bcm P n) (GId n) (GId n)) (V1 x) = Some (V1 (conv1 bcm P x)) /\
  exists ay, adjoint (mat_model n (deconv1_matrix false bcm P n) (GId n) (GId n)) (V1 y) = Some (V1 ay) /\
             qdot (conv1 bcm P x) y = qdot x ay.
Proof. exact deconv1_model_runs. Qed.
Print Assumptions C07_deconv1_model_runs.

Example C07_example_deepening2 :
  id_type (GImage 2 2 OF) = true /\ id_type (GId 3) = true /\
  concat [[0; 1]; [2]; [3; 4]]%nat = seq 0 (length (zv [5; 6; 7; 8; 9]%Z)) /\
  counts [[0; 1]; [2]; [3; 4]]%nat = [2; 1; 2]%nat /\
  gather [[0; 1]; [2]; [3; 4]]%nat (zv [5; 5; 7; 8; 8]%Z) =
    zipw (fun (ids : list nat) a => repeat a (length ids)) [[0; 1]; [2]; [3; 4]]%nat (zv [5; 7; 8]%Z).
Proof. repeat split; reflexivity. Qed.
