(* C16 -- PCGLS is CGLS applied to the preconditioned operator  A P^-1  in the variable y = P x  (shift 0):
   iterate by iterate  x_k = P^-1 y_k  with identical r, s, p, gamma, for every step length the recurrences pick (any ring,
   any division / comparison / eps).  With tol = 0 the two loops stop at the same k, hence -- by the CGLS convergence theorem
   (Proofs/C16_Conj.v) at the operator A P^-1 -- PCGLS run to convergence returns, within max(n,1) iterations and from any start,
   a point with  P^-T A^T (b - A x) = 0,  i.e.  A^T (b - A x) = 0  when P^-T has trivial kernel: the normal equations. *)
From CV Require Import Base.Tac Base.LinAlg Model.C16_Solve Proofs.C16_CG Proofs.C16_Spec Proofs.C16_LMfull Proofs.C16_ConjSpec.
From Coq Require Import Reals Lra Ring.

Section Precond.
Variable T : Type.
Variables (t0 t1 : T) (tadd tmul tsub : T -> T -> T) (topp : T -> T).
Hypothesis Tth : ring_theory t0 t1 tadd tmul tsub topp (@eq T).
Add Ring TringPc : Tth.
Variable tdiv : T -> T -> T.
Variable tleb : T -> T -> bool.
Variable teps : T.

Local Notation vec := (list T).
Local Notation Nsq := (normsq t0 tadd tmul).
Local Notation Dot := (dot t0 tadd tmul).
Local Notation Vadd := (vadd tadd).
Local Notation Vsub := (vsub tsub).
Local Notation Vscale := (vscale tmul).

Variables (n m : nat) (fwd adj pinv pinvT : vec -> vec) (b : vec).
Hypothesis OPA : adjoint_pair T t0 tadd tmul tsub n m fwd adj.
Hypothesis OPP : adjoint_pair T t0 tadd tmul tsub n n pinv pinvT.
Hypothesis b_len : length b = m.

Definition pfwd' (y : vec) : vec := fwd (pinv y).
Definition padj' (z : vec) : vec := pinvT (adj z).

Lemma precond_adjoint_pair : adjoint_pair T t0 tadd tmul tsub n m pfwd' padj'.
Proof.
  destruct OPA as (A1 & A2 & A3 & A4 & A5 & A6 & A7). destruct OPP as (P1 & P2 & P3 & P4 & P5 & P6 & P7).
  unfold pfwd', padj'. repeat split.
  - intros x y Hx Hy. rewrite P1, A1; auto.
  - intros c x Hx. rewrite P2, A2; auto.
  - intros x Hx. auto.
  - intros x y Hx Hy. rewrite A4, P4; auto.
  - intros c x Hx. rewrite A5, P5; auto.
  - intros y Hy. auto.
  - intros x y Hx Hy. rewrite A7, P7; auto.
Qed.

Local Notation pstep := (pcgls_step T t0 tadd tmul tsub tdiv tleb teps fwd adj pinv pinvT).
Local Notation cstep := (cgls_step T t0 tadd tmul tsub tdiv tleb teps pfwd' padj' t0).
Local Notation pinit := (pcgls_init T t0 tadd tmul tsub fwd adj b pinvT).
Local Notation cinit := (cgls_init T t0 tadd tmul tsub pfwd' padj' b t0).

Lemma vsub_vscale0 : forall (v y : vec), length v = length y -> Vsub v (Vscale t0 y) = v.
Proof. unfold vscale. induction v as [|a v IH]; intros [|c y] H; cbn in *; try discriminate; try reflexivity. f_equal; [ring | apply IH; lia]. Qed.

(* the simulation relation *)
Definition rel (ps cs : cg_state T) : Prop :=
  cg_x T ps = pinv (cg_x T cs) /\ cg_r T ps = cg_r T cs /\ cg_s T ps = cg_s T cs /\ cg_p T ps = cg_p T cs /\
  cg_gamma T ps = cg_gamma T cs /\ length (cg_x T cs) = n /\ length (cg_p T cs) = n /\ length (cg_r T cs) = m.

Lemma rel_init y0 : length y0 = n -> rel (pinit (pinv y0)) (cinit y0).
Proof.
  destruct OPA as (A1 & A2 & A3 & A4 & A5 & A6 & A7). destruct OPP as (P1 & P2 & P3 & P4 & P5 & P6 & P7).
  intros Hy. unfold rel, pcgls_init, cgls_init. cbn [cg_x cg_r cg_s cg_p cg_gamma].
  assert (Hr : length (Vsub b (fwd (pinv y0))) = m) by (rewrite vsub_length; rewrite ?A3; auto).
  assert (Es : Vsub (padj' (Vsub b (pfwd' y0))) (Vscale t0 y0) = pinvT (adj (Vsub b (fwd (pinv y0))))).
  { unfold padj', pfwd'. apply vsub_vscale0. rewrite P6; auto. }
  unfold pfwd' at 1 2 3. rewrite !Es. repeat split; auto.
Qed.

Lemma rel_step ps cs : rel ps cs -> rel (pstep ps) (cstep cs).
Proof.
  destruct OPA as (A1 & A2 & A3 & A4 & A5 & A6 & A7). destruct OPP as (P1 & P2 & P3 & P4 & P5 & P6 & P7).
  intros (Hx & Hr & Hs & Hp & Hg & Lx & Lp & Lr).
  unfold rel, pcgls_step, cgls_step. cbn [cg_x cg_r cg_s cg_p cg_gamma].
  rewrite Hx, Hr, Hp, Hg. fold (pfwd' (cg_p T cs)).
  replace (tadd (Nsq (pfwd' (cg_p T cs))) (tmul t0 (Nsq (cg_p T cs)))) with (Nsq (pfwd' (cg_p T cs))) by ring.
  set (alpha := tdiv (cg_gamma T cs) (safe_delta T t0 tleb teps (Nsq (pfwd' (cg_p T cs))))).
  set (q := pfwd' (cg_p T cs)).
  assert (Lq : length q = m) by (unfold q, pfwd'; auto).
  set (r' := Vsub (cg_r T cs) (Vscale alpha q)).
  assert (Lr' : length r' = m) by (unfold r'; rewrite vsub_length; rewrite ?vscale_length; lia).
  set (y' := Vadd (cg_x T cs) (Vscale alpha (cg_p T cs))).
  assert (Ly' : length y' = n) by (unfold y'; rewrite vadd_length; rewrite ?vscale_length; lia).
  assert (Es : Vsub (padj' r') (Vscale t0 y') = pinvT (adj r')).
  { unfold padj'. apply vsub_vscale0. rewrite P6 by auto. symmetry; exact Ly'. }
  rewrite !Es.
  assert (Ls : length (pinvT (adj r')) = n) by auto.
  repeat split; auto.
  - unfold y'. rewrite P1, P2; auto. rewrite vscale_length; exact Lp.
  - rewrite vadd_length; rewrite ?vscale_length; lia.
Qed.

Lemma stop_tol0_eq g0 ps cs : cg_gamma T ps = cg_gamma T cs ->
  cg_stop T t0 t1 tadd tmul tleb t0 g0 ps = cg_stop T t0 t1 tadd tmul tleb t0 g0 cs.
Proof.
  intros Hg. unfold cg_stop. rewrite Hg.
  replace (tmul (Nsq (cg_x T ps)) (tmul t0 t0)) with t0 by ring.
  replace (tmul (Nsq (cg_x T cs)) (tmul t0 t0)) with t0 by ring. reflexivity.
Qed.

Lemma loop_sim fuel : forall k g0 ps cs, rel ps cs ->
  cg_loop T t0 t1 tadd tmul tleb pstep fuel k t0 g0 ps =
  (pinv (fst (cg_loop T t0 t1 tadd tmul tleb cstep fuel k t0 g0 cs)), snd (cg_loop T t0 t1 tadd tmul tleb cstep fuel k t0 g0 cs)).
Proof.
  induction fuel as [|f IH]; intros k g0 ps cs Hrel; cbn [cg_loop].
  - cbn [fst snd]. destruct Hrel as (Hx & _). rewrite Hx. reflexivity.
  - pose proof (rel_step ps cs Hrel) as Hrel'.
    rewrite (stop_tol0_eq g0 (pstep ps) (cstep cs)) by (destruct Hrel' as (_ & _ & _ & _ & Hg & _); exact Hg).
    destruct (cg_stop T t0 t1 tadd tmul tleb t0 g0 (cstep cs)).
    + cbn [fst snd]. destruct Hrel' as (Hx & _). rewrite Hx. reflexivity.
    + apply IH. exact Hrel'.
Qed.

(* PCGLS(A, b, P^-1 y0, P, maxit, tol = 0) = (P^-1 y, k)  where  (y, k) = CGLS(A P^-1, b, y0, maxit, tol = 0, shift = 0) *)
Theorem pcgls_is_cgls_preconditioned shift_arg y0 maxit : length y0 = n ->
  pcgls_solve T t0 t1 tadd tmul tsub tdiv tleb teps fwd adj b pinv pinvT shift_arg (pinv y0) maxit t0 =
  (pinv (fst (cgls_solve T t0 t1 tadd tmul tsub tdiv tleb teps pfwd' padj' b t0 y0 maxit t0)),
   snd (cgls_solve T t0 t1 tadd tmul tsub tdiv tleb teps pfwd' padj' b t0 y0 maxit t0)).
Proof.
  intros Hy. unfold pcgls_solve, cgls_solve. pose proof (rel_init y0 Hy) as Hrel.
  assert (Hg : cg_gamma T (pinit (pinv y0)) = cg_gamma T (cinit y0)) by (destruct Hrel as (_ & _ & _ & _ & Hg & _); exact Hg).
  rewrite Hg. apply loop_sim. exact Hrel.
Qed.

(* ... and the iterates correspond one by one, for every tolerance (the recurrences do not read tol) *)
Theorem pcgls_iterates_preconditioned y0 k : length y0 = n ->
  rel (pcgls_iter T t0 tadd tmul tsub tdiv tleb teps fwd adj pinv pinvT k (pinit (pinv y0)))
      (cgls_iter T t0 tadd tmul tsub tdiv tleb teps pfwd' padj' t0 k (cinit y0)).
Proof. intros Hy. induction k as [|k IH]; cbn [pcgls_iter cgls_iter]; [apply rel_init; exact Hy | apply rel_step; exact IH]. Qed.

(* ---------- run to convergence ---------- *)
Local Open Scope R_scope.
Variable phi : T -> R.
Hypothesis E : embedding T t0 t1 tadd tmul tsub topp tleb phi.
Hypothesis phi_div : forall a b, phi b <> 0 -> phi (tdiv a b) = phi a / phi b.
(* A P^-1 has trivial kernel *)
Hypothesis PD : pos_def T t0 tadd tmul phi n pfwd' t0.

Theorem pcgls_exact_convergence shift_arg y0 maxit x k : length y0 = n -> (Nat.max n 1 <= maxit)%nat ->
  pcgls_solve T t0 t1 tadd tmul tsub tdiv tleb teps fwd adj b pinv pinvT shift_arg (pinv y0) maxit t0 = (x, k) ->
  (1 <= k <= Nat.max n 1)%nat /\ length x = n /\
  phi (Nsq (pinvT (adj (Vsub b (fwd x))))) = 0.
Proof.
  intros Hy Hmax H. rewrite (pcgls_is_cgls_preconditioned shift_arg y0 maxit Hy) in H.
  destruct (cgls_solve T t0 t1 tadd tmul tsub tdiv tleb teps pfwd' padj' b t0 y0 maxit t0) as (y, k') eqn:Ec.
  cbn [fst snd] in H. injection H as Hxe Hke. subst x k'.
  destruct (cgls_exact_convergence_pkg T t0 t1 tadd tmul tsub topp Tth tdiv tleb teps phi E phi_div n m pfwd' padj'
              precond_adjoint_pair b t0 b_len y0 Hy maxit y k PD Hmax Ec) as (Hk & Hyk & Hz).
  destruct OPA as (A1 & A2 & A3 & A4 & A5 & A6 & A7). destruct OPP as (P1 & P2 & P3 & P4 & P5 & P6 & P7).
  assert (Ly : length y = n).
  { rewrite Hyk.
    destruct (cgls_iter_inv T t0 t1 tadd tmul tsub topp Tth tdiv tleb teps n m pfwd' padj'
                (proj1 precond_adjoint_pair) (proj1 (proj2 precond_adjoint_pair)) (proj1 (proj2 (proj2 precond_adjoint_pair)))
                (proj1 (proj2 (proj2 (proj2 (proj2 (proj2 precond_adjoint_pair)))))) b t0 b_len k (cinit y0)) as (Hx & _).
    { eapply cgls_init_inv; try eassumption; apply precond_adjoint_pair. }
    exact Hx. }
  split; [exact Hk|]. split; [auto|].
  rewrite vsub_vscale0 in Hz; [exact Hz|]. unfold padj', pfwd'. rewrite P6; auto. rewrite A6; auto.
  rewrite vsub_length; rewrite ?A3; auto.
Qed.
End Precond.

(* ---------- non-vacuity at Qc: A = [[1,0],[0,2],[1,1]], P = [[2,0],[1,1]] (P^-1 = [[1/2,0],[-1/2,1]]), b = [1,2,3], x0 = P^-1 [1,-1]:
   every hypothesis holds and the model run with tol = 0 returns after 2 = n iterations a point with A^T (b - A x) = 0 ---------- *)
From CV Require Import Base.QcLin Proofs.C16_Prox.
From Coq Require Import QArith Qcanon.
Lemma pcgls_convergence_nonvacuous_ex :
  let A := qmat ((1 :: 0 :: nil) :: (0 :: 2 :: nil) :: (1 :: 1 :: nil) :: nil)%Q in
  let Pinv := qmat (((1 # 2) :: 0 :: nil) :: ((-1 # 2) :: 1 :: nil) :: nil)%Q in
  let b := qvec (1 :: 2 :: 3 :: nil)%Q in
  let y0 := qvec (1 :: -1 :: nil)%Q in
  adjoint_pair Qc 0%Qc Qcplus Qcmult Qcminus 2 3 (qmatvec A) (qmattvec 2 A) /\
  adjoint_pair Qc 0%Qc Qcplus Qcmult Qcminus 2 2 (qmatvec Pinv) (qmattvec 2 Pinv) /\
  pos_def Qc 0%Qc Qcplus Qcmult phiQ 2 (pfwd' Qc (qmatvec A) (qmatvec Pinv)) 0%Qc /\
  exists x, q_pcgls_solve (qmatvec A) (qmattvec 2 A) b (qmatvec Pinv) (qmattvec 2 Pinv) 0%Qc (qmatvec Pinv y0) 7 0%Qc = (x, 2%nat) /\
            qnormsq (qmattvec 2 A (qvsub b (qmatvec A x))) = 0%Qc.
Proof.
  cbn zeta. split; [ | split; [ | split]].
  - apply (matrix_adjoint_pair Qc 0%Qc 1%Qc Qcplus Qcmult Qcminus Qcopp Qcrt 2). repeat constructor.
  - apply (matrix_adjoint_pair Qc 0%Qc 1%Qc Qcplus Qcmult Qcminus Qcopp Qcrt 2 (qmat (((1 # 2) :: 0 :: nil) :: ((-1 # 2) :: 1 :: nil) :: nil)%Q)). repeat constructor.
  - intros p Hp Hpos. destruct p as [|a [|c [|d p]]]; cbn in Hp; try discriminate.
    unfold curvature, pfwd'. rewrite phiQ_add, phiQ_mul, phiQ_0.
    assert (H12 : phiQ (qc (1 # 2)) = (/ 2)%R) by (unfold qc; rewrite phiQ_Q2Qc; unfold Q2R; cbn; lra).
    assert (Hm12 : phiQ (qc (-1 # 2)) = (- / 2)%R) by (unfold qc; rewrite phiQ_Q2Qc; unfold Q2R; cbn; lra).
    assert (H2 : phiQ (qc 2) = 2%R) by (unfold qc; rewrite phiQ_Q2Qc; unfold Q2R; cbn; lra).
    assert (H1 : phiQ (qc 1) = 1%R) by (unfold qc; rewrite phiQ_Q2Qc; unfold Q2R; cbn; lra).
    assert (H0 : phiQ (qc 0) = 0%R) by (unfold qc; rewrite phiQ_Q2Qc; unfold Q2R; cbn; lra).
    unfold normsq in *. cbn [qmat qvec map qmatvec matvec dot] in *.
    repeat rewrite ?phiQ_add, ?phiQ_mul, ?phiQ_0, ?H12, ?Hm12, ?H2, ?H1, ?H0 in *.
    set (u := phiQ a) in *. set (v := phiQ c) in *.
    match goal with |- (0 < ?e)%R => replace e with (u * u / 4 + (2 * v - u) * (2 * v - u) + v * v)%R by field end.
    pose proof (Rle_0_sqr (2 * v - u)) as Hs. unfold Rsqr in Hs.
    destruct (Req_dec v 0) as [Ev | Ev]; [rewrite Ev in *; nra | assert (0 < v * v)%R by nra; nra].
  - eexists. split; [vm_compute; reflexivity|]. vm_compute. reflexivity.
Qed.
