(* C02 -- list-level facts about the proposal mechanisms of Model/C02_MH.v: what law each proposal has
   as a function of the noise (symmetry of the random walk, the MALA proposal density, the pCN proposals). *)
From CV Require Import Base.Tac Base.Cmp Base.Ext Model.C02_MH.
From Coq Require Import QArith Setoid Morphisms.
Local Open Scope Q_scope.

Definition veq : vec -> vec -> Prop := Forall2 Qeq.

Lemma veq_refl u : veq u u.
Proof. induction u; constructor; [reflexivity | assumption]. Qed.

Lemma veq_trans u v w : veq u v -> veq v w -> veq u w.
Proof.
  intros H. revert w. induction H as [|a b u v Hab Huv IH]; intros w Hw; inversion Hw; subst; constructor.
  - etransitivity; eassumption.
  - apply IH. assumption.
Qed.

Lemma veq_sym u v : veq u v -> veq v u.
Proof. induction 1; constructor; [symmetry|]; assumption. Qed.

Lemma dot_veq u u' v v' : veq u u' -> veq v v' -> dot u v == dot u' v'.
Proof.
  intros Hu. revert v v'. induction Hu as [|a a' u u' Ha Hu IH]; intros v v' Hv.
  - destruct Hv; reflexivity.
  - destruct Hv as [|b b' v v' Hb Hv]; [reflexivity|]. cbn. rewrite Ha, Hb, (IH v v' Hv). reflexivity.
Qed.

Lemma vadd_length u v : length u = length v -> length (vadd u v) = length u.
Proof. revert v; induction u as [|a u IH]; intros [|b v] H; cbn in *; try lia. f_equal. apply IH. lia. Qed.

Lemma vsub_length u v : length u = length v -> length (vsub u v) = length u.
Proof. revert v; induction u as [|a u IH]; intros [|b v] H; cbn in *; try lia. f_equal. apply IH. lia. Qed.

Lemma vscale_length c u : length (vscale c u) = length u.
Proof. apply map_length. Qed.

(* (u + v) - u = v *)
Lemma vsub_vadd_cancel u v : length u = length v -> veq (vsub (vadd u v) u) v.
Proof.
  revert v; induction u as [|a u IH]; intros [|b v] H; cbn in *; try lia; constructor.
  - ring.
  - apply IH. lia.
Qed.

(* ---- random walk: the move is undone by the mirrored noise, so q(x'|x) = q(x|x') for a symmetric noise law ---- *)
Lemma mh_prop_reverse s x xi :
  length x = length xi -> veq (mh_prop s (mh_prop s x xi) (vscale (-1) xi)) x.
Proof.
  unfold mh_prop. revert xi; induction x as [|a x IH]; intros [|b xi] H; cbn in *; try lia; constructor.
  - ring.
  - apply IH. lia.
Qed.

(* ---- CWMH: the proposal of coordinate j is symmetric in the same sense, per coordinate ---- *)
Lemma cw_prop_reverse scales x z :
  length x = length z -> length scales = length z ->
  veq (cw_prop scales (cw_prop scales x z) (vscale (-1) z)) x.
Proof.
  unfold cw_prop. revert x z; induction scales as [|c scales IH]; intros [|a x] [|b z] H1 H2; cbn in *; try lia; constructor.
  - ring.
  - apply IH; lia.
Qed.

(* ---- MALA: x' = x + (s/2) g + xi  =>  x' - mu(x) = xi, so the code's _log_proposal(x', x, g) is
        -|xi|^2 / (2 s): the log-density (up to the x-independent constant -n/2 log(2 pi s)) of N(mu(x), s I) at x' ---- *)
Lemma mala_misfit s x g xi :
  length x = length g -> length x = length xi ->
  veq (vsub (mala_prop s x g xi) (vadd x (vscale (s / 2) g))) xi.
Proof.
  intros H1 H2. unfold mala_prop. apply vsub_vadd_cancel.
  rewrite vadd_length; [lia | rewrite vscale_length; lia].
Qed.

Lemma log_prop_is_noise_density s x g xi :
  length x = length g -> length x = length xi ->
  log_prop s (mala_prop s x g xi) x g == - (1 # 2) * ((1 / s) * dot xi xi).
Proof.
  intros H1 H2. unfold log_prop. cbv zeta.
  pose proof (mala_misfit s x g xi H1 H2) as M.
  rewrite (dot_veq _ _ _ _ M M). reflexivity.
Qed.

(* ---- pCN: how the proposal depends on a prior draw xi = m + e (e centred noise) ---- *)
Lemma pcn_uncentred_law a s m x e :
  length x = length m -> length x = length e ->
  veq (pcn_prop false a s m x (vadd m e)) (vadd (vadd (vscale a x) (vscale s m)) (vscale s e)).
Proof.
  unfold pcn_prop. revert m e; induction x as [|b x IH]; intros [|c m] [|d e] H1 H2; cbn in *; try lia; constructor.
  - ring.
  - apply IH; lia.
Qed.

Lemma pcn_centred_law a s m x e :
  length x = length m -> length x = length e ->
  veq (pcn_prop true a s m x (vadd m e)) (vadd (vadd m (vscale a (vsub x m))) (vscale s e)).
Proof.
  unfold pcn_prop. revert m e; induction x as [|b x IH]; intros [|c m] [|d e] H1 H2; cbn in *; try lia; constructor.
  - ring.
  - apply IH; lia.
Qed.

(* with a zero prior mean the centred (repaired) and the uncentred (unchanged) proposals coincide *)
Lemma pcn_centred_zero_mean a s x xi :
  length x = length xi ->
  veq (pcn_prop true a s (repeat 0 (length x)) x xi) (pcn_prop false a s (repeat 0 (length x)) x xi).
Proof.
  unfold pcn_prop. revert xi; induction x as [|b x IH]; intros [|d xi] H; cbn in *; try lia; constructor.
  - ring.
  - apply IH; lia.
Qed.
