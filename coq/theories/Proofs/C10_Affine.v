(* C10 -- affine dependences a s + b with b > 0: the conditional of the hyper-parameter is NOT a Gamma distribution at all.

   The identity probe accepts every a s + b with |a - 1| <= 5e-6 and |b| <= 5e-6 (C10_probe_sound_partial, inner box).  For such a
   dependence with b > 0 the posterior in s is proportional to (a s + b)^(n/2) exp(-(a s + b) q / 2) s^(alpha-1) exp(-beta s): no
   Gamma(k, r) is proportional to it (n > 0).  So inside the affine class the tolerance of the probe lets in targets outside the conjugate
   structure -- whatever Gamma the sampler draws from, it is not the conditional.  (Inside the monomial class it does not:
   Proofs/C10_MonoExact.v.)  Proof: second differences along s, 2s, 4s kill the ln s and linear terms of any Gamma and leave
   N E(s) + B s = 0 with E(s) = ln((a s + b)(4 a s + b) / (2 a s + b)^2), and 0 < E(s) < b / (4 a s). *)
From CV Require Import Base.Tac Base.LinAlg Model.C10_Conj Model.C10_ConjR Model.C10_Dep
                       Proofs.C10_Kernel Proofs.C10_Exact Proofs.C10_Valid.
From Coq Require Import QArith Qabs Qreals Reals Lra.
Open Scope R_scope.

Definition Eaff (a b s : R) : R := ln (a * s + b) - 2 * ln (2 * a * s + b) + ln (4 * a * s + b).

Lemma ln_1p_lt x : 0 < x -> ln (1 + x) < x.
Proof.
  intros Hx. rewrite <- (ln_exp x) at 2. apply ln_increasing; [lra|]. apply exp_ineq1; lra.
Qed.

Lemma Eaff_bounds a b s : 0 < a -> 0 < b -> 0 < s -> 0 < Eaff a b s /\ Eaff a b s < b / (4 * a * s).
Proof.
  intros Ha Hb Hs. unfold Eaff.
  assert (Has : 0 < a * s) by (apply Rmult_lt_0_compat; assumption).
  set (t := a * s) in *.
  replace (2 * a * s) with (2 * t) by (unfold t; ring). replace (4 * a * s) with (4 * t) by (unfold t; ring).
  assert (H1 : 0 < t + b) by lra. assert (H2 : 0 < 2 * t + b) by lra. assert (H4 : 0 < 4 * t + b) by lra.
  set (P2 := (2 * t + b) * (2 * t + b)).
  assert (HP2 : 0 < P2) by (unfold P2; apply Rmult_lt_0_compat; lra).
  assert (Hx : 0 < b * t / P2) by (apply Rdiv_lt_0_compat; [apply Rmult_lt_0_compat; lra | exact HP2]).
  assert (Hprod : (t + b) * (4 * t + b) = P2 * (1 + b * t / P2)) by (unfold P2; field; lra).
  assert (Hln : ln (t + b) + ln (4 * t + b) = 2 * ln (2 * t + b) + ln (1 + b * t / P2)).
  { rewrite <- (ln_mult (t + b) (4 * t + b)) by lra. rewrite Hprod. rewrite ln_mult by lra.
    unfold P2. rewrite ln_mult by lra. ring. }
  assert (Hpos : 0 < ln (1 + b * t / P2)).
  { rewrite <- ln_1. apply ln_increasing; lra. }
  assert (Hup : ln (1 + b * t / P2) < b * t / P2) by (apply ln_1p_lt; exact Hx).
  assert (Hfrac : b * t / P2 <= b / (4 * t)).
  { replace (b / (4 * t)) with (b * t / (4 * t * t)) by (field; lra).
    unfold Rdiv. apply Rmult_le_compat_l; [apply Rlt_le, Rmult_lt_0_compat; lra|].
    apply Rinv_le_contravar; [nra | unfold P2; nra]. }
  split; lra.
Qed.

Section Affine.
Variable lnGamma : R -> R.
Notation gpdf := (gamma_logpdf lnGamma).
Notation post := (post_logd lnGamma).

(* the general statement: any likelihood of the form N ln(a s + b) - (a s + b) h + c0 with N, a, b > 0 *)
Theorem affine_posterior_never_gamma (lik : R -> R) (N a b h c0 alpha beta k r : R) :
  0 < N -> 0 < a -> 0 < b ->
  (forall s, 0 < s -> lik s = N * ln (a * s + b) - (a * s + b) * h + c0) ->
  ~ proportional_on_pos (post lik alpha beta) (gpdf k r).
Proof.
  intros HN Ha Hb Hlik Hprop.
  set (B := - a * h - beta + r).
  (* second differences along s, 2s, 4s *)
  assert (Hsd : forall s, 0 < s -> N * Eaff a b s + B * s = 0).
  { intros s Hs.
    pose proof (Hprop s (2 * s) Hs ltac:(lra)) as D1. pose proof (Hprop (2 * s) (4 * s) ltac:(lra) ltac:(lra)) as D2.
    unfold post_logd, gamma_logpdf in D1, D2.
    rewrite (Hlik s Hs), (Hlik (2 * s) ltac:(lra)) in D1. rewrite (Hlik (2 * s) ltac:(lra)), (Hlik (4 * s) ltac:(lra)) in D2.
    rewrite (ln_mult 2 s) in D1, D2 by lra. rewrite (ln_mult 4 s) in D2 by lra. rewrite ln4 in D2.
    unfold Eaff, B.
    replace (a * (2 * s)) with (2 * a * s) in D1, D2 by ring. replace (a * (4 * s)) with (4 * a * s) in D2 by ring.
    lra. }
  set (kap := N * Eaff a b 1).
  assert (Hkap : 0 < kap) by (unfold kap; apply Rmult_lt_0_compat; [exact HN | apply Eaff_bounds; lra]).
  assert (HB : B = - kap).
  { pose proof (Hsd 1 Rlt_0_1) as H1. fold kap in H1. rewrite Rmult_1_r in H1. lra. }
  clearbody kap B.
  set (S := 1 + N * b / (4 * a * kap)).
  assert (Hq : 0 < N * b / (4 * a * kap)).
  { apply Rdiv_lt_0_compat; [apply Rmult_lt_0_compat; assumption |]. apply Rmult_lt_0_compat; [apply Rmult_lt_0_compat; [lra | exact Ha] | exact Hkap]. }
  assert (HS : 1 < S) by (unfold S; lra).
  assert (H5 : N * b / (4 * a * kap) < S) by (unfold S; lra).
  clearbody S.
  destruct (Eaff_bounds a b S Ha Hb ltac:(lra)) as [_ Hup].
  pose proof (Hsd S ltac:(lra)) as HsS. rewrite HB in HsS.
  (* kap S = N E(S) < N b / (4 a S), while kap S^2 >= kap S >= N b / (4 a) *)
  assert (H1 : kap * S < N * (b / (4 * a * S))) by (apply Rmult_lt_compat_l with (r := N) in Hup; [lra | exact HN]).
  assert (H2 : N * (b / (4 * a * S)) * S = N * b / (4 * a)) by (field; lra).
  assert (H3 : kap * S * S < N * b / (4 * a)).
  { rewrite <- H2. apply Rmult_lt_compat_r; lra. }
  assert (H4 : kap * (N * b / (4 * a * kap)) = N * b / (4 * a)) by (field; lra).
  assert (H6 : kap * (N * b / (4 * a * kap)) < kap * S) by (apply Rmult_lt_compat_l; assumption).
  assert (H7 : kap * S <= kap * S * S).
  { rewrite <- (Rmult_1_r (kap * S)) at 1. apply Rmult_le_compat_l; [apply Rlt_le, Rmult_lt_0_compat; lra | lra]. }
  lra.
Qed.

(* Gaussian(mean = Ax, prec = a s + b): whatever (shape, rate), the Gamma is not the conditional *)
Theorem gauss_prec_affine_never_gamma prec_fun a b Ax Bv alpha beta k r :
  0 < a -> 0 < b -> (forall s, 0 < s -> prec_fun s = a * s + b) -> length Ax = length Bv -> (0 < length Bv)%nat ->
  ~ proportional_on_pos (post (lik_gauss_prec prec_fun Ax Bv) alpha beta) (gpdf k r).
Proof.
  intros Ha Hb Hf Hl Hn.
  apply (affine_posterior_never_gamma _ (INR (length Bv) / 2) a b (Rnormsq (Rvsub Bv Ax) / 2)
           (- (1 / 2) * INR (length Bv) * ln (2 * PI))); try assumption.
  - apply Rdiv_lt_0_compat; [apply lt_0_INR; exact Hn | lra].
  - intros s Hs. rewrite (lik_gauss_prec_at lnGamma prec_fun Ax Bv s (a * s + b)); [reflexivity | | apply Hf; exact Hs | exact Hl].
    assert (0 < a * s) by (apply Rmult_lt_0_compat; assumption). lra.
Qed.

(* ... in particular the one the sampler draws from *)
Corollary gauss_prec_affine_sampler_not_exact prec_fun a b Ax Bv alpha beta :
  0 < a -> 0 < b -> (forall s, 0 < s -> prec_fun s = a * s + b) -> length Ax = length Bv -> (0 < length Bv)%nat ->
  ~ proportional_on_pos (post (lik_gauss_prec prec_fun Ax Bv) alpha beta)
      (sampler_logpdf lnGamma (length Bv) (sqrtprec_of (from_prec_scalar (length Bv) (prec_fun 1))) Ax Bv alpha beta).
Proof. intros Ha Hb Hf Hl Hn. unfold sampler_logpdf. apply (gauss_prec_affine_never_gamma prec_fun a b); assumption. Qed.
(* GMRF(mean = Ax, prec = a s + b), stored rank > 0: the same *)
Theorem gmrf_affine_never_gamma prec_fun a b rank logdet P Ax Bv alpha beta k r :
  0 < a -> 0 < b -> (forall s, 0 < s -> prec_fun s = a * s + b) -> (0 < rank)%nat ->
  ~ proportional_on_pos (post (lik_gmrf prec_fun rank logdet P Ax Bv) alpha beta) (gpdf k r).
Proof.
  intros Ha Hb Hf Hr.
  apply (affine_posterior_never_gamma _ (INR rank / 2) a b (Rdot (Rvsub Bv Ax) (Rmatvec P (Rvsub Bv Ax)) / 2)
           (1 / 2 * (logdet - INR rank * ln (2 * PI)))); try assumption.
  - apply Rdiv_lt_0_compat; [apply lt_0_INR; exact Hr | lra].
  - intros s Hs. unfold lik_gmrf, gmrf_logpdf. rewrite (Hf s Hs). field.
Qed.
End Affine.

(* the class is inside what the identity probe accepts: s + 2^-20 passes (and is a tree the harness runs: cell probe/s+2^-20) *)
Definition affine_witness : dexp := DAdd (DMul (DConst 1) DVar) (DConst (1 # 1048576)).

Lemma affine_witness_accepted : validate_exp (witness_target [affine_witness]) = Accept s_prec.
Proof. vm_compute. reflexivity. Qed.

Lemma affine_witness_denotes s : Rdeval affine_witness s = 1 * s + / 1048576.
Proof. unfold affine_witness. cbn [Rdeval]. rewrite RMicromega.Q2R_1. unfold Q2R. simpl. lra. Qed.

(* accepted by the experimental sampler, and for every data vector, forward output and prior NO Gamma is its conditional *)
Theorem affine_accepted_not_conjugate lnGamma Ax Bv alpha beta k r :
  length Ax = length Bv -> (0 < length Bv)%nat ->
  validate_exp (witness_target [affine_witness]) = Accept s_prec
  /\ ~ proportional_on_pos (post_logd lnGamma (lik_gauss_prec (Rdeval affine_witness) Ax Bv) alpha beta) (gamma_logpdf lnGamma k r).
Proof.
  intros Hl Hn. split; [exact affine_witness_accepted|].
  apply (gauss_prec_affine_never_gamma lnGamma (Rdeval affine_witness) 1 (/ 1048576)); try assumption; try lra.
  intros s _. apply affine_witness_denotes.
Qed.
