(* C14 -- HybridGibbs.step, the code between two blocks' transitions: every block sampler is reinitialised on its new
   conditional and gets its state and history back (NUTS: only its current point).  `bstep` of C14_gibbs_composite is
   the composition of this visit with the block's inner transitions; here the visit itself is modelled on attribute
   stores (Model/C14_Block.v) and the clause `N sweeps then M sweeps = N+M sweeps` needs of it what is proved below:
   nothing a block has saved, and nothing it has recorded, is lost or altered by the visit.
   Property theorems only; for every attribute store, every initialize function, every key sets K (state), H (history),
   C (cached target evaluations). *)
From CV Require Import Base.Tac Base.Cmp Model.C14_Chain Model.C14_Block Proofs.C14_Block.
From Coq Require String.
Import String.StringSyntax.
Local Open Scope string_scope.

(* (1) every state key that is not a cached target evaluation, and every history key (_samples, _acc: the recorded chain of
       the block), is after the visit what it was before;
   (2) every other attribute is what a fresh initialisation on the new conditional binds (so precomputed quantities
       belong to the CURRENT conditional);
   (3) a cached evaluation that reads only the target and the current point is the evaluation of the NEW conditional at
       the OLD point *)
Theorem C14_gibbs_block_visit : forall (V : Type) (none : V) (initS : store V -> store V) (cache : store V -> string -> V)
    (K H C : list string) (s : store V),
  (forall a, In a (K ++ H) -> ~ In a C -> visit V none initS cache K H C s a = s a) /\
  (forall a, ~ In a (K ++ H) -> ~ In a C -> visit V none initS cache K H C s a = reinitialize V none initS K H s a) /\
  ((forall s1 s2 b, s1 "_target" = s2 "_target" -> s1 "current_point" = s2 "current_point" -> cache s1 b = cache s2 b) ->
   In "current_point" (K ++ H) -> ~ In "_target" (K ++ H) -> (forall s0, initS s0 "_target" = s0 "_target") ->
   forall a, In a C -> visit V none initS cache K H C s a = cache s a).
Proof.
  intros V none initS cache K H C s. split; [|split].
  - intros a. apply visit_keeps.
  - intros a. apply visit_fresh.
  - intros H1 H2 H3 H4 a. apply visit_cached; assumption.
Qed.
Print Assumptions C14_gibbs_block_visit.

(* REFUTED for the NUTS branch (guard of (1): the block is not visited through visit_nuts): a NUTS block keeps NOTHING but
   its current point from sweep to sweep -- two NUTS blocks that differ in everything they hold under their state and
   history keys (step size, dual-averaging state, recorded samples and acceptance values) except current_point are
   indistinguishable after the visit.  Documented in the class docstring; the record the property speaks about is
   HybridGibbs' own (samples dict), which is not affected. *)
Theorem C14_gibbs_block_visit_nuts_refuted : forall (V : Type) (none : V) (initS : store V -> store V) (K H : list string)
    (s1 s2 : store V),
  (forall t1 t2, (forall b, t1 b = t2 b) -> forall b, initS t1 b = initS t2 b) ->
  (forall b, ~ In b (K ++ H) -> b <> "initial_point" -> s1 b = s2 b) ->
  s1 "current_point" = s2 "current_point" ->
  forall a, visit_nuts V none initS K H s1 a = visit_nuts V none initS K H s2 a.
Proof. intros V none initS K H s1 s2. apply visit_nuts_forgets. Qed.
Print Assumptions C14_gibbs_block_visit_nuts_refuted.

(* legacy Gibbs, the warm-up record across calls (Model/C14_Block.v g_call: the bookkeeping of Gibbs.sample with
   _get_initial_points / _allocate_samples_warmup / _allocate_samples).  Guard: the code keeps an existing record on a call
   without warm-up (keeps = true, read off the source by the harness).  Then, for every transition function, every record w,
   every stored chain (EMPTY included: sample(0, Nb) first, zero-length calls anywhere) and all random inputs:
   a later call leaves the warm-up record as it was and appends the transitions from the last state reached so far; and
   two later calls are one call with the concatenated inputs. *)
Theorem C14_gibbs_warm_record : forall (Cfg St Rnd Acc : Type) (step : Cfg -> St -> Rnd -> St * Acc) (c : Cfg) (init : St)
    (w stored : list St) (rs1 rs2 : list Rnd),
  g_call Cfg St Rnd Acc step true c init (mkG (Some w) stored) [] rs1 =
    Some (mkG (Some w) (stored ++ states Cfg St Rnd Acc step c (last (w ++ stored) init) rs1)) /\
  match g_call Cfg St Rnd Acc step true c init (mkG (Some w) stored) [] rs1 with
  | Some g1 => g_call Cfg St Rnd Acc step true c init g1 [] rs2
  | None => None
  end = g_call Cfg St Rnd Acc step true c init (mkG (Some w) stored) [] (rs1 ++ rs2).
Proof.
  intros. split; [apply g_call_later|apply g_call_twice].
Qed.
Print Assumptions C14_gibbs_warm_record.

(* ... and so is every sequence of later calls (all histories: any number of calls, any lengths, zero-length calls anywhere):
   none is refused, the warm-up record is the one of the first call, the stored chain is the one of ONE call *)
Theorem C14_gibbs_warm_record_all_calls : forall (Cfg St Rnd Acc : Type) (step : Cfg -> St -> Rnd -> St * Acc) (c : Cfg) (init : St)
    (w stored : list St) (rss : list (list Rnd)),
  g_later Cfg St Rnd Acc step c init (mkG (Some w) stored) rss =
  Some (mkG (Some w) (stored ++ states Cfg St Rnd Acc step c (last (w ++ stored) init) (concat rss))).
Proof. intros. apply g_later_one. Qed.
Print Assumptions C14_gibbs_warm_record_all_calls.

(* REFUTED outside the guard (keeps = false: the code as found, signature
   legacy.Gibbs.sample|warmup-chain-dropped-by-later-call): _allocate_samples_warmup(0) of a later call binds samples_warmup to a
   new empty array.  The recorded warm-up chain is gone after the second call, and after sample(0, 2); sample(0) the next
   call starts from the initial point: it stores 1 where one call sample(1, 2) stores 3 (transition s -> s + 1 from 0) *)
Theorem C14_gibbs_warm_record_refuted :
  (match g_call unit nat unit unit cnt_step false tt 0%nat (mkG None []) [tt; tt] [] with
   | Some g1 => match g_call unit nat unit unit cnt_step false tt 0%nat g1 [] [] with
                | Some g2 => match g_call unit nat unit unit cnt_step false tt 0%nat g2 [] [tt] with
                             | Some g3 => (g_warm g1, g_warm g2, g_stored g3)
                             | None => (None, None, [])
                             end
                | None => (None, None, [])
                end
   | None => (None, None, [])
   end) = (Some [1; 2]%nat, Some [], [1]%nat) /\
  option_map g_stored (g_call unit nat unit unit cnt_step false tt 0%nat (mkG None []) [tt; tt] [tt]) = Some [3]%nat.
Proof. exact g_drop_witness. Qed.
Print Assumptions C14_gibbs_warm_record_refuted.

(* non-vacuity: an MH-like block (state: current_point, current_target_logd, scale; history: _samples, _acc); initialize binds
   the keys to 0 and leaves the rest; the cache reads target and point.  After the visit scale and history are the old
   ones, the cached value is target + point of the new conditional, and the instance the cases evaluate runs *)
Example C14_block_example :
  (let initS := fun (s : store Z) (a : string) => if mem a ["current_point"; "current_target_logd"; "scale"; "_samples"; "_acc"] then 0%Z else s a in
   let cache := fun (s : store Z) (_ : string) => (s "_target" + s "current_point")%Z in
   let s := fun a : string => if String.eqb a "_target" then 100%Z else if String.eqb a "current_point" then 7%Z else
                              if String.eqb a "scale" then 3%Z else if String.eqb a "_acc" then 9%Z else 1%Z in
   let v := visit Z (-1)%Z initS cache ["current_point"; "current_target_logd"; "scale"] ["_samples"; "_acc"] ["current_target_logd"] s in
   v "scale" = 3%Z /\ v "_acc" = 9%Z /\ v "current_point" = 7%Z /\ v "current_target_logd" = 107%Z /\ v "_target" = 100%Z) /\
  check_visit ["current_point"; "current_target_logd"; "scale"] ["current_target_logd"]
              [("current_point", 0%Z); ("current_target_logd", 1%Z); ("scale", 2%Z)] [("current_target_logd", 3%Z)]
              [("current_point", 0%Z); ("current_target_logd", 3%Z); ("scale", 2%Z)] = true /\
  check_visit ["current_point"; "current_target_logd"; "scale"] ["current_target_logd"]
              [("current_point", 0%Z); ("current_target_logd", 1%Z); ("scale", 2%Z)] [("current_target_logd", 3%Z)]
              [("current_point", 0%Z); ("current_target_logd", 1%Z); ("scale", 2%Z)] = false /\
  g_call unit nat unit unit cnt_step true tt 0%nat (mkG (Some [1; 2]%nat) []) [] [tt] = Some (mkG (Some [1; 2]%nat) [3]%nat) /\
  g_call unit nat unit unit cnt_step true tt 0%nat (mkG (Some [1; 2]%nat) []) [tt] [] = None /\
  check_warm_record true [4; 5]%Z 2 [4; 5]%Z = true /\ check_warm_record false [4; 5]%Z 2 [4; 5]%Z = false /\
  check_warm_record false [4; 5]%Z 2 [] = true.
Proof. repeat split; vm_compute; reflexivity. Qed.
