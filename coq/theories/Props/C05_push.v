(* C05 -- change of variables in differential form: for every family whose _sample is a transformation of a base variate of
   the numpy generator, the transformation (as the code and the generator it calls apply it, with the parameter conventions
   the code hands over) pushes the base law forward to the density the class documents / reports.

   `pushes supp_b supp g ginv dginv base pdf` (Model/C05_Push.v) says: g maps the base support one-to-one onto the support
   with inverse ginv, g is strictly monotone, ginv is differentiable on the support with derivative dginv <> 0, and
        base (ginv x) * |dginv x| = pdf x        at every point x of the support.
   The Q-level functions the correspondence evaluates on the twin stream of base variates (cells push/...) are mapped by Q2R to
   the R-level g of these theorems (C05_push_q_R).

   The step from this differential identity to probabilities is taken for INTERVALS (C05_push_interval_increasing / _decreasing,
   Riemann integral of Coquelicot; closed instances without any hypothesis for the families drawn from a uniform variate: Uniform,
   Cauchy, Laplace; Normal given a distribution function of the standard normal law).  NOT formalised: general measurable sets,
   the joint law of several draws (independence), and the base laws of the numpy bit-generator streams themselves. *)
From CV Require Import Model.C05_SampleR Model.C05_Push Proofs.C05_Wiring Proofs.C05_Push.
From Coq Require Import Reals Lra QArith Qreals List.
From Coquelicot Require Import Coquelicot.
Open Scope R_scope.

(* Normal: rng.normal(mean, std) = mean + std * z *)
Theorem C05_push_normal : forall mean std, 0 < std ->
  pushes everywhere everywhere (normal_push mean std) (affine_inv mean std) (fun _ => / std) std_normal_pdf
         (fun x => exp (cuqi_normal_logpdf mean std x)).
Proof. exact push_normal. Qed.
Print Assumptions C05_push_normal.

(* Uniform: rng.uniform(low, high) = low + (high - low) * u, u in [0,1) -> [low, high) *)
Theorem C05_push_uniform : forall low high, low < high ->
  pushes unit_half_open (fun x => low <= x < high) (uniform_push low high) (affine_inv low (high - low))
         (fun _ => / (high - low)) std_uniform_pdf (fun _ => exp (cuqi_uniform_logpdf low high)).
Proof. exact push_uniform. Qed.
Print Assumptions C05_push_uniform.

(* Gamma: rng.gamma(shape, scale = 1/rate) = (1/rate) * g, g standard Gamma(shape): the documented RATE-parameterised density *)
Theorem C05_push_gamma : forall Gam shape rate, 0 < rate -> Gam <> 0 ->
  pushes positive_R positive_R (gamma_push rate) (gamma_inv rate) (fun _ => rate) (std_gamma_pdf Gam shape)
         (cuqi_gamma_pdf Gam shape rate).
Proof. exact push_gamma. Qed.
Print Assumptions C05_push_gamma.

(* Laplace: numpy's inversion of a uniform, both branches, differentiable also at x = loc *)
Theorem C05_push_laplace : forall loc scale, 0 < scale ->
  pushes unit_open everywhere (laplace_push loc scale) (laplace_inv loc scale) (fun x => np_laplace_pdf loc scale x)
         std_uniform_pdf (fun x => exp (cuqi_laplace_logpdf loc scale x)).
Proof. exact push_laplace. Qed.
Print Assumptions C05_push_laplace.

(* Cauchy: scipy's rvs = loc + scale * tan(pi u - pi/2) *)
Theorem C05_push_cauchy : forall loc scale, 0 < scale ->
  pushes unit_open everywhere (cauchy_push loc scale) (cauchy_inv loc scale) (fun x => sp_cauchy_pdf loc scale x)
         std_uniform_pdf (fun x => exp (cuqi_cauchy_logpdf loc scale x)).
Proof. exact push_cauchy. Qed.
Print Assumptions C05_push_cauchy.

(* Lognormal: exp of the Gaussian draw (one component) *)
Theorem C05_push_lognormal : forall mean std,
  pushes everywhere positive_R exp ln (fun x => / x) (normal_pdf mean std) (cuqi_lognormal_pdf mean std).
Proof. exact push_lognormal. Qed.
Print Assumptions C05_push_lognormal.

(* any loc/scale family drawn by inversion (scipy's default rvs): x = loc + scale * Finv(u) *)
Theorem C05_push_ppf : forall (F f Finv : R -> R) (suppy : R -> Prop) loc scale, 0 < scale ->
  (forall y, suppy y -> is_derive F y (f y) /\ 0 < f y /\ 0 < F y < 1 /\ Finv (F y) = y) ->
  (forall u, 0 < u < 1 -> suppy (Finv u) /\ F (Finv u) = u) ->
  (forall u v, 0 < u < 1 -> 0 < v < 1 -> u < v -> Finv u < Finv v) ->
  pushes unit_open (fun x => suppy ((x - loc) / scale)) (ppf_push Finv loc scale) (ppf_inv F loc scale)
         (fun x => f ((x - loc) / scale) / scale) std_uniform_pdf (fun x => f ((x - loc) / scale) / scale).
Proof. exact push_ppf. Qed.
Print Assumptions C05_push_ppf.

(* InverseGamma as scipy 1.12 draws it (inversion; F / Finv = scipy's special-function cdf / ppf of the standard law, assumed to
   be a distribution function with the standard density and its inverse): the documented density of the class *)
Theorem C05_push_invgamma : forall (F Finv : R -> R) Gam a loc scale, 0 < scale -> 0 < Gam ->
  (forall y, 0 < y -> is_derive F y (sp_invgamma_std_pdf Gam a y) /\ 0 < F y < 1 /\ Finv (F y) = y) ->
  (forall u, 0 < u < 1 -> 0 < Finv u /\ F (Finv u) = u) ->
  (forall u v, 0 < u < 1 -> 0 < v < 1 -> u < v -> Finv u < Finv v) ->
  pushes unit_open (fun x => loc < x) (ppf_push Finv loc scale) (ppf_inv F loc scale)
         (fun x => sp_invgamma_pdf Gam a loc scale x) std_uniform_pdf (cuqi_invgamma_pdf Gam a loc scale).
Proof. exact push_invgamma. Qed.
Print Assumptions C05_push_invgamma.

(* ... and the law-equivalent form loc + scale / G, G standard Gamma(a) (decreasing transformation) *)
Theorem C05_push_recip_gamma : forall Gam a loc scale, 0 < scale -> Gam <> 0 ->
  pushes positive_R (fun x => loc < x) (recip_push loc scale) (fun x => scale / (x - loc)) (fun x => - (scale / (x - loc) ^ 2))
         (std_gamma_pdf Gam a) (cuqi_invgamma_pdf Gam a loc scale).
Proof. exact push_recip_gamma. Qed.
Print Assumptions C05_push_recip_gamma.

(* Beta = Ga / (Ga + Gb): 2-d change of variables; _partial: the marginalisation over s = Ga + Gb is not formalised *)
Theorem C05_push_beta_joint_partial : forall Ga Gb Gab a b x s, 0 < x < 1 -> 0 < s -> Ga <> 0 -> Gb <> 0 -> Gab <> 0 ->
  let ga := beta_ga x s in let gb := beta_gb x s in
  (0 < ga /\ 0 < gb /\ beta_push ga gb = x /\ ga + gb = s) /\
  (is_derive (fun t => beta_ga t s) x s /\ is_derive (fun t => beta_ga x t) s x /\
   is_derive (fun t => beta_gb t s) x (- s) /\ is_derive (fun t => beta_gb x t) s (1 - x) /\
   s * (1 - x) - x * (- s) = s) /\
  std_gamma_pdf Ga a ga * std_gamma_pdf Gb b gb * Rabs s = cuqi_beta_pdf Ga Gb Gab a b x * std_gamma_pdf Gab (a + b) s.
Proof. exact push_beta_joint. Qed.
Print Assumptions C05_push_beta_joint_partial.

Theorem C05_push_beta_bijection : forall ga gb, 0 < ga -> 0 < gb ->
  let x := beta_push ga gb in let s := ga + gb in 0 < x < 1 /\ 0 < s /\ beta_ga x s = ga /\ beta_gb x s = gb.
Proof. exact beta_pair_bijection. Qed.
Print Assumptions C05_push_beta_bijection.

(* ModifiedHalfNormal, scheme 1: X = sqrt T with T ~ Gamma(a/2, rate d) has the proposal density the scheme assumes *)
Theorem C05_push_mhn_sqrt_gamma : forall lnGam a d,
  pushes positive_R positive_R sqrt (fun x => x ^ 2) (fun x => 2 * x) (fun t => exp (gamma_logpdf lnGam (a / 2) d t))
         (fun x => exp (mhn_gam_logg lnGam a d x)).
Proof. exact push_mhn_sqrt_gamma. Qed.
Print Assumptions C05_push_mhn_sqrt_gamma.

(* chains: if g1 pushes base to mid and g2 pushes mid to pdf then g2 o g1 pushes base to pdf *)
Theorem C05_push_compose : forall (sb sm s : R -> Prop) (g1 g1inv d1 g2 g2inv d2 base mid pdf : R -> R),
  pushes sb sm g1 g1inv d1 base mid -> pushes sm s g2 g2inv d2 mid pdf ->
  pushes sb s (fun u => g2 (g1 u)) (fun x => g1inv (g2inv x)) (fun x => d1 (g2inv x) * d2 x) base pdf.
Proof. exact pushes_compose. Qed.
Print Assumptions C05_push_compose.

(* Lognormal from the standard normal variate the generator delivers: exp(mean + std z), std = sqrt(cov) (one component) *)
Theorem C05_push_lognormal_from_std : forall mean std, 0 < std ->
  pushes everywhere positive_R (fun z => exp (normal_push mean std z)) (fun x => affine_inv mean std (ln x))
         (fun x => / std * / x) std_normal_pdf (cuqi_lognormal_pdf mean std).
Proof. exact push_lognormal_from_std. Qed.
Print Assumptions C05_push_lognormal_from_std.

(* ModifiedHalfNormal scheme 1 from the base variate: X = sqrt(rng.gamma(alpha/2, 1.0/delta)) = sqrt((1/delta) G) has the
   proposal log-density mhn_gam_logg the proportionality theorem C05_mhn_gamma_proposal works with (lnGam = ln Gamma(alpha/2)) *)
Theorem C05_push_mhn_scheme1 : forall Gam a d, 0 < Gam -> 0 < d ->
  pushes positive_R positive_R (fun g => sqrt (gamma_push d g)) (fun x => gamma_inv d (x ^ 2)) (fun x => d * (2 * x))
         (std_gamma_pdf Gam (a / 2)) (fun x => exp (mhn_gam_logg (ln Gam) a d x)).
Proof. exact push_mhn_scheme1. Qed.
Print Assumptions C05_push_mhn_scheme1.

(* ---------------- the distribution function of the draw ----------------
   x |-> P(g(U) <= x) = Fb(ginv x) for increasing g (1 - Fb(ginv x) for decreasing g) has the documented pdf as derivative on the
   support, for EVERY `pushes` instance above (this contains the older C05_wiring_lognormal / C05_invgamma_generation /
   C05_mhn_sqrt_gamma_density as special cases) *)
Theorem C05_push_cdf_increasing : forall (supp_b supp : R -> Prop) (g ginv dginv base pdf Fb : R -> R) x,
  pushes supp_b supp g ginv dginv base pdf -> (forall x, supp x -> 0 < dginv x) ->
  (forall u, supp_b u -> is_derive Fb u (base u)) -> supp x ->
  is_derive (fun t => Fb (ginv t)) x (pdf x).
Proof. exact pushes_cdf_increasing. Qed.
Print Assumptions C05_push_cdf_increasing.

Theorem C05_push_cdf_decreasing : forall (supp_b supp : R -> Prop) (g ginv dginv base pdf Fb : R -> R) x,
  pushes supp_b supp g ginv dginv base pdf -> (forall x, supp x -> dginv x < 0) ->
  (forall u, supp_b u -> is_derive Fb u (base u)) -> supp x ->
  is_derive (fun t => 1 - Fb (ginv t)) x (pdf x).
Proof. exact pushes_cdf_decreasing. Qed.
Print Assumptions C05_push_cdf_decreasing.

(* ---------------- from the differential form to PROBABILITIES of intervals (Coquelicot's Riemann integral) ----------------
   If Fb is a distribution function of the base law (Fb' = base on the base support), then for every interval [a,b] inside the
   support the integral of the documented pdf over [a,b] is the base probability of the pre-image of (a,b]. *)
Theorem C05_push_interval_increasing : forall (supp_b supp : R -> Prop) (g ginv dginv base pdf Fb : R -> R) a b,
  pushes supp_b supp g ginv dginv base pdf ->
  (forall x, supp x -> 0 < dginv x) ->
  (forall u, supp_b u -> is_derive Fb u (base u)) ->
  a <= b -> (forall x, a <= x <= b -> supp x) -> (forall x, a <= x <= b -> continuous pdf x) ->
  is_RInt pdf a b (Fb (ginv b) - Fb (ginv a)).
Proof. exact pushes_interval_increasing. Qed.
Print Assumptions C05_push_interval_increasing.

Theorem C05_push_interval_decreasing : forall (supp_b supp : R -> Prop) (g ginv dginv base pdf Fb : R -> R) a b,
  pushes supp_b supp g ginv dginv base pdf ->
  (forall x, supp x -> dginv x < 0) ->
  (forall u, supp_b u -> is_derive Fb u (base u)) ->
  a <= b -> (forall x, a <= x <= b -> supp x) -> (forall x, a <= x <= b -> continuous pdf x) ->
  is_RInt pdf a b (Fb (ginv a) - Fb (ginv b)).
Proof. exact pushes_interval_decreasing. Qed.
Print Assumptions C05_push_interval_decreasing.

(* families drawn from a UNIFORM base variate (distribution function = identity on the unit interval): NOTHING is assumed --
   P(a < X <= b) = length of the pre-image interval of uniforms = integral over [a,b] of the pdf the class reports *)
Theorem C05_uniform_interval_prob : forall low high a b, low < high -> low <= a -> a <= b -> b < high ->
  is_RInt (fun _ => exp (cuqi_uniform_logpdf low high)) a b ((b - low) / (high - low) - (a - low) / (high - low)).
Proof. exact uniform_interval_prob. Qed.
Print Assumptions C05_uniform_interval_prob.

Theorem C05_cauchy_interval_prob : forall loc scale a b, 0 < scale -> a <= b ->
  is_RInt (fun x => exp (cuqi_cauchy_logpdf loc scale x)) a b (cauchy_inv loc scale b - cauchy_inv loc scale a).
Proof. exact cauchy_interval_prob. Qed.
Print Assumptions C05_cauchy_interval_prob.

Theorem C05_laplace_interval_prob : forall loc scale a b, 0 < scale -> a <= b ->
  is_RInt (fun x => exp (cuqi_laplace_logpdf loc scale x)) a b (laplace_inv loc scale b - laplace_inv loc scale a).
Proof. exact laplace_interval_prob. Qed.
Print Assumptions C05_laplace_interval_prob.

(* Normal: Phi = a distribution function of the standard normal law (its existence -- an antiderivative of the standard density --
   is the one thing assumed) *)
Theorem C05_normal_interval_prob : forall (Phi : R -> R) mean std a b, 0 < std -> a <= b ->
  (forall z, is_derive Phi z (std_normal_pdf z)) ->
  is_RInt (fun x => exp (cuqi_normal_logpdf mean std x)) a b (Phi ((b - mean) / std) - Phi ((a - mean) / std)).
Proof. exact normal_interval_prob. Qed.
Print Assumptions C05_normal_interval_prob.

(* Lognormal (one component), from the standard normal variate, same assumption *)
Theorem C05_lognormal_interval_prob : forall (Phi : R -> R) mean std a b, 0 < std -> 0 < a -> a <= b ->
  (forall z, is_derive Phi z (std_normal_pdf z)) ->
  is_RInt (cuqi_lognormal_pdf mean std) a b (Phi ((ln b - mean) / std) - Phi ((ln a - mean) / std)).
Proof. exact lognormal_interval_prob. Qed.
Print Assumptions C05_lognormal_interval_prob.

(* Gamma (scale = 1/rate) and InverseGamma (law-equivalent decreasing form), given a distribution function FG of the standard Gamma law *)
Theorem C05_gamma_interval_prob : forall (FG : R -> R) Gam shape rate a b, 0 < rate -> Gam <> 0 -> 0 < a -> a <= b ->
  (forall g, 0 < g -> is_derive FG g (std_gamma_pdf Gam shape g)) ->
  is_RInt (cuqi_gamma_pdf Gam shape rate) a b (FG (rate * b) - FG (rate * a)).
Proof. exact gamma_interval_prob. Qed.
Print Assumptions C05_gamma_interval_prob.

Theorem C05_invgamma_interval_prob : forall (FG : R -> R) Gam a loc scale x1 x2, 0 < scale -> Gam <> 0 -> loc < x1 -> x1 <= x2 ->
  (forall g, 0 < g -> is_derive FG g (std_gamma_pdf Gam a g)) ->
  is_RInt (cuqi_invgamma_pdf Gam a loc scale) x1 x2 (FG (scale / (x1 - loc)) - FG (scale / (x2 - loc))).
Proof. exact invgamma_interval_prob. Qed.
Print Assumptions C05_invgamma_interval_prob.

(* ---------------- rejection samplers: from "proposal x acceptance proportional to the target" to probabilities ----------------
   one round of the loop proposes a point of [a,b] and accepts it with probability exp(K) * (target mass of [a,b]); K is free of the
   interval, so accepted draws are distributed as the normalised target *)
Theorem C05_rejection_interval : forall (logg logacc logf : R -> R) K J a b, a <= b ->
  (forall x, a <= x <= b -> logg x + logacc x - logf x = K) ->
  is_RInt (fun x => exp (logf x)) a b J ->
  is_RInt (fun x => exp (logg x) * exp (logacc x)) a b (exp K * J).
Proof. exact rejection_interval. Qed.
Print Assumptions C05_rejection_interval.

(* the three schemes of ModifiedHalfNormal on every interval [x1, x2] of the positive half line (the target is integrable there: proved) *)
Theorem C05_mhn_gamma_scheme_interval : forall lnGam a b g x1 x2, 0 < a -> 0 < b -> 0 < g -> 0 < x1 -> x1 <= x2 ->
  let d := mhn_delta a b g in
  exists J, is_RInt (fun x => exp (mhn_logf a b g x)) x1 x2 J /\
            is_RInt (fun x => exp (mhn_gam_logg lnGam a d x) * exp (mhn_gam_logacc b g d x)) x1 x2
                    (exp ((a / 2) * ln d - lnGam + ln 2 - g * g / (4 * (b - d))) * J).
Proof. exact mhn_gamma_scheme_interval. Qed.
Print Assumptions C05_mhn_gamma_scheme_interval.

Theorem C05_mhn_normal_scheme_interval : forall a b g mu x1 x2, 0 < b -> 0 < x1 -> x1 <= x2 ->
  exists J, is_RInt (fun x => exp (mhn_logf a b g x)) x1 x2 J /\
            is_RInt (fun x => exp (mhn_norm_logg b mu x) * exp (mhn_norm_logacc_fixed a b g mu x)) x1 x2
                    (exp (b * mu * mu - g * mu - ln mu - ln (sqrt (PI / b)) - (a - 2) * ln mu) * J).
Proof. exact mhn_normal_scheme_interval. Qed.
Print Assumptions C05_mhn_normal_scheme_interval.

Theorem C05_mhn_negative_scheme_interval : forall lnGam a b g m x1 x2, 0 < b -> g <= 0 -> 0 < m -> 0 < x1 -> x1 <= x2 ->
  exists J, is_RInt (fun x => exp (mhn_logf a b g x)) x1 x2 J /\
            is_RInt (fun x => exp (mhn_neg_logg lnGam a b g m x) * exp (mhn_neg_logacc b g m (mhn_neg_t b g m x))) x1 x2
                    (exp (a * mhn_neg_v1 b g m * ln (mhn_neg_v2 b g m) - lnGam + ln (/ (mhn_neg_v1 b g m * m)) - (a - 1) * ln m) * J).
Proof. exact mhn_negative_scheme_interval. Qed.
Print Assumptions C05_mhn_negative_scheme_interval.

(* ModifiedHalfNormal scheme 3 (gamma <= 0), every matching point m > 0: X = m T^v1 with T ~ Gamma(alpha v1, rate v2) has the
   proposal log-density mhn_neg_logg of C05_mhn_negative_gamma *)
Theorem C05_push_mhn_scheme3 : forall lnGam a b g m, 0 < b -> g <= 0 -> 0 < m ->
  let v1 := mhn_neg_v1 b g m in let v2 := mhn_neg_v2 b g m in
  pushes positive_R positive_R (mhn_neg_x b g m) (mhn_neg_t b g m)
         (fun x => / (v1 * m) * Rpower (x / m) (/ v1 - 1))
         (fun t => exp ((a * v1 - 1) * ln t - v2 * t + (a * v1) * ln v2 - lnGam))
         (fun x => exp (mhn_neg_logg lnGam a b g m x)).
Proof. exact push_mhn_scheme3. Qed.
Print Assumptions C05_push_mhn_scheme3.

(* ... and those distribution functions EXIST (fundamental theorem of calculus, Coquelicot's RInt): the statements with no
   hypothesis left.  Phi / FG is an antiderivative of the base density, i.e. the base distribution function up to a constant, which
   cancels in the differences. *)
Theorem C05_normal_interval_prob_closed : exists Phi : R -> R, (forall z, is_derive Phi z (std_normal_pdf z)) /\
  (forall mean std a b, 0 < std -> a <= b ->
     is_RInt (fun x => exp (cuqi_normal_logpdf mean std x)) a b (Phi ((b - mean) / std) - Phi ((a - mean) / std))) /\
  (forall mean std a b, 0 < std -> 0 < a -> a <= b ->
     is_RInt (cuqi_lognormal_pdf mean std) a b (Phi ((ln b - mean) / std) - Phi ((ln a - mean) / std))).
Proof. exact normal_interval_prob_closed. Qed.
Print Assumptions C05_normal_interval_prob_closed.

Theorem C05_gamma_interval_prob_closed : forall Gam shape, Gam <> 0 -> exists FG : R -> R,
  (forall g, 0 < g -> is_derive FG g (std_gamma_pdf Gam shape g)) /\
  (forall rate a b, 0 < rate -> 0 < a -> a <= b ->
     is_RInt (cuqi_gamma_pdf Gam shape rate) a b (FG (rate * b) - FG (rate * a))) /\
  (forall loc scale x1 x2, 0 < scale -> loc < x1 -> x1 <= x2 ->
     is_RInt (cuqi_invgamma_pdf Gam shape loc scale) x1 x2 (FG (scale / (x1 - loc)) - FG (scale / (x2 - loc)))).
Proof. exact gamma_interval_prob_closed. Qed.
Print Assumptions C05_gamma_interval_prob_closed.

(* the rational transformations evaluated by the correspondence (check_push) are these R-level transformations *)
Theorem C05_push_q_R : forall m s z l h u r g ga gb,
  Q2R (normal_push_q m s z) = normal_push (Q2R m) (Q2R s) (Q2R z) /\
  Q2R (uniform_push_q l h u) = uniform_push (Q2R l) (Q2R h) (Q2R u) /\
  (~ (r == 0)%Q -> Q2R (gamma_push_q r g) = gamma_push (Q2R r) (Q2R g)) /\
  (~ (ga + gb == 0)%Q -> Q2R (beta_push_q ga gb) = beta_push (Q2R ga) (Q2R gb)).
Proof.
  intros. split; [apply normal_push_q_R|]. split; [apply uniform_push_q_R|]. split; [apply gamma_push_q_R | apply beta_push_q_R].
Qed.
Print Assumptions C05_push_q_R.

(* an accepted check_push cell establishes: every observed draw is within 1e-9 (1 + |.|) of the R-level transformation g (of the
   theorems above) applied to the exact rational images of the parameters and of the twin generator's base variates *)
Theorem C05_push_cell_sound : forall rows, check_push rows = true ->
  forall r, In r rows ->
    Rabs (fst (push_row_R r) - snd (push_row_R r)) <= Q2R (1 # 1000000000) * (1 + Rabs (snd (push_row_R r))).
Proof. exact check_push_sound. Qed.
Print Assumptions C05_push_cell_sound.

(* ---------------- non-vacuity ---------------- *)
(* the hypotheses of C05_push_ppf are satisfiable: the standard Cauchy triple *)
Example C05_push_ppf_example :
  (forall y, everywhere y -> is_derive std_cauchy_cdf y (std_cauchy_pdf y) /\ 0 < std_cauchy_pdf y /\
                             0 < std_cauchy_cdf y < 1 /\ std_cauchy_ppf (std_cauchy_cdf y) = y) /\
  (forall u, 0 < u < 1 -> everywhere (std_cauchy_ppf u) /\ std_cauchy_cdf (std_cauchy_ppf u) = u).
Proof. exact push_ppf_hyps_example. Qed.
(* a concrete instance: Gamma(shape 2, rate 4) -- the draw (1/4) g at g = 2 is 1/2, whose pre-image under gamma_inv is 2 *)
Example C05_push_gamma_example : gamma_push 4 2 = 1 / 2 /\ gamma_inv 4 (1 / 2) = 2 /\ positive_R (1 / 2).
Proof. unfold gamma_push, gamma_inv, positive_R. repeat split; lra. Qed.
