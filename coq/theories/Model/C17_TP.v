(* C17 -- executable model of the shipped test problems (cuqi/testproblem/_testproblem.py):
   the 1-d convolution operator per boundary condition / PSF length parity, the constructor's matrix
   assembly (faithful: ROWS = Afun(e_i); and the repaired column assembly), the legacy circulant matrix,
   the 2-d padded "valid" convolution with the even-size crop, the shipped rational PSFs (Moffat, Defocus),
   the Abel quadrature matrix, the Poisson stiffness matrix, the cubic and its Jacobian, the data
   generation rules, and the component bookkeeping of BayesianProblem.  No proofs here. *)
From CV Require Import Base.Tac Base.LinAlg Base.Cmp Base.QcLin.
From Coq Require Import QArith Qcanon Qabs.

(* ------------------------------------------------------------------------------------------ *)
(* boundary extension: which stored sample a (possibly out-of-range) index reads               *)
(*   scipy.ndimage modes  constant / wrap / nearest / reflect / mirror                         *)
(*   = numpy.pad modes    constant / wrap / edge    / symmetric / reflect                      *)
(* ------------------------------------------------------------------------------------------ *)
Inductive bc := BCzero | BCwrap | BCnearest | BCreflect | BCmirror.

Definition bc_eqb (a b : bc) : bool :=
  match a, b with
  | BCzero, BCzero | BCwrap, BCwrap | BCnearest, BCnearest | BCreflect, BCreflect | BCmirror, BCmirror => true
  | _, _ => false
  end.

(* None = the value 0 is read (zero boundary) *)
Definition ext_idx (m : bc) (n i : Z) : option Z :=
  (if (0 <=? i) && (i <? n) then Some i else
  match m with
  | BCzero => None
  | BCwrap => Some (i mod n)
  | BCnearest => Some (if i <? 0 then 0 else n - 1)
  | BCreflect => let p := 2 * n in let j := i mod p in Some (if j <? n then j else p - 1 - j)
  | BCmirror => if n =? 1 then Some 0 else
                let p := 2 * n - 2 in let j := i mod p in Some (if j <? n then j else p - j)
  end)%Z.

(* the five option strings of Deconvolution1D (lower-cased by the code) *)
Import Coq.Strings.String.StringSyntax. Local Open Scope string_scope.
Definition bc1_of_name (s : string) : option bc :=
  if String.eqb s "zero" then Some BCzero else if String.eqb s "periodic" then Some BCwrap
  else if String.eqb s "nearest" then Some BCnearest else if String.eqb s "reflect" then Some BCreflect
  else if String.eqb s "mirror" then Some BCmirror else None.
(* the five option strings of Deconvolution2D: neumann -> numpy symmetric, mirror -> numpy reflect *)
Definition bc2_of_name (s : string) : option bc :=
  if String.eqb s "zero" then Some BCzero else if String.eqb s "periodic" then Some BCwrap
  else if String.eqb s "nearest" then Some BCnearest else if String.eqb s "neumann" then Some BCreflect
  else if String.eqb s "mirror" then Some BCmirror else None.

Local Close Scope string_scope.

Section Ops.
Variable R : Type.
Variables (r0 r1 : R) (radd rmul : R -> R -> R).

Definition sum_idx (f : nat -> R) (n : nat) : R := fold_right radd r0 (map f (seq 0 n)).

Definition getx (x : list R) (oi : option Z) : R :=
  match oi with Some i => nth (Z.to_nat i) x r0 | None => r0 end.

(* ---- 1-d: scipy.ndimage.convolve1d(x, P, mode), origin 0:
        out[i] = sum_k P[k] * xext[i - k + len(P)//2]            (checked against scipy, all modes,
        every length parity, PSF longer than the signal) *)
Definition conv1d_at (m : bc) (P x : list R) (i : nat) : R :=
  let n := Z.of_nat (length x) in let c := (Z.of_nat (length P) / 2)%Z in
  sum_idx (fun k => rmul (nth k P r0) (getx x (ext_idx m n (Z.of_nat i - Z.of_nat k + c)%Z))) (length P).

Definition conv1d (m : bc) (P x : list R) : list R := map (conv1d_at m P x) (seq 0 (length x)).

(* ---- Deconvolution1D.__init__: A = np.array([Afun(Id[:, i]) for i in range(dim)])  -- the images of the
        unit vectors are the ROWS (faithful to the code);  the repaired code transposes. *)
Definition assemble_rows (f : list R -> list R) (n : nat) : list (list R) :=
  map (fun i => f (unit_vec r0 r1 n i)) (seq 0 n).
Definition assemble_cols (f : list R -> list R) (n : nat) : list (list R) :=
  transpose r0 n (assemble_rows f n).
Definition deconv1_matrix (fixed : bool) (m : bc) (P : list R) (n : nat) : list (list R) :=
  if fixed then assemble_cols (conv1d m P) n else assemble_rows (conv1d m P) n.

(* ---- legacy: _getCirculantMatrix with a custom PSF:
        h = np.roll(PSF, -dim/2); hflip = [h0] ++ flipud(h[1:]); toeplitz(hflip, h) *)
Definition roll_neg (k : nat) (l : list R) : list R := skipn k l ++ firstn k l.
Definition hflip (h : list R) : list R := match h with [] => [] | a :: t => a :: rev t end.
(* scipy.linalg.toeplitz(c, r): T[i,j] = c[i-j] if i >= j else r[j-i] *)
Definition toeplitz (c r : list R) : list (list R) :=
  map (fun i => map (fun j => if (j <=? i)%nat then nth (i - j) c r0 else nth (j - i) r r0)
                    (seq 0 (length r))) (seq 0 (length c)).
Definition circ_of_row (h : list R) : list (list R) := toeplitz (hflip h) h.
(* refused (None): odd dim (NotImplementedError), PSF length <> dim (ValueError) *)
Definition legacy_matrix (dim : nat) (PSF : list R) : option (list (list R)) :=
  if Nat.odd dim then None else if negb (length PSF =? dim)%nat then None
  else Some (circ_of_row (roll_neg (dim / 2) PSF)).
(* the repaired legacy assembly: toeplitz(h, hflip) *)
Definition legacy_matrix_fixed (dim : nat) (PSF : list R) : option (list (list R)) :=
  if Nat.odd dim then None else if negb (length PSF =? dim)%nat then None
  else let h := roll_neg (dim / 2) PSF in Some (toeplitz h (hflip h)).
(* built-in legacy PSFs: h = f(grid) on 0..dim/2, then h ++ flipud(h[1:-1]) *)
Definition legacy_full_row (hh : list R) : list R := hh ++ rev (removelast (tl hh)).
Definition legacy_builtin (hh : list R) : list (list R) := circ_of_row (legacy_full_row hh).

(* ---- 2-d ---- *)
Definition get2 (X : list (list R)) (oi oj : option Z) : R :=
  match oi, oj with
  | Some i, Some j => nth (Z.to_nat j) (nth (Z.to_nat i) X []) r0
  | _, _ => r0
  end.
Definition ncols (X : list (list R)) : nat := length (hd [] X).
Definition maxdim (P : list (list R)) : nat := Nat.max (length P) (ncols P).

(* documented operator: scipy.ndimage.convolve(X, P, mode), centre (size//2, size//2) *)
Definition conv2d_at (m : bc) (P X : list (list R)) (i j : nat) : R :=
  let n1 := Z.of_nat (length X) in let n2 := Z.of_nat (ncols X) in
  let c := Z.of_nat (maxdim P / 2) in
  sum_idx (fun a => sum_idx (fun b =>
     rmul (nth b (nth a P []) r0)
          (get2 X (ext_idx m n1 (Z.of_nat i - Z.of_nat a + c)%Z) (ext_idx m n2 (Z.of_nat j - Z.of_nat b + c)%Z)))
     (ncols P)) (length P).
Definition conv2d (m : bc) (P X : list (list R)) : list (list R) :=
  map (fun i => map (fun j => conv2d_at m P X i j) (seq 0 (ncols X))) (seq 0 (length X)).

(* the code: _proj_forward_2D = np.pad(X, PSF_size//2, mode) ; fftconvolve(..., 'valid') ; [1:,1:] if even *)
Definition pad2 (m : bc) (p : nat) (X : list (list R)) : list (list R) :=
  let n1 := Z.of_nat (length X) in let n2 := Z.of_nat (ncols X) in
  map (fun u => map (fun v => get2 X (ext_idx m n1 (Z.of_nat u - Z.of_nat p)%Z) (ext_idx m n2 (Z.of_nat v - Z.of_nat p)%Z))
                    (seq 0 (ncols X + 2 * p))) (seq 0 (length X + 2 * p)).
(* 'valid' part of the full convolution (law assumed of fftconvolve: it is the direct convolution) *)
Definition valid2 (P Y : list (list R)) : list (list R) :=
  let kr := length P in let kc := ncols P in
  map (fun i => map (fun j =>
        sum_idx (fun a => sum_idx (fun b =>
           rmul (nth b (nth a P []) r0) (nth (j + kc - 1 - b) (nth (i + kr - 1 - a) Y []) r0)) kc) kr)
        (seq 0 (ncols Y + 1 - kc))) (seq 0 (length Y + 1 - kr)).
Definition crop_first (Y : list (list R)) : list (list R) := map (@tl R) (tl Y).
Definition proj_forward_2d (m : bc) (P X : list (list R)) : list (list R) :=
  let s := maxdim P in
  let V := valid2 P (pad2 m (s / 2) X) in
  if Nat.even s then crop_first V else V.
(* Deconvolution2D is refused (ValueError further down) iff the output is not again dim x dim *)
Definition proj_shape_ok (P X : list (list R)) : bool :=
  let s := maxdim P in let p := (s / 2)%nat in
  let r := (length X + 2 * p + 1 - length P - (if Nat.even s then 1 else 0))%nat in
  let c := (ncols X + 2 * p + 1 - ncols P - (if Nat.even s then 1 else 0))%nat in
  (r =? length X)%nat && (c =? ncols X)%nat.
Definition flip2 (P : list (list R)) : list (list R) := rev (map (@rev R) P).
Definition proj_backward_2d (m : bc) (P X : list (list R)) := proj_forward_2d m (flip2 P) X.

(* flatten / unflatten in C order (Image2D) *)
Fixpoint chunks (k : nat) (n : nat) (l : list R) : list (list R) :=
  match k with O => [] | S k' => firstn n l :: chunks k' n (skipn n l) end.

End Ops.

Arguments sum_idx {R} r0 radd f n.
Arguments getx {R} r0 x oi.
Arguments conv1d_at {R} r0 radd rmul m P x i.
Arguments conv1d {R} r0 radd rmul m P x.
Arguments assemble_rows {R} r0 r1 f n.
Arguments assemble_cols {R} r0 r1 f n.
Arguments deconv1_matrix {R} r0 r1 radd rmul fixed m P n.
Arguments roll_neg {R} k l.
Arguments hflip {R} h.
Arguments toeplitz {R} r0 c r.
Arguments circ_of_row {R} r0 h.
Arguments legacy_matrix {R} r0 dim PSF.
Arguments legacy_matrix_fixed {R} r0 dim PSF.
Arguments legacy_full_row {R} hh.
Arguments legacy_builtin {R} r0 hh.
Arguments get2 {R} r0 X oi oj.
Arguments ncols {R} X.
Arguments maxdim {R} P.
Arguments conv2d_at {R} r0 radd rmul m P X i j.
Arguments conv2d {R} r0 radd rmul m P X.
Arguments pad2 {R} r0 m p X.
Arguments valid2 {R} r0 radd rmul P Y.
Arguments crop_first {R} Y.
Arguments proj_forward_2d {R} r0 radd rmul m P X.
Arguments proj_shape_ok {R} P X.
Arguments flip2 {R} P.
Arguments proj_backward_2d {R} r0 radd rmul m P X.
Arguments chunks {R} k n l.

(* ---------------- instances ---------------- *)
Definition zconv1d := conv1d 0%Z Z.add Z.mul.
Definition zdeconv1_matrix := deconv1_matrix 0%Z 1%Z Z.add Z.mul.
Definition zlegacy := legacy_matrix 0%Z.
Definition zlegacy_fixed := legacy_matrix_fixed 0%Z.
Definition zconv2d := conv2d 0%Z Z.add Z.mul.
Definition zproj_forward_2d := proj_forward_2d 0%Z Z.add Z.mul.
Definition zproj_backward_2d := proj_backward_2d 0%Z Z.add Z.mul.

Definition qconv1d := conv1d 0%Qc Qcplus Qcmult.
Definition qdeconv1_matrix := deconv1_matrix 0%Qc 1%Qc Qcplus Qcmult.
Definition qlegacy := legacy_matrix 0%Qc.
Definition qlegacy_fixed := legacy_matrix_fixed 0%Qc.
Definition qproj_forward_2d := proj_forward_2d 0%Qc Qcplus Qcmult.
Definition qconv2d := conv2d 0%Qc Qcplus Qcmult.

(* ------------------------------------------------------------------------------------------ *)
(* shipped PSFs with rational values                                                            *)
(* ------------------------------------------------------------------------------------------ *)
(* x = np.arange(-np.fix(n/2), np.ceil(n/2)) *)
Definition psf_grid (n : nat) : list Z := map (fun i => (Z.of_nat i - Z.of_nat n / 2)%Z) (seq 0 n).
Definition qsum (l : list Qc) : Qc := fold_right Qcplus 0%Qc l.
(* PSF /= PSF.sum(); None = 0/0 (numpy: nan) *)
Definition normalize (g : list Qc) : option (list Qc) :=
  let s := qsum g in if qc_eqb s 0%Qc then None else Some (map (fun v => (v / s)%Qc) g).
Definition zq (z : Z) : Qc := Q2Qc (inject_Z z).

(* Moffat, beta = 1:  (1 + x^2/s^2)^(-1), normalised *)
Definition moffat_w (s : Qc) (x2 : Z) : Qc := (1 / (1 + zq x2 / (s * s)))%Qc.
Definition moffat_psf_1d (n : nat) (s : Qc) : option (list Qc) :=
  normalize (map (fun x => moffat_w s (x * x)%Z) (psf_grid n)).
Definition moffat_raw_2d (n : nat) (s : Qc) : list (list Qc) :=
  map (fun y => map (fun x => moffat_w s (x * x + y * y)%Z) (psf_grid n)) (psf_grid n).
Definition normalize2 (g : list (list Qc)) : option (list (list Qc)) :=
  let s := qsum (map qsum g) in
  if qc_eqb s 0%Qc then None else Some (map (map (fun v => (v / s)%Qc)) g).
Definition moffat_psf_2d (n : nat) (s : Qc) : option (list (list Qc)) := normalize2 (moffat_raw_2d n s).

(* Defocus: constant on the disc (k - center)^2 <= R^2, normalised (the constant 1/(pi R^2) cancels).
   Faithful to the code (fixed = false): k = 1..n (one-based, as in the Matlab original) while
   center = n//2 is used zero-based everywhere else, so the disc sits at index n//2 - 1; and R = 0
   raises IndexError (float index) -> None.  fixed = true: k = 0..n-1, and R = 0 gives the delta. *)
Definition in_disc (d2 : Z) (r : Qc) : bool := Qle_bool (this (zq d2)) (this (r * r)%Qc).
Definition defocus_off (fixed : bool) : Z := if fixed then 0%Z else 1%Z.
Definition defocus_psf_1d (fixed : bool) (n : nat) (r : Qc) : option (list Qc) :=
  let c := (Z.of_nat n / 2)%Z in
  if qc_eqb r 0%Qc then
    (if fixed then Some (map (fun i => if (Z.of_nat i =? c)%Z then 1%Qc else 0%Qc) (seq 0 n)) else None)
  else normalize (map (fun i => let d := (Z.of_nat i + defocus_off fixed - c)%Z in
                                 if in_disc (d * d)%Z r then 1%Qc else 0%Qc) (seq 0 n)).
Definition defocus_psf_2d (fixed : bool) (n : nat) (r : Qc) : option (list (list Qc)) :=
  let c := (Z.of_nat n / 2)%Z in
  if qc_eqb r 0%Qc then
    (if fixed then Some (map (fun i => map (fun j => if (Z.of_nat i =? c)%Z && (Z.of_nat j =? c)%Z then 1%Qc else 0%Qc)
                                             (seq 0 n)) (seq 0 n)) else None)
  else normalize2 (map (fun i => map (fun j =>
         let a := (Z.of_nat i + defocus_off fixed - c)%Z in let b := (Z.of_nat j + defocus_off fixed - c)%Z in
         if in_disc (a * a + b * b)%Z r then 1%Qc else 0%Qc) (seq 0 n)) (seq 0 n)).

(* 2-d Gauss is the outer product of the normalised 1-d Gauss (whose entries are enclosed over R, C17_TPR) *)
Definition outer (g : list Qc) : list (list Qc) := map (fun a => map (fun b => (a * b)%Qc) g) g.

(* ------------------------------------------------------------------------------------------ *)
(* Abel1D:  A[i,j] = h / sqrt(s_i - t_j)  for t_j < s_i,  s_i - t_j = (i - j + 1/2) h,  h = endpoint/N      *)
(*          => A[i,j]^2 = h / (i - j + 1/2)  (rational), A[i,j] > 0, and 0 above the diagonal   *)
(* ------------------------------------------------------------------------------------------ *)
Definition abel_sq (n : nat) (endpoint : Qc) (i j : nat) : Qc :=
  let h := (endpoint / zq (Z.of_nat n))%Qc in
  if (j <=? i)%nat then (h / (zq (Z.of_nat i - Z.of_nat j) + Q2Qc (1 # 2)))%Qc else 0%Qc.
Definition abel_sq_matrix (n : nat) (endpoint : Qc) : list (list Qc) :=
  map (fun i => map (abel_sq n endpoint i) (seq 0 n)) (seq 0 n).

(* ------------------------------------------------------------------------------------------ *)
(* Poisson1D:  Dx = [e_0^T ; -I + superdiag] / dx  ((N+1) x N),  A(kappa) = Dx^T diag(kappa) Dx           *)
(* ------------------------------------------------------------------------------------------ *)
Definition poisson_Dx_entry (N : nat) (r c : nat) : Z :=      (* times dx *)
  match r with
  | O => if (c =? 0)%nat then 1 else 0
  | S r' => if (c =? r')%nat then (-1) else if (c =? r' + 1)%nat then 1 else 0
  end%Z.
Definition poisson_Dx (N : nat) : list (list Z) :=
  map (fun r => map (poisson_Dx_entry N r) (seq 0 N)) (seq 0 (N + 1)).
(* A(kappa) u  =  Dx^T (kappa .* (Dx u))  / dx^2 *)
Definition poisson_apply (N : nat) (dx : Qc) (kappa u : list Qc) : list Qc :=
  let D := map (map zq) (poisson_Dx N) in
  let Du := qmatvec D u in
  let kDu := map (fun p => (fst p * snd p)%Qc) (combine kappa Du) in
  map (fun v => (v / (dx * dx))%Qc) (qmattvec N D kDu).

(* ------------------------------------------------------------------------------------------ *)
(* WangCubic                                                                                   *)
(* ------------------------------------------------------------------------------------------ *)
Definition cubic_forward (x0 x1 : Qc) : Qc := (zq 10 * x1 - zq 10 * (x0 * x0 * x0) + zq 5 * (x0 * x0) + zq 6 * x0)%Qc.
Definition cubic_jacobian (x0 x1 : Qc) : list Qc := [(- zq 30 * (x0 * x0) + zq 10 * x0 + zq 6)%Qc; zq 10].

(* ------------------------------------------------------------------------------------------ *)
(* data generation                                                                             *)
(* ------------------------------------------------------------------------------------------ *)
Definition qcabs (a : Qc) : Qc := Q2Qc (Qabs (this a)).
(* Gaussian(mean, cov = noise_std^2).sample()  =  mean + sqrt(cov) * z  =  mean + |noise_std| * z *)
Definition data_gaussian (noise_std : Qc) (exact z : list Qc) : list Qc :=
  qvadd exact (qvscale (qcabs noise_std) z).
(* cov_i = (y_i * noise_std)^2 *)
Definition data_scaled (noise_std : Qc) (exact z : list Qc) : list Qc :=
  qvadd exact (map (fun p => (qcabs (fst p * noise_std) * snd p)%Qc) (combine exact z)).
(* Poisson / Heat / Abel: sigma = ||y|| / SNR ; data = y + normal(0, sigma) = y + sigma * z;
   sigma is irrational: the model states sigma^2 = ||y||^2 / SNR^2 and sigma > 0 *)
Definition snr_sigma2 (snr : Qc) (exact : list Qc) : Qc := (qnormsq exact / (snr * snr))%Qc.
Definition data_snr (sigma : Qc) (exact z : list Qc) : list Qc := qvadd exact (qvscale sigma z).

(* ------------------------------------------------------------------------------------------ *)
(* component bookkeeping of BayesianProblem (objects are identified by their id())              *)
(* ------------------------------------------------------------------------------------------ *)
Record likelihood_obj := mkLik { lik_dist_mean : Z;      (* id of data_dist.mean = the forward model object *)
                                 lik_data : Z }.          (* id of the data object *)
Record posterior_obj := mkPost { post_lik : Z; post_prior : Z }.
Record heap_view := mkHeap { h_target : posterior_obj;           (* BayesianProblem._target *)
                             h_liks : list (Z * likelihood_obj) }.  (* id -> likelihood object *)
Definition find_lik (h : heap_view) (l : Z) : option likelihood_obj :=
  match find (fun p => Z.eqb (fst p) l) (h_liks h) with Some p => Some (snd p) | None => None end.
(* BayesianProblem.likelihood / .prior / .model / .data / get_components()[0:2] *)
Definition bp_likelihood (h : heap_view) : Z := post_lik (h_target h).
Definition bp_prior (h : heap_view) : Z := post_prior (h_target h).
Definition bp_model (h : heap_view) : option Z := option_map lik_dist_mean (find_lik h (bp_likelihood h)).
Definition bp_data (h : heap_view) : option Z := option_map lik_data (find_lik h (bp_likelihood h)).
Definition get_components (h : heap_view) : option (Z * Z) :=
  match bp_model h, bp_data h with Some m, Some d => Some (m, d) | _, _ => None end.
(* what a test-problem constructor does: likelihood = data_dist.to_likelihood(data); super().__init__(likelihood, prior) *)
Definition construct (model_id data_id lik_id prior_id : Z) : heap_view :=
  mkHeap (mkPost lik_id prior_id) [(lik_id, mkLik model_id data_id)].

(* ------------------------------------------------------------------------------------------ *)
(* comparison functions used by the generated cases                                            *)
(* ------------------------------------------------------------------------------------------ *)
Definition check_zmat (model obs : list (list Z)) : bool := zll_eqb obs model.
Definition check_qmat (tol : Q) (model obs : list (list Qc)) : bool := qcll_close tol obs model.
Definition check_zvec (model obs : list Z) : bool := zl_eqb obs model.
Definition check_qvec (tol : Q) (model obs : list Qc) : bool := qcl_close tol obs model.
Definition check_oqvec (tol : Q) (model obs : option (list Qc)) : bool := opt_eqb (qcl_close tol) obs model.
Definition check_oqmat (tol : Q) (model obs : option (list (list Qc))) : bool := opt_eqb (qcll_close tol) obs model.
Definition check_ozmat (model obs : option (list (list Z))) : bool := opt_eqb zll_eqb obs model.

(* Deconvolution1D: matrix of the model, its action on the phantom, and the unit-vector images *)
Definition check_deconv1_z (fixed : bool) (m : bc) (P : list Z) (n : nat) (obsA : list (list Z))
           (x obsAx : list Z) : bool :=
  let A := zdeconv1_matrix fixed m P n in
  zll_eqb obsA A && zl_eqb obsAx (zmatvec A x).
Definition check_deconv1_q (tol : Q) (fixed : bool) (m : bc) (P : list Qc) (n : nat) (obsA : list (list Qc))
           (x obsAx : list Qc) : bool :=
  let A := qdeconv1_matrix fixed m P n in
  qcll_close tol obsA A && qcl_close tol obsAx (qmatvec A x).
(* refusals of the constructor: unknown BC string, 2-d PSF, phantom of wrong length *)
Definition deconv1_accepts (bcname : string) (psf_ndim : nat) (phantom_len dim : nat) : bool :=
  match bc1_of_name bcname with None => false | Some _ => (psf_ndim =? 1)%nat && (phantom_len =? dim)%nat end.

(* Deconvolution2D: forward on an image (flattened, C order), refusal on shape mismatch *)
Definition check_deconv2_z (m : bc) (P X : list (list Z)) (obs : option (list (list Z))) : bool :=
  opt_eqb zll_eqb obs (if proj_shape_ok P X then Some (zproj_forward_2d m P X) else None).
Definition check_deconv2_q (tol : Q) (m : bc) (P X : list (list Qc)) (obs : list (list Qc)) : bool :=
  proj_shape_ok P X && qcll_close tol obs (qproj_forward_2d m P X).
Definition check_backward2_z (m : bc) (P X : list (list Z)) (obs : list (list Z)) : bool :=
  zll_eqb obs (zproj_backward_2d m P X).

(* fftconvolve works in floating point even on integer images: compare the integer model within tol *)
Definition zqmat (M : list (list Z)) : list (list Qc) := map (map zq) M.
Definition check_deconv2_zq (tol : Q) (m : bc) (P X : list (list Z)) (obs : option (list (list Qc))) : bool :=
  opt_eqb (qcll_close tol) obs (if proj_shape_ok P X then Some (zqmat (zproj_forward_2d m P X)) else None).
Definition check_backward2_zq (tol : Q) (m : bc) (P X : list (list Z)) (obs : list (list Qc)) : bool :=
  qcll_close tol obs (zqmat (zproj_backward_2d m P X)).
(* the documented operator, for the cells where the harness compares with it directly *)
Definition check_conv2_zq (tol : Q) (m : bc) (P X : list (list Z)) (obs : list (list Qc)) : bool :=
  qcll_close tol obs (zqmat (zconv2d m P X)).
Definition check_legacy_z (fixed : bool) (dim : nat) (P : list Z) (obs : option (list (list Z))) : bool :=
  opt_eqb zll_eqb obs (if fixed then zlegacy_fixed dim P else zlegacy dim P).
(* built-in legacy PSF: the whole matrix is the circulant of its own half row hh (values enclosed over R) *)
Definition check_legacy_builtin (tol : Q) (hh : list Qc) (obs : list (list Qc)) : bool :=
  qcll_close tol obs (legacy_builtin 0%Qc hh).
Definition check_outer (tol : Q) (g : list Qc) (obs : list (list Qc)) : bool := qcll_close tol obs (outer g).

(* Abel: squares of the entries, sign and triangular pattern *)
Definition check_abel (tol : Q) (n : nat) (endpoint : Qc) (obs : list (list Qc)) : bool :=
  qcll_close tol (map (map (fun a => (a * a)%Qc)) obs) (abel_sq_matrix n endpoint)
  && forallb (forallb (fun a => Qle_bool 0 (this a))) obs.

(* Poisson: the exact data solve the documented discrete equation (residual certificate) *)
Definition check_poisson (tol : Q) (N : nat) (dx : Qc) (kappa u rhs : list Qc) : bool :=
  qcl_close tol (poisson_apply N dx kappa u) rhs.

(* data = exact + (stated std) * scripted normal *)
Definition check_data_gaussian tol s exact z obs := qcl_close tol obs (data_gaussian s exact z).
Definition check_data_scaled tol s exact z obs := qcl_close tol obs (data_scaled s exact z).
Definition check_data_snr tol (snr sigma : Qc) exact z obs :=
  Qle_bool 0 (this sigma) && qc_close tol (sigma * sigma)%Qc (snr_sigma2 snr exact)
  && qcl_close tol obs (data_snr sigma exact z).

Definition check_cubic (x0 x1 f j0 j1 : Qc) : bool :=
  qc_eqb f (cubic_forward x0 x1) && qcl_eqb [j0; j1] (cubic_jacobian x0 x1).

Definition check_components (model_id data_id lik_id prior_id : Z) (obs_model obs_data obs_lik obs_prior : Z) : bool :=
  let h := construct model_id data_id lik_id prior_id in
  opt_eqb (fun a b => Z.eqb (fst a) (fst b) && Z.eqb (snd a) (snd b)) (Some (obs_model, obs_data)) (get_components h)
  && Z.eqb obs_lik (bp_likelihood h) && Z.eqb obs_prior (bp_prior h).
