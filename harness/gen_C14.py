"""C14 -- chains are continuous, resumable from a checkpoint, and recorded faithfully.

Correspondence of cuqi.experimental.mcmc (every Sampler subclass + HybridGibbs) and cuqi.sampler (every sampler + Gibbs)
with Model/C14_Chain.v:

  * differential runs under identical scripted random streams (numpy.random patched, no source hooks): every split
    position and every checkpoint position of the sampling phase, with / without warm-up, checkpoints through
    get_state/set_state and through save_checkpoint/load_checkpoint into a freshly constructed sampler; chains are
    compared bit for bit (canonical ids of the byte patterns) with the uninterrupted run, together with the callback
    log, len(_acc), the tuning schedule, the final state payload and the consumption of the random stream;
  * the stateless interface: returned chain and callback log of sample(N, Nb) / sample_adapt(N, Nb) against a
    reference chain recorded independently of the callback (wrapped single_update, or an unsliced second run);
  * both Gibbs samplers: repeated sample calls against one call;
  * reinitialize against a freshly initialised sampler;
  * the footprint translator harness/tr_footprint.py: facts regenerated from the source into coq/gen/Gen_C14.v and
    checked by the Coq checkers footprint_ok / tune_ok / reinit_ok / legacy_alias_ok.

The Coq side evaluates the bookkeeping model (Sampler.sample / warmup / load, legacy loops incl. the aliasing quirk,
Gibbs continuation) on the trace instance: a state is its position in the reference chain."""
import os, io, sys, copy, json, shutil, contextlib, traceback
import numpy as np
from common import *
import tr_footprint as TR

IMPORTS = "From Coq Require String. Import String.StringSyntax. From CV Require Import Base.Tac Base.Cmp Model.C14_Chain Model.C14_Burn Model.C14_Out Model.C14_Warm Model.C14_Gibbs Model.C14_Stream Model.C14_Block. Open Scope string_scope. Open Scope list_scope."
RULE = ("one case = one (sampler configuration, operation sequence, random seed): operation sequences enumerate every split "
        "position and every checkpoint position 0..N of the sampling phase (N<=8 quick / <=40 thorough), with and without warm-up, "
        "in-memory and on-disk checkpoints, plus multi-split/multi-resume sequences; stateless interface: all (N, Nb) in a grid for "
        "sample and sample_adapt; Gibbs: repeated calls; reinitialize after a history. distinct = distinct (configuration, "
        "operations, seed, initial point); trivial = a sequence without any split, resume or burn-in (single sample(N) call), or a "
        "reference chain with fewer than 3 distinct states")

# signatures of the design-time / build-time defects (DESIGN section 6: #12, #13, #28, and NUTS.max_depth found here)
SIG_CWMH = "legacy.CWMH.single_update|mutates-view-of-stored-chain"
SIG_MHCB = "legacy.MH._sample_adapt|callback-never-invoked"
SIG_RTO = "RegularizedLinearRTO._choose_stepsize|stepsize=automatic"
SIG_NUTS = "NUTS.reinitialize|state-key-not-rebound:max_depth"
SIG_GIBBS_LIVE = "legacy.Gibbs.sample|returns-live-storage"
SIG_BATCH = "Sampler.sample|batch:remainder-never-flushed"
SIG_BATCH2 = "Sampler.sample|batch:next-call-overwrites-files"
SIG_GIBBS0 = "legacy.Gibbs.sample|continuation-after-Ns=0"
SIG_GRADBUF = "ULA/MALA/NUTS.current_target_grad|aliases-user-gradient-buffer"
SIG_STEPSDICT = "HybridGibbs.__init__|num_sampling_steps-dict-shared-with-caller"
SIG_GIBBS_WARM = "legacy.Gibbs.sample|warmup-chain-dropped-by-later-call"


def coq_ll(ll, ids):
    return clist([czvec([ids(b) for b in l]) for l in ll])


def cnl(l):
    return clist([cnat(int(x)) for x in l])


# ------------------------------------------------------------------------------------------------------------------
# small utilities
# ------------------------------------------------------------------------------------------------------------------
def canon(x):
    return np.ascontiguousarray(np.asarray(x, dtype=np.float64)).reshape(-1).tobytes()


def canon_val(v):
    if isinstance(v, (np.ndarray, float, int, np.number, bool)):
        return "f:" + canon(v).hex()
    if isinstance(v, (list, tuple)):
        return "[" + ",".join(canon_val(x) for x in v) + "]"
    if isinstance(v, str) or v is None:
        return "s:" + repr(v)
    return "o:" + type(v).__name__


def fl(b):
    return [float(x) for x in np.frombuffer(b, dtype=np.float64)]


class Ids:
    """canonical ids of bit patterns (shared by the reference run and the runs compared with it)"""

    def __init__(self):
        self.t = {}

    def __call__(self, b):
        return self.t.setdefault(b, len(self.t))


class Stream:
    """one scripted random stream that can be left and re-entered (fresh samplers are initialised outside it)"""

    def __init__(self, seed, record=False):
        self.sr = ScriptedRandom(seed)
        self.values = []              # (kind, value) of every draw, when record=True
        self.nvar = 0                 # number of variates handed out so far: the POSITION of the stream

        def script(kind, a, k, idx):
            v = getattr(self.sr.gen, kind)(*a, **k)
            self.nvar += int(np.size(v))
            if record:
                self.values.append((kind, v))
            return v
        self.sr.script = script

    def __enter__(self):
        self.sr.__enter__()
        return self

    def __exit__(self, *a):
        self.sr.__exit__(*a)

    def draws(self):
        return [k for k, _, _ in self.sr.log]


class PoisonError(Exception):
    pass


class Poison:
    """value written into every attribute the extracted footprint declares irrelevant: any use raises"""

    def _boom(self, *a, **k):
        raise PoisonError("an attribute outside the extracted footprint was used")
    __getattr__ = __call__ = __getitem__ = __setitem__ = __len__ = __iter__ = __bool__ = __float__ = __int__ = __index__ = _boom
    __add__ = __radd__ = __sub__ = __rsub__ = __mul__ = __rmul__ = __truediv__ = __rtruediv__ = __matmul__ = __rmatmul__ = _boom
    __neg__ = __pow__ = __rpow__ = __lt__ = __le__ = __gt__ = __ge__ = __array__ = __hash__ = _boom

    def __eq__(self, o):
        raise PoisonError("an attribute outside the extracted footprint was compared")

    def __repr__(self):
        return "<poison>"


_FACTS = {}


def facts_of(repo):
    if repo not in _FACTS:
        try:
            _FACTS[repo] = TR.extract_experimental(repo)
        except Exception:
            _FACTS[repo] = {}
    return _FACTS[repo]


def facts_for(obj, repo):
    """extracted facts of the nearest analysed class in the object's MRO (a user subclass inherits its base's code)"""
    F = facts_of(repo)
    for k in type(obj).__mro__:
        if k.__name__ in F:
            return F[k.__name__]
    return None


def poison_irrelevant(s, f, warm):
    """overwrite every instance attribute that, according to the extracted facts, neither sample() [nor warmup()] can
    read before writing it -- including the state keys, which set_state is about to replace"""
    reads = f["warmup_r"] if warm else f["sample_r"]
    scratch = set(f["step_wfirst"])
    state = set(f["state"])
    keep = set(a for a in reads if a not in scratch and a not in state) | {"callback", "tune", "step", "_is_initialized", "_target"}
    done = []
    for a in list(vars(s)):
        if a not in keep:
            object.__setattr__(s, a, Poison())
            done.append(a)
    return done


_ORIG_ESN = {}


def det_spectral(on=True):
    """RegularizedLinearRTO(stepsize='automatic') takes its step size from SciPy's randomised estimate_spectral_norm, which
    draws from SciPy's own generator: seeded before every call, two samplers of one configuration agree (the finding
    about the unseeded estimate is replayed separately, with the patch off)"""
    import scipy.linalg.interpolative as sli
    import cuqi.experimental.mcmc._rto as m1
    import cuqi.sampler._rto as m2
    for m in (m1, m2):
        if m not in _ORIG_ESN:
            _ORIG_ESN[m] = m.estimate_spectral_norm
        real = _ORIG_ESN[m]
        if on:
            def wrapped(A, *a, _real=real, **k):
                sli.seed(4711)
                return _real(A, *a, **k)
            m.estimate_spectral_norm = wrapped
        else:
            m.estimate_spectral_norm = real


@contextlib.contextmanager
def quiet():
    with contextlib.redirect_stdout(io.StringIO()):
        yield


def total(ops):
    return sum(o[1] for o in ops if o[0] in "SW")


def normalize(ops):
    """the uninterrupted run an operation sequence is compared with: checkpoints dropped, sample calls merged"""
    out = []
    for o in ops:
        if o[0] == "R":
            continue
        if o[0] == "S" and out and out[-1][0] == "S":
            out[-1] = ("S", out[-1][1] + o[1])
        else:
            out.append(tuple(o))
    return out


def coq_ops(ops):
    r = []
    for o in ops:
        if o[0] == "S":
            r.append("TSample %s" % cnat(o[1]))
        elif o[0] == "W":
            r.append("TWarmup %s %s %s" % (cnat(o[1]), cnat(o[2]), cnat(o[3])))
        else:
            r.append("TResume")
    return clist(r)


def coq_cb(cb):
    # a negative index handed to the callback is written as 4999 (no recorded chain is that long): it can match nothing
    return clist(["(%s, %s)" % (cz(a), cnat(i if 0 <= i < 4999 else 4999)) for a, i in cb])


def coq_tunes(t):
    return clist(["(%s, %s, %s)" % (cnat(a), cnat(b), cnat(c)) for a, b, c in t])


# ------------------------------------------------------------------------------------------------------------------
# configurations
# ------------------------------------------------------------------------------------------------------------------
def build_x0(x0):
    """initial point in the declaration style asked for: x0 is a list of numbers (float64 array) or {"v": [...], "style": s}
    with s in list | float32 | int | view (non-contiguous view of a larger user array)"""
    if isinstance(x0, dict):
        v, style = x0["v"], x0["style"]
        if style == "list":
            return [float(a) for a in v]
        if style == "float32":
            return np.array(v, dtype=np.float32)
        if style == "int":
            return np.array([int(round(a)) for a in v])
        if style == "view":
            big = np.zeros(2 * len(v) + 1)
            big[1::2] = v
            return big[1::2]
        return np.array(v, dtype=float)
    return np.array(x0, dtype=float)


def deep_fp(o, depth=6, seen=None):
    """structural fingerprint of a helper object (target, proposal, prior, model ...): every array by its bytes, every
    attribute recursively, closures of functions included"""
    import hashlib, types
    import scipy.sparse as sps
    if seen is None:
        seen = {}
    if isinstance(o, (int, float, str, bool, type(None), complex, np.number, bytes)):
        return repr(o)
    if isinstance(o, np.ndarray):
        return "a:%s%r%s" % (o.dtype, o.shape, hashlib.sha1(np.ascontiguousarray(o).tobytes()).hexdigest()[:12])
    if sps.issparse(o):
        c = o.tocoo()
        return "sp:%r%s" % (o.shape, hashlib.sha1(c.row.tobytes() + c.col.tobytes() + np.ascontiguousarray(c.data).tobytes()).hexdigest()[:12])
    if id(o) in seen or depth == 0:
        return "<%s>" % type(o).__name__
    seen[id(o)] = 1
    if isinstance(o, (list, tuple)):
        return "[" + ",".join(deep_fp(x, depth - 1, seen) for x in o) + "]"
    if isinstance(o, (set, frozenset)):
        return "{" + ",".join(sorted(deep_fp(x, depth - 1, seen) for x in o)) + "}"
    if isinstance(o, dict):
        return "{" + ",".join("%s:%s" % (k, deep_fp(v, depth - 1, seen)) for k, v in sorted(o.items(), key=lambda kv: str(kv[0]))) + "}"
    if isinstance(o, types.FunctionType):
        # what a user's function captures (its private work buffers included) is the user's business, not the helper's state
        return "f:%s" % o.__qualname__
    if isinstance(o, types.MethodType):
        return "m:%s.%s" % (type(o.__self__).__name__, o.__func__.__qualname__)
    if isinstance(o, (type, types.ModuleType)):
        return "t:%s" % getattr(o, "__name__", "?")
    if hasattr(o, "__dict__"):
        return "%s{%s}" % (type(o).__name__, ",".join("%s=%s" % (k, deep_fp(v, depth - 1, seen)) for k, v in sorted(vars(o).items())))
    return "<%s>" % type(o).__name__


class World:
    """targets (built once, shared by all samplers of a configuration) and sampler factories"""

    def __init__(self):
        import cuqi
        from cuqi.distribution import Gaussian, LMRF, Gamma, JointDistribution
        from cuqi.model import LinearModel
        from cuqi.implicitprior import RegularizedGaussian
        self.cuqi = cuqi
        E = cuqi.experimental.mcmc
        Lg = cuqi.sampler
        n = 3
        Amat = np.array([[1., 2, 0], [0, 1, 1], [1, 0, 1], [2, 1, 0]])
        A = LinearModel(Amat)
        ydata = np.array([1., 0.5, -1, 2])
        x = Gaussian(np.zeros(n), 1.0, name="x")
        y = Gaussian(A @ x, 0.25, name="y")
        post = JointDistribution(x, y)(y=ydata)
        xr = RegularizedGaussian(np.zeros(n), 1.0, constraint="nonnegativity", name="x")
        yr = Gaussian(A @ xr, 0.25, name="y")
        postr = JointDistribution(xr, yr)(y=ydata)
        xl = LMRF(0, 0.1, geometry=n, name="x")
        yl = Gaussian(A @ xl, 0.25, name="y")
        postl = JointDistribution(xl, yl)(y=ydata)
        g2 = Gaussian(np.array([0.5, -1.0]), np.array([1.0, 2.0]))
        d = Gamma(1, 1e-2, name="d")
        l = Gamma(1, 1e-2, name="l")
        xg = Gaussian(np.zeros(n), lambda d: 1 / d, name="x")
        yg = Gaussian(A @ xg, lambda l: 1 / l, name="y")
        self.joint = JointDistribution(d, l, xg, yg)(y=ydata)
        # variable names that coincide with attribute names of the samplers / of HybridGibbs
        sc_ = Gamma(1, 1e-2, name="scale")
        s_ = Gamma(1, 1e-2, name="s")
        xn_ = Gaussian(np.zeros(n), lambda scale: 1 / scale, name="x")
        yn_ = Gaussian(A @ xn_, lambda s: 1 / s, name="y")
        # block samplers that precompute from their target and are not the ones HybridGibbs special-cases
        dl_, ll_ = Gamma(1, 1e-2, name="d"), Gamma(1, 1e-2, name="l")
        xl_ = LMRF(0, lambda d: 1 / d, geometry=n, name="x")
        yl_ = Gaussian(A @ xl_, lambda l: 1 / l, name="y")
        dr_, lr_ = Gamma(1, 1e-2, name="d"), Gamma(1, 1e-2, name="l")
        xr_ = RegularizedGaussian(np.zeros(n), lambda d: 1 / d, constraint="nonnegativity", name="x")
        yr_ = Gaussian(A @ xr_, lambda l: 1 / l, name="y")
        # an UNOBSERVED variable z whose conditional is a distribution that can be sampled directly (Direct block: its
        # validate_target draws from the target, so whatever re-validates once per call moves the random stream)
        dd_, ld_ = Gamma(1, 1e-2, name="d"), Gamma(1, 1e-2, name="l")
        xd_ = Gaussian(np.zeros(n), lambda d: 1 / d, name="x")
        yd_ = Gaussian(A @ xd_, lambda l: 1 / l, name="y")
        zd_ = Gaussian(np.zeros(2), lambda l: 1 / l, name="z")
        self.joint_dir = JointDistribution(dd_, ld_, xd_, yd_, zd_)(y=ydata)
        self.joints = {"std": self.joint, "dir": self.joint_dir, "names": JointDistribution(sc_, s_, xn_, yn_)(y=ydata),
                       "lmrf": JointDistribution(dl_, ll_, xl_, yl_)(y=ydata), "reg": JointDistribution(dr_, lr_, xr_, yr_)(y=ydata)}
        # conditionals of a hyper-parameter: Gaussian-Gamma pair (Conjugate) and LMRF-Gamma pair (ConjugateApprox)
        dc = Gamma(1, 1e-2, name="d")
        xc = Gaussian(np.zeros(n), lambda d: 1 / d, name="x")
        yc = Gaussian(A @ xc, 0.25, name="y")
        conj = JointDistribution(dc, xc, yc)(y=ydata, x=np.array([0.5, -0.25, 1.0]))
        da = Gamma(1, 1e-2, name="d")
        xa = LMRF(0, lambda d: 1 / d, geometry=n, name="x")
        conja = JointDistribution(da, xa)(x=np.array([0.5, -0.25, 1.0]))
        # two likelihoods on one parameter: MultipleLikelihoodPosterior (the other branch of LinearRTO's target dispatch)
        xm = Gaussian(np.zeros(n), 1.0, name="x")
        y1 = Gaussian(A @ xm, 0.25, name="y1")
        A2 = LinearModel(np.array([[1., 0, 1], [0, 2, 1]]))
        y2 = Gaussian(A2 @ xm, 0.5, name="y2")
        postm = JointDistribution(xm, y1, y2)(y1=ydata, y2=np.array([0.5, -1.0]))
        # user callables that return a REUSED WORK BUFFER / a non-contiguous (strided, Fortran-derived) result
        from cuqi.distribution import UserDefinedDistribution
        mu2 = np.array([0.5, -1.0])
        gbuf = np.zeros(2)

        def grad_buffer(x):
            gbuf[:] = -(np.asarray(x) - mu2)
            return gbuf

        def grad_strided(x):
            # a column of a C-ordered 2-column array: a genuinely strided (non-contiguous) result
            return np.ascontiguousarray(np.stack([-(np.asarray(x) - mu2), np.asarray(x)]).T)[:, 0]
        lp = lambda x: -0.5 * float(np.sum((np.asarray(x) - mu2) ** 2))
        ubuf = UserDefinedDistribution(dim=2, logpdf_func=lp, gradient_func=grad_buffer)
        ustr = UserDefinedDistribution(dim=2, logpdf_func=lp, gradient_func=grad_strided)
        self.dims = {"g2": 2, "post": n, "postr": n, "postl": n, "conj": 1, "conja": 1, "postm": n, "ubuf": 2, "ustr": 2}
        T = {"g2": g2, "post": post, "postr": postr, "postl": postl, "conj": conj, "conja": conja, "postm": postm, "ubuf": ubuf, "ustr": ustr}
        # experimental interface: name -> (class, target, kwargs)
        self.exp = {
            "MH/scale=0.7": (E.MH, "g2", dict(scale=0.7)),
            "MH/default-x0": (E.MH, "post", dict(scale=0.12)),
            "CWMH/scalar-scale": (E.CWMH, "g2", dict(scale=0.6)),
            "CWMH/vector-scale": (E.CWMH, "post", dict(scale=np.array([0.5, 0.25, 1.0]))),
            "PCN/scale=0.12": (E.PCN, "post", dict(scale=0.12)),
            "ULA/scale=0.01": (E.ULA, "post", dict(scale=0.01)),
            "MALA/scale=0.05": (E.MALA, "post", dict(scale=0.05)),
            "NUTS/adaptive": (E.NUTS, "post", dict()),
            "NUTS/step_size=0.3,max_depth=2": (E.NUTS, "g2", dict(step_size=0.3, max_depth=2)),
            "LinearRTO": (E.LinearRTO, "post", dict(maxit=20)),
            "RegularizedLinearRTO/stepsize=automatic": (E.RegularizedLinearRTO, "postr", dict(maxit=30)),
            "RegularizedLinearRTO/stepsize=0.02": (E.RegularizedLinearRTO, "postr", dict(maxit=30, stepsize=0.02)),
            "UGLA": (E.UGLA, "postl", dict(maxit=20)),
            "Direct": (E.Direct, "g2", dict()),
            "NUTS/step_size=0.5,max_depth=0": (E.NUTS, "g2", dict(step_size=0.5, max_depth=0)),      # falsy but legitimate depth
            "LinearRTO/MultipleLikelihoodPosterior": (E.LinearRTO, "postm", dict(maxit=20)),
            # user subclasses: dispatch on the exact class name (checkpoints) and on isinstance (HybridGibbs)
            "MH/user-subclass": (type("MyMH", (E.MH,), {}), "g2", dict(scale=0.7)),
            "NUTS/user-subclass": (type("MyNUTS", (E.NUTS,), {}), "g2", dict(step_size=0.3, max_depth=3)),
            # every shipped default (scale, proposal, maxit, tol, max_depth, opt_acc_rate, beta, stepsize ...), default initial point
            "MH/all-defaults": (E.MH, "g2", dict()), "CWMH/all-defaults": (E.CWMH, "g2", dict()), "PCN/all-defaults": (E.PCN, "post", dict()),
            "ULA/all-defaults": (E.ULA, "post", dict()), "MALA/all-defaults": (E.MALA, "post", dict()), "NUTS/all-defaults": (E.NUTS, "g2", dict()),
            "LinearRTO/all-defaults": (E.LinearRTO, "post", dict()), "RegularizedLinearRTO/all-defaults": (E.RegularizedLinearRTO, "postr", dict()),
            "UGLA/all-defaults": (E.UGLA, "postl", dict()),
            # integer-dtype parameters, exact zeros inside otherwise generic data
            "CWMH/int-vector-scale": (E.CWMH, "post", dict(scale=np.array([1, 2, 1]))),
            "CWMH/scale-with-zero": (E.CWMH, "post", dict(scale=np.array([0.5, 0.0, 1.0]))),
            # gradient callables returning a reused work buffer / a strided array
            "ULA/grad-buffer": (E.ULA, "ubuf", dict(scale=0.1)), "MALA/grad-buffer": (E.MALA, "ubuf", dict(scale=0.5)),
            "NUTS/grad-buffer": (E.NUTS, "ubuf", dict(step_size=0.3, max_depth=3)),
            "MALA/grad-strided": (E.MALA, "ustr", dict(scale=0.5)), "NUTS/grad-strided": (E.NUTS, "ustr", dict(step_size=0.3, max_depth=3)),
            "Conjugate/GaussianGamma": (E.Conjugate, "conj", dict()),
            "ConjugateApprox/LMRFGamma": (E.ConjugateApprox, "conja", dict()),
        }
        # stateless interface: name -> (class, target, kwargs, method, reference kind)
        self.leg = {
            "MH/sample": (Lg.MH, "g2", dict(scale=0.7), "sample", "single_update"),
            "MH/sample_adapt": (Lg.MH, "g2", dict(scale=0.7), "sample_adapt", "single_update"),
            "CWMH/sample": (Lg.CWMH, "g2", dict(scale=0.6), "sample", "single_update"),
            "CWMH/sample_adapt": (Lg.CWMH, "post", dict(scale=0.5), "sample_adapt", "single_update"),
            # proposal given as a callable instead of a Distribution (the other branch of the isinstance dispatch)
            "CWMH/callable-proposal": (Lg.CWMH, "g2", dict(scale=0.6, proposal=lambda x_t, scale: np.random.normal(x_t, scale)), "sample", "single_update"),
            "pCN/sample": (Lg.pCN, "post", dict(scale=0.12), "sample", "single_update"),
            "pCN/sample_adapt": (Lg.pCN, "post", dict(scale=0.12), "sample_adapt", "single_update"),
            "ULA/sample": (Lg.ULA, "post", dict(scale=0.01), "sample", "single_update"),
            "MALA/sample": (Lg.MALA, "post", dict(scale=0.05), "sample", "single_update"),
            "NUTS/adapt": (Lg.NUTS, "post", dict(adapt_step_size=True), "sample", "return_burnin"),
            "NUTS/find-eps": (Lg.NUTS, "g2", dict(adapt_step_size=False, max_depth=3), "sample", "return_burnin"),
            "NUTS/step_size=0.3": (Lg.NUTS, "g2", dict(adapt_step_size=0.3, max_depth=2), "sample", "return_burnin"),
            "LinearRTO/sample": (Lg.LinearRTO, "post", dict(maxit=20), "sample", "unsliced"),
            "RegularizedLinearRTO/stepsize=0.02": (Lg.RegularizedLinearRTO, "postr", dict(maxit=30, stepsize=0.02), "sample", "unsliced"),
            "RegularizedLinearRTO/stepsize=automatic": (Lg.RegularizedLinearRTO, "postr", dict(maxit=30), "sample", "unsliced"),
            "UGLA/sample": (Lg.UGLA, "postl", dict(maxit=20), "sample", "unsliced"),
        }
        self.targets = T
        self.E, self.Lg = E, Lg

    def x0(self, rng, tkey, name=""):
        if name.endswith("default-x0") or name.endswith("all-defaults"):
            return None
        d = self.dims[tkey]
        v = [rng.randint(-8, 8) / 8.0 for _ in range(d)]
        if tkey in ("postr", "conj", "conja"):
            v = [abs(a) + (0.5 if tkey != "postr" else 0.0) for a in v]
        return v

    def make_exp(self, name, x0):
        cls, tkey, kw = self.exp[name]
        kw = {k: (v.copy() if isinstance(v, np.ndarray) else v) for k, v in kw.items()}
        if x0 is not None:
            kw["initial_point"] = build_x0(x0)
        return cls(self.targets[tkey], **kw)

    def make_leg(self, name, x0):
        cls, tkey, kw, method, refkind = self.leg[name]
        return cls(self.targets[tkey], x0=np.array(x0, dtype=float), **dict(kw))

    HYBRID = ["HybridGibbs/RTO+Conjugate", "HybridGibbs/NUTS+MH+Conjugate", "HybridGibbs/RTO+Conjugate,steps={x:2}",
              "HybridGibbs/MALA+MH+Conjugate,steps={x:4,d:4}", "HybridGibbs/CWMH+CWMH+Conjugate,steps={x:2,d:2,l:2}",
              "HybridGibbs/MH+Conjugate+Conjugate,steps={x:4}", "HybridGibbs/RTO+MH+Direct-free,steps={d:1}",
              "HybridGibbs/MH+MH+Conjugate,steps={x:2,d:4,l:1}", "HybridGibbs/RTO+Conjugate,steps={x:0}", "HybridGibbs/names:scale,s",
              "HybridGibbs/UGLA+ConjugateApprox+Conjugate", "HybridGibbs/RegRTO+Conjugate+Conjugate", "HybridGibbs/user-subclasses"]
    # every block-sampler class the library offers inside HybridGibbs; a Direct block in each (joint `dir`: d, l, x, z)
    HYBRID_DIR = ["HybridGibbs/dir:PCN+Conjugate+MH+Direct", "HybridGibbs/dir:ULA+Conjugate+CWMH+Direct,steps={x:2}",
                  "HybridGibbs/dir:MALA+Conjugate+MH+Direct,steps={z:2}", "HybridGibbs/dir:NUTS+Conjugate+MH+Direct",
                  "HybridGibbs/dir:LinearRTO+Conjugate+CWMH+Direct", "HybridGibbs/dir:MH+Conjugate+MH+Direct,steps={z:0}"]

    def make_hybrid(self, name):
        """block samplers: exact ones (LinearRTO, Conjugate) and rejecting ones (MH, CWMH, MALA with large scales);
        num_sampling_steps: None, dict with missing keys, full dict, values 1 / 2 / 4"""
        E = self.E
        one = lambda v: np.array([v])
        x3 = lambda: np.array([0.25, -0.5, 0.75])
        table = {
            "HybridGibbs/RTO+Conjugate": ({"x": E.LinearRTO(maxit=20), "d": E.Conjugate(), "l": E.Conjugate()}, None),
            "HybridGibbs/NUTS+MH+Conjugate": ({"x": E.NUTS(max_depth=4), "d": E.MH(scale=0.5, initial_point=one(1.0)), "l": E.Conjugate()},
                                              {"x": 2, "d": 3, "l": 1}),
            "HybridGibbs/RTO+Conjugate,steps={x:2}": ({"x": E.LinearRTO(maxit=20), "d": E.Conjugate(), "l": E.Conjugate()}, {"x": 2}),
            "HybridGibbs/MALA+MH+Conjugate,steps={x:4,d:4}": ({"x": E.MALA(scale=0.6, initial_point=x3()), "d": E.MH(scale=1.5, initial_point=one(1.0)),
                                                              "l": E.Conjugate()}, {"x": 4, "d": 4}),
            "HybridGibbs/CWMH+CWMH+Conjugate,steps={x:2,d:2,l:2}": ({"x": E.CWMH(scale=1.0, initial_point=x3()), "d": E.CWMH(scale=1.5, initial_point=one(1.0)),
                                                                    "l": E.Conjugate()}, {"x": 2, "d": 2, "l": 2}),
            "HybridGibbs/MH+Conjugate+Conjugate,steps={x:4}": ({"x": E.MH(scale=0.6, initial_point=x3()), "d": E.Conjugate(), "l": E.Conjugate()}, {"x": 4}),
            "HybridGibbs/RTO+MH+Direct-free,steps={d:1}": ({"x": E.LinearRTO(maxit=20), "d": E.MH(scale=1.0, initial_point=one(1.0)), "l": E.Conjugate()}, {"d": 1}),
            "HybridGibbs/MH+MH+Conjugate,steps={x:2,d:4,l:1}": ({"x": E.MH(scale=0.5, initial_point=x3()), "d": E.MH(scale=2.0, initial_point=one(1.0)),
                                                                "l": E.Conjugate()}, {"x": 2, "d": 4, "l": 1}),
        }
        table.update({
            # a configured count of 0 (falsy): the block is never updated
            "HybridGibbs/RTO+Conjugate,steps={x:0}": ({"x": E.LinearRTO(maxit=20), "d": E.Conjugate(), "l": E.Conjugate()}, {"x": 0}),
            "HybridGibbs/names:scale,s": ({"x": E.MH(scale=0.4, initial_point=x3()), "scale": E.MH(scale=1.0, initial_point=one(1.0)), "s": E.Conjugate()}, {"scale": 2}),
            "HybridGibbs/UGLA+ConjugateApprox+Conjugate": ({"x": E.UGLA(maxit=20), "d": E.ConjugateApprox(), "l": E.Conjugate()}, {"x": 2}),
            "HybridGibbs/RegRTO+Conjugate+Conjugate": ({"x": E.RegularizedLinearRTO(maxit=30, stepsize=0.02), "d": E.Conjugate(), "l": E.Conjugate()}, None),
            "HybridGibbs/user-subclasses": ({"x": type("MyNUTS", (E.NUTS,), {})(max_depth=3), "d": type("MyMH", (E.MH,), {})(scale=1.0, initial_point=one(1.0)),
                                            "l": E.Conjugate()}, {"d": 2}),
        })
        table.update({
            "HybridGibbs/dir:PCN+Conjugate+MH+Direct": ({"x": E.PCN(scale=0.3, initial_point=x3()), "d": E.Conjugate(), "l": E.MH(scale=0.5, initial_point=one(1.0)),
                                                         "z": E.Direct()}, None),
            "HybridGibbs/dir:ULA+Conjugate+CWMH+Direct,steps={x:2}": ({"x": E.ULA(scale=0.01, initial_point=x3()), "d": E.Conjugate(),
                                                                       "l": E.CWMH(scale=0.5, initial_point=one(1.0)), "z": E.Direct()}, {"x": 2}),
            "HybridGibbs/dir:MALA+Conjugate+MH+Direct,steps={z:2}": ({"x": E.MALA(scale=0.05, initial_point=x3()), "d": E.Conjugate(),
                                                                      "l": E.MH(scale=0.5, initial_point=one(1.0)), "z": E.Direct()}, {"z": 2}),
            "HybridGibbs/dir:NUTS+Conjugate+MH+Direct": ({"x": E.NUTS(max_depth=3), "d": E.Conjugate(), "l": E.MH(scale=0.5, initial_point=one(1.0)),
                                                          "z": E.Direct(initial_point=np.array([0.5, -0.5]))}, None),
            "HybridGibbs/dir:LinearRTO+Conjugate+CWMH+Direct": ({"x": E.LinearRTO(maxit=20), "d": E.Conjugate(), "l": E.CWMH(scale=0.5, initial_point=one(1.0)),
                                                                 "z": E.Direct()}, None),
            "HybridGibbs/dir:MH+Conjugate+MH+Direct,steps={z:0}": ({"x": E.MH(scale=0.4, initial_point=x3()), "d": E.Conjugate(), "l": E.MH(scale=0.5, initial_point=one(1.0)),
                                                                    "z": E.Direct()}, {"z": 0}),
        } if "/dir:" in name else {})
        strat, steps = table[name]
        self.last_steps = dict(steps or {})          # what the harness configured (missing keys mean 1)
        return E.HybridGibbs(self.joint_of(name), strat, steps)

    def joint_of(self, name):
        return self.joints["dir" if "/dir:" in name else "names" if "names:" in name else "lmrf" if "UGLA" in name else "reg" if "RegRTO" in name else "std"]

    GIBBS = ["Gibbs", "Gibbs/MH+Conjugate", "Gibbs/CWMH+Conjugate", "Gibbs/pCN+Conjugate", "Gibbs/ULA+Conjugate", "Gibbs/MALA+Conjugate",
             "Gibbs/NUTS+Conjugate", "Gibbs/LinearRTO+MH+Conjugate", "Gibbs/UGLA+ConjugateApprox+Conjugate", "Gibbs/RegularizedLinearRTO+Conjugate"]

    def make_gibbs(self, name):
        """legacy Gibbs with every sampler class of the stateless interface as a block (classes that need arguments are
        given as factories, which Gibbs calls exactly like a class)"""
        Lg = self.Lg
        import functools
        P = functools.partial
        C2 = lambda xs: {"x": xs, ("d", "l"): Lg.Conjugate}
        table = {
            "Gibbs": ("std", C2(Lg.LinearRTO)),
            "Gibbs/MH+Conjugate": ("std", C2(P(Lg.MH, scale=0.4))),
            "Gibbs/CWMH+Conjugate": ("std", C2(Lg.CWMH)),
            "Gibbs/pCN+Conjugate": ("std", C2(P(Lg.pCN, scale=0.3))),
            "Gibbs/ULA+Conjugate": ("std", C2(P(Lg.ULA, scale=0.01))),
            "Gibbs/MALA+Conjugate": ("std", C2(P(Lg.MALA, scale=0.05))),
            "Gibbs/NUTS+Conjugate": ("std", C2(P(Lg.NUTS, adapt_step_size=0.3, max_depth=2))),
            "Gibbs/LinearRTO+MH+Conjugate": ("std", {"x": Lg.LinearRTO, "d": P(Lg.MH, scale=0.5), "l": Lg.Conjugate}),
            "Gibbs/UGLA+ConjugateApprox+Conjugate": ("lmrf", {"x": Lg.UGLA, "d": Lg.ConjugateApprox, "l": Lg.Conjugate}),
            "Gibbs/RegularizedLinearRTO+Conjugate": ("reg", C2(Lg.RegularizedLinearRTO)),
        }
        jkey, strat = table[name]
        return Lg.Gibbs(self.joints[jkey], strat)


_WORLD = {}


def world(ctx):
    if ctx.repo not in _WORLD:
        _WORLD[ctx.repo] = World()
        _WORLD[ctx.repo].repo = ctx.repo
        det_spectral(True)
    return _WORLD[ctx.repo]


# ------------------------------------------------------------------------------------------------------------------
# drivers of the real implementation
# ------------------------------------------------------------------------------------------------------------------
def tmp_dir():
    d = os.path.join(GEN, "c14_ckpt_%d" % os.getpid())
    os.makedirs(d, exist_ok=True)
    return d


# ---- everything a sampler hands out, kept alive and re-read after every later operation ----------------------------
def cols(S):
    """columns (one per sample) of a Samples-like object or array, as byte strings"""
    if S is None:
        return []
    a = np.asarray(S.samples if hasattr(S, "samples") else S, dtype=np.float64)
    if a.ndim == 1:
        # a Samples object always has one entry per sample on its last axis (scalar samples); a bare vector is one sample
        return [canon(v) for v in a] if hasattr(S, "samples") else [canon(a)]
    return [canon(a[..., k]) for k in range(a.shape[-1])]


def rd_samples(S):
    a = np.asarray(S.samples if hasattr(S, "samples") else S)
    return repr(a.shape).encode() + canon(a)


def rd_dict(D):
    return b"|".join(str(k).encode() + b"=" + rd_samples(D[k]) for k in D.keys())


def rd_state(P):
    return json.dumps({k: canon_val(v) for k, v in sorted(P["state"].items())})


def rd_list(L):
    return [canon_val(x) for x in L]


def rd_file(path):
    with open(path, "rb") as fh:
        return fh.read()


class Ledger:
    """(what, object, reader, bytes when handed out).  recheck() re-reads every object; the first one that changed is
    remembered together with the operation after which the change was seen.  History lists are live lists by design
    (get_history returns the list the sampler appends to): for them the entries present at hand-out time must stay a
    prefix."""

    def __init__(self):
        self.items, self.bad = [], None

    def give(self, what, obj, reader, prefix=False):
        self.items.append((what, obj, reader, reader(obj), prefix))

    def recheck(self, after):
        for what, obj, reader, snap, prefix in self.items:
            try:
                now = reader(obj)
            except Exception as e:
                now = "unreadable: %r" % (e,)
            ok = (now[:len(snap)] == snap) if prefix else (now == snap)
            if not ok and self.bad is None:
                self.bad = (what, "%s handed out earlier was altered by a later operation (seen after %s)" % (what, after))


JUNK = 12345.0


def scribble_samples(S):
    """what a user may do with a chain he was given: write into it"""
    if S is None:
        return
    vals = S.values() if hasattr(S, "values") and not hasattr(S, "samples") else [S]
    for v in vals:
        a = v.samples if hasattr(v, "samples") else v
        if isinstance(a, np.ndarray) and a.size:
            a[...] = JUNK


def run_exp(W, name, x0, ops, seed, variant="mem", ledger=None):
    """run an operation sequence on a sampler of the stateful interface; returns the observation.
    variant: mem (deep-copied get_state payload) | live (payload handed over as is) | file (save/load_checkpoint),
    optionally +scribble (the user writes into a get_samples() result after every operation)"""
    scribble = variant.endswith("+scribble")
    variant = variant.split("+")[0]
    stream = Stream(seed)
    cb, cbrefs, tunes, st = [], [], [], {"base": 0}
    per, call_used = [], []          # variates consumed inside each transition (step + tune) / by each sample, warmup call
    aux_used = []                    # (what, variates) consumed by anything that is not a sample / warmup call
    led = ledger or Ledger()
    outs = []
    ckdir = None
    poisoned = []
    init_b = [None]

    def attach(s):
        def callback(x, i):
            cb.append((canon(x), int(i)))
            cbrefs.append(x)
            led.give("callback-arg", x, canon)
        s.callback = callback
        orig = s.tune

        def tune(skip_len, update_count):
            tunes.append((len(s._samples) - st["base"], int(skip_len), int(update_count)))
            p0 = stream.nvar
            try:
                return orig(skip_len, update_count)
            finally:
                if per:
                    per[-1] += stream.nvar - p0          # tuning belongs to the transition it follows
        s.tune = tune
        ostep = s.step

        def step():
            p0 = stream.nvar
            try:
                return ostep()
            finally:
                per.append(stream.nvar - p0)
        s.step = step
        return s

    helpers = {}

    def hand_out(s, after):
        if init_b[0] is None:
            init_b[0] = canon(s.initial_point)
            # helper objects step / tune work through (target, proposal, prior, model ...): fingerprint after first use
            f_ = facts_for(s, getattr(W, "repo", "/repo")) or {}
            for a_ in f_.get("external", []):
                try:
                    helpers[a_] = (getattr(s, a_), deep_fp(getattr(s, a_)))
                except Exception:
                    pass
        led.recheck(after)
        G = s.get_samples() if len(s._samples) else None
        outs.append(G)
        if G is not None:
            led.give("get_samples", G, rd_samples)
        led.give("get_state", s.get_state(), rd_state)
        for k, L in s.get_history()["history"].items():
            led.give("get_history", L, rd_list, prefix=True)
        if scribble and G is not None:
            scribble_samples(s.get_samples())

    s = attach(W.make_exp(name, x0))
    pos, last_resume = 0, 0
    try:
        for op in ops:
            if op[0] == "S":
                v0 = stream.nvar
                with stream, quiet():
                    s.sample(op[1])
                call_used.append(stream.nvar - v0)
                pos += op[1]
            elif op[0] == "W":
                st["base"] = len(s._samples) if s._is_initialized else 0
                v0 = stream.nvar
                with stream, quiet():
                    if (op[2], op[3]) == (1, 10):
                        s.warmup(op[1])                      # tune_freq left at its default (0.1)
                    elif op[1] % 2:
                        s.warmup(Nb=op[1], tune_freq=op[2] / op[3])
                    else:
                        s.warmup(op[1], op[2] / op[3])
                call_used.append(stream.nvar - v0)
                pos += op[1]
            else:
                fresh = attach(W.make_exp(name, x0))
                a0 = stream.nvar
                if variant == "file":
                    ckdir = ckdir or tmp_dir()
                    path = os.path.join(ckdir, "ckpt_%d.pkl" % pos)
                    with stream, quiet():
                        s.save_checkpoint(path)              # inside the compared stream: saving must not draw
                    led.give("checkpoint-file", path, rd_file)
                    with ScriptedRandom(seed + 7919), quiet():
                        fresh.load_checkpoint(path)
                else:
                    with stream, quiet():
                        payload = s.get_state()
                    led.give("get_state", payload, rd_state)
                    if variant in ("mem", "poison"):
                        payload = copy.deepcopy(payload)
                    with ScriptedRandom(seed + 7919), quiet():
                        fresh.initialize()
                    if variant == "poison":
                        # behavioural non-interference: whatever the extracted footprint declares irrelevant for the
                        # operations still to come is destroyed in the fresh sampler before the state is loaded
                        warm_later = any(o[0] == "W" for o in ops[len(outs) + 1:])
                        f = facts_for(fresh, getattr(W, "repo", "/repo"))
                        if f is None:
                            raise RuntimeError("no extracted facts for %s" % type(fresh).__name__)
                        poisoned.extend(poison_irrelevant(fresh, f, warm_later))
                    with stream, quiet():
                        fresh.set_state(payload)             # the fresh sampler was initialised outside; loading must not draw
                if stream.nvar != a0:
                    aux_used.append(("saving / loading the checkpoint at position %d" % pos, stream.nvar - a0))
                s = fresh
                last_resume = pos
            a0 = stream.nvar
            with stream, quiet():
                hand_out(s, "%s" % (tuple(op),))             # observers inside the compared stream: they must not draw
            if stream.nvar != a0:
                aux_used.append(("get_samples / get_state / get_history after %s" % (tuple(op),), stream.nvar - a0))
        led.recheck("the last operation")
        if len(s._samples):
            with quiet():
                s.get_samples()                # a second get_samples must not disturb the first
            led.recheck("a second get_samples()")
        outs_now = [cols(G) for G in outs]
        cb_now = [(canon(x), i) for x, (_, i) in zip(cbrefs, cb)]
        file_ok = True
    finally:
        if ckdir:
            shutil.rmtree(ckdir, ignore_errors=True)
    smp = [canon(x) for x in s._samples]
    gs_ok = True
    if smp:
        G = s.get_samples()
        arr = np.asarray(G.samples)
        gs_ok = (arr.shape[-1] == len(smp) and G.Ns == len(smp)
                 and all(canon(arr[..., k]) == smp[k] for k in range(len(smp))))
    return {"smp": smp, "nacc": len(s._acc), "acc": [canon_val(a) for a in s._acc[1:]], "cb": list(cb), "cb_now": cb_now, "outs_now": outs_now, "tunes": list(tunes),
            "last_resume": last_resume, "handout": led.bad, "ledger": led,
            "state": {k: canon_val(v) for k, v in sorted(s.get_state()["state"].items())},
            "draws": stream.draws(), "per": list(per), "call_used": list(call_used), "aux_used": list(aux_used), "nvar": stream.nvar, "gs_ok": gs_ok, "init": init_b[0] if init_b[0] is not None else canon(s.initial_point),
            "poisoned": poisoned, "sampler": s,
            "x0_given": (canon(np.asarray(build_x0(x0), dtype=float)) if x0 is not None else None),
            "acc_scalar": type(s).__name__ in ("MH", "PCN", "MALA") and not any(o[0] == "R" for o in ops),
            "first_prev": init_b[0],
            "helpers_changed": sorted(a_ for a_, (o_, fp_) in helpers.items() if deep_fp(o_) != fp_)}


def exp_expected(ref, ops):
    """plain statement of the property for an operation sequence, from the chain of the uninterrupted run"""
    chain = ref["smp"]                      # chain[k-1] = state after k transitions
    cb, k, base = [], 0, 0
    for o in ops:
        if o[0] == "R":
            base = k
        else:
            for _ in range(o[1]):
                k += 1
                cb.append((chain[k - 1], k - 1 - base))
    return chain[base:k], cb


def tunes_want(ops):
    """documented contract of warmup(Nb, tune_freq): tune(interval, count) after every interval-th transition of the call,
    interval = max(int(tune_freq * Nb), 1), count = number of earlier tunings of this call"""
    want = []
    for o in ops:
        if o[0] == "W":
            ti = max(int((o[2] / o[3]) * o[1]), 1)
            want += [(i, ti, i // ti) for i in range(o[1]) if (i + 1) % ti == 0]
    return want


def stream_check(ref_per, sizes, obs_per, obs_calls, labels, init=0):
    """the position of the random stream: a call consumes what its transitions consume (measured inside the wrapped
    step / tune / sweep of THIS run) and nothing else, and that is what the same transitions consumed in the one unsplit run"""
    k = 0
    for j, n in enumerate(sizes):
        inside = sum(obs_per[k:k + n]) + (init if j == 0 else 0)      # the first call initialises a sampler of the stateful interface
        if j < len(obs_calls) and obs_calls[j] != inside:
            return ("call %d, %s, consumed %d variates of the random stream, its %d transitions consumed %d: %d were drawn by work done once per "
                    "call (validation, (re)initialisation, set-up), so the next transition does not see the variates it sees in one call" % (
                        j, labels[j], obs_calls[j], n, inside, obs_calls[j] - inside))
        want = sum(ref_per[k:k + n]) + (init if j == 0 else 0)
        if j < len(obs_calls) and obs_calls[j] != want:
            return "call %d, %s, consumed %d variates, the same transitions of the unsplit run consumed %d" % (j, labels[j], obs_calls[j], want)
        k += n
    return None


def exp_check(ref, obs, ops):
    """None or (kind, detail)"""
    e_smp, e_cb = exp_expected(ref, ops)
    has_r = any(o[0] == "R" for o in ops)
    if len(obs["smp"]) != len(e_smp):
        return ("record", "recorded chain has %d entries, %d transitions were requested since the last checkpoint" % (len(obs["smp"]), len(e_smp)))
    for i, (a, b) in enumerate(zip(obs["smp"], e_smp)):
        if a != b:
            return ("resume" if has_r else "split",
                    "recorded entry %d is %s, the uninterrupted run has %s there (first difference)" % (i, fl(a), fl(b)))
    if len(obs["cb"]) != len(e_cb):
        return ("record", "callback invoked %d times for %d transitions" % (len(obs["cb"]), len(e_cb)))
    for i, (a, b) in enumerate(zip(obs["cb"], e_cb)):
        if a[1] != b[1]:
            return ("record", "callback %d received index %d, expected %d" % (i, a[1], b[1]))
        if a[0] != b[0]:
            return ("resume" if has_r else "split",
                    "callback %d received %s, the uninterrupted run produced %s at that transition" % (i, fl(a[0]), fl(b[0])))
    # the acceptance values recorded with the chain (history consumed only by adaptation and diagnostics)
    k_, base_ = 0, 0
    for o in ops:
        if o[0] == "R":
            base_ = k_
        else:
            k_ += o[1]
    if obs.get("acc") is not None and ref.get("acc") is not None and obs["acc"] != ref["acc"][base_:k_]:
        return ("resume" if has_r else "split", "the acceptance values recorded in _acc differ from those of the uninterrupted run")
    if obs["nacc"] != 1 + len(obs["smp"]):
        return ("record", "len(_acc) = %d for %d recorded samples" % (obs["nacc"], len(obs["smp"])))
    if not obs["gs_ok"]:
        return ("record", "get_samples() does not return the recorded chain")
    if obs["state"] != ref["state"]:
        bad = [k for k in ref["state"] if obs["state"].get(k) != ref["state"][k]]
        return ("resume" if has_r else "split", "state payload differs from the uninterrupted run in %s" % bad)
    if obs["draws"] != ref["draws"]:
        return ("resume" if has_r else "split", "the random stream is consumed differently (%d vs %d draws)" % (len(obs["draws"]), len(ref["draws"])))
    bad_ = stream_check(ref["per"], [o[1] for o in ops if o[0] != "R"], obs["per"], obs["call_used"], ["%s" % (tuple(o),) for o in ops if o[0] != "R"],
                        init=ref["init_draws"])
    if bad_:
        return ("stream", bad_)
    if obs.get("aux_used"):
        return ("stream", "%s consumed %d variates of the random stream (checkpoints and observers are not transitions: the run continued "
                "after them does not see the variates of the uninterrupted run)" % obs["aux_used"][0])
    if obs.get("handout"):
        return ("handout:" + obs["handout"][0], obs["handout"][1])
    if obs.get("x0_given") is not None and obs["init"] != obs["x0_given"]:
        return ("record", "the sampler's initial point %s is not the one it was constructed with %s" % (fl(obs["init"]), fl(obs["x0_given"])))
    if obs.get("acc_scalar"):
        # acceptance flags are consumed only by adaptation and diagnostics: flag k says whether transition k moved the chain
        prev = obs.get("first_prev")
        for k, (a_, b_) in enumerate(zip(obs["acc"], obs["smp"])):
            if prev is not None and a_ in ("f:" + canon(0).hex(), "f:" + canon(1).hex()):
                if (a_ == "f:" + canon(1).hex()) != (b_ != prev):
                    return ("record", "acceptance value %d recorded for transition %d although the chain %s" % (
                        int(a_ == "f:" + canon(1).hex()), k, "did not move" if b_ == prev else "moved"))
            prev = b_
    if obs.get("helpers_changed"):
        return ("helpers", "the run modified the helper object(s) %s it works through (deep comparison before / after)" % obs["helpers_changed"])
    # documented contract of warmup(Nb, tune_freq): tune(interval, count) after every interval-th step, interval =
    # max(int(tune_freq*Nb), 1), count = number of earlier tunings of this call.  Not in the letter of the property (both runs
    # of a differential pair would shift alike); stated because the model of Sampler.warmup encodes it.
    want = []
    for o in ops:
        if o[0] == "W":
            ti = max(int((o[2] / o[3]) * o[1]), 1)
            want += [(i, ti, i // ti) for i in range(o[1]) if (i + 1) % ti == 0]
    if obs["tunes"] != want:
        return ("tuning-schedule", "tune was called at (step index, skip_len, update_count) = %s, the documented schedule is %s" % (obs["tunes"][:6], want[:6]))
    # what get_samples() handed out after operation j, re-read at the end, is the chain recorded up to then
    chain, k, base = ref["smp"], 0, 0
    for j, o in enumerate(ops):
        if o[0] == "R":
            base = k
        else:
            k += o[1]
        if obs["outs_now"][j] != chain[base:k]:
            return ("handout:get_samples", "the chain handed out by get_samples() after operation %d (%s), re-read at the end, is not the chain "
                    "recorded up to that operation" % (j, (tuple(o),)))
    return None


def run_legacy(W, name, x0, N, Nb, seed, scribble=False):
    """sample(N, Nb) [or sample_adapt], then -- on the same sampler object -- a second call sample(2, 1); everything
    handed out by the first call (returned chain, callback arguments) is re-read after the second one"""
    cls, tkey, kw, method, refkind = W.leg[name]
    cb, cbrefs, chain = [], [], []
    led = Ledger()
    phase = {"n": 1}
    s = W.make_leg(name, x0)

    def callback(x, i):
        if phase["n"] == 1:
            cb.append((canon(x), int(i)))
            cbrefs.append(x)
            led.give("callback-arg", x, canon)
    s.callback = callback
    if refkind == "single_update":
        orig = s.single_update

        def su(*a, **k):
            r = orig(*a, **k)
            if phase["n"] == 1:
                chain.append(canon(r[0]))
            return r
        s.single_update = su
    stream = Stream(seed)
    try:
        with stream, quiet():
            R = getattr(s, method)(N) if Nb == 0 else (getattr(s, method)(N, Nb) if N % 2 else getattr(s, method)(N, Nb=Nb))
    except Exception as e:
        return {"error": "%s: %s" % (type(e).__name__, e)}
    smp = cols(R)
    led.give("returned-chain", R, rd_samples)
    if scribble:
        scribble_samples(R)
    phase["n"] = 2
    try:
        with stream, quiet():
            R2nd = s.sample(2, 1)
        second = cols(R2nd)
    except Exception as e:
        second = ["second call raised %s: %s" % (type(e).__name__, e)]
    if not scribble:
        led.recheck("a second sample() call on the same sampler")
    smp_now = cols(R)
    cb_now = [(canon(x), i) for x, (_, i) in zip(cbrefs, cb)]
    full = None
    if refkind == "single_update":
        full = [canon(np.array(x0, dtype=float))] + chain
    else:
        s2 = W.make_leg(name, x0)
        if refkind == "return_burnin":
            s2._return_burnin = True
            with Stream(seed), quiet():
                R2 = getattr(s2, method)(N, Nb)
        else:
            with Stream(seed), quiet():
                R2 = getattr(s2, method)(N + Nb, 0)
        full = cols(R2)
    return {"smp": smp, "smp_now": smp_now, "cb": list(cb), "cb_now": cb_now, "full": full, "second": second,
            "handout": led.bad, "x0": canon(np.array(x0, dtype=float))}


def legacy_check(obs, N, Nb):
    full = obs["full"]
    if len(full) != N + Nb:
        return ("reference", "reference chain has %d states for N+Nb=%d" % (len(full), N + Nb))
    if full[0] != obs["x0"]:
        return ("record", "the chain does not begin with the initial point")
    if len(obs["smp"]) != N:
        return ("record", "returned chain has %d entries, N=%d requested" % (len(obs["smp"]), N))
    e = full[Nb:Nb + N]
    for i, (a, b) in enumerate(zip(obs["smp"], e)):
        if a != b:
            return ("record", "returned entry %d is %s but state %d of the chain is %s" % (i, fl(a), Nb + i, fl(b)))
    ecb = [(full[k], k) for k in range(1, N + Nb)]
    if len(obs["cb"]) != len(ecb):
        return ("callback", "callback invoked %d times for %d transitions" % (len(obs["cb"]), len(ecb)))
    for i, (a, b) in enumerate(zip(obs["cb"], ecb)):
        if a != b:
            return ("callback", "callback %d received (%s, %d), expected (%s, %d)" % (i, fl(a[0]), a[1], fl(b[0]), b[1]))
    if obs.get("handout"):
        return ("handout:" + obs["handout"][0], obs["handout"][1])
    return None


def joint_cols(D, names):
    """joint states (one per stored sample) of a dict of arrays / Samples"""
    if D is None:
        return []
    arrs = [np.asarray(D[n].samples if hasattr(D[n], "samples") else D[n], dtype=np.float64) for n in names]
    ns = arrs[0].shape[-1] if arrs[0].ndim > 1 else 1
    return [b"".join(canon(a[..., k]) for a in arrs) for k in range(ns)]


def gibbs_keeps(repo):
    """read off the source: does legacy Gibbs._allocate_samples_warmup leave an existing warm-up record alone (an early return)
    instead of binding samples_warmup to a new array?  fail-closed: False"""
    import ast
    try:
        tree = ast.parse(open(os.path.join(repo, "cuqi", "sampler", "_gibbs.py")).read())
        for n in ast.walk(tree):
            if isinstance(n, ast.FunctionDef) and n.name == "_allocate_samples_warmup":
                for i in ast.walk(n):
                    if isinstance(i, ast.If) and "samples_warmup" in ast.dump(i.test) and any(isinstance(b, ast.Return) for b in i.body):
                        return True
    except Exception:
        pass
    return False


def run_gibbs(W, calls, nb, seed, scribble=False, strategy="Gibbs"):
    """legacy Gibbs: sample(calls[0], nb); sample(calls[1]); ...  -> stored chain, warm-up chain, lengths returned.
    Every returned dict of Samples is kept and re-read after every later call (or, with scribble, overwritten by
    the user right after it was returned)."""
    g = W.make_gibbs(strategy)
    led = Ledger()
    lens, outs = [], []
    per, call_used = [], []
    stream = Stream(seed)
    warm = None
    # reference that is not Gibbs' bookkeeping: what the block samplers' step methods returned in each sweep
    last, sweeps = {}, []
    for p_, cls_ in list(g.samplers.items()):
        def factory(target, _cls=cls_, _p=p_):
            obj = _cls(target)
            orig = obj.step

            def step(x, _orig=orig):
                r = _orig(x)
                last[_p] = canon(np.asarray(r).reshape(-1))
                return r
            obj.step = step
            return obj
        g.samplers[p_] = factory
    ostep = g.step

    def gstep(cs):
        p0_ = stream.nvar
        try:
            r = ostep(cs)
        finally:
            per.append(stream.nvar - p0_)
        sweeps.append(b"".join(last[n_] for n_ in g.par_names))
        return r
    g.step = gstep
    with stream, quiet():
        for i, n in enumerate(calls):
            v0_ = stream.nvar
            try:
                R = g.sample(n, nb) if i == 0 else g.sample(n)
            except Exception as e:
                return {"error": "call %d, sample(%d): %s: %s" % (i, n, type(e).__name__, e)}
            call_used.append(stream.nvar - v0_)
            if not scribble:
                led.recheck("sample call %d" % i)
                led.give("returned-chain", R, rd_dict)
            outs.append(R)
            lens.append(sorted(set(int(v.samples.shape[-1]) for v in R.values())))
            if i == 0:
                warm = joint_cols(g.samples_warmup, g.par_names) if nb else []
            if scribble and i < len(calls) - 1:
                scribble_samples(R)
    names = g.par_names
    try:
        warm_now = joint_cols(g.samples_warmup, names) if (nb and all(np.asarray(g.samples_warmup[n_]).shape[-1] for n_ in names)) else []
    except Exception:
        warm_now = ["unreadable"]
    return {"smp": joint_cols(outs[-1], names), "warm": warm, "warm_now": warm_now, "lens": lens, "handout": led.bad,
            "outs_now": [joint_cols(R, names) for R in outs], "sweeps": sweeps, "per": list(per), "call_used": list(call_used), "nvar": stream.nvar}


def run_hybrid(W, name, ops, seed, scribble=False):
    """HybridGibbs under a scripted stream.  Besides the recorded chain two references that are not HybridGibbs'
    bookkeeping are collected through wrapped `step` methods: (a) the block samplers' own current points after every
    sweep; (b) for every inner step of an MH block, the harness's own Metropolis recursion from the scripted draws and
    the joint log-density evaluated at the block samplers' current points"""
    led = Ledger()
    outs = []
    stream = Stream(seed, record=True)
    sweeps, mh_bad, mh_checked = [], [], [0, 0]
    J_ = W.joint_of(name)
    joint_fp = deep_fp(J_)          # the user's joint distribution: HybridGibbs works on its own copy
    counts, pre_bad = {}, []
    snap, visits, visit_bad = {}, [], []
    htunes, btunes, tune_bad, hbase = [], [], [], [0]
    per, call_used = [], []
    with stream, quiet():
        h = W.make_hybrid(name)
        built = stream.nvar                  # what construction (initialisation, validation of the targets) consumed
        expected_steps = dict(W.last_steps)
        names = h.par_names
        cur = {p: np.array(h.samplers[p].initial_point, dtype=float).reshape(-1).copy() for p in names}

        def joint_logd(p, v):
            kw = {q: cur[q] for q in names}
            kw[p] = v
            with np.errstate(all="ignore"):
                try:
                    return float(np.asarray(J_.logd(**kw)).reshape(-1)[0])
                except Exception:
                    return float("nan")

        CACHED = {"current_target_logd": lambda m: m.target.logd(m.current_point),
                  "current_target_grad": lambda m: m.target.gradient(m.current_point),
                  "current_likelihood_logd": lambda m: m.likelihood.logd(m.current_point)}

        def wrap_block(p, smp):
            orig = smp.step
            oreinit = smp.reinitialize

            def reinit():
                # HybridGibbs.step reinitialises the block on its new conditional and restores state and history
                snap[p] = ({k_: canon_val(getattr(smp, k_)) for k_ in sorted(smp._STATE_KEYS)}, [id(getattr(smp, k_)) for k_ in sorted(smp._HISTORY_KEYS)])
                return oreinit()
            smp.reinitialize = reinit

            def step():
                counts[p] = counts.get(p, 0) + 1
                if counts[p] == 1 and p in snap and not isinstance(smp, W.E.NUTS):
                    before_, hist_ = snap.pop(p)
                    after_ = {k_: canon_val(getattr(smp, k_)) for k_ in sorted(smp._STATE_KEYS)}
                    rec_ = {}
                    for k_ in sorted(smp._STATE_KEYS):
                        if k_ in CACHED:
                            try:
                                with np.errstate(all="ignore"):
                                    rec_[k_] = canon_val(CACHED[k_](smp))
                            except Exception as e_:
                                rec_[k_] = "unavailable: %s" % type(e_).__name__
                    want_ = dict(before_, **rec_)
                    if len(visits) < 8:
                        visits.append((p, type(smp).__name__, before_, rec_, after_))
                    if not visit_bad:
                        diff_ = sorted(k_ for k_ in want_ if want_[k_] != after_.get(k_))
                        if diff_:
                            visit_bad.append("block %s (%s), sweep %d: at the first inner step the state keys %s are not those the block held before "
                                             "HybridGibbs reinitialised it (cached target evaluations: recomputed on the new conditional at the current point)"
                                             % (p, type(smp).__name__, len(sweeps), diff_))
                        elif [id(getattr(smp, k_)) for k_ in sorted(smp._HISTORY_KEYS)] != hist_:
                            visit_bad.append("block %s (%s), sweep %d: the history lists are not the ones the block held before it was reinitialised"
                                             % (p, type(smp).__name__, len(sweeps)))
                elif counts[p] == 1 and p in snap:
                    before_, _h = snap.pop(p)
                    if not visit_bad and before_.get("current_point") != canon_val(smp.current_point):
                        visit_bad.append("NUTS block %s, sweep %d: does not start the sweep from its current point" % (p, len(sweeps)))
                if counts[p] == 1 and not pre_bad:
                    # per-class precomputation (LinearRTO / RegularizedLinearRTO / UGLA blocks): whatever the block derived from
                    # its target at initialisation and does not rewrite in step must be what a sampler initialised now on the
                    # block's current conditional target derives
                    f_ = facts_for(smp, getattr(W, "repo", "/repo")) or {}
                    pre = [a for a in f_.get("init_w", []) if a not in f_.get("state", []) and a not in f_.get("hist", []) and a not in f_.get("step_w", [])
                           and a not in ("_is_initialized", "initial_point") and hasattr(smp, a)]
                    if pre and type(smp).__name__ in ("LinearRTO", "RegularizedLinearRTO", "UGLA"):
                        try:
                            kw_ = {k_: getattr(smp, k_) for k_ in ("maxit", "tol", "beta", "stepsize", "abstol", "adaptive") if hasattr(smp, k_)}
                            tw = type(smp)(smp.target, initial_point=np.array(smp.initial_point, dtype=float), **kw_)
                            tw.initialize()
                            diff = [a for a in pre if deep_fp(getattr(smp, a)) != deep_fp(getattr(tw, a))]
                            if diff:
                                pre_bad.append("block %s (%s), sweep %d: precomputed %s are not those of a sampler initialised on the block's current "
                                               "conditional target" % (p, type(smp).__name__, len(sweeps), diff))
                        except Exception:
                            pass
                i0 = len(stream.values)
                x = np.array(smp.current_point, dtype=float).reshape(-1).copy()
                scale = getattr(smp, "scale", None)
                acc = orig()
                x1 = np.array(smp.current_point, dtype=float).reshape(-1).copy()
                if isinstance(smp, W.E.MH) and not mh_bad:
                    draws = stream.values[i0:]
                    arr = [v for k, v in draws if np.size(v) == x.size and k != "rand"]
                    us = [v for k, v in draws if k == "rand"]
                    if len(arr) == 1 and len(us) == 1:
                        xs = x + scale * np.asarray(arr[0], dtype=float).flatten()
                        l0, l1 = joint_logd(p, x), joint_logd(p, xs)
                        lu = float(np.log(us[0]))
                        mh_checked[0] += 1
                        if np.isfinite(l1) and np.isfinite(l0) and abs(lu - min(0.0, l1 - l0)) < 1e-9:
                            pass                                    # decision within rounding of the joint: undecidable
                        else:
                            accept = bool(np.isfinite(l1) and lu <= min(0.0, l1 - l0))
                            want = xs if accept else x
                            mh_checked[1] += 1
                            if canon(want) != canon(x1):
                                mh_bad.append("MH block %s, sweep %d: from %s with proposal %s, log u = %.6g and joint log-density difference %.6g the "
                                              "Metropolis rule %s, but the block sampler is at %s" % (
                                                  p, len(sweeps), x.tolist(), xs.tolist(), lu, l1 - l0, "accepts" if accept else "rejects", x1.tolist()))
                    else:
                        mh_bad.append("MH block %s consumed an unexpected set of draws %s" % (p, [k for k, _ in draws]))
                cur[p] = x1
                return acc
            smp.step = step

        for p in names:
            wrap_block(p, h.samplers[p])
        osweep = h.step

        def sweep():
            counts.clear()
            p0_ = stream.nvar
            try:
                osweep()
            finally:
                per.append(stream.nvar - p0_)
            want_ = {p: expected_steps.get(p, 1) for p in names}
            if dict((p, counts.get(p, 0)) for p in names) != want_ and not pre_bad:
                pre_bad.append("sweep %d: inner transitions per block %s, configured %s" % (len(sweeps), dict((p, counts.get(p, 0)) for p in names), want_))
            sweeps.append(b"".join(canon(h.samplers[p].current_point) for p in names))
        h.step = sweep
        otune = h.tune

        def htune(*a_, **k_):
            p0_ = stream.nvar
            sl_, uc_ = (list(a_) + [None, None])[:2]
            sl_, uc_ = k_.get("skip_len", sl_), k_.get("update_count", uc_)
            htunes.append((len(h.samples[names[0]]) - hbase[0], int(sl_), int(uc_)))
            del btunes[:]
            try:
                return otune(*a_, **k_)
            finally:
                if per:
                    per[-1] += stream.nvar - p0_
                if btunes != [(p_, int(sl_), int(uc_)) for p_ in names] and not tune_bad:
                    tune_bad.append("HybridGibbs.tune(%s, %s) after sweep %d called the block samplers' tune as %s, expected once each, in order, "
                                    "with the same arguments" % (sl_, uc_, len(sweeps), btunes))
        h.tune = htune
        for p_ in names:
            def wrap_tune(p__=p_, orig_=h.samplers[p_].tune):
                def btune(*a_, **k_):
                    sl_, uc_ = (list(a_) + [None, None])[:2]
                    btunes.append((p__, int(k_.get("skip_len", sl_)), int(k_.get("update_count", uc_))))
                    return orig_(*a_, **k_)
                return btune
            h.samplers[p_].tune = wrap_tune()
        for o in ops:
            hbase[0] = len(h.samples[names[0]])
            v0_ = stream.nvar
            if o[0] == "S":
                h.sample(o[1])
            else:
                h.warmup(o[1], o[2] / o[3])
            call_used.append(stream.nvar - v0_)
            led.recheck("%s" % (tuple(o),))
            G = h.get_samples() if len(h.samples[names[0]]) else None
            outs.append(G)
            if G is not None:
                led.give("get_samples", G, rd_dict)
                if scribble:
                    scribble_samples(h.get_samples())
        led.recheck("the last operation")
    ns = len(h.samples[names[0]])
    smp = [b"".join(canon(h.samples[n][k]) for n in names) for k in range(ns)]
    G = h.get_samples()
    gs_ok = all(np.asarray(G[n].samples).shape[-1] == ns for n in names) and joint_cols(G, names) == smp
    if ns >= 2:
        # burn-in / thinning of the composite's chain: JointSamples.burnthin member by member
        for nb_, nt_ in ((1, 1), (0, 2), (ns - 1, 1), (1, ns)):
            try:
                B_ = h.get_samples().burnthin(nb_, nt_)
                gs_ok = gs_ok and joint_cols(B_, names) == smp[nb_::nt_]
            except Exception:
                gs_ok = False
    return {"smp": smp, "gs_ok": gs_ok, "handout": led.bad, "outs_now": [joint_cols(R, names) for R in outs],
            "visits": visits,
            "visit_bad": visit_bad[0] if visit_bad else None, "tunes": list(htunes), "tune_bad": tune_bad[0] if tune_bad else None,
            "sweeps": sweeps, "mh_bad": (mh_bad[0] if mh_bad else None) or (pre_bad[0] if pre_bad else None) or
            ("the joint distribution handed to HybridGibbs was modified by the run (deep comparison)" if deep_fp(J_) != joint_fp else None),
            "mh_checked": tuple(mh_checked), "per": list(per), "call_used": list(call_used), "built": built, "nvar": stream.nvar,
            "steps": dict(h.num_sampling_steps)}


def attrs_snapshot(s):
    out = {}
    for k, v in vars(s).items():
        if k in ("callback", "tune", "step"):
            continue
        out[k] = canon_val(v)
    return out


def run_reinit(W, name, x0, prefix, K, seed, reassign=None):
    """A: history `prefix`, then reinitialize and sample K; B: a fresh sampler initialised and sampling K -- both under
    the same stream"""
    pre = run_exp(W, name, x0, prefix, seed)
    a, led = pre["sampler"], pre["ledger"]
    cb = []
    a.callback = lambda x, i: cb.append((canon(x), int(i)))
    if reassign is not None:
        a.initial_point = build_x0(reassign)      # the user re-assigns a constructor argument, then re-initialises
    with Stream(seed + 31), quiet():
        a.reinitialize()
        led.recheck("reinitialize()")
        cfgA = attrs_snapshot(a)
        histA = (len(a._samples), len(a._acc))
        a.sample(K)
        led.recheck("sampling after reinitialize()")
    b = W.make_exp(name, reassign if reassign is not None else x0)
    with Stream(seed + 31), quiet():
        b.initialize()
        cfgB = attrs_snapshot(b)
        b.sample(K)
    diff = sorted(k for k in set(cfgA) | set(cfgB) if cfgA.get(k) != cfgB.get(k))
    return {"smpA": [canon(x) for x in a._samples], "smpB": [canon(x) for x in b._samples], "cb": list(cb), "nacc": len(a._acc),
            "cfg_diff": diff, "hist": histA, "initB": canon(b.initial_point), "handout": led.bad,
            "detail": {k: (cfgA.get(k), cfgB.get(k)) for k in diff}}


# ------------------------------------------------------------------------------------------------------------------
# case builders
# ------------------------------------------------------------------------------------------------------------------
def exp_case(W, cache, name, x0, ops, seed, variant):
    cls = W.exp[name][0].__name__
    nops = normalize(ops)
    key = (name, json.dumps(x0), json.dumps(nops), seed)
    meta = {"kind": "exp", "config": name, "x0": x0, "ops": [list(o) for o in ops], "seed": seed, "variant": variant}
    if key not in cache:
        ids = Ids()
        try:
            ref = run_exp(W, name, x0, nops, seed)
        except Exception as e:
            return Case(expr="false", meta=meta, cell="exp/%s/error" % cls,
                        impl_fail="%s %s: the uninterrupted run raised %s: %s" % (name, nops, type(e).__name__, e),
                        signature="%s.run|%s" % (cls, name.split("/", 1)[-1]))
        ref.pop("sampler")
        ref.pop("ledger")
        ref["ids"] = ids
        # what initialisation consumed (the first call of the uninterrupted run initialises the sampler): measured once, there
        n0_ = next((o[1] for o in nops if o[0] != "R"), 0)
        ref["init_draws"] = (ref["call_used"][0] - sum(ref["per"][:n0_])) if ref["call_used"] else 0
        ref["ref_ids"] = [ids(ref["init"])] + [ids(b) for b in ref["smp"]]
        cache[key] = ref
    ref = cache[key]
    ids = ref["ids"]
    meta = {"kind": "exp", "config": name, "x0": x0, "ops": [list(o) for o in ops], "seed": seed, "variant": variant}
    try:
        obs = run_exp(W, name, x0, ops, seed, variant)
    except Exception as e:
        kind = "noninterference" if variant == "poison" else "run"
        return Case(expr="false", meta=meta, cell="exp/%s/error" % cls,
                    impl_fail="%s %s [%s]: operation sequence raised %s: %s" % (name, ops, variant, type(e).__name__, e),
                    signature="%s.%s|%s" % (cls, kind, name.split("/", 1)[-1]))
    obs.pop("sampler")
    obs.pop("ledger")
    bad = exp_check(ref, obs, ops)
    scribble = variant.endswith("+scribble")
    has_r = any(o[0] == "R" for o in ops)
    has_w = any(o[0] == "W" for o in ops)
    nS = sum(1 for o in ops if o[0] == "S")
    cell = "exp/%s/%s%s" % (cls, "resume-" + variant if has_r else (("split" if nS > 1 else "single") + ("+scribble" if scribble else "")),
                            "+warmup" if has_w else "")
    # the model is compared with what is RE-READ, after all operations, from the objects handed out earlier
    expr = "check_exp %s %s %s %s %s %s && check_outputs %s %s %s && %s" % (
        czvec(ref["ref_ids"]), coq_ops(ops), czvec([ids(b) for b in obs["smp"]]), cnat(obs["nacc"]),
        coq_cb([(ids(b), i) for b, i in obs["cb_now"]]), coq_tunes(obs["tunes"]),
        czvec(ref["ref_ids"]), coq_ops(ops), coq_ll(obs["outs_now"], ids),
        cbool(obs["state"] == ref["state"] and obs["draws"] == ref["draws"] and obs["gs_ok"]))
    expr += " && check_draws %s %s %s %s %s" % (cnl(ref["per"]), cnat(ref["init_draws"]), coq_ops(ops), cnl(obs["call_used"]), cnat(obs["nvar"]))
    sig = ""
    if bad:
        kind = bad[0]
        if scribble and not kind.startswith("handout"):
            kind = "scribble"          # the twin without the user's write is a case of its own
        if variant == "poison" and kind in ("resume", "split"):
            kind = "noninterference"   # the same checkpoint position without poisoning is a case of its own
        sig = "%s.%s|%s" % (cls, kind, name.split("/", 1)[1] if "/" in name else "default")
        if name == "RegularizedLinearRTO/stepsize=automatic" and bad[0] in ("split", "resume"):
            sig = SIG_RTO       # two sampler objects never agree bit for bit in this configuration class
        if name.endswith("/grad-buffer") and (bad[0] in ("split", "resume", "handout:get_state") or kind in ("scribble", "noninterference")):
            sig = SIG_GRADBUF   # the state holds the very array the user's gradient callable returned (and refills on its next call)
    frozen = len(set(ref["smp"])) < 3 and total(ops) >= 3        # a chain that never moves tests nothing
    return Case(expr=expr, meta=meta, cell=cell, trivial=(not has_r and nS <= 1 and not has_w and not scribble) or frozen,
                kind="DECISION", impl_fail=("%s %s [%s]: %s" % (name, ops, variant, bad[1])) if bad else None, signature=sig)


def legacy_case(W, name, x0, N, Nb, seed, aliased):
    cls = W.leg[name][0].__name__
    method = W.leg[name][3]
    meta = {"kind": "legacy", "config": name, "x0": x0, "N": N, "Nb": Nb, "seed": seed}
    obs = run_legacy(W, name, x0, N, Nb, seed)
    if "error" in obs:
        return Case(expr="false", meta=meta, cell="legacy/%s/error" % cls, impl_fail="%s(%d,%d) raised %s" % (method, N, Nb, obs["error"]),
                    signature="legacy.%s._%s|raises" % (cls, method))
    ids = Ids()
    ref_ids = [ids(b) for b in obs["full"]]
    bad = legacy_check(obs, N, Nb)
    if not bad and (N + Nb) % 2 == 0:
        # converse: the user writes into the returned chain; the next call on the same sampler must not notice
        tw = run_legacy(W, name, x0, N, Nb, seed, scribble=True)
        if tw.get("second") != obs["second"]:
            bad = ("scribble", "after the user wrote into the returned chain, the next sample() call returns a different chain")
    sig = ""
    if bad:
        if cls == "CWMH" and bad[0] in ("record", "handout:callback-arg"):
            sig = SIG_CWMH      # one root cause: single_update writes into the view of the stored chain it is given
        elif cls == "MH" and method == "sample_adapt" and bad[0] == "callback" and not obs["cb"]:
            sig = SIG_MHCB
        else:
            sig = "legacy.%s._%s|%s" % (cls, method, bad[0])
    # re-read values go to the model; in an aliased loop the view the callback received is overwritten by the next
    # transition (that IS the aliasing finding), so there the model's callback clause is compared with the call-time value
    cbv = obs["cb"] if aliased else obs["cb_now"]
    expr = "check_legacy %s %s %s %s %s %s" % (czvec(ref_ids), cbool(aliased), cnat(N), cnat(Nb),
                                               czvec([ids(b) for b in obs["smp_now"]]), coq_cb([(ids(b), i) for b, i in cbv]))
    return Case(expr=expr, meta=meta, cell="legacy/%s/%s%s" % (cls, method, "/Nb=0" if Nb == 0 else "/Nb>0"), trivial=False,
                kind="DECISION", impl_fail=("%s %s(N=%d, Nb=%d): %s" % (name, method, N, Nb, bad[1])) if bad else None, signature=sig)


def gibbs_case(W, calls, nb, seed, scribble=False, strategy="Gibbs"):
    meta = {"kind": "gibbs", "calls": calls, "Nb": nb, "seed": seed, "scribble": scribble, "strategy": strategy}
    cellp = "gibbs/legacy" if strategy == "Gibbs" else "gibbs/legacy:" + strategy.split("/", 1)[1]
    ref = run_gibbs(W, [sum(calls)], nb, seed, strategy=strategy)
    if "error" in ref:
        return Case(expr="false", meta=meta, cell="gibbs/legacy/error", trivial=False, kind="DECISION",
                    impl_fail="legacy Gibbs sample(%d, %d) raised: %s" % (sum(calls), nb, ref["error"]), signature="legacy.Gibbs.sample|raises")
    obs = run_gibbs(W, calls, nb, seed, scribble=scribble, strategy=strategy)
    ids = Ids()
    ref_ids = [ids(b"init")] + [ids(b) for b in ref["warm"]] + [ids(b) for b in ref["smp"]]
    bad, sig = None, ""
    cum = [[sum(calls[:i + 1])] for i in range(len(calls))]
    if "error" in obs:
        bad = "legacy Gibbs, calls %s with Nb=%d: %s" % (calls, nb, obs["error"])
        sig = SIG_GIBBS0 if (calls[0] == 0 and "IndexError" in obs["error"]) else "legacy.Gibbs.sample|raises"
        expr = "check_gibbs %s %s %s []" % (czvec(ref_ids), cnat(nb), clist([cnat(c) for c in calls]))
        return Case(expr=expr, meta=meta, cell="gibbs/legacy/first-call-Ns=0", trivial=False, kind="DECISION", impl_fail=bad, signature=sig)
    if obs["smp"] != ref["smp"]:
        k = next((i for i, (a, b) in enumerate(zip(obs["smp"], ref["smp"])) if a != b), min(len(obs["smp"]), len(ref["smp"])))
        if scribble:
            bad = ("after the user wrote into the chains returned by earlier calls, the chain returned by the last of the calls %s "
                   "differs from the chain of one call at index %d: the returned Samples wrap the sampler's own storage" % (calls, k))
            sig = SIG_GIBBS_LIVE
        elif nb > 0 and calls[0] == 0 and obs["warm_now"] != obs["warm"] and 0 in calls[1:]:
            bad = ("legacy Gibbs sample(0, %d) followed by calls %s: a call without warm-up replaces the recorded warm-up chain by an empty array, so "
                   "after the zero-length call nothing is left to continue from and the next call starts from the default initial point: the chain "
                   "differs from one call sample(%d, %d) at stored index %d" % (nb, calls[1:], sum(calls), nb, k))
            sig = SIG_GIBBS_WARM
        else:
            bad, sig = "chain of repeated calls %s differs from one call at stored index %d" % (calls, k), "legacy.Gibbs.sample|continuation"
    elif obs["warm"] != ref["warm"]:
        bad, sig = "warm-up chains differ", "legacy.Gibbs.sample|continuation"
    elif obs["lens"] != cum:
        bad, sig = "returned chain lengths %s, expected %s" % (obs["lens"], cum), "legacy.Gibbs.sample|continuation"
    elif not scribble and obs["sweeps"] != obs["warm"] + obs["smp"]:
        bad, sig = ("calls %s, Nb=%d: the recorded chain is not the sequence of values the block samplers' step methods returned sweep by sweep"
                    % (calls, nb)), "legacy.Gibbs.sample|sweep-record"
    elif obs["handout"]:
        bad, sig = "calls %s, Nb=%d: %s" % (calls, nb, obs["handout"][1]), "legacy.Gibbs.sample|handout:" + obs["handout"][0]
    elif not scribble and any(o != ref["smp"][:c[0]] for o, c in zip(obs["outs_now"], cum)):
        bad, sig = "calls %s: a chain returned by an earlier call, re-read at the end, is not a prefix of the chain of one call" % (calls,), \
            "legacy.Gibbs.sample|handout:returned-chain"
    else:
        sizes_ = [nb + calls[0]] + list(calls[1:])
        sb_ = stream_check(ref["per"], sizes_, obs["per"], obs["call_used"], ["sample(%d%s)" % (n_, ", %d" % nb if i_ == 0 else "") for i_, n_ in enumerate(calls)])
        if sb_:
            bad, sig = "legacy Gibbs (%s), calls %s, Nb=%d: %s" % (strategy, calls, nb, sb_), "legacy.Gibbs.sample|stream"
    if scribble:
        expr = "check_gibbs %s %s %s %s" % (czvec(ref_ids), cnat(nb), clist([cnat(c) for c in calls]), czvec([ids(b) for b in obs["smp"]]))
    else:
        expr = "check_gibbs %s %s %s %s && check_gibbs_outputs %s %s %s %s && %s" % (
            czvec(ref_ids), cnat(nb), clist([cnat(c) for c in calls]), czvec([ids(b) for b in obs["smp"]]),
            czvec(ref_ids), cnat(nb), clist([cnat(c) for c in calls]), coq_ll(obs["outs_now"], ids),
            cbool(obs["lens"] == cum and obs["warm"] == ref["warm"])) + " && check_sweeps %s %s" % (
            czvec([ids(b) for b in obs["sweeps"]]), czvec([ids(b) for b in obs["warm"] + obs["smp"]]))
    expr += " && check_draws_sizes %s %s %s %s" % (cnl(ref["per"]), clist([cnat(nb + calls[0])] + [cnat(c) for c in calls[1:]]), cnl(obs["call_used"]), cnat(obs["nvar"]))
    return Case(expr=expr, meta=meta, cell=cellp + "/%s" % ("first-call-Ns=0" if calls[0] == 0 else "scribble" if scribble else "single" if len(calls) == 1 else "continued"),
                trivial=len(calls) == 1, kind="DECISION", impl_fail=bad, signature=sig)


def gibbs_warm_case(W, calls, nb, seed, keeps, strategy="Gibbs"):
    """the recorded warm-up chain (Gibbs.samples_warmup) after later calls without warm-up"""
    meta = {"kind": "gibbs-warm", "calls": calls, "Nb": nb, "seed": seed, "strategy": strategy}
    obs = run_gibbs(W, calls, nb, seed, strategy=strategy)
    if "error" in obs:
        return Case(expr="false", meta=meta, cell="gibbs/legacy/warm-record/error", trivial=False, kind="DECISION",
                    impl_fail="legacy Gibbs calls %s, Nb=%d raised: %s" % (calls, nb, obs["error"]), signature="legacy.Gibbs.sample|raises")
    ids = Ids()
    bad = None
    if obs["warm_now"] != obs["warm"]:
        bad = ("legacy Gibbs sample(%d, %d) then %s: after the later calls samples_warmup holds %d of the %d recorded warm-up states -- "
               "_allocate_samples_warmup(0) binds it to a new empty array in every call" % (
                   calls[0], nb, ", ".join("sample(%d)" % c for c in calls[1:]), len(obs["warm_now"]), len(obs["warm"])))
    expr = "check_warm_record %s %s %s %s" % (cbool(keeps), czvec([ids(b) for b in obs["warm"]]), cnat(len(calls) - 1), czvec([ids(b) for b in obs["warm_now"]]))
    return Case(expr=expr, meta=meta, cell="gibbs/legacy/warm-record/%s" % ("single-call" if len(calls) == 1 else "later-calls"), trivial=len(calls) == 1,
                kind="DECISION", impl_fail=bad, signature=SIG_GIBBS_WARM if bad else "")


def hybrid_case(W, name, ops, seed, scribble=False, cache=None):
    meta = {"kind": "hybrid", "config": name, "ops": [list(o) for o in ops], "seed": seed, "scribble": scribble}
    key_ = (name, json.dumps(normalize(ops)), seed)
    if cache is not None and key_ in cache:
        ref = cache[key_]
    else:
        ref = run_hybrid(W, name, normalize(ops), seed)
        if cache is not None:
            cache.clear()                   # one reference at a time: the lattice of a configuration shares few unsplit runs
            cache[key_] = ref
    obs = run_hybrid(W, name, ops, seed, scribble=scribble)
    ids = Ids()
    ref_ids = [ids(b"init")] + [ids(b) for b in ref["smp"]]
    bad, kind = None, "split"
    if obs["smp"] != ref["smp"]:
        k = next((i for i, (a, b) in enumerate(zip(obs["smp"], ref["smp"])) if a != b), min(len(obs["smp"]), len(ref["smp"])))
        bad = "%s %s: chain differs from the unsplit run at stored index %d (%d vs %d entries)" % (name, ops, k, len(obs["smp"]), len(ref["smp"]))
        kind = "scribble" if scribble else "split"
    elif not obs["gs_ok"]:
        bad = "get_samples() differs from the recorded chain"
    elif obs["sweeps"] != obs["smp"]:
        k = next((i for i, (a, b) in enumerate(zip(obs["smp"], obs["sweeps"])) if a != b), min(len(obs["smp"]), len(obs["sweeps"])))
        bad = ("%s (num_sampling_steps %s) %s: the state recorded after sweep %d, %s, is not the state of the block samplers after that sweep, %s "
               "(their own current points, observed through the wrapped step methods)" % (
                   name, obs["steps"], ops, k, fl(obs["smp"][k]) if k < len(obs["smp"]) else None, fl(obs["sweeps"][k]) if k < len(obs["sweeps"]) else None))
        kind = "sweep-record"
    elif obs["mh_bad"]:
        bad, kind = "%s %s: %s" % (name, ops, obs["mh_bad"]), "mh-block"
    elif obs["visit_bad"]:
        bad, kind = "%s %s: %s" % (name, ops, obs["visit_bad"]), "block-visit"
    elif obs["tune_bad"] or obs["tunes"] != tunes_want(ops):
        bad = "%s %s: %s" % (name, ops, obs["tune_bad"] or "tune was called at (sweep index in the call, skip_len, update_count) = %s, the documented schedule of "
                             "warmup(Nb, tune_freq) is %s" % (obs["tunes"][:6], tunes_want(ops)[:6]))
        kind = "tuning-schedule"
    elif obs["handout"]:
        bad, kind = "%s %s: %s" % (name, ops, obs["handout"][1]), "handout:" + obs["handout"][0]
    elif obs["nvar"] != obs["built"] + sum(obs["call_used"]):
        bad = "%s %s: %d variates of the random stream were consumed between the calls (get_samples() is not a transition)" % (
            name, ops, obs["nvar"] - obs["built"] - sum(obs["call_used"]))
        kind = "stream"
    elif obs["built"] != ref["built"] or stream_check(ref["per"], [o[1] for o in ops], obs["per"], obs["call_used"], ["%s" % (tuple(o),) for o in ops]):
        bad = "%s %s: %s" % (name, ops, "construction consumed %d variates in one run and %d in the other" % (obs["built"], ref["built"])
                             if obs["built"] != ref["built"] else
                             stream_check(ref["per"], [o[1] for o in ops], obs["per"], obs["call_used"], ["%s" % (tuple(o),) for o in ops]))
        kind = "stream"
    else:
        k = 0
        for j, o in enumerate(ops):
            k += o[1]
            if obs["outs_now"][j] != ref["smp"][:k]:
                bad, kind = "%s %s: the chain handed out by get_samples() after operation %d is not the first %d states of the unsplit run" % (
                    name, ops, j, k), "handout:get_samples"
                break
    sizes = clist([cnat(o[1]) for o in ops])
    expr = "check_gibbs %s %s %s %s && check_gibbs_outputs %s %s %s %s && check_sweeps %s %s && %s" % (
        czvec(ref_ids), cnat(0), sizes, czvec([ids(b) for b in obs["smp"]]),
        czvec(ref_ids), cnat(0), sizes, coq_ll(obs["outs_now"], ids),
        czvec([ids(b) for b in obs["sweeps"]]), czvec([ids(b) for b in obs["smp"]]), cbool(obs["gs_ok"] and not obs["mh_bad"] and not obs["visit_bad"]))
    expr += " && check_draws_sizes %s %s %s %s" % (cnl(ref["per"]), clist([cnat(o[1]) for o in ops]), cnl(obs["call_used"]),
                                                  cnat(obs["nvar"] - obs["built"]))
    if any(o[0] == "W" for o in ops):
        expr += " && check_tunes %s %s" % (coq_ops(ops), coq_tunes(obs["tunes"]))
    nS = sum(1 for o in ops if o[0] == "S")
    nC = len(ops)
    return Case(expr=expr, meta=meta, cell="gibbs/%s/%s%s%s" % (name, "scribble" if scribble else "split" if nC > 1 else "single",
                                                                "+warmup" if any(o[0] == "W" for o in ops) else "",
                                                                "+empty-call" if any(o[1] == 0 for o in ops) else ""),
                trivial=nC <= 1 and not scribble, kind="DECISION",
                impl_fail=bad, signature="HybridGibbs.%s|%s" % (kind, name.split("/", 1)[1]) if bad else "")


EXCUSE_VALID = {
    # _mu = log(10 * initial epsilon): a function of the configuration only when the step size is given
    ("NUTS", "_mu"): lambda kw: kw.get("step_size") is not None,
    # deterministic under det_spectral(); a number when stepsize is numeric
    ("RegularizedLinearRTO", "_stepsize"): lambda kw: True,
}


def warm_static_ok(W, name):
    cls, tkey, kw = W.exp[name]
    f = facts_of(getattr(W, "repo", "/repo")).get(cls.__name__)
    if f is None:
        return False, "no facts"
    if TR.warm_resume_ok([], [], f):
        return True, "plain"
    ex, scr = TR.warm_excuses(f)
    if TR.warm_resume_ok(ex, scr, f) and all(EXCUSE_VALID.get((cls.__name__, a), lambda kw: False)(kw) for a in ex):
        return True, "excused %s scratch %s" % (ex, scr)
    return False, "tune reads unsaved run-modified attributes"


def warm_case(W, name, x0, a, b, n, seed, variant):
    """checkpoint BETWEEN warm-up calls: [warmup a; checkpoint; warmup b; sample n] against [warmup a; warmup b; sample n]"""
    cls = W.exp[name][0].__name__
    ops = [("W", a, 1, 2), ("R",), ("W", b, 1, 2), ("S", n)]
    meta = {"kind": "warm", "config": name, "x0": x0, "a": a, "b": b, "n": n, "seed": seed, "variant": variant}
    static_ok, why = warm_static_ok(W, name)
    ref = run_exp(W, name, x0, [o for o in ops if o[0] != "R"], seed)
    err = None
    try:
        obs = run_exp(W, name, x0, ops, seed, variant)
        same = (obs["smp"] == ref["smp"][a:] and obs["state"] == ref["state"] and obs["draws"] == ref["draws"])
    except Exception as e:
        same, err = False, "%s: %s" % (type(e).__name__, e)
    bad = None
    if static_ok and not same:
        bad = ("%s: the extracted facts promise that a checkpoint between warm-up calls can be continued (%s), but [warmup %d; checkpoint(%s); "
               "warmup %d; sample %d] %s" % (name, why, a, variant, b, n, ("raised " + err) if err else "differs from the uninterrupted run"))
    expr = "check_warm %s %s" % (cbool(static_ok), cbool(same))
    sig = "%s.resume-warmup|%s" % (cls, name.split("/", 1)[1] if "/" in name else "default") if bad else ""
    if bad and name.endswith("/grad-buffer"):
        sig = SIG_GRADBUF
    return Case(expr=expr, meta=meta, cell="warm-resume/%s/%s-%s" % (cls, "promised" if static_ok else "not-promised", "same" if same else "differs"),
                trivial=False, kind="DECISION", impl_fail=bad, signature=sig)


def batch_dir():
    d = os.path.join(GEN, "c14_batch_%d" % os.getpid())
    shutil.rmtree(d, ignore_errors=True)
    return d


def batch_cases(W, name, x0, N, k, M, seed, finalized):
    """sample(N, batch_size=k) writes batch files; then sample(M, batch_size=k) into the same directory"""
    cls = W.exp[name][0].__name__
    d = batch_dir()
    out = []
    try:
        s = W.make_exp(name, x0)
        with Stream(seed), quiet():
            s.sample(N, batch_size=k, sample_path=d + "/")
        chain = [canon(x) for x in s._samples]
        files = sorted(f for f in os.listdir(d) if f.endswith(".npz"))
        got = []
        for i, fn in enumerate(files):
            z = np.load(os.path.join(d, fn))
            got.append([canon(r) for r in z["samples"]])
            if int(z["batch_id"]) != i:
                got.append([b"bad batch id"])
        ids = Ids()
        meta = {"kind": "batch", "config": name, "x0": x0, "N": N, "k": k, "M": M, "seed": seed}
        flat = [b for g in got for b in g]
        bad, sig = None, ""
        if flat != chain or any(len(g) != k for g in got[:-1]) or any(len(g) == 0 or len(g) > k for g in got):
            full = [chain[i:i + k] for i in range(0, len(chain), k) if len(chain[i:i + k]) == k]
            if got == full:
                bad, sig = ("%s sample(%d, batch_size=%d): the batch files hold %d of the %d recorded samples -- the last %d are never written "
                            "(the handler's finalize() is never called)" % (name, N, k, len(flat), len(chain), len(chain) - len(flat))), SIG_BATCH
            else:
                bad, sig = "%s sample(%d, batch_size=%d): batch files %s are not the recorded chain in groups of %d" % (
                    name, N, k, [len(g) for g in got], k), "%s.sample|batch:content" % cls
        expr = "check_batches %s %s %s %s" % (cbool(finalized), cnat(k), czvec([ids(b) for b in chain]), coq_ll(got, ids))
        out.append(Case(expr=expr, meta=meta, cell="batch/%s/%s" % (cls, "divides" if N % k == 0 else "remainder"), trivial=False, kind="DECISION",
                        impl_fail=bad, signature=sig))
        # a later call must not alter the files written by the earlier one
        if M and files:
            led = Ledger()
            for fn in files:
                led.give("batch-file", os.path.join(d, fn), rd_file)
            with Stream(seed + 1), quiet():
                s.sample(M, batch_size=k, sample_path=d + "/")
            led.recheck("a second sample(%d, batch_size=%d) into the same directory" % (M, k))
            bad2 = None
            if led.bad:
                bad2 = "%s sample(%d, batch_size=%d) then sample(%d, batch_size=%d): %s (batch numbering restarts at 0 in every call)" % (
                    name, N, k, M, k, led.bad[1])
            chain2 = [canon(x) for x in s._samples[N:]]
            got2 = []
            for fn in sorted(f for f in os.listdir(d) if f.endswith(".npz")):
                got2.append([canon(r) for r in np.load(os.path.join(d, fn))["samples"]])
            expr2 = "check_batch_files %s %s %s %s" % (cbool(finalized), cnat(k), clist([czvec([ids(b) for b in chain]), czvec([ids(b) for b in chain2])]),
                                                       coq_ll(got2, ids))
            out.append(Case(expr=expr2, meta=dict(meta, second=True), cell="batch/%s/second-call" % cls, trivial=False, kind="DECISION",
                            impl_fail=bad2, signature=SIG_BATCH2 if bad2 else ""))
    finally:
        shutil.rmtree(d, ignore_errors=True)
    return out


def adapt_refusal_case(W, name, x0, N, Nb, seed):
    cls = W.leg[name][0].__name__
    meta = {"kind": "adapt-refusal", "config": name, "x0": x0, "N": N, "Nb": Nb, "seed": seed}
    s = W.make_leg(name, x0)
    raised, other = False, None
    try:
        with Stream(seed), quiet():
            s.sample_adapt(N, Nb)
    except ZeroDivisionError:
        raised = True
    except Exception as e:
        other = "%s: %s" % (type(e).__name__, e)
    bad = None
    if other:
        bad = "%s sample_adapt(%d,%d) raised %s" % (name, N, Nb, other)
    elif raised and N >= 10:
        bad = "%s sample_adapt(%d,%d) raised ZeroDivisionError although the adaptation interval int(0.1 N) is positive" % (name, N, Nb)
    return Case(expr="check_adapt_refusal %s %s" % (cnat(N), cbool(raised)) if not other else "false", meta=meta,
                cell="legacy/%s/sample_adapt/%s" % (cls, "refused" if raised else "accepted"), trivial=False, kind="DECISION",
                impl_fail=bad, signature="legacy.%s._sample_adapt|refusal" % cls if bad else "")


CROSS = [("MH/scale=0.7", "MH/sample"), ("CWMH/scalar-scale", "CWMH/sample"), ("PCN/scale=0.12", "pCN/sample"), ("ULA/scale=0.01", "ULA/sample"),
         ("MALA/scale=0.05", "MALA/sample"), ("LinearRTO", "LinearRTO/sample"), ("UGLA", "UGLA/sample"),
         ("NUTS/step_size=0.3,max_depth=2", "NUTS/step_size=0.3")]


def cross_case(W, ename, lname, x0, N, seed, aliased):
    """the two interfaces implement the same transitions: under one scripted stream the chain returned by the stateless
    sampler is x0 followed by the chain recorded by the stateful one -- a reference for `consecutive states of one chain`
    that does not come from the code under test itself"""
    cls = W.leg[lname][0].__name__
    meta = {"kind": "cross", "config": ename, "legacy": lname, "x0": x0, "N": N, "seed": seed}
    e = run_exp(W, ename, x0, [("S", N - 1)], seed)
    l = run_legacy(W, lname, x0, N, 0, seed)
    if "error" in l:
        return Case(expr="false", meta=meta, cell="cross/%s/error" % cls, impl_fail="legacy sample raised " + l["error"], signature="legacy.%s._sample|raises" % cls)
    ids = Ids()
    full = [e["init"]] + e["smp"]
    ref_ids = [ids(b) for b in full]
    bad, sig = None, ""
    if l["smp"] != full:
        k = next((i for i, (a, b) in enumerate(zip(l["smp"], full)) if a != b), min(len(l["smp"]), len(full)))
        bad = ("%s vs %s, N=%d: entry %d of the chain returned by the stateless sampler is %s, the stateful sampler recorded %s for the same "
               "transition under the same random stream" % (lname, ename, N, k, fl(l["smp"][k]) if k < len(l["smp"]) else None, fl(full[k]) if k < len(full) else None))
        sig = SIG_CWMH if (cls == "CWMH" and aliased) else "cross.%s|stateless-vs-stateful" % cls
    cbv = l["cb"] if aliased else l["cb_now"]
    expr = "check_legacy %s %s %s %s %s %s" % (czvec(ref_ids), cbool(aliased), cnat(N), cnat(0), czvec([ids(b) for b in l["smp_now"]]),
                                               coq_cb([(ids(b), i) for b, i in cbv]))
    return Case(expr=expr, meta=meta, cell="cross/%s" % cls, trivial=N <= 1, kind="DECISION", impl_fail=bad, signature=sig)


def style_case(W, name, v, style, seed):
    """declaration style / dtype / memory layout of initial_point: the differential properties within that style"""
    cls = W.exp[name][0].__name__
    x0 = {"v": v, "style": style}
    c = exp_case(W, {}, name, x0, [("S", 2), ("R",), ("S", 3)], seed, "mem")
    if c.cell.endswith("/error"):
        # the sampler (or the solver it calls) refuses this style: no chain, nothing recorded unfaithfully
        return Case(expr="true", meta=c.meta, cell="x0-style/%s/%s/refused" % (cls, style), trivial=True, kind="DECISION")
    c.cell = "x0-style/%s/%s" % (cls, style)
    return c


def hybrid_resume_case(W, name, warm, k, n, seed):
    """HybridGibbs has no checkpoint interface; the composite checkpoint that exists -- get_state() of every block sampler
    plus current_samples -- loaded into a HybridGibbs constructed afresh must continue with the sweeps of the uninterrupted
    run (C14_gibbs_composite under the footprint facts of the block samplers)"""
    meta = {"kind": "hybrid-resume", "config": name, "warm": warm, "k": k, "n": n, "seed": seed}
    pre = ([("W", warm, 1, 2)] if warm else [])
    ref = run_hybrid(W, name, pre + [("S", n)], seed)
    st = Stream(seed, record=True)
    err = None
    try:
        with st, quiet():
            h = W.make_hybrid(name)
            if warm:
                h.warmup(warm, 0.5)
            h.sample(k)
        saved = {p: copy.deepcopy(h.samplers[p].get_state()) for p in h.par_names}
        cs = copy.deepcopy(h.current_samples)
        with ScriptedRandom(seed + 7919), quiet():
            f = W.make_hybrid(name)
        for p in f.par_names:
            f.samplers[p].set_state(saved[p])
        f.current_samples = cs
        with st, quiet():
            f.sample(n - k)
        names = f.par_names
        smp = [b"".join(canon(f.samples[q][j]) for q in names) for j in range(len(f.samples[names[0]]))]
    except Exception as e:
        smp, err = [], "%s: %s" % (type(e).__name__, e)
    want = ref["smp"][warm + k:]
    same = (smp == want)
    promised = True       # every block class has footprint_ok facts (or a valid excuse) on the current tree; see Gen_C14.v
    ids = Ids()
    bad = None
    if not same:
        bad = "%s: block states + current_samples saved after %s%d sweeps and loaded into a fresh HybridGibbs: %s" % (
            name, "warm-up %d + " % warm if warm else "", k, ("raised " + err) if err else "the continued chain differs from the uninterrupted run")
    expr = "check_warm %s %s && check_sweeps %s %s" % (cbool(promised), cbool(same), czvec([ids(b) for b in want]), czvec([ids(b) for b in smp]))
    return Case(expr=expr, meta=meta, cell="gibbs/%s/composite-resume%s" % (name, "+warmup" if warm else ""), trivial=False, kind="DECISION",
                impl_fail=bad, signature="HybridGibbs.composite-resume|%s" % name.split("/", 1)[1] if bad else "")


def visit_cases(W, name, seed):
    """HybridGibbs.step's reinitialise / restore / recompute of every non-NUTS block against Model/C14_Block.v (visit):
    state keys before the visit, the harness's own evaluation of the cached quantities, state keys at the first inner step"""
    r = run_hybrid(W, name, [("W", 2, 1, 2), ("S", 3)], seed)
    out = []
    cs_ = lambda t: '"%s"' % t
    for j, (p, cls, before, rec, after) in enumerate(r["visits"]):
        ids = Ids()
        al = lambda d: clist(["(%s, %s)" % (cs_(k), cz(ids(v))) for k, v in sorted(d.items())])
        keys = sorted(before)
        want = dict(before, **rec)
        diff = sorted(k for k in want if want[k] != after.get(k))
        bad = None
        if diff:
            bad = ("%s, block %s (%s), visit %d: state keys %s at the first inner step are not the ones held before the block was reinitialised "
                   "on its new conditional (cached evaluations: recomputed)" % (name, p, cls, j, diff))
        expr = "check_visit %s %s %s %s %s" % (clist([cs_(k) for k in keys]), clist([cs_(k) for k in sorted(rec)]), al(before), al(rec), al(after))
        out.append(Case(expr=expr, meta={"kind": "visit", "config": name, "seed": seed, "j": j}, cell="gibbs/%s/block-visit/%s" % (name, cls),
                        trivial=False, kind="DECISION", impl_fail=bad, signature="HybridGibbs.block-visit|%s" % name.split("/", 1)[1] if bad else ""))
    return out


def _solo(W, name, x0, ops, seed):
    r = run_exp(W, name, x0, ops, seed)
    return r["smp"], r["state"]


def twins_case(W, name, x0, seed):
    """two samplers alive at once, constructed from the SAME argument objects (target, initial-point array, scale array ...)
    and advanced alternately, each under its own random stream: each must record the chain it records alone"""
    cls, tkey, kw = W.exp[name]
    meta = {"kind": "twins", "config": name, "x0": x0, "seed": seed}
    shared_kw = dict(kw)                                   # the very same objects go to both constructors
    if x0 is not None:
        shared_kw["initial_point"] = build_x0(x0)
    opsA = [("S", 2), ("W", 2, 1, 2), ("S", 3)]
    opsB = [("S", 3), ("S", 1), ("W", 3, 1, 2), ("S", 2)]
    soloA, soloB = _solo(W, name, x0, opsA, seed), _solo(W, name, x0, opsB, seed + 1)
    a, b = cls(W.targets[tkey], **shared_kw), cls(W.targets[tkey], **shared_kw)
    sa, sb = Stream(seed), Stream(seed + 1)

    def do(s, st, o):
        with st, quiet():
            s.sample(o[1]) if o[0] == "S" else s.warmup(o[1], o[2] / o[3])
    order = [(a, sa, opsA[0]), (b, sb, opsB[0]), (b, sb, opsB[1]), (a, sa, opsA[1]), (b, sb, opsB[2]), (a, sa, opsA[2]), (b, sb, opsB[3])]
    for s_, st_, o_ in order:
        do(s_, st_, o_)
    gotA = ([canon(x) for x in a._samples], {k: canon_val(v) for k, v in sorted(a.get_state()["state"].items())})
    gotB = ([canon(x) for x in b._samples], {k: canon_val(v) for k, v in sorted(b.get_state()["state"].items())})
    ids = Ids()
    refA = [ids(b"init")] + [ids(x) for x in soloA[0]]
    bad = None
    if gotA != soloA or gotB != soloB:
        bad = "%s: two samplers built from the same argument objects and advanced alternately do not record the chains they record alone (%s)" % (
            name, "first" if gotA != soloA else "second")
    expr = "zl_eqb %s %s && %s" % (czvec([ids(x) for x in soloA[0]]), czvec([ids(x) for x in gotA[0]]), cbool(gotB == soloB and gotA[1] == soloA[1]))
    sig = ""
    if bad:
        sig = "%s.twins|%s" % (cls.__name__, name.split("/", 1)[-1])
        if name.endswith("/grad-buffer"):
            sig = SIG_GRADBUF
    return Case(expr=expr, meta=meta, cell="twins/%s" % cls.__name__, trivial=False, kind="DECISION", impl_fail=bad, signature=sig)


def refusal_case(W, name, x0, seed):
    """refused calls in every life-cycle state (constructed / initialised / after sample / after warmup / after a refused
    call): set_state with another sampler's type or an unknown key, a second initialize().  Each must raise ValueError and
    leave the run exactly as it would have been without it"""
    cls, tkey, kw = W.exp[name]
    meta = {"kind": "refusal", "config": name, "x0": x0, "seed": seed}
    ops = [("S", 2), ("W", 2, 1, 2), ("S", 2)]
    ref = run_exp(W, name, x0, ops, seed)
    s = W.make_exp(name, x0)
    other = "MALA" if cls.__name__ != "MALA" else "ULA"
    st = Stream(seed)
    notes = []

    def refuse(tag):
        valid = dict(s.get_state()["state"]) if s._is_initialized else {}
        for what, payload in (("foreign type", {"metadata": {"sampler_type": other}, "state": valid}),
                              ("unknown key", {"metadata": {"sampler_type": cls.__name__}, "state": {"no_such_key": 1.0}})):
            try:
                s.set_state(payload)
                notes.append("%s: set_state with %s was accepted" % (tag, what))
            except ValueError:
                pass
            except Exception as e:
                notes.append("%s: set_state with %s raised %s instead of ValueError" % (tag, what, type(e).__name__))
        if s._is_initialized:
            try:
                s.initialize()
                notes.append("%s: a second initialize() was accepted" % tag)
            except ValueError:
                pass
    refuse("constructed")
    with st, quiet():
        s.sample(0)
    refuse("initialised")
    with st, quiet():
        s.sample(2)
    refuse("after sample")
    with st, quiet():
        s.warmup(2, 0.5)
    refuse("after warmup")
    refuse("after a refused call")
    with st, quiet():
        s.sample(2)
    got = [canon(x) for x in s._samples]
    stt = {k: canon_val(v) for k, v in sorted(s.get_state()["state"].items())}
    bad = None
    if notes:
        bad = "%s: %s" % (name, "; ".join(notes[:3]))
    elif got != ref["smp"] or stt != ref["state"]:
        bad = "%s: refused set_state / initialize calls changed the run (chain or state differ from the run without them)" % name
    ids = Ids()
    expr = "zl_eqb %s %s && %s" % (czvec([ids(x) for x in ref["smp"]]), czvec([ids(x) for x in got]), cbool(not notes and stt == ref["state"]))
    sig = ("%s.refusal|%s" % (cls.__name__, name.split("/", 1)[-1])) if bad else ""
    if bad and name.endswith("/grad-buffer") and not notes:
        sig = SIG_GRADBUF
    return Case(expr=expr, meta=meta, cell="refusal/%s" % cls.__name__, trivial=False, kind="DECISION", impl_fail=bad, signature=sig)


def x0_overwrite_case(W, name, x0, seed):
    """aliasing over time: the caller overwrites, in place, the array it passed as initial_point after the chain has left it
    (samplers whose every transition moves): N, overwrite, M must be N + M"""
    cls, tkey, kw = W.exp[name]
    meta = {"kind": "x0-overwrite", "config": name, "x0": x0, "seed": seed}
    ref = run_exp(W, name, x0, [("S", 6)], seed)
    user = np.array(x0, dtype=float)
    s = cls(W.targets[tkey], initial_point=user, **{k: (v.copy() if isinstance(v, np.ndarray) else v) for k, v in kw.items()})
    st = Stream(seed)
    with st, quiet():
        s.sample(3)
    user[:] = 77.0
    with st, quiet():
        s.sample(3)
    got = [canon(x) for x in s._samples]
    bad = None if got == ref["smp"] else "%s: overwriting the caller's initial-point array after 3 transitions changed the chain" % name
    ids = Ids()
    expr = "zl_eqb %s %s" % (czvec([ids(x) for x in ref["smp"]]), czvec([ids(x) for x in got]))
    return Case(expr=expr, meta=meta, cell="x0-overwrite/%s" % cls.__name__, trivial=False, kind="DECISION", impl_fail=bad,
                signature="%s.x0-overwrite|%s" % (cls.__name__, name.split("/", 1)[-1]) if bad else "")


def stepsdict_case(W, seed):
    """the caller's num_sampling_steps dict: not modified by HybridGibbs, and free to be changed by the caller afterwards"""
    E = W.E
    meta = {"kind": "stepsdict", "seed": seed}
    mk = lambda: {"x": E.MH(scale=0.5, initial_point=np.array([0.25, -0.5, 0.75])), "d": E.Conjugate(), "l": E.Conjugate()}
    with Stream(seed), quiet():
        r = E.HybridGibbs(W.joint, mk(), {"x": 2})
        r.sample(8)
    ref = [b"".join(canon(r.samples[n][k]) for n in r.par_names) for k in range(8)]
    user = {"x": 2}
    with Stream(seed), quiet():
        h = E.HybridGibbs(W.joint, mk(), user)
        kept = dict(user) == {"x": 2}
        h.sample(4)
        user["x"] = 4               # the caller goes on using its dict, e.g. to configure another sampler
        user["d"] = 3
        h.sample(4)
    got = [b"".join(canon(h.samples[n][k]) for n in h.par_names) for k in range(8)]
    bad = None
    if not kept or got != ref:
        bad = ("HybridGibbs keeps (and fills in) the caller's num_sampling_steps dict instead of a copy: %s" %
               ("; ".join(x for x in ["after construction the caller's dict is %s" % ({"x": 2} if kept else "extended with the missing keys"),
                                      "changing it between sample(4) and sample(4) changes the chain" if got != ref else ""] if x)))
    ids = Ids()
    expr = "zl_eqb %s %s && %s" % (czvec([ids(x) for x in ref]), czvec([ids(x) for x in got]), cbool(kept))
    return Case(expr=expr, meta=meta, cell="gibbs/HybridGibbs/callers-steps-dict", trivial=False, kind="DECISION", impl_fail=bad,
                signature=SIG_STEPSDICT if bad else "")


def burn_cases(W, name, x0, ops, seed, grid):
    """stateful interface: burn-in / thinning are applied afterwards to get_samples()"""
    cls = W.exp[name][0].__name__
    obs = run_exp(W, name, x0, ops, seed)
    s = obs.pop("sampler")
    ids = Ids()
    ref_ids = [ids(obs["init"])] + [ids(b) for b in obs["smp"]]
    out = []
    for (Nb, Nt) in grid:
        meta = {"kind": "burn", "config": name, "x0": x0, "ops": [list(o) for o in ops], "seed": seed, "Nb": Nb, "Nt": Nt}
        try:
            with quiet():
                R = s.get_samples().burnthin(Nb, Nt)
            arr = np.asarray(R.samples)
            got = [canon(arr[..., k]) for k in range(arr.shape[-1])]
        except (ValueError, ZeroDivisionError):
            got = None
        exp = obs["smp"][Nb::Nt] if (Nb < len(obs["smp"]) and Nt > 0) else None
        bad = None
        if got != exp:
            bad = "%s %s: get_samples().burnthin(%d,%d) returns %s entries, expected %s (the recorded states Nb, Nb+Nt, ...)" % (
                name, ops, Nb, Nt, None if got is None else len(got), None if exp is None else len(exp))
        expr = "check_exp_burnthin %s %s %s %s %s" % (czvec(ref_ids), coq_ops(ops), cnat(Nb), cnat(Nt),
                                                    copt(got, lambda g: czvec([ids(b) for b in g])))
        out.append(Case(expr=expr, meta=meta, cell="exp/%s/burnthin" % cls, trivial=(Nb == 0 and Nt == 1), kind="DECISION",
                        impl_fail=bad, signature="%s.get_samples.burnthin|%s" % (cls, name.split("/", 1)[-1]) if bad else ""))
    return out


def reinit_case(W, name, x0, prefix, K, seed, reassign=None):
    cls = W.exp[name][0].__name__
    meta = {"kind": "reinit", "config": name, "x0": x0, "ops": [list(o) for o in prefix], "K": K, "seed": seed, "reassign": reassign}
    try:
        r = run_reinit(W, name, x0, prefix, K, seed, reassign)
    except Exception as e:
        return Case(expr="false", meta=meta, cell="reinit/%s/error" % cls, impl_fail="reinitialize raised %s: %s" % (type(e).__name__, e),
                    signature="%s.reinitialize|raises" % cls)
    ids = Ids()
    ref_ids = [ids(r["initB"])] + [ids(b) for b in r["smpB"]]
    bad, sig = None, ""
    if r["cfg_diff"]:
        bad = "%s: after a history %s, reinitialize() leaves attributes %s different from a freshly initialised sampler: %s" % (
            name, prefix, r["cfg_diff"], {k: v for k, v in r["detail"].items()})
        if cls == "NUTS" and set(r["cfg_diff"]) <= {"_max_depth"}:
            sig = SIG_NUTS
        elif name == "RegularizedLinearRTO/stepsize=automatic" and r["cfg_diff"] == ["_stepsize"]:
            sig = SIG_RTO
        else:
            sig = "%s.reinitialize|attributes:%s" % (cls, ",".join(r["cfg_diff"]))
    elif r["hist"] != (0, 1):
        bad, sig = "history not cleared by reinitialize: %s" % (r["hist"],), "%s.reinitialize|history" % cls
    elif r["smpA"] != r["smpB"]:
        bad, sig = "chain after reinitialize differs from the chain of a fresh sampler under the same stream", "%s.reinitialize|chain" % cls
        if name == "RegularizedLinearRTO/stepsize=automatic":
            sig = SIG_RTO
    elif r["handout"]:
        bad, sig = "%s, history %s, then reinitialize: %s" % (name, prefix, r["handout"][1]), "%s.reinitialize|handout:%s" % (cls, r["handout"][0])
        if name.endswith("/grad-buffer") and r["handout"][0] == "get_state":
            sig = SIG_GRADBUF
    expr = "check_exp %s %s %s %s %s [] && %s" % (czvec(ref_ids), coq_ops([("S", K)]), czvec([ids(b) for b in r["smpA"]]), cnat(r["nacc"]),
                                                  coq_cb([(ids(b), i) for b, i in r["cb"]]), cbool(not r["cfg_diff"] and r["hist"] == (0, 1) and not r["handout"]))
    return Case(expr=expr, meta=meta, cell="reinit/%s%s" % (cls, "/reassigned-x0" if reassign is not None else ""), trivial=False, kind="DECISION", impl_fail=bad, signature=sig)


# ------------------------------------------------------------------------------------------------------------------
# footprint facts
# ------------------------------------------------------------------------------------------------------------------
STATIC_SIG = {
    ("RegularizedLinearRTO", "hidden-random-outside-state:_stepsize"): SIG_RTO,
    ("NUTS", "state-key-not-rebound:max_depth"): SIG_NUTS,
    ("NUTS", "state-key-not-rebound:_max_depth"): SIG_NUTS,
    ("legacy.CWMH", "helper-mutates-argument:single_update.x_t"): SIG_CWMH,
    ("legacy.MH._sample_adapt", "callback-never-referenced"): SIG_MHCB,
}


def reinit_reasons(f):
    rw = TR.run_writes(f)
    out = ["state-key-not-rebound:" + a for a in f["state"] if a not in f["init_w"]]
    out += ["history-key-not-rebound:" + a for a in f["hist"] if a not in f["init_w"]]
    out += ["initialize-reads-run-modified-attribute:" + a for a in f["init_r"]
            if not (a not in rw or a in f["state"] or a in f["hist"])]
    return out


def tune_reasons(f):
    sr = TR.sem_reads(f)
    return ["tune-writes-unsaved-attribute-read-by-step:" + a for a in f["tune_w"] if not (a in f["state"] or a not in sr)]


def footprint_stage(ctx, known):
    """returns (cases for known static findings, n_obligations, failed descriptions, facts, legacy facts)"""
    cases, failed = [], []
    try:
        exp = TR.extract_experimental(ctx.repo)
        leg = TR.extract_legacy(ctx.repo)
    except Exception as e:
        return [], 1, ["tr_footprint.py rejected the source (fail-closed): %s: %s" % (type(e).__name__, e)], {}, {}
    excuses = {}
    for c, f in exp.items():
        rs = TR.footprint_reasons(f)
        if rs and all(r.startswith("hidden-random-outside-state:") for r in rs):
            excuses[c] = [r.split(":", 1)[1] for r in rs]
    try:
        stores = TR.extract_slice_stores(ctx.repo)
    except Exception as e:
        stores = ["translator error: %s" % type(e).__name__]
        failed.append("tr_footprint.extract_slice_stores rejected the source: %r" % (e,))
    for x in stores:
        failed.append("in-place whole-array store / augmented assignment through an array the function did not create (it may be a view of a "
                      "recorded or returned chain): " + x)
    src, n = TR.render(exp, leg, excuses, stores)
    os.makedirs(GEN, exist_ok=True)
    # the registered run (against /repo) owns coq/gen/Gen_C14.v; runs against scratch copies use a private file
    path = os.path.join(GEN, "Gen_C14.v" if os.path.abspath(ctx.repo) == "/repo" else "Gen_C14_%d.v" % os.getpid())
    with open(path, "w") as fh:
        fh.write(src)
    rc, out = sh(["coqc"] + coq_flags() + [path], timeout=COQC_TIMEOUT)
    for ext in (".vo", ".vok", ".vos", ".glob"):
        try:
            os.remove(path[:-2] + ext)
        except OSError:
            pass
    for extra in [os.path.join(GEN, "." + os.path.basename(path)[:-2] + ".aux")] + ([path] if not path.endswith("Gen_C14.v") else []):
        try:
            os.remove(extra)
        except OSError:
            pass
    if rc != 0:
        failed.append("coq/gen/Gen_C14.v does not check (the Coq checkers disagree with the translator's mirror, or the facts are malformed):\n" + out[-1500:])

    def report(owner, reason, facts):
        sig = STATIC_SIG.get((owner, reason))
        detail = "footprint of %s extracted from the source: %s" % (owner, reason)
        if sig and sig in known["finding"]:
            cases.append(Case(expr="true", meta={"kind": "footprint", "class": owner, "reason": reason, "facts": facts}, cell="footprint/" + owner,
                              kind="DECISION", impl_fail=detail, signature=sig))
        else:
            failed.append(detail + "  facts=" + json.dumps(facts)[:1500])

    for c in sorted(exp):
        for wpath in exp[c].get("external_writes", []):
            failed.append("%s: step / tune / initialize store through a helper object: self.%s (helper objects are assumed not to be modified)" % (c, wpath))
    for c in sorted(exp):
        f = exp[c]
        n += 0
        for r in TR.footprint_reasons(f):
            report(c, r, f)
        for r in tune_reasons(f):
            report(c, r, f)
        for r in reinit_reasons(f):
            report(c, r, f)
    # the key sets the translator evaluated from the class bodies are the ones the running classes use
    try:
        E = world(ctx).E
        for c in sorted(exp):
            k = getattr(E, c)
            backing = [a for a in exp[c]["state"] if a not in set(k._STATE_KEYS)]
            n += 1
            if set(exp[c]["state"]) - set(backing) != set(k._STATE_KEYS) or set(exp[c]["hist"]) != set(k._HISTORY_KEYS) \
                    or any(not a.startswith("_") for a in backing):
                failed.append("extracted key sets of %s (%s / %s) differ from the class attributes (%s / %s)" % (
                    c, exp[c]["state"], exp[c]["hist"], sorted(k._STATE_KEYS), sorted(k._HISTORY_KEYS)))
    except Exception as e:
        failed.append("could not compare extracted key sets with the running classes: %r" % (e,))
    for c in sorted(leg):
        for entry in ("_sample", "_sample_adapt"):
            for a in leg[c][entry]["argmut"]:
                report("legacy." + c, "helper-mutates-argument:" + a, leg[c])
            n += 1
            if not leg[c][entry]["callback"]:
                report("legacy.%s.%s" % (c, entry), "callback-never-referenced", leg[c])
    return cases, n, failed, exp, leg


# ------------------------------------------------------------------------------------------------------------------
# generator
# ------------------------------------------------------------------------------------------------------------------
def exp_ops_lattice(ctx, rng, warm_capable=True, light=False):
    """operation sequences for one configuration: [(ops, variant)]; light: the reduced lattice used for the configuration
    families added by the lessons rounds (same kinds of sequences, fewer positions)"""
    out = []
    if light and not ctx.thorough:
        N = 4
        for k in (0, 2, 4):
            out.append(([("S", k), ("S", N - k)], "mem"))
            out.append(([("S", k), ("R",), ("S", N - k)], ("mem", "file", "live")[k // 2]))
        out.append(([("S", 2), ("R",), ("S", 2)], "poison"))
        out.append(([("S", 1), ("S", 3)], "mem+scribble"))
        out.append(([("W", 5, 1, 4), ("S", 2), ("R",), ("S", 2)], "mem"))
        out.append(([("W", 4, 1, 2), ("S", 1), ("R",), ("S", 2)], "poison"))
        out.append(([("S", 1)], "mem"))
        return out
    N = ctx.n(12, 40)
    for k in range(N + 1):
        out.append(([("S", k), ("S", N - k)], "mem"))
        out.append(([("S", k), ("R",), ("S", N - k)], "mem"))
    for k in sorted(set([0, 1, N // 2, N])):
        out.append(([("S", k), ("R",), ("S", N - k)], "file"))
        out.append(([("S", k), ("R",), ("S", N - k)], "live"))
    for k in sorted(set([1, N // 2])):
        out.append(([("S", k), ("S", N - k)], "mem+scribble"))
    for k in sorted(set([0, 2, N // 2, N - 1])):
        out.append(([("S", k), ("R",), ("S", N - k)], "poison"))
    out.append(([("W", 5, 1, 4), ("S", 1), ("R",), ("S", 4)], "poison"))
    Nw = ctx.n(6, 20)
    warm = [("W", 5, 1, 4)] if not ctx.thorough else [("W", 5, 1, 4), ("W", 12, 1, 10), ("W", 20, 1, 2)]
    for w in warm:
        for k in range(Nw + 1):
            out.append(([w, ("S", k), ("S", Nw - k)], "mem"))
            out.append(([w, ("S", k), ("R",), ("S", Nw - k)], "mem" if k % 3 else "file"))
    for _ in range(ctx.n(2, 8)):
        a, b, c = rng.randint(0, 4), rng.randint(1, 4), rng.randint(1, 4)
        out.append(([("S", a), ("S", b), ("S", c)], "mem"))
        out.append(([("S", a), ("R",), ("S", b), ("R",), ("S", c)], rng.choice(["mem", "live", "file"])))
        out.append(([("W", rng.randint(1, 6), 1, rng.choice([1, 2, 10])), ("S", a), ("R",), ("S", b), ("S", c)], "mem"))
    out.append(([("S", N)], "mem"))
    # exactly one draw in the whole history / on either side of a checkpoint
    out += [([("S", 1)], "mem"), ([("S", 0), ("S", 1)], "mem"), ([("S", 1), ("R",), ("S", 0)], "mem"), ([("S", 0), ("R",), ("S", 1)], "file"),
            ([("W", 1, 1, 2), ("S", 1)], "mem")]
    # exact thresholds of the tuning interval int(tune_freq * Nb) (1.0 -> 1, 1.9 -> 1, 2.0 -> 2), tune_freq = 0, warmup(0)
    for w in (("W", 10, 1, 10), ("W", 19, 1, 10), ("W", 20, 1, 10), ("W", 6, 0, 1), ("W", 0, 1, 2)):
        out.append(([w, ("S", 2), ("R",), ("S", 2)], "mem"))
    return out


def hybrid_split_lattice(ctx, full=True):
    """operation sequences of a Gibbs sampler, ordered so that sequences with the same unsplit run are adjacent"""
    N = ctx.n(5, 12)
    out = [[("S", k), ("S", N - k)] for k in (range(N + 1) if full or ctx.thorough else (0, 2, N))]
    out += [[("S", 0), ("S", 0), ("S", N)], [("S", 2), ("S", 0), ("S", N - 2)], [("S", N)]]
    for w in ([("W", 3, 1, 2)], [("W", 0, 1, 2)], [("W", 2, 1, 10), ("W", 2, 1, 1)]):
        out += [w + [("S", N)], w + [("S", 0), ("S", N)], w + [("S", 2), ("S", N - 2)], w + [("S", N), ("S", 0)]]
    out += [[("S", 2), ("W", 3, 1, 2), ("S", 2)], [("S", 2), ("W", 3, 1, 2), ("S", 0), ("S", 2)], [("S", 0), ("W", 3, 1, 2), ("S", 1), ("S", 1)]]
    return out


class _Guarded(list):
    """case list whose builders may not take the whole run down: a builder that crashes contributes a case the model cannot
    confirm (reported as a disagreement without failing input unless other cases show one)"""


def guard(fn, *a, **k):
    try:
        return fn(*a, **k)
    except Exception as e:
        tb = traceback.format_exc()[-1200:]
        meta = {"kind": "crashed", "builder": getattr(fn, "__name__", "?"), "args": repr(a[1:])[:600], "error": "%s: %s" % (type(e).__name__, e)}
        c = Case(expr="false", meta=meta, cell="harness/builder-crashed/%s" % getattr(fn, "__name__", "?"), trivial=True, kind="DECISION")
        c.crash = tb
        return c


def _many(fn, *a, **k):
    r = guard(fn, *a, **k)
    return r if isinstance(r, list) else [r]


def gen_cases(ctx, rng, thorough_sizes=None):
    W = world(ctx)
    cases = []
    cache = {}
    nseeds = ctx.n(2, 3)
    # ---- stateful interface
    for name in W.exp:
        tkey = W.exp[name][1]
        for si in range(nseeds):
            x0 = W.x0(rng, tkey, name)
            seed = rng.randint(1, 10 ** 6)
            light = any(t in name for t in ("user-subclass", "all-defaults", "int-vector-scale", "scale-with-zero", "grad-buffer", "grad-strided", "max_depth=0",
                                            "MultipleLikelihoodPosterior"))
            if light and si > 0 and not ctx.thorough:
                continue
            for ops, variant in exp_ops_lattice(ctx, rng, light=light):
                cases.append(guard(exp_case, W, cache, name, x0, ops, seed, variant))
        cache.clear()
        # declaration style, dtype and memory layout of the initial point
        if not (name.endswith("default-x0") or name.endswith("all-defaults")):
            d_ = W.dims[tkey]
            for style in ("list", "float32", "int", "view"):
                cases.append(guard(style_case, W, name, [1.0, 2.0, 1.0][:d_], style, rng.randint(1, 10 ** 6)))
            cases.append(guard(style_case, W, name, [0.0] * d_, "view", rng.randint(1, 10 ** 6)))           # all-zero (falsy) start
            cases.append(guard(style_case, W, name, [0.0, 2.0, 0.0][:d_], "array", rng.randint(1, 10 ** 6)))  # exact zeros among generic entries
            # a constructor argument re-assigned by the user, then reinitialize: the configuration is the re-assigned one
            cases.append(guard(reinit_case, W, name, W.x0(rng, tkey, name), [("S", 2)], 3, rng.randint(1, 10 ** 6), reassign=W.x0(rng, tkey, name)))
        cases.append(guard(twins_case, W, name, W.x0(rng, tkey, name), rng.randint(1, 10 ** 6)))
        cases.append(guard(refusal_case, W, name, W.x0(rng, tkey, name), rng.randint(1, 10 ** 6)))
        if W.exp[name][0].__name__ in ("ULA", "LinearRTO", "UGLA", "Direct", "RegularizedLinearRTO") and not name.endswith("all-defaults"):
            cases.append(guard(x0_overwrite_case, W, name, W.x0(rng, tkey, name), rng.randint(1, 10 ** 6)))
        # burn-in / thinning afterwards (boundaries: Nb = 0, = warm-up length, = Ns-1, = Ns (refused); Nt = 0 (refused), 1, 2, > Ns)
        nb, n = 4, ctx.n(5, 9)
        grid = [(b, t) for b in (0, nb, nb + n - 1, nb + n) for t in (0, 1, 2, nb + n + 1)]
        cases += _many(burn_cases, W, name, W.x0(rng, tkey, name), [("W", nb, 1, 4), ("S", n)], rng.randint(1, 10 ** 6), grid)
        # checkpoint between warm-up calls: what the extracted facts promise must hold
        for (a, b, n, variant) in ((4, 4, 3, "mem"), (2, 6, 2, "poison"), (6, 2, 2, "file")) + (((10, 10, 5, "mem"), (7, 9, 4, "poison")) if ctx.thorough else ()):
            cases.append(guard(warm_case, W, name, W.x0(rng, tkey, name), a, b, n, rng.randint(1, 10 ** 6), variant))
        # reinitialize
        for prefix in ([("S", 3)], [("W", 4, 1, 4), ("S", 2)], [("S", 0)]):
            x0 = W.x0(rng, tkey, name)
            cases.append(guard(reinit_case, W, name, x0, prefix, ctx.n(4, 10), rng.randint(1, 10 ** 6)))
    # ---- batches on disk
    try:
        fin = TR.batch_finalized(ctx.repo)
    except Exception:
        fin = False
    for name in ("MH/scale=0.7", "LinearRTO", "Direct"):
        tkey = W.exp[name][1]
        for (N, k, M) in ((6, 3, 3), (7, 3, 2), (5, 1, 0), (4, 4, 0), (3, 5, 4), (8, 3, 0)) + (((20, 7, 5), (21, 7, 7), (9, 2, 0)) if ctx.thorough else ()):
            cases += _many(batch_cases, W, name, W.x0(rng, tkey, name), N, k, M, rng.randint(1, 10 ** 6), fin)
    # ---- stateless interface
    try:
        leg_facts = TR.extract_legacy(ctx.repo)
    except Exception:
        leg_facts = {}
    for name in W.leg:
        cls, tkey, kw, method, refkind = W.leg[name]
        aliased = bool(leg_facts.get(cls.__name__, {}).get("_" + method, {}).get("argmut"))
        if method == "sample_adapt":
            grid = [(N, Nb) for N in ([10, 13] if not ctx.thorough else [10, 13, 20, 37]) for Nb in ([0, 1, 5] if not ctx.thorough else [0, 1, 5, 10, 23])]
        elif name == "NUTS/adapt":
            grid = [(N, Nb) for N in range(1, ctx.n(5, 9)) for Nb in range(1, ctx.n(4, 8))]
        else:
            grid = [(N, Nb) for N in range(1, ctx.n(6, 14)) for Nb in range(0, ctx.n(4, 9))]
        for (N, Nb) in grid:
            x0 = W.x0(rng, tkey) if tkey != "postr" else W.x0(rng, tkey)
            cases.append(guard(legacy_case, W, name, x0, N, Nb, rng.randint(1, 10 ** 6), aliased))
    # the two interfaces against each other
    for ename, lname in CROSS:
        cls = W.leg[lname][0]
        aliased = bool(leg_facts.get(cls.__name__, {}).get("_sample", {}).get("argmut"))
        for N in ((2, 5, 9) if not ctx.thorough else (1, 2, 3, 5, 9, 17, 30)):
            cases.append(guard(cross_case, W, ename, lname, W.x0(rng, W.exp[ename][1]), N, rng.randint(1, 10 ** 6), aliased))
    # sample_adapt below the adaptation interval: a refusal (ZeroDivisionError) exactly for N < 10
    for name in ("MH/sample_adapt", "CWMH/sample_adapt", "pCN/sample_adapt"):
        for (N, Nb) in ((1, 0), (5, 2), (9, 0), (9, 3), (10, 0), (11, 1)):
            cases.append(guard(adapt_refusal_case, W, name, W.x0(rng, W.leg[name][1]), N, Nb, rng.randint(1, 10 ** 6)))
    # ---- Gibbs
    for (calls, nb) in (([0, 3], 2), ([0, 2, 1], 3), ([0, 2], 0), ([0, 0, 3], 2), ([0, 1, 0, 2], 2), ([0, 0, 2], 0)):
        cases.append(guard(gibbs_case, W, calls, nb, rng.randint(1, 10 ** 6)))
    keeps = gibbs_keeps(ctx.repo)
    for (calls, nb) in (([3], 2), ([2, 2], 3), ([0, 0, 3], 2), ([1, 0, 1], 1), ([2, 1, 1], 2)):
        cases.append(guard(gibbs_warm_case, W, calls, nb, rng.randint(1, 10 ** 6), keeps))
    for nb in ([0, 2] if not ctx.thorough else [0, 2, 5]):
        for calls in ([[4], [1, 3], [2, 2], [3, 1], [1, 1, 2], [2, 1, 1]] if not ctx.thorough else
                      [[8]] + [[k, 8 - k] for k in range(1, 8)] + [[1, 1, 2], [2, 1, 1], [3, 2, 3], [1, 1, 1, 1, 1]]):
            cases.append(guard(gibbs_case, W, calls, nb, rng.randint(1, 10 ** 6)))
        for calls in ([2, 2], [1, 2, 1]):
            cases.append(guard(gibbs_case, W, calls, nb, rng.randint(1, 10 ** 6), scribble=True))
    # every sampler class of the stateless interface as a block of legacy Gibbs: every split of the sampling phase incl. zero-length calls
    for strategy in W.GIBBS[1:]:
        for nb in (0, 2):
            seed = rng.randint(1, 10 ** 6)
            for calls in ([[4], [1, 3], [2, 2], [3, 1], [4, 0], [2, 0, 2], [1, 1, 2]] + ([[0, 4], [0, 0, 4]] if nb else [])):
                cases.append(guard(gibbs_case, W, calls, nb, seed, strategy=strategy))
    for name in W.HYBRID[2:]:
        # several inner steps per sweep, rejecting and exact block samplers: long enough to meet sweeps in which an early
        # inner step is accepted and the last one rejected
        for w in ([], [("W", 4, 1, 2)]):
            seed = rng.randint(1, 10 ** 6)
            n = ctx.n(16, 60)
            for ops in ([("S", n)], [("S", 3), ("S", n - 3)], [("S", 0), ("S", n)]):
                cases.append(guard(hybrid_case, W, name, w + ops, seed))
    # every block-sampler class x every split pattern (zero-length calls, warm-up / sample sequences): one unsplit run per
    # (configuration, warm-up prefix), the block samplers' own points and the Metropolis recursion as independent references,
    # and the number of variates each call takes from the stream
    for name in W.HYBRID_DIR + W.HYBRID:
        seed = rng.randint(1, 10 ** 6)
        hc = {}
        for ops in hybrid_split_lattice(ctx, full=name in W.HYBRID_DIR + W.HYBRID[:2]):
            cases.append(guard(hybrid_case, W, name, ops, seed, cache=hc))
    for name in W.HYBRID_DIR + W.HYBRID:
        cases += _many(visit_cases, W, name, rng.randint(1, 10 ** 6))
    cases.append(guard(stepsdict_case, W, rng.randint(1, 10 ** 6)))
    for name in W.HYBRID + W.HYBRID_DIR:
        for warm in (0, 4):
            for k in ((0, 3) if not ctx.thorough else (0, 1, 3, 7)):
                cases.append(guard(hybrid_resume_case, W, name, warm, k, ctx.n(8, 16), rng.randint(1, 10 ** 6)))
    for name in W.HYBRID[:2]:
        N = ctx.n(5, 12)
        for w in ([], [("W", 3, 1, 4)]):
            seed = rng.randint(1, 10 ** 6)
            # (every split position k = 0..N of these two configurations is part of hybrid_split_lattice, full=True)
            cases.append(guard(hybrid_case, W, name, w + [("S", 1), ("S", 2), ("S", 1)], seed))
            cases.append(guard(hybrid_case, W, name, w + [("S", 2), ("S", 2)], seed, scribble=True))
    return cases


def run(ctx):
    known = load_known("C14")
    fcases, n_obl, failed, exp_facts, leg_facts = footprint_stage(ctx, known)
    ctx.note("footprints: %d classes of the stateful interface, %d of the stateless one; %d generated obligations, %d not discharged" % (
        len(exp_facts), len(leg_facts), n_obl, len(failed)))
    cases = fcases + gen_cases(ctx, ctx.rng)
    return Result(cases=cases, rule=RULE, generated_obligations=n_obl, generated_failed=failed,
                  extra={"footprint_classes": sorted(exp_facts), "legacy_classes": sorted(leg_facts)},
                  assumptions=["scripted randomness: numpy.random's module-level generators are replaced by one seeded stream; equality of chains is "
                               "bit-for-bit equality of float64 byte patterns (same code, same numbers)",
                               "the footprint translator harness/tr_footprint.py over-approximates the attributes read / written by step, tune and "
                               "initialize (fail-closed on reflection and aliases of self); external objects (target, proposal, solvers) are assumed "
                               "not to be mutated by the calls made on them",
                               "a fresh sampler of the same configuration is constructed on the same target object and initialised outside the "
                               "compared random stream"])


# ------------------------------------------------------------------------------------------------------------------
# violation protocol
# ------------------------------------------------------------------------------------------------------------------
def _rerun(ctx, m):
    W = world(ctx)
    k = m.get("kind")
    if k == "exp":
        return exp_case(W, {}, m["config"], m["x0"], [tuple(o) for o in m["ops"]], m["seed"], m.get("variant", "mem"))
    if k == "legacy":
        try:
            lf = TR.extract_legacy(ctx.repo)
        except Exception:
            lf = {}
        cls, tkey, kw, method, refkind = W.leg[m["config"]]
        aliased = bool(lf.get(cls.__name__, {}).get("_" + method, {}).get("argmut"))
        return legacy_case(W, m["config"], m["x0"], m["N"], m["Nb"], m["seed"], aliased)
    if k == "gibbs":
        return gibbs_case(W, m["calls"], m["Nb"], m["seed"], scribble=m.get("scribble", False), strategy=m.get("strategy", "Gibbs"))
    if k == "gibbs-warm":
        return gibbs_warm_case(W, m["calls"], m["Nb"], m["seed"], gibbs_keeps(ctx.repo), strategy=m.get("strategy", "Gibbs"))
    if k == "hybrid":
        return hybrid_case(W, m["config"], [tuple(o) for o in m["ops"]], m["seed"], scribble=m.get("scribble", False))
    if k == "visit":
        cs = visit_cases(W, m["config"], m["seed"])
        return cs[m["j"]] if m["j"] < len(cs) else None
    if k == "twins":
        return twins_case(W, m["config"], m["x0"], m["seed"])
    if k == "refusal":
        return refusal_case(W, m["config"], m["x0"], m["seed"])
    if k == "x0-overwrite":
        return x0_overwrite_case(W, m["config"], m["x0"], m["seed"])
    if k == "stepsdict":
        return stepsdict_case(W, m["seed"])
    if k == "hybrid-resume":
        return hybrid_resume_case(W, m["config"], m["warm"], m["k"], m["n"], m["seed"])
    if k == "cross":
        try:
            lf = TR.extract_legacy(ctx.repo)
        except Exception:
            lf = {}
        aliased = bool(lf.get(W.leg[m["legacy"]][0].__name__, {}).get("_sample", {}).get("argmut"))
        return cross_case(W, m["config"], m["legacy"], m["x0"], m["N"], m["seed"], aliased)
    if k == "warm":
        return warm_case(W, m["config"], m["x0"], m["a"], m["b"], m["n"], m["seed"], m["variant"])
    if k == "batch":
        try:
            fin = TR.batch_finalized(ctx.repo)
        except Exception:
            fin = False
        cs = batch_cases(W, m["config"], m["x0"], m["N"], m["k"], m["M"], m["seed"], fin)
        return cs[1] if (m.get("second") and len(cs) > 1) else cs[0]
    if k == "adapt-refusal":
        return adapt_refusal_case(W, m["config"], m["x0"], m["N"], m["Nb"], m["seed"])
    if k == "burn":
        cs = burn_cases(W, m["config"], m["x0"], [tuple(o) for o in m["ops"]], m["seed"], [(m["Nb"], m["Nt"])])
        return cs[0]
    if k == "reinit":
        return reinit_case(W, m["config"], m["x0"], [tuple(o) for o in m["ops"]], m["K"], m["seed"], m.get("reassign"))
    return None


def oracle(ctx, meta):
    c = _rerun(ctx, meta)
    return c.impl_fail if c is not None else None


def classify(meta, detail):
    c = None
    k = meta.get("kind")
    if k == "footprint":
        return STATIC_SIG.get((meta.get("class"), meta.get("reason")), "%s|footprint:%s" % (meta.get("class"), meta.get("reason")))
    return "%s|%s" % (meta.get("config", k), k)


def search(ctx):
    """differential search with other seeds and initial points for a failing input of the property itself"""
    import random
    found = []
    for extra in (17, 4711):
        rng = random.Random(ctx.seed * 7919 + extra)
        for c in gen_cases(ctx, rng):
            if c.impl_fail:
                found.append(c)
        if found:
            break
    return found


def known_witnesses(ctx):
    W = world(ctx)
    out = {}
    # #12 legacy CWMH: the returned chain is shifted by one
    o = run_legacy(W, "CWMH/sample", [0.25, -0.5], 5, 0, 11)
    bad = legacy_check(o, 5, 0) if "error" not in o else ("error", o["error"])
    out[SIG_CWMH] = (bool(bad) and bad[0] == "record", bad[1] if bad else "returned chain starts with x0 and lists the states in order")
    # #13 legacy MH.sample_adapt never calls the callback
    o = run_legacy(W, "MH/sample_adapt", [0.25, -0.5], 10, 2, 12)
    bad = legacy_check(o, 10, 2) if "error" not in o else ("error", o["error"])
    out[SIG_MHCB] = (bool(bad) and bad[0] == "callback", bad[1] if bad else "callback invoked once per transition")
    # #28 RegularizedLinearRTO: _stepsize is a randomised estimate outside the checkpoint
    name = "RegularizedLinearRTO/stepsize=automatic"
    vals = []
    det_spectral(False)          # the finding is about the estimate as the library draws it
    for _ in range(8):
        a = W.make_exp(name, [0.5, 0.25, 0.0])
        with quiet():
            a.initialize()
        vals.append(float(a._stepsize))
    differs = len(set(vals)) > 1
    c = exp_case(W, {}, name, [0.5, 0.25, 0.0], [("S", 3), ("R",), ("S", 3)], 13, "mem")
    det_spectral(True)
    out[SIG_RTO] = (bool(c.impl_fail) or differs,
                    (c.impl_fail or "") + ("; freshly initialised samplers of the same configuration hold _stepsize values %s" % sorted(set(vals))
                                           if differs else ""))
    # legacy Gibbs hands out its own storage: a user's write into a returned chain changes the continuation
    c = gibbs_case(W, [2, 2], 1, 15, scribble=True)
    out[SIG_GIBBS_LIVE] = (c.signature == SIG_GIBBS_LIVE, c.impl_fail or "a write into the returned chains does not reach the sampler")
    # batches: remainder never flushed; a second call overwrites the files of the first
    try:
        fin = TR.batch_finalized(ctx.repo)
    except Exception:
        fin = False
    cs = batch_cases(W, "MH/scale=0.7", [0.5, 0.25], 7, 3, 3, 16, fin)
    out[SIG_BATCH] = (cs[0].signature == SIG_BATCH, cs[0].impl_fail or "all recorded samples are on disk")
    out[SIG_BATCH2] = (len(cs) > 1 and cs[1].signature == SIG_BATCH2, (cs[1].impl_fail if len(cs) > 1 else None) or "files of the first call untouched")
    # legacy Gibbs: sample(0, Nb) then sample(M)
    c = gibbs_case(W, [0, 3], 2, 17)
    out[SIG_GIBBS0] = (c.signature == SIG_GIBBS0, c.impl_fail or "continues from the warm-up chain")
    c = gibbs_warm_case(W, [0, 0, 3], 2, 20, gibbs_keeps(ctx.repo))
    c2 = gibbs_case(W, [0, 0, 3], 2, 20)
    out[SIG_GIBBS_WARM] = (c.signature == SIG_GIBBS_WARM or c2.signature == SIG_GIBBS_WARM,
                           c.impl_fail or c2.impl_fail or "the warm-up record survives later calls and sample(0, 2); sample(0); sample(3) continues from it")
    c = stepsdict_case(W, 18)
    out[SIG_STEPSDICT] = (c.signature == SIG_STEPSDICT, c.impl_fail or "the caller's dict is left alone and may be changed afterwards")
    c = exp_case(W, {}, "MALA/grad-buffer", [0.25, 0.5], [("S", 3), ("R",), ("S", 3)], 19, "mem")
    out[SIG_GRADBUF] = (c.signature == SIG_GRADBUF, c.impl_fail or "the state holds its own copy of the gradient")
    # NUTS.reinitialize resets max_depth to the default
    c = reinit_case(W, "NUTS/step_size=0.3,max_depth=2", [0.5, -0.25], [("S", 2)], 3, 14)
    out[SIG_NUTS] = (c.signature == SIG_NUTS, c.impl_fail or "max_depth kept")
    return out


def replay(ctx, meta):
    m = meta.get("meta", meta)
    print(json.dumps({k: v for k, v in meta.items() if k != "meta"}, indent=1)[:3000])
    print("case:", json.dumps(m)[:2000])
    if m.get("kind") == "footprint":
        try:
            exp, leg = TR.extract_experimental(ctx.repo), TR.extract_legacy(ctx.repo)
            owner = m.get("class", "")
            f = exp.get(owner) or leg.get(owner.replace("legacy.", "").split(".")[0])
            print("facts extracted now:", json.dumps(f, indent=1)[:4000])
        except Exception as e:
            print("translator:", repr(e))
        return 0
    if m.get("witness"):
        for sig, (fails, detail) in known_witnesses(ctx).items():
            if sig == m["witness"]:
                print("witness still fails:" if fails else "witness no longer fails:", detail)
        return 0
    c = _rerun(ctx, m)
    if c is None:
        print("nothing to replay")
        return 0
    print("implementation vs property (independent oracle):", c.impl_fail or "holds on this case")
    print("model term:", c.expr[:3000])
    rc, out = eval_in_coq(IMPORTS, c.expr, tag="replay_C14")
    print("model evaluates the comparison to:", out[-300:])
    return 0
