(* C14 -- the stateful interface discards burn-in afterwards: get_samples().burnthin(Nb, Nt) is Samples.burnthin applied
   to the chain recorded by the sampler model.  The three definitions below are, verbatim, those of the model of
   property C19 (Model/C19_Stats.v: stride_aux, thin, burnthin), repeated here so that this development does not have to
   be recompiled whenever that file changes.  No proofs. *)
From CV Require Import Base.Tac Base.Cmp Model.C14_Chain.

Section Chain.
Context {A : Type}.
Fixpoint stride_aux (p k : nat) (l : list A) : list A :=
  match l with
  | [] => []
  | x :: r => match k with
              | O => x :: stride_aux p p r
              | S k' => stride_aux p k' r
              end
  end.
Definition thin (nt : nat) (l : list A) : list A := stride_aux (nt - 1) 0 l.
(* refused (None) when Nb >= Ns (ValueError) and when Nt = 0 *)
Definition burnthin (nb nt : nat) (l : list A) : option (list A) :=
  if (length l <=? nb)%nat then None
  else if (nt =? 0)%nat then None
  else Some (thin nt (skipn nb l)).
End Chain.

Definition check_exp_burnthin (ref : list Z) (ops : list top) (nb nt : nat) (obs : option (list Z)) : bool :=
  opt_eqb zl_eqb (burnthin nb nt (smp (t_run ref ops))) obs.
