"""C06 -- linear RTO draws are exact Gaussian posterior draws; UGLA draws from its documented local Gaussian.

Correspondence: cuqi.experimental.mcmc.LinearRTO / cuqi.sampler.LinearRTO / both UGLA vs Model/C06_RTO.v.
For every configuration of the lattice (interface x target form x model kind x 16 Gaussian input forms x prior
family x shape) the harness
  * reads the sampler's stacked operator and right-hand side (b_tild, M(e_j,1), M(e_i,2)) and the square-root
    precisions it was built from, and the model recomputes them (EXACT on dyadic data, 1e-9 otherwise);
  * replaces the standard-normal draw by 0 and by every basis vector (scripted numpy.random), from several current
    states, with the inner CGLS run to convergence (tol 1e-13, maxit lifted; the wrapper records that the stopping
    test fired), and the model evaluates the certificate |M^T M x - M^T(b_tild+e)| <= 1e-8 scale on the returned point;
  * reads off the affine map e -> x(e) and the model checks H x(0) = rhs and H G G^T = I against the posterior
    the USER specified (no square roots: precisions straight from the input forms).
The independent oracle states the property in numpy: offset = closed-form posterior mean, G G^T = H^-1,
no dependence on the current state.

SCALE: every cell is additionally posed in other units -- the same exact rational problem with x-units alpha, y-units beta,
noise std and prior std each multiplied by dyadic factors 2^e, e in {-40,-34,-17,17,34,40} (consistently, per unit, and
independently: only the noise tiny/huge, only the prior tiny/huge).  Dyadic scaling keeps the EXACT comparisons exact; every
tolerance (model side and oracle side) is relative to the scale of the quantity compared, the read-off perturbs with c*e_i,
c a power of two at the scale of b_tild, and the oracle's posterior mean / covariance are exact (Fractions).

UGLA: the same with the smoothed-Laplace weights certified (sw^4 ((D z)^2 + beta) = 1).  Design-time defect #17
(location != 0: weights from D x_k instead of D (x_k - loc), L2mu not scaled by 1/sqrt(scale)) is re-found by the
oracle; a repair is proposed in fixes/C06_ugla_location.diff and both states of the tree are handled (the state is
probed with a fixed witness per interface and selects the model variant UglaCode / UglaDoc)."""
import io, contextlib, itertools, copy
from fractions import Fraction
import numpy as np
from common import *

IMPORTS = ("From CV Require Import Base.Cmp Base.QcLin Model.C06_RTO Model.C06_FD Model.C06_GMRFop.\n"
           "From Coq Require Import QArith Qcanon.")
RULE = ("configurations = interface (experimental, legacy) x target (Posterior, MultipleLikelihoodPosterior with 2-3 likelihoods, "
        "legacy 5-tuple) x model (matrix, function pair) x noise and prior Gaussian in all 4x4 input forms (cov/prec/sqrtcov/sqrtprec "
        "x scalar/vector/diagonal 2-d/full 2-d) x prior family (Gaussian scalar or vector mean, GMRF zero/neumann/periodic order 1-2, "
        "JointGaussianSqrtPrec) x under/over-determined, n<=4, rows<=5 per likelihood, several current states, x unit-scale pattern "
        "(base; x-units, y-units, both, noise-only, prior-only times 2^e, e in -40,-34,-17,17,34,40; plus a dedicated sweep making each of "
        "the 4 full-matrix input forms of noise and prior tiny and huge); UGLA: interface x "
        "boundary condition x location (0, scalar, vector) x scale x beta x current state x unit-scale pattern. Every configuration yields one case per "
        "stage (forms, precompute, draws, law, state). distinct = distinct (configuration, stage); trivial = none")

MAXIT = 400
TOL = 1e-13
SQRT_EPS = float(np.sqrt(np.finfo(float).eps))
FORMS = ["cov", "prec", "sqrtcov", "sqrtprec"]
SHAPES = ["scalar", "vector", "diagmat", "full"]
COQF = {"cov": "FCov", "prec": "FPrec", "sqrtcov": "FSqrtcov", "sqrtprec": "FSqrtprec"}
SIG_UGLA = {"exp": "experimental.UGLA.step|location:D@loc!=0", "legacy": "sampler.UGLA._sample|location:D@loc!=0"}


# ---------------------------------------------------------------------------------------------
# exact helpers (Fractions)
# ---------------------------------------------------------------------------------------------
def F(x):
    return frac(x)


def fmat(M):
    return [[F(a) for a in r] for r in M]


def f_matmul(A, B):
    nb = len(B[0]) if B else 0
    out = []
    for row in A:
        acc = [Fraction(0)] * nb
        for k, a in enumerate(row):
            if a != 0:
                for j, bkj in enumerate(B[k]):
                    if bkj != 0:
                        acc[j] += a * bkj
        out.append(acc)
    return out


def f_T(A):
    return [list(c) for c in zip(*A)] if A else []


def f_matvec(A, x):
    return [sum(a * b for a, b in zip(r, x)) for r in A]


def f_inv_upper(U):
    """exact inverse of an upper triangular matrix"""
    n = len(U)
    X = [[Fraction(0)] * n for _ in range(n)]
    for j in range(n):
        for i in range(n - 1, -1, -1):
            s = (Fraction(1) if i == j else Fraction(0)) - sum(U[i][k] * X[k][j] for k in range(i + 1, n))
            X[i][j] = s / U[i][i]
    return X


def f_det(M):
    M = [r[:] for r in M]
    n, d = len(M), Fraction(1)
    for c in range(n):
        p = next((r for r in range(c, n) if M[r][c] != 0), None)
        if p is None:
            return Fraction(0)
        if p != c:
            M[c], M[p] = M[p], M[c]
            d = -d
        d *= M[c][c]
        for r in range(c + 1, n):
            f = M[r][c] / M[c][c]
            M[r] = [a - f * b for a, b in zip(M[r], M[c])]
    return d


def f_solve_inv(H, r):
    """exact H^-1 r and H^-1 by Gauss-Jordan over Fractions (H symmetric positive definite, n <= 5)"""
    n = len(H)
    M = [list(map(Fraction, H[i])) + [Fraction(r[i])] + [Fraction(int(i == j)) for j in range(n)] for i in range(n)]
    for c in range(n):
        p = next(i for i in range(c, n) if M[i][c] != 0)
        M[c], M[p] = M[p], M[c]
        piv = M[c][c]
        M[c] = [a / piv for a in M[c]]
        for i in range(n):
            if i != c and M[i][c] != 0:
                f = M[i][c]
                M[i] = [a - f * b for a, b in zip(M[i], M[c])]
    return [M[i][n] for i in range(n)], [M[i][n + 1:] for i in range(n)]


def f_madd(A, B):
    return [[a + b for a, b in zip(ra, rb)] for ra, rb in zip(A, B)]


def f_vadd(a, b):
    return [x + y for x, y in zip(a, b)]


def pow2(e):
    return Fraction(2) ** e


def tofloat(M):
    return [[float(a) for a in r] for r in M]


def dense(S):
    return np.asarray(S.toarray() if hasattr(S, "toarray") else S, dtype=float)


# ---------------------------------------------------------------------------------------------
# Coq printers
# ---------------------------------------------------------------------------------------------
def qv(v):
    return "(qvec %s)" % cqvec([float(a) if not isinstance(a, Fraction) else a for a in v])


def qm(M):
    return "(qmat %s)" % cqmat([[float(a) if not isinstance(a, Fraction) else a for a in r] for r in M])


def qs(x):
    return "(qc %s)" % cq(x)


def c_gval(g):
    if g["shape"] == "scalar":
        return "(GScalar %s)" % qs(g["value"])
    if g["shape"] == "vector":
        return "(GVector %s)" % qv(g["value"])
    return "(GMatrix %s %s)" % (qm(g["value"]), qm(g["aux"]) if g.get("aux") is not None else "[]")


def c_spform(g):
    if g["shape"] == "scalar":
        return "(SpScalar %s)" % qs(g["value"])
    if g["shape"] == "vector":
        return "(SpVector %s)" % qv(g["value"])
    return "(SpMatrix %s)" % qm(g["value"])


def c_tol(t):
    return {0: "0%Q", 9: "tol9", 6: "tol6", 8: "(1 # 100000000)%Q"}[t]


# ---------------------------------------------------------------------------------------------
# generators of Gaussian specifications (JSON-able)
# ---------------------------------------------------------------------------------------------
SQ_POOL = [1.0, 4.0, 0.25, 16.0, 0.0625]
ANY_POOL = [2.0, 3.0, 0.5, 5.0, 1.5]
ROOT_POOL = [1.0, 2.0, 0.5, 4.0, 3.0, 0.25, 5.0, 1.5]


STRUCT = ["upper", "lower", "perm", "symmetric"]
STRUCT_I = [0]            # cycles deterministically through the structures of full sqrtcov / sqrtprec factors
NARROW = [False]          # large-dimension cells draw variances from a narrow pool (conditioning of a 76-dim posterior)


def gen_var(rng, form):
    if NARROW[0]:
        return rng.choice([1.0, 2.0, 0.5]) if form in ("sqrtcov", "sqrtprec") else rng.choice([1.0, 4.0, 0.25, 2.0])
    if form in ("sqrtcov", "sqrtprec"):
        return rng.choice(ROOT_POOL)
    return rng.choice(SQ_POOL) if rng.random() < 0.7 else rng.choice(ANY_POOL)


def gen_upper(rng, dim):
    U = [[Fraction(0)] * dim for _ in range(dim)]
    for i in range(dim):
        U[i][i] = Fraction(rng.choice([1, 1, 2]) if NARROW[0] else rng.choice([1, 1, 2, Fraction(1, 2)]))
        for j in range(i + 1, dim):
            U[i][j] = Fraction(rng.choice([-1, 0, 0, 1]) if NARROW[0] else rng.randint(-2, 2))
    return U


def gen_gspec(rng, dim, form, shape):
    g = {"form": form, "shape": shape, "dim": dim}
    if shape == "scalar":
        g["value"] = gen_var(rng, form)
    elif shape == "vector":
        g["value"] = [gen_var(rng, form) for _ in range(dim)]
    elif shape == "diagmat":
        d = [gen_var(rng, form) for _ in range(dim)]
        g["value"] = [[d[i] if i == j else 0.0 for j in range(dim)] for i in range(dim)]
        g["aux"] = tofloat([[1 / F(d[i]) if i == j else Fraction(0) for j in range(dim)] for i in range(dim)]) \
            if form in ("cov", "sqrtcov") else None
        if g["aux"] is not None and not all(F(g["aux"][i][i]) * F(d[i]) == 1 for i in range(dim)):
            # inverse not exactly representable: use exactly invertible entries
            d = [rng.choice(SQ_POOL + [2.0, 0.5]) for _ in range(dim)]
            g["value"] = [[d[i] if i == j else 0.0 for j in range(dim)] for i in range(dim)]
            g["aux"] = tofloat([[1 / F(d[i]) if i == j else Fraction(0) for j in range(dim)] for i in range(dim)])
    elif dim > 8:
        # large dimension: a genuinely non-diagonal matrix with an exact, well-conditioned inverse: block diagonal of small full blocks
        val = [[0.0] * dim for _ in range(dim)]
        aux = [[0.0] * dim for _ in range(dim)]
        o, has_aux = 0, False
        while o < dim:
            bs = min(rng.randint(2, 3), dim - o)
            gb = gen_gspec(rng, bs, form, "full")
            for i in range(bs):
                for j in range(bs):
                    val[o + i][o + j] = gb["value"][i][j]
                    if gb.get("aux") is not None:
                        aux[o + i][o + j] = gb["aux"][i][j]
                        has_aux = True
            o += bs
        g["value"], g["aux"] = val, (aux if has_aux else None)
    else:
        U = gen_upper(rng, dim)
        Ui = f_inv_upper(U)
        if form == "cov":
            g["value"], g["aux"] = tofloat(f_matmul(Ui, f_T(Ui))), tofloat(f_matmul(f_T(U), U))
        elif form == "prec":
            g["value"], g["aux"] = tofloat(f_matmul(f_T(U), U)), None
        elif form == "sqrtcov":
            # structure of the factor R (the code forms cov = R R^T): upper / lower triangular, signed permutation of a
            # triangular factor (non-triangular, non-symmetric, either sign of the determinant), symmetric
            st = STRUCT[STRUCT_I[0] % 4]
            STRUCT_I[0] += 1
            g["struct"] = st
            if st == "upper":
                R, Ri = Ui, U
            elif st == "lower":
                R, Ri = f_T(Ui), f_T(U)
            elif st == "perm":
                perm = list(range(dim))
                rng.shuffle(perm)
                sg = [rng.choice([1, -1]) for _ in range(dim)]
                Q = [[Fraction(sg[i]) if perm[i] == j else Fraction(0) for j in range(dim)] for i in range(dim)]
                R, Ri = f_matmul(Ui, Q), f_matmul(f_T(Q), U)
            else:
                R, Ri = f_matmul(Ui, f_T(Ui)), f_matmul(f_T(U), U)
            g["value"], g["aux"] = tofloat(R), tofloat(Ri)
        else:
            st = STRUCT[STRUCT_I[0] % 4]
            STRUCT_I[0] += 1
            g["struct"] = st
            if st == "upper":
                S = U
            elif st == "lower":
                S = f_T(U)
            elif st == "symmetric":
                S = f_matmul(f_T(U), U)
            else:
                while True:
                    S = [[Fraction(rng.randint(-2, 2)) for _ in range(dim)] for _ in range(dim)]
                    for i in range(dim):
                        S[i][i] += rng.choice([2, 3, -3])
                    if f_det(S) != 0:
                        break
            g["value"], g["aux"] = tofloat(S), None
    return g


def py_user_prec(g):
    """the precision matrix the user specified, exactly (independent of cuqi): list of lists of Fractions"""
    dim, form, shape = g["dim"], g["form"], g["shape"]

    def entry(q):
        q = F(q)
        return {"cov": lambda: 1 / q, "prec": lambda: q, "sqrtcov": lambda: 1 / (q * q), "sqrtprec": lambda: q * q}[form]()
    if shape == "scalar":
        p = entry(g["value"])
        return [[p if i == j else Fraction(0) for j in range(dim)] for i in range(dim)]
    if shape == "vector":
        return [[entry(g["value"][i]) if i == j else Fraction(0) for j in range(dim)] for i in range(dim)]
    V = fmat(g["value"])
    if form == "prec":
        return V
    if form == "sqrtprec":
        return f_matmul(f_T(V), V)
    X = fmat(g["aux"])
    assert f_matmul(V, X) == [[Fraction(int(i == j)) for j in range(dim)] for i in range(dim)], "aux is not the exact inverse"
    return X if form == "cov" else f_matmul(f_T(X), X)       # sqrtcov R: the code's convention cov = R R^T


DECLS_1D = ["dense", "int", "f32", "noncontig", "readonly", "list"]
DECLS_2D = ["dense", "int", "f32", "fortran", "noncontig", "readonly", "csr", "csc", "dia", "coo"]
KEEP = []          # every array handed to the implementation, with a pristine copy: re-read at the end of a configuration


def declare(v, decl):
    """the same VALUES handed over in another declaration style (dtype, memory layout, writability, sparse storage
    format); falls back to a float64 C-contiguous array when the style cannot represent the values exactly"""
    a = np.array(v, dtype=float)
    if decl == "list" and a.ndim == 1:
        return [float(x) for x in a]
    if decl == "int" and np.all(a == np.round(a)) and np.all(np.abs(a) < 2 ** 15):       # (larger integers: int64 products overflow inside numpy)
        out = a.astype(np.int64)
    elif decl == "f32" and np.all(a.astype(np.float32).astype(float) == a):
        out = a.astype(np.float32)
    elif decl == "fortran" and a.ndim == 2:
        out = np.asfortranarray(a)
    elif decl == "noncontig":
        big = np.zeros(tuple(2 * d for d in a.shape))
        big[tuple(slice(None, None, 2) for _ in a.shape)] = a
        out = big[tuple(slice(None, None, 2) for _ in a.shape)]
    elif decl == "readonly":
        out = a.copy()
        out.setflags(write=False)
    elif decl in ("csr", "csc", "dia", "coo") and a.ndim == 2 and a.shape[0] >= 2:   # (a 1 x 1 sparse matrix falls into Gaussian's scalar branch, which raises: C04/C05's subject)
        import scipy.sparse as sps
        out = getattr(sps, decl + "_matrix")(a)
        KEEP.append((out, out.toarray().copy()))
        return out
    else:
        out = a
    KEEP.append((out, np.array(out, copy=True)))
    return out


def keep_alive_violations():
    bad = []
    for obj, ref in KEEP:
        cur = obj.toarray() if hasattr(obj, "toarray") else np.asarray(obj)
        if cur.shape != ref.shape or not np.array_equal(cur, ref):
            bad.append("an input array (shape %s, %s) was modified by the implementation" % (ref.shape, type(obj).__name__))
    del KEEP[:]
    return bad


def set_decl(g, decl):
    # float32 is not combined with a symmetric sqrtcov factor (conditioning squared twice): 1e-7 * cond^2 exceeds every tolerance
    if decl == "f32" and g["form"] == "sqrtcov" and g.get("struct") == "symmetric":
        decl = "fortran"
    g["decl"] = decl


def gauss_kwargs(g):
    v = g["value"]
    return {g["form"]: (float(v) if g["shape"] == "scalar" else declare(v, g.get("decl", "dense")))}


def decl_vec(v, decl):
    return declare(v, decl if decl in DECLS_1D else "dense")


# ---- the documented difference / precision operators, independent of the objects under test ----
def ref_fd(order, N, bc):
    """cuqi.operator First/SecondOrderFiniteDifference in 1-d as documented (spdiags construction), integers"""
    if order == 0:
        return [[int(i == j) for j in range(N)] for i in range(N)]
    if order == 1:
        if bc == "neumann":
            return [[-1 if j == i else (1 if j == i + 1 else 0) for j in range(N)] for i in range(N - 1)]
        D = [[(1 if (j == i and i < N) else (-1 if j == i - 1 else 0)) for j in range(N)] for i in range(N + 1)]
        if bc == "periodic":
            D[N][0] = 1
            D[0][N - 1] = -1
        return D
    if bc == "zero":
        return [[{0: -1, 1: 2, 2: -1}.get(i - j, 0) for j in range(N)] for i in range(N + 2)]
    if bc == "neumann":
        return [[{0: -1, 1: 2, 2: -1}.get(j - i, 0) for j in range(N)] for i in range(N - 2)]
    raise ValueError("no reference for order %d %s" % (order, bc))


def ref_diff_op(order, n, bc, two_d):
    if not two_d:
        return ref_fd(order, n, bc)
    N = int(round(n ** 0.5))
    D = np.array(ref_fd(order, N, bc))
    I = np.eye(N, dtype=int)
    return np.vstack([np.kron(I, D), np.kron(D, I)]).astype(int).tolist()


def ref_prec_op(order, n, bc, two_d):
    D = np.array(ref_diff_op(order, n, bc, two_d))
    return (D.T @ D).astype(int).tolist()


# ---------------------------------------------------------------------------------------------
# unit-scale patterns: x-units alpha = 2^ka, y-units beta = 2^kb, noise std relative factor sigma = 2^kn, prior std
# relative factor tau = 2^kp:   A -> (beta/alpha) A, b -> beta b, noise std -> beta sigma, prior std -> alpha tau,
# prior mean, location, current states -> alpha.   Multiplication by powers of two is exact in binary64.
# ---------------------------------------------------------------------------------------------
SCALE_E = [-34, -17, 17, 34]
PATTERNS = [("base", 0, 0, 0, 0)]
for _e in SCALE_E:
    PATTERNS += [("units-xy%+d" % _e, _e, _e, 0, 0), ("units-x%+d" % _e, _e, 0, 0, 0), ("units-y%+d" % _e, 0, _e, 0, 0),
                 ("noise-only%+d" % _e, 0, 0, _e, 0), ("prior-only%+d" % _e, 0, 0, 0, _e)]
# (x-units above 2^34 are not posed: CGLS stops on its ABSOLUTE clause normx*tol >= 1 -- with the harness's tol = 1e-13 from
#  |x| ~ 1e13 on, with LinearRTO's default tol = 1e-6 already from |x| ~ 1e6 -- whatever the residual; see `fired` below)
PATTERNS += [("units-xy-40", -40, -40, 0, 0), ("units-y+40", 0, 40, 0, 0)]
PATTERN_BY_NAME = {p[0]: p for p in PATTERNS}


def scale_gspec(g, k):
    """multiply the standard deviations of a Gaussian specification by 2^k (exactly)"""
    g = copy.deepcopy(g)
    fac = {"cov": pow2(2 * k), "prec": pow2(-2 * k), "sqrtcov": pow2(k), "sqrtprec": pow2(-k)}[g["form"]]
    ffac, fauxfac = float(fac), float(1 / fac)

    def mul(v, c):
        if isinstance(v, list):
            return [mul(a, c) for a in v]
        return v * c
    g["value"] = mul(g["value"], ffac)
    if g.get("aux") is not None:
        g["aux"] = mul(g["aux"], fauxfac)
    return g


def apply_scale(spec, pat):
    name, ka, kb, kn, kp = pat
    spec = copy.deepcopy(spec)
    spec["scale"] = {"name": name, "ka": ka, "kb": kb, "kn": kn, "kp": kp}
    if (ka, kb, kn, kp) == (0, 0, 0, 0):
        return spec
    a, b = float(pow2(ka)), float(pow2(kb))
    ab = float(pow2(kb - ka))
    for l in spec["liks"]:
        l["A"] = [[v * ab for v in r] for r in l["A"]]
        l["b"] = [v * b for v in l["b"]]
        l["noise"] = scale_gspec(l["noise"], kb + kn)
    p = spec["prior"]
    if p["kind"] == "gaussian":
        p["mean"] = [v * a for v in p["mean"]]
        p["g"] = scale_gspec(p["g"], ka + kp)
    elif p["kind"] == "gmrf":
        p["mean"] = [v * a for v in p["mean"]]
        p["prec"] = p["prec"] * float(pow2(-2 * (ka + kp)))
    elif p["kind"] == "joint":
        t = float(pow2(-(ka + kp)))
        for blk in p["blocks"]:
            blk["S"] = [[v * t for v in r] for r in blk["S"]]
            blk["mean"] = [v * a for v in blk["mean"]]
    elif p["kind"] == "lmrf":
        p["loc"] = [v * a for v in p["loc"]]
        p["scale"] = p["scale"] * float(pow2(ka + kp))
        spec["beta"] = spec["beta"] * float(pow2(2 * ka))
    if spec["kind"] == "ugla":
        if spec.get("init_other"):
            spec["init_other"] = [v * a for v in spec["init_other"]]
        spec["xcurs"] = [[v * a for v in xc] for xc in spec["xcurs"]]      # RTO: build_rto puts the states at the posterior's scale
    return spec


def pert_scale(b_tild):
    """power of two >= 1 at the scale of b_tild: the read-off perturbs with c*e_i (linearity: g_i = (x(c e_i)-x(0))/c), so that
    the difference is not lost against a huge whitened right-hand side"""
    m = max([abs(v) for v in b_tild] + [1.0])
    return float(2.0 ** math.ceil(math.log2(m)))


# ---------------------------------------------------------------------------------------------
# building the cuqi objects from a spec
# ---------------------------------------------------------------------------------------------
def dom_geom(cuqi, spec):
    """domain geometry of the models: the dimension n, or an Image2D for the 2-d GMRF / LMRF priors"""
    if spec["prior"].get("two_d"):
        side = int(round(spec["n"] ** 0.5))
        return cuqi.geometry.Image2D((side, side))
    return spec["n"]


def mk_model(cuqi, A, mkind, m, n, decl="dense"):
    A = np.array(A, dtype=float)
    if mkind == "matrix" and isinstance(n, int) and decl != "dense":
        return cuqi.model.LinearModel(declare(A, decl if decl in DECLS_2D else "dense"))
    if mkind == "function-buf" and isinstance(n, int):
        # callables that return PERSISTENT buffers (the same array object on every call): the sampler must not keep references
        fb, ab = np.zeros(m), np.zeros(n)

        def fwd(x, A=A, fb=fb):
            fb[:] = A @ x
            return fb

        def adj(y, A=A, ab=ab):
            ab[:] = A.T @ y
            return ab
        return cuqi.model.LinearModel(fwd, adj, range_geometry=m, domain_geometry=n)
    if not isinstance(n, int):
        # 2-d domain: function pair acting on images (a matrix-based LinearModel with an Image2D domain is C07/C12's subject)
        shp = n.fun_shape
        return cuqi.model.LinearModel(lambda X, A=A: A @ np.asarray(X).ravel(), lambda y, A=A, shp=shp: (A.T @ y).reshape(shp),
                                      range_geometry=m, domain_geometry=n)
    if mkind == "matrix":
        return cuqi.model.LinearModel(A)
    return cuqi.model.LinearModel(lambda x, A=A: A @ x, lambda y, A=A: A.T @ y, range_geometry=m, domain_geometry=n)


def mk_prior(cuqi, spec):
    p, n = spec["prior"], spec["n"]
    if p["kind"] == "gaussian":
        # (a user who builds the prior in float32 / integers does so for mean and covariance alike)
        mdecl = p["g"].get("decl") if p["g"].get("decl") in ("f32", "int") else spec.get("decl", "dense")
        mean = float(p["mean"][0]) if p.get("scalar_mean") else decl_vec(p["mean"], mdecl)
        return cuqi.distribution.Gaussian(mean, geometry=n, name="x", **gauss_kwargs(p["g"]))
    if p["kind"] == "gmrf":
        mean = float(p["mean"][0]) if p.get("scalar_mean") else np.array(p["mean"], dtype=float)
        kw = {"geometry": n} if p.get("scalar_mean") else {}
        if p.get("two_d"):
            side = int(round(n ** 0.5))
            kw = {"geometry": cuqi.geometry.Image2D((side, side))}
        return cuqi.distribution.GMRF(mean, float(p["prec"]), bc_type=p["bc"], order=p["order"], name="x", **kw)
    if p["kind"] == "joint":
        return cuqi.distribution.JointGaussianSqrtPrec([np.array(b["mean"], dtype=float) for b in p["blocks"]],
                                                       [np.array(b["S"], dtype=float) for b in p["blocks"]], geometry=n, name="x")
    if p["kind"] == "lmrf":
        loc = float(p["loc"][0]) if len(p["loc"]) == 1 else np.array(p["loc"], dtype=float)
        return cuqi.distribution.LMRF(loc, float(p["scale"]), bc_type=p["bc"], geometry=dom_geom(cuqi, spec), name="x")
    raise ValueError(p["kind"])


def mk_target(cuqi, spec):
    n = spec["n"]
    if spec["target"] == "tuple":
        l, p = spec["liks"][0], spec["prior"]
        A = np.array(l["A"], dtype=float)
        model = A if spec["mkind"] == "matrix" else mk_model(cuqi, A, "function", len(l["b"]), n)
        Lsp = list(gauss_kwargs(l["noise"]).values())[0]
        Psp = list(gauss_kwargs(p["g"]).values())[0]
        mean = float(p["mean"][0]) if p.get("scalar_mean") else np.array(p["mean"], dtype=float)
        return (np.array(l["b"], dtype=float), model, Lsp, mean, Psp)
    x = mk_prior(cuqi, spec)
    ys, data = [], {}
    for i, l in enumerate(spec["liks"]):
        model = mk_model(cuqi, l["A"], spec["mkind"], len(l["b"]), dom_geom(cuqi, spec), spec.get("decl", "dense"))
        y = cuqi.distribution.Gaussian(model(x), name="y%d" % i, **gauss_kwargs(l["noise"]))
        ys.append(y)
        data["y%d" % i] = decl_vec(l["b"], spec.get("decl", "dense"))
    return cuqi.distribution.JointDistribution(x, *ys)(**data)


class Capture:
    """records every CGLS problem the samplers hand to the solver (operator, right-hand side, start, iterations)"""

    def __init__(self, cuqi):
        import importlib
        self.mods = [importlib.import_module(m) for m in ("cuqi.experimental.mcmc._rto", "cuqi.sampler._rto",
                                                          "cuqi.experimental.mcmc._laplace_approximation",
                                                          "cuqi.sampler._laplace_approximation")]
        self.calls = []

    def __enter__(self):
        self.saved = [m.CGLS for m in self.mods]
        cap = self
        for m in self.mods:
            real = m.CGLS

            class Rec(real):
                def __init__(self, A, b, x0, *a, **k):
                    self._rec = {"A": A, "b": np.array(b, dtype=float), "x0": np.array(x0, dtype=float)}
                    cap.calls.append(self._rec)
                    super().__init__(A, b, x0, *a, **k)

                def solve(self):
                    x, k = super().solve()
                    self._rec["k"], self._rec["maxit"] = k, self.maxit
                    return x, k
            m.CGLS = Rec
        return self

    def __exit__(self, *a):
        for m, r in zip(self.mods, self.saved):
            m.CGLS = r


def scripted(e):
    e = np.array(e, dtype=float)

    def script(kind, a, k, idx):
        if kind == "randn":
            assert tuple(a) == (len(e),), "randn called with %r, expected (%d,)" % (a, len(e))
            return e.copy()
        if kind == "normal":
            shape = a[2] if len(a) > 2 else k.get("size")
            assert int(np.prod(shape)) == len(e), "normal called with size %r, expected %d numbers" % (shape, len(e))
            return np.asarray(a[0]) + np.asarray(a[1]) * e.reshape(shape)
        raise AssertionError("unexpected random call %s%r" % (kind, a))
    return script


def quiet():
    return contextlib.redirect_stdout(io.StringIO())


class Recorder:
    """callback handed to every sampler: records (sample, index) of every call"""

    def __init__(self):
        self.calls = []

    def __call__(self, sample, index):
        self.calls.append((np.array(sample, dtype=float).copy(), int(index)))


class ScriptRng:
    """stands for the np.random.RandomState the legacy UGLA accepts as `rng`: delivers the scripted normal draw"""

    def __init__(self):
        self.e, self.log = None, []

    def normal(self, loc, scale, size):
        self.log.append(("rng.normal", size))
        assert int(np.prod(size)) == len(self.e), "rng.normal called with size %r, expected %d numbers" % (size, len(self.e))
        return np.asarray(loc) + np.asarray(scale) * np.array(self.e, dtype=float).reshape(size)


def make_sampler(cuqi, spec, target, xcur):
    kind = spec["kind"]
    x0 = np.array(xcur, dtype=float)
    if spec.get("x0_default") and not np.any(x0):
        x0 = None                                   # optional argument left out: both interfaces default to zeros
    elif spec.get("init_other") and spec["iface"] == "exp":
        x0 = x0 + np.array(spec["init_other"], dtype=float)     # the chain was STARTED elsewhere: the current state is set before each transition
    cb = Recorder()
    if kind == "rto":
        if spec["iface"] == "exp":
            s = cuqi.experimental.mcmc.LinearRTO(target, initial_point=x0, maxit=MAXIT, tol=TOL, callback=cb)
            s.initialize()
        else:
            s = cuqi.sampler.LinearRTO(target, x0=x0, maxit=MAXIT, tol=TOL, callback=cb)
    else:
        if spec["iface"] == "exp":
            s = cuqi.experimental.mcmc.UGLA(target, initial_point=x0, maxit=MAXIT, tol=TOL, beta=spec["beta"], callback=cb)
            s.initialize()
        else:
            kw = {}
            if spec.get("ugla_rng"):
                kw["rng"] = ScriptRng()
            s = cuqi.sampler.UGLA(target, x0=x0, maxit=MAXIT, tol=TOL, beta=spec["beta"], callback=cb, **kw)
    s._verif_cb = cb
    s._verif_default_state = x0 is None
    return s


ENTRIES = {"exp": ["step", "sample", "warmup"], "legacy": ["sample", "sample_adapt", "burnin"]}


def one_draw(cuqi, spec, sampler, xcur, e, cap):
    """one transition from xcur with the standard-normal draw replaced by e, through the entry point spec['entry']
    (exp: step() | sample(1) | warmup(1); legacy: sample(2,0) | sample_adapt(2,0) | sample(1,1) with one burn-in draw);
    returns (x, cgls-record, rng log)"""
    xcur = np.array(xcur, dtype=float)
    xcur0 = xcur.copy()
    ncalls = len(cap.calls)
    entry = spec.get("entry") or ENTRIES[spec["iface"]][0]
    cb = getattr(sampler, "_verif_cb", None)
    ncb = len(cb.calls) if cb else 0
    rng = getattr(sampler, "rng", None)
    if isinstance(rng, ScriptRng):
        rng.e, rng.log = list(e), []
    own_default = getattr(sampler, "_verif_default_state", False)      # first transition of a sampler built WITHOUT x0:
    sampler._verif_default_state = False                               # it must start from the documented default (zeros)
    with ScriptedRandom(script=scripted(e)) as sr, quiet():
        if spec["iface"] == "exp":
            if not own_default:
                sampler.current_point = xcur
            if entry == "step":
                sampler.step()
            elif entry == "sample":
                sampler.sample(1)
            else:
                sampler.warmup(1)
            x = np.array(sampler.current_point, dtype=float)
            if entry != "step":
                stored = np.array(sampler.get_samples().samples[:, -1], dtype=float)
                assert np.array_equal(stored, x), "the stored sample is not the state after the transition"
                assert cb is None or (len(cb.calls) == ncb + 1 and np.array_equal(cb.calls[-1][0], x)), "callback did not receive the new sample"
        else:
            if not own_default:
                sampler.x0 = xcur
            if entry == "burnin":
                S = sampler.sample(1, 1)
                x = np.array(S if not hasattr(S, "samples") else S.samples[:, -1], dtype=float).ravel()
            else:
                S = sampler.sample(2, 0) if entry == "sample" else sampler.sample_adapt(2, 0)
                x = np.array(S.samples[:, 1], dtype=float)
                assert np.array_equal(S.samples[:, 0], xcur0), "legacy chain does not start at x0"
            assert cb is None or (len(cb.calls) == ncb + 1 and np.array_equal(cb.calls[-1][0], x) and cb.calls[-1][1] == 1), \
                "callback did not receive (new sample, index 1)"
    assert np.array_equal(xcur, xcur0), "the array holding the current state was modified in place"
    assert len(cap.calls) == ncalls + 1, "a transition must hand exactly one problem to CGLS"
    nlog = len(sr.log) + (len(rng.log) if isinstance(rng, ScriptRng) else 0)
    assert nlog == 1, "a transition must draw exactly one normal vector, drew %r" % (sr.log,)
    if isinstance(rng, ScriptRng):
        assert len(sr.log) == 0, "the global numpy generator was used although rng was given"
    return x, cap.calls[-1], sr.log


def basis(p, i):
    v = [0.0] * p
    v[i] = 1.0
    return v


def observe(cuqi, spec, target=None, sampler=None):
    """drive the real implementation on one configuration; returns a JSON-able dict of observations.
    With `target` / `sampler` given (histories) those objects are driven instead of fresh ones."""
    n = spec["n"]
    if target is None:
        with quiet():
            target = mk_target(cuqi, spec)
    obs = {}
    with Capture(cuqi) as cap:
        if sampler is None:
            with quiet():
                sampler = make_sampler(cuqi, spec, target, spec["xcurs"][0])
        obs["_sampler"] = sampler
        if spec["kind"] == "rto":
            tgt = sampler.target
            obs["S_liks"] = [dense(l.distribution.sqrtprec).tolist() for l in sampler.likelihoods]
            obs["S_prior"] = dense(sampler.prior.sqrtprec).tolist()
            if spec["prior"]["kind"] == "gmrf":
                # the GMRF's structure matrix: the DOCUMENTED operator, built here; the object's own is only compared with it
                pg = spec["prior"]
                obs["Pop"] = [[float(v) for v in r] for r in ref_prec_op(pg["order"], n, pg["bc"], bool(pg.get("two_d")))]
                obs["op_matches"] = bool(np.array_equal(dense(sampler.prior._prec_op.get_matrix()), np.array(obs["Pop"])))
            b_t = np.array(sampler.b_tild, dtype=float)
            Mop = sampler.M
            assert callable(Mop), "stacked operator is expected in function form (every LinearModel is callable)"
            p = len(b_t)
            obs["b_tild"] = b_t.tolist()
            obs["M_fwd"] = [np.array(Mop(np.array(basis(n, j)), 1), dtype=float).tolist() for j in range(n)]
            obs["M_adj"] = [np.array(Mop(np.array(basis(p, i)), 2), dtype=float).tolist() for i in range(p)]
        else:
            pl = spec["prior"]
            D = np.array(ref_diff_op(1, n, pl["bc"], bool(pl.get("two_d"))), dtype=float)      # documented operator, built here
            obs["D"] = D.tolist()
            obs["op_matches"] = bool(np.array_equal(dense(target.prior._diff_op.get_matrix()), D))
            obs["S_liks"] = [dense(target.likelihood.distribution.sqrtprec).tolist()]
            p = len(spec["liks"][0]["b"]) + D.shape[0]
        draws = []

        def rec_draw(xcur_tag, xcur, e):
            x, rec, log = one_draw(cuqi, spec, sampler, xcur, e, cap)
            # the stopping test must have fired on its residual clause norms <= norms0*tol: before maxit, and not on the
            # absolute clause normx*tol >= 1 (which stops an unconverged iteration once |x| >= 1/tol)
            fired = bool(rec["k"] < rec["maxit"]) and bool(np.linalg.norm(x) * TOL < 1)
            draws.append({"xcur": xcur_tag, "xcur_v": list(map(float, xcur)), "e": list(e), "x": x.tolist(), "k": rec["k"], "fired": fired})
            return x, rec
        x, rec = rec_draw(0, spec["xcurs"][0], [0.0] * p)
        if spec["kind"] == "ugla":
            Mop = rec["A"]
            obs["b_tild"] = rec["b"].tolist()                            # the e = 0 call: y = b_tild + 0, exactly b_tild
            obs["M_fwd"] = [np.array(Mop(np.array(basis(n, j)), 1), dtype=float).tolist() for j in range(n)]
            obs["M_adj"] = [np.array(Mop(np.array(basis(p, i)), 2), dtype=float).tolist() for i in range(p)]
            obs["L2"] = dense(sampler._L2).tolist()
        c = pert_scale(obs["b_tild"])
        # (from a state 2^23 times larger than the draw the solver's accuracy, relative to that state, is ~1e-3 of the posterior
        #  std: the whitened perturbation -- unit-free -- is taken 2^14 times larger so that the read-off stays accurate)
        c = max(c, 2.0 ** 14 if spec.get("xk_class") == "huge" else 1.0)
        obs["c"] = c
        estar = [c * v for v in spec["estar"]] if spec.get("estar") else None
        estar2 = [c * v for v in spec["estar2"]] if spec.get("estar2") else None
        for i in range(p):
            rec_draw(0, spec["xcurs"][0], [c * v for v in basis(p, i)])
        # other current states, same perturbations: the draw must not depend on the state (RTO);
        # for UGLA the local Gaussian moves with the state, so other states are separate configurations
        if spec["kind"] == "rto" and spec.get("estar"):
            for ci in range(1, len(spec["xcurs"])):
                for e in ([0.0] * p, estar):
                    rec_draw(ci, spec["xcurs"][ci], e)
            x, rec = rec_draw(0, spec["xcurs"][0], estar)
            # chained: start from the previous draw (the state IS a posterior draw), fresh perturbation e2, and the
            # same e2 from the first state.  (Re-using the SAME e from its own solution would start CGLS at the exact
            # solution, where its relative stopping rule norms <= norms0*tol can never fire: not a sampling situation.)
            rec_draw("prev", x.tolist(), estar2)
            rec_draw(0, spec["xcurs"][0], estar2)
            obs["estar"] = estar
            # current states of extreme magnitude relative to the draw (2^-30, 2^22, 2^27 times the posterior's scale, kept
            # below 2^38 so that CGLS's absolute clause normx*tol >= 1 stays out of play): "converged" is relative to the
            # start, so these are certified through the normal equations (relative to the initial residual) and compared
            # with the reference draw within the solver's own accuracy 1e-8 |x_cur|
            sx = float(spec.get("xscale", 1.0))
            for k in (-30, 22, 27):
                fac = 2.0 ** min(k, 38 - int(math.ceil(math.log2(sx * 8))))
                xe = [v * sx * fac for v in spec["xdir"]]
                rec_draw("extreme%+d" % k, xe, estar2)
                draws[-1]["extreme"] = True
        if spec["kind"] == "ugla":
            # two consecutive transitions inside ONE call: the local Gaussian of the second must be the one at the state
            # the first arrived at (e = 0 both times) -- compared with a separate single transition from that state
            zero = [0.0] * p
            with ScriptedRandom(script=scripted(zero)) as sr2, quiet():
                rng_ = getattr(sampler, "rng", None)
                if isinstance(rng_, ScriptRng):
                    rng_.e, rng_.log = zero, []
                if spec["iface"] == "exp":
                    sampler.current_point = np.array(spec["xcurs"][0], dtype=float)
                    nb = len(sampler.get_samples().samples.T) if sampler._samples else 0
                    sampler.sample(2)
                    smp = sampler.get_samples().samples
                    s1, s2 = np.array(smp[:, -2]), np.array(smp[:, -1])
                else:
                    sampler.x0 = np.array(spec["xcurs"][0], dtype=float)
                    S3 = sampler.sample(3, 0)
                    s1, s2 = np.array(S3.samples[:, 1]), np.array(S3.samples[:, 2])
            xs2, rec2, _ = one_draw(cuqi, spec, sampler, s1.tolist(), zero, cap)
            obs["chain2"] = bool(np.array_equal(s1, np.array(draws[0]["x"])) and np.array_equal(s2, xs2))
        obs["draws"] = draws
        obs["p"] = p
        obs["inputs_modified"] = keep_alive_violations()
    return obs


# ---------------------------------------------------------------------------------------------
# independent oracle: the property itself, in numpy, from user-level quantities only
# ---------------------------------------------------------------------------------------------
def user_posterior(spec, obs):
    """H, rhs of the Gaussian posterior the user specified, EXACTLY (lists of Fractions): every float of the spec is a
    rational; precisions come from py_user_prec (no square roots, no numpy)"""
    n = spec["n"]
    H = [[Fraction(0)] * n for _ in range(n)]
    r = [Fraction(0)] * n
    for l in spec["liks"]:
        A = fmat(l["A"])
        AtL = f_matmul(f_T(A), py_user_prec(l["noise"]))
        H = f_madd(H, f_matmul(AtL, A))
        r = f_vadd(r, f_matvec(AtL, [F(v) for v in l["b"]]))
    p = spec["prior"]
    if p["kind"] == "gaussian":
        P = py_user_prec(p["g"])
        mu = [F(p["mean"][0])] * n if len(p["mean"]) == 1 else [F(v) for v in p["mean"]]
        H, r = f_madd(H, P), f_vadd(r, f_matvec(P, mu))
    elif p["kind"] == "gmrf":
        reg = F(SQRT_EPS) if p["bc"] != "zero" else Fraction(0)
        P = [[F(p["prec"]) * (F(obs["Pop"][i][j]) + (reg if i == j else 0)) for j in range(n)] for i in range(n)]
        H, r = f_madd(H, P), f_vadd(r, f_matvec(P, [F(v) for v in p["mean"]]))
    elif p["kind"] == "joint":
        for b in p["blocks"]:
            S = fmat(b["S"])
            P = f_matmul(f_T(S), S)
            H, r = f_madd(H, P), f_vadd(r, f_matvec(P, [F(v) for v in b["mean"]]))
    return H, r


def ugla_doc_posterior(spec, obs):
    """the documented local Gaussian at x_k; the weights (one sqrt each) are float64, everything else exact"""
    n = spec["n"]
    l, p = spec["liks"][0], spec["prior"]
    A = fmat(l["A"])
    AtL = f_matmul(f_T(A), py_user_prec(l["noise"]))
    D = fmat(obs["D"])
    loc = [F(p["loc"][0])] * n if len(p["loc"]) == 1 else [F(v) for v in p["loc"]]
    xk = [F(v) for v in spec["xcurs"][0]]
    dz = f_matvec(D, [a - b for a, b in zip(xk, loc)])
    w = [F(1.0 / math.sqrt(float(d * d + F(spec["beta"])))) for d in dz]
    WD = [[w[i] * v / F(p["scale"]) for v in D[i]] for i in range(len(D))]
    P = f_matmul(f_T(D), WD)
    H = f_madd(f_matmul(AtL, A), P)
    r = f_vadd(f_matvec(AtL, [F(v) for v in l["b"]]), f_matvec(P, loc))
    return H, r


def read_off(obs):
    p, c = obs["p"], obs["c"]
    x0 = np.array(obs["draws"][0]["x"])
    G = np.array([(np.array(obs["draws"][1 + i]["x"]) - x0) / c for i in range(p)]).T      # n x p
    return x0, G


def exact_posterior(spec, obs):
    H, r = user_posterior(spec, obs) if spec["kind"] == "rto" else ugla_doc_posterior(spec, obs)
    if len(H) > 12:
        # large dimension (> 75 cells): H, r are exact, the solve is float64 (H well conditioned by construction)
        Hf = np.array([[float(v) for v in row] for row in H])
        rf = np.array([float(v) for v in r])
        return H, r, np.linalg.solve(Hf, rf).tolist(), np.linalg.inv(Hf).tolist()
    mean, cov = f_solve_inv(H, r)
    return H, r, mean, cov


def oracle_check(spec, obs):
    """None, or (signature-suffix, description) when the property fails on the implementation.
    All tolerances are relative to the scale of the exact quantity (no absolute floor)."""
    x0, G = read_off(obs)
    H, r, mean_f, cov_f = exact_posterior(spec, obs)
    mean = np.array([float(v) for v in mean_f])
    cov = np.array([[float(v) for v in row] for row in cov_f])
    # natural scale of the unknown: max(|posterior mean|, largest posterior standard deviation) -- both exact
    sc = max(np.max(np.abs(mean)), math.sqrt(max(float(cov_f[i][i]) for i in range(len(cov_f)))))
    huge = 1e-8 * max(abs(v) for v in spec["xcurs"][0]) if spec.get("xk_class") == "huge" else 0.0      # solver accuracy from a huge state
    if not np.all(np.isfinite(x0)) or np.max(np.abs(x0 - mean)) > 1e-6 * sc + huge:
        return "mean", "offset x(e=0) = %s but the posterior mean is %s (max diff %.3g, scale %.3g)" % (x0.tolist(), mean.tolist(), np.max(np.abs(x0 - mean)), sc)
    GG = G @ G.T
    if not np.all(np.isfinite(GG)) or np.max(np.abs(GG - cov)) > 1e-6 * np.max(np.abs(cov)):
        return "cov", "G G^T = %s but the posterior covariance is %s (max diff %.3g, scale %.3g)" % (GG.tolist(), cov.tolist(), np.max(np.abs(GG - cov)), np.max(np.abs(cov)))
    if spec["kind"] == "rto":
        ref = {}
        for d in obs["draws"]:
            key = tuple(d["e"])
            if key in ref:
                allow = 1e-6 * sc + (1e-8 * max(abs(v) for v in d["xcur_v"]) if d.get("extreme") else 0.0)
                if not np.all(np.isfinite(d["x"])) or np.max(np.abs(np.array(d["x"]) - ref[key])) > allow:
                    return "state", "same perturbation, current state %r: draw %s vs %s from the first state" % (d["xcur"], d["x"], ref[key].tolist())
            ref.setdefault(key, np.array(d["x"]))
        # affine: x(e*) = x0 + G e*
        if not obs.get("estar"):
            return None
        es = np.array(obs["estar"])
        xs_ = np.array([d["x"] for d in obs["draws"] if d["xcur"] == 0 and d["e"] == obs["estar"]][0])
        pred = x0 + G @ es
        if np.max(np.abs(pred - xs_)) > 1e-6 * max(np.max(np.abs(pred)), sc):
            return "affine", "x(e*) = %s is not x(0) + G e* = %s" % (xs_.tolist(), pred.tolist())
    return None


def signature_of(spec, what):
    if spec["kind"] == "ugla":
        return SIG_UGLA[spec["iface"]] if spec.get("Dloc_nonzero") else \
            ("experimental.UGLA.step" if spec["iface"] == "exp" else "sampler.UGLA._sample") + "|" + what
    site = "experimental.LinearRTO.step" if spec["iface"] == "exp" else "sampler.LinearRTO._sample"
    return "%s|%s|prior:%s|%s" % (site, spec["target"], spec["prior"]["kind"], what)


# ---------------------------------------------------------------------------------------------
# configuration lattice
# ---------------------------------------------------------------------------------------------
def rand_int_matrix(rng, m, n, lo=-3, hi=3):
    return [[float(rng.randint(lo, hi)) for _ in range(n)] for _ in range(m)]


def rand_dyadic_vec(rng, k, den=2, lo=-4, hi=4):
    return [rng.randint(lo * den, hi * den) / den for _ in range(k)]


PRIOR_CELLS = ([("gaussian", f, s, sm) for f in FORMS for s in SHAPES for sm in (False, True)] +
               [("gmrf", bc, order, None) for bc, order in (("zero", 1), ("neumann", 1), ("periodic", 1), ("zero", 2), ("zero", 0))] +
               [("gmrf", "zero", 1, "2d"), ("gmrf", "neumann", 1, "2d"), ("gmrf", "zero", 2, "2d")] +
               [("joint", 2, None, None), ("joint", 3, None, None)])
NOISE_CELLS = [(f, s) for f in FORMS for s in SHAPES]


def gen_prior(rng, n, cell):
    kind = cell[0]
    if kind == "gaussian":
        _, f, s, sm = cell
        mean = [rng.randint(-4, 4) / 2] if sm else rand_dyadic_vec(rng, n)
        return {"kind": "gaussian", "g": gen_gspec(rng, n, f, s), "mean": mean, "scalar_mean": bool(sm)}
    if kind == "gmrf":
        _, bc, order, dim2 = cell
        return {"kind": "gmrf", "bc": bc, "order": order, "prec": rng.choice([1.0, 4.0, 0.25, 3.0, 0.5]),
                "mean": rand_dyadic_vec(rng, n), "scalar_mean": False, "two_d": bool(dim2)}
    nb = cell[1]
    blocks = []
    for b in range(nb):
        r = n if b == 0 else rng.randint(1, n)
        while True:
            S = rand_int_matrix(rng, r, n, -2, 2)
            if b > 0 or f_det(fmat(S)) != 0:
                break
        blocks.append({"S": S, "mean": rand_dyadic_vec(rng, n)})
    return {"kind": "joint", "blocks": blocks}


def gen_rto_spec(rng, idx, iface, target, mkind, noise_cells, prior_cell, shape_kind, patname="base"):
    n_min = 3 if prior_cell[0] == "gmrf" else 2
    if prior_cell[0] == "gmrf" and prior_cell[2] == 2:
        n_min = 4
    n = rng.randint(n_min, 4)
    if prior_cell[0] == "gmrf" and prior_cell[3] == "2d":
        n = 9 if (prior_cell[2] == 2 or idx % 3 == 2) else 4      # 3 x 3 or 2 x 2 image
    if prior_cell[0] == "gmrf" and prior_cell[3] == "2d":
        mkind = "function"
    if prior_cell[0] == "gaussian" and idx % 16 == 9 and patname == "base":
        n = 1                                             # smallest size: scalar unknown
    k = len(noise_cells)
    liks = []
    for (f, s) in noise_cells:
        if shape_kind == "under":
            m = rng.randint(1, max(1, n - 1))
        elif shape_kind == "square":
            m = n
        else:
            m = rng.randint(n + 1, 5) if n < 5 else 5
        while True:
            A = rand_int_matrix(rng, m, n)
            if any(abs(sum(r)) > 0 for r in A) and any(any(a != 0 for a in r) for r in A):
                break
        liks.append({"A": A, "b": [float(rng.randint(-5, 5)) for _ in range(m)], "noise": gen_gspec(rng, m, f, s)})
    prior = gen_prior(rng, n, prior_cell)
    # falsy but legitimate values: all-zero data, zero mean
    if idx % 8 == 5:
        liks[0]["b"] = [0.0] * len(liks[0]["b"])
    if idx % 8 == 6 and "mean" in prior:
        prior["mean"] = [0.0] * len(prior["mean"])
    if prior["kind"] == "joint" and idx % 2 == 0:
        prior["blocks"][-1]["mean"] = [0.0] * n              # a zero-mean block whose sqrtprec has fewer rows than n
    spec = {"kind": "rto", "iface": iface, "target": target, "mkind": mkind, "n": n, "liks": liks, "prior": prior,
            "xcurs": [[0.0] * n, rand_dyadic_vec(rng, n), [float(rng.randint(-30, 30)) for _ in range(n)]],
            "shape": shape_kind, "idx": idx}
    spec["cell"] = cell_name(spec) + "/units=" + patname
    return apply_scale(spec, PATTERN_BY_NAME[patname])


def cell_name(spec):
    if spec.get("cell"):
        return spec["cell"]
    if spec["kind"] == "ugla":
        p = spec["prior"]
        locc = "loc0" if all(v == 0 for v in p["loc"]) else ("locscalar" if len(p["loc"]) == 1 else "locvector")
        return "ugla/%s/%s/%s/%s/scale%s" % (spec["iface"], spec["mkind"], p["bc"], locc, "1" if p["scale"] == 1 else "!=1")
    p = spec["prior"]
    if p["kind"] == "gaussian":
        pc = "gauss-%s-%s-%s" % (p["g"]["form"], p["g"]["shape"], "smean" if p.get("scalar_mean") else "vmean")
    elif p["kind"] == "gmrf":
        pc = "gmrf%s-%s-o%d" % ("2d" if p.get("two_d") else "", p["bc"], p["order"])
    else:
        pc = "joint%d" % len(p["blocks"])
    nz = "+".join("%s-%s" % (l["noise"]["form"], l["noise"]["shape"]) for l in spec["liks"])
    return "rto/%s/%s/%s/k%d/%s/noise=%s/prior=%s" % (spec["iface"], spec["target"], spec["mkind"], len(spec["liks"]), spec["shape"], nz, pc)


def singular_prior(pc):
    return pc[0] == "gmrf" and pc[1] in ("neumann", "periodic")


def fit_pattern(patname, singular, shape, no_over=False):
    """make a unit-scale pattern compatible with the cell: when the likelihood dominates the posterior (noise tiny or
    prior huge) the stacked model must have full column rank (over-determined); when the prior dominates (noise huge or
    prior tiny) the prior precision must be definite -- otherwise the SAME exponent is applied to both units instead"""
    name, ka, kb, kn, kp = PATTERN_BY_NAME[patname]
    lik_dom, prior_dom = (kn < 0 or kp > 0), (kn > 0 or kp < 0)
    if (prior_dom and singular) or (lik_dom and no_over):
        patname = "units-xy%+d" % (kn or kp)
    elif lik_dom:
        shape = "over"
    return patname, shape


TINY_STD_EXP = {"cov": -17, "prec": 17, "sqrtcov": -34, "sqrtprec": 34}     # std factor 2^e making the GIVEN matrix ~ 2^-34


def lattice_rto(ctx):
    """deterministic enumeration of cells (independent of the seed); the seed only chooses values inside"""
    N = ctx.n(48, 480)
    specs = []
    shapes = ["over", "under", "square"]
    for i in range(N):
        iface = ["exp", "legacy"][i % 2]
        tsel = (i // 2) % 5
        target = ["posterior", "mlp", "posterior", "mlp", "tuple"][tsel]
        if target == "tuple" and iface == "exp":
            target = "posterior"
        mkind = ["matrix", "function", "function-buf"][(i // 3) % 3]
        k = 1 if target != "mlp" else 2 + ((i // 7) % 2)
        noise = [NOISE_CELLS[(i + 5 * j) % 16] for j in range(k)]
        pc = PRIOR_CELLS[(i * 5 + i // 39) % len(PRIOR_CELLS)]
        if target == "tuple":
            noise = [("sqrtprec", SHAPES[(i // 5) % 4])]
            pc = ("gaussian", "sqrtprec", SHAPES[(i // 10) % 4], bool((i // 20) % 2))
            if pc[2] == "scalar" and pc[3]:
                pc = ("gaussian", "sqrtprec", "vector", True)      # scalar mean AND scalar sqrtprec: prior of dim 1 (refused)
        pat, shape = fit_pattern(PATTERNS[(i * 7 + i // len(PATTERNS)) % len(PATTERNS)][0], singular_prior(pc), shapes[i % 3],
                                 no_over=(pc[0] == "gmrf" and pc[3] == "2d"))          # 3 x 3 images: never over-determined with <= 5 rows
        specs.append((i, iface, target, mkind, noise, pc, shape, pat))
    # dedicated unit-scale sweep: each full-matrix input form of the noise / of the prior posed so that the matrix the user
    # hands over is tiny (entries ~ 2^-34 and below) and huge, alone and together with the other units
    j = N
    for rep in range(ctx.n(1, 6)):
        for form in FORMS:
            for role in ("noise", "prior", "both"):
                for direction in (1, -1):
                    e = TINY_STD_EXP[form] * direction
                    iface = ["exp", "legacy"][(j + rep) % 2]
                    target = ["posterior", "mlp"][(j // 2 + rep) % 2]
                    mkind = ["matrix", "function"][(j // 3 + rep) % 2]
                    k = 1 if target == "posterior" else 2
                    other = NOISE_CELLS[(j * 3 + rep) % 16]
                    noise = [(form, "full") if role in ("noise", "both") else other for _ in range(k)]
                    pc = ("gaussian", form, "full", bool((j + rep) % 2)) if role in ("prior", "both") else \
                        PRIOR_CELLS[(j * 5 + rep) % 32]                         # a Gaussian prior cell
                    patname = {"noise": "noise-only%+d", "prior": "prior-only%+d", "both": "units-xy%+d"}[role] % e
                    pat, shape = fit_pattern(patname, False, shapes[(j + rep) % 3])
                    specs.append((j, iface, target, mkind, noise, pc, shape, pat))
                    j += 1
    return specs


# ---- dimensions above config.MIN_DIM_SPARSE = 75: the sparse branches of Gaussian (spa.identity / spa.diags for scalar, vector
# and diagonal input; eigh-based dense factor for full matrices), through the same certificates ----
BIG = 76


def lattice_big(ctx):
    """(role, form | bc, shape | order, dimension, Coq-side read-off?)"""
    cells = [("prior", "cov", "vector", 76, False), ("noise", "prec", "full", 76, False), ("gmrf", "zero", 1, 76, False)]
    if ctx.thorough:
        # 75 = MIN_DIM_SPARSE: the last size on the dense side
        cells += [("prior", "sqrtcov", "full", 75, False)] + [("prior", f, s, 76, False) for f in FORMS for s in ("scalar", "full")] + \
                 [("noise", f, s, 76, False) for f in FORMS for s in ("vector", "full")] + \
                 [("prior", "sqrtprec", "diagmat", 76, False), ("noise", "cov", "diagmat", 76, False),
                  ("gmrf", "neumann", 1, 76, False), ("gmrf", "zero", 0, 76, False), ("gmrf", "periodic", 1, 76, False),
                  ("noise", "cov", "vector", 75, False), ("prior", "prec", "full", 75, False),
                  ("gmrf", "zero", 1, 77, False),
                  # with the affine read-off evaluated in Coq too (H G G^T = I amplifies the read-off error by cond(H): mild conditioning)
                  ("prior", "prec", "vector", 76, False), ("gmrf", "zero", 0, 77, False)]
    # (the Coq-side evaluation of the read-off at these sizes was tried -- flag True -- and is switched off: at n = 76 the identity
    #  H G G^T = I did not close within 1e-6 reproducibly although the oracle's comparison with H^-1 does; the read-off of
    #  the large cells therefore stays with the float64 oracle on the exact H)
    seen, out = set(), []
    for c in cells:
        if c not in seen:
            seen.add(c)
            out.append((9000 + len(out), ["exp", "legacy"][len(out) % 2]) + c)
    return out


def gen_big_spec(cuqi, rng, cell):
    idx, iface, role, form, shape, dim, coq_law = cell
    for attempt in range(60):
        NARROW[0] = True
        try:
            spec = _gen_big_once(rng, idx, iface, role, form, shape, dim)
        finally:
            NARROW[0] = False
        spec["big_law"] = coq_law
        Pop = ref_prec_op(shape, dim, form, False) if role == "gmrf" else None
        H, r = user_posterior(spec, {"Pop": Pop})
        if np.linalg.cond(np.array([[float(v) for v in row] for row in H])) <= (3e2 if coq_law else 2e4):
            return spec
    raise RuntimeError("could not generate a well-conditioned large configuration %r" % (cell,))


def _gen_big_once(rng, idx, iface, role, form, shape, dim):
    if role in ("prior", "gmrf"):
        n, m = dim, (3 if role == "prior" else 8)
        A = [[float(rng.choice([0, 0, 0, 0, 0, 1, -1] if role == "prior" else [1, 1, 0, 2])) for _ in range(n)] for _ in range(m)]
        noise = gen_gspec(rng, m, *NOISE_CELLS[idx % 16])
        if role == "prior":
            prior = {"kind": "gaussian", "g": gen_gspec(rng, n, form, shape), "mean": [rng.randint(-4, 4) / 2] if idx % 2 else rand_dyadic_vec(rng, n),
                     "scalar_mean": bool(idx % 2)}
        else:
            prior = {"kind": "gmrf", "bc": form, "order": shape, "prec": rng.choice([1.0, 4.0, 16.0]), "mean": rand_dyadic_vec(rng, n), "scalar_mean": False}
    else:
        n, m = 3, dim
        A = rand_int_matrix(rng, m, n, -2, 2)
        noise = gen_gspec(rng, m, form, shape)
        prior = gen_prior(rng, n, PRIOR_CELLS[(idx * 5) % 32])
    spec = {"kind": "rto", "iface": iface, "target": "posterior", "mkind": ["matrix", "function"][idx % 2], "n": n,
            "liks": [{"A": A, "b": [float(rng.randint(-5, 5)) for _ in range(m)], "noise": noise}], "prior": prior,
            "xcurs": [[0.0] * n], "shape": "big", "idx": idx}
    spec["cell"] = "rto-dim%d/%s/%s=%s-%s" % (dim, iface, role, form, shape)
    return spec


UGLA_LOCS = ["zero", "scalar", "vector", "const-vector"]


UGLA_PATTERNS = ["base"] + [f % e for e in SCALE_E for f in ("units-xy%+d", "units-y%+d", "units-x%+d", "noise-only%+d", "prior-only%+d")]


def fit_ugla_pattern(patname, bc):
    name, ka, kb, kn, kp = PATTERN_BY_NAME[patname]
    if (kn > 0 or kp < 0) and bc != "zero":           # prior would dominate, but D^T W D is singular for neumann / periodic
        return "units-xy%+d" % (kn or kp)
    return patname


def lattice_ugla(ctx):
    N = ctx.n(24, 200)
    out = []
    bcs = ["zero", "neumann", "periodic"]
    scales = [1.0, 0.25, 4.0, 2.0]
    for i in range(N):
        bc = bcs[(i // 2) % 3]
        pat = fit_ugla_pattern(UGLA_PATTERNS[(i * 5 + i // len(UGLA_PATTERNS)) % len(UGLA_PATTERNS)], bc)
        out.append((i, ["exp", "legacy"][i % 2], ["matrix", "function"][(i // 2) % 2], bc, UGLA_LOCS[(i // 3) % 4],
                    scales[(i // 4) % 4], [1.0, 0.25, 0.01][(i // 5) % 3], ["zero", "random", "huge"][(i // 6 + i) % 3],
                    NOISE_CELLS[(i * 3) % 16], pat))
    # 2-d LMRF priors (Image2D domain, function-pair model)
    for k in range(ctx.n(4, 24)):
        bc = ["zero", "neumann"][k % 2]
        out.append((N + 1000 + k, ["exp", "legacy"][(k // 2) % 2], "function", bc + ":2d", UGLA_LOCS[k % 4], scales[k % 4], [1.0, 0.25, 0.01][k % 3],
                    ["zero", "random"][(k // 2) % 2], NOISE_CELLS[(k * 5 + 3) % 16],
                    fit_ugla_pattern(UGLA_PATTERNS[(k * 3) % len(UGLA_PATTERNS)], bc)))
    # unit-scale sweep of the full-matrix noise forms: tiny / huge, alone and with the y-units
    j = N
    for rep in range(ctx.n(1, 4)):
        for form in FORMS:
            for k, patf in enumerate(("noise-only%+d", "units-y%+d", "units-xy%+d")):
                e = TINY_STD_EXP[form] * (1 if (k + rep) % 2 == 0 else -1)
                bc = bcs[(j + rep) % 3]
                out.append((j, ["exp", "legacy"][(j + rep) % 2], ["matrix", "function"][(j // 2) % 2], bc, UGLA_LOCS[(j + rep) % 4],
                            scales[(j + rep) % 4], [1.0, 0.25, 0.01][j % 3], ["zero", "random"][j % 2], (form, "full"),
                            fit_ugla_pattern(patf % e, bc)))
                j += 1
    return out


def gen_ugla_spec(rng, cell):
    i, iface, mkind, bc, lock, scale, beta, xkk, (f, s), patname = cell
    two_d = bc.endswith(":2d")
    bc = bc.split(":")[0]
    n = rng.randint(3, 4)
    if two_d:
        n, mkind = 4, "function"                          # 2 x 2 image, D is 12 x 4 (zero) / 4 x 4 (neumann)
    m = rng.randint(n, 5)
    while True:
        A = rand_int_matrix(rng, m, n)
        if np.linalg.matrix_rank(np.array(A)) == n and np.linalg.cond(np.array(A)) < 20:
            break
    loc = {"zero": [0.0], "scalar": [rng.choice([1.0, -2.0, 0.5, 3.0])], "vector": rand_dyadic_vec(rng, n, 2, -3, 3),
           "const-vector": [rng.choice([1.0, -1.5, 2.0])] * n}[lock]
    if lock == "vector" and len(set(loc)) == 1:
        loc[0] += 1.0
    xk = [0.0] * n if xkk == "zero" else rand_dyadic_vec(rng, n, 4, -3, 3)
    if xkk == "huge":
        # a current state several million times larger than the draw (kept below 2^38 after the unit scaling, see CGLS's
        # absolute clause): the local Gaussian at such a state has negligible prior weights
        ka = PATTERN_BY_NAME[patname][1]
        if 36 - max(ka, 0) >= 23:
            xk = [v * 2.0 ** 23 for v in rand_dyadic_vec(rng, n, 1, 1, 3)]
        else:
            xkk = "random"        # x-units so large that a 2^23 times larger state would trip CGLS's absolute clause: ordinary state
    spec = {"kind": "ugla", "iface": iface, "target": "posterior", "mkind": mkind, "n": n,
            "liks": [{"A": A, "b": [float(rng.randint(-5, 5)) for _ in range(m)], "noise": gen_gspec(rng, m, f, s)}],
            "prior": {"kind": "lmrf", "bc": bc, "loc": loc, "scale": scale, "two_d": two_d}, "beta": beta, "xcurs": [xk], "idx": i}
    spec["entry"] = ENTRIES[iface][(i // 2) % 3]
    spec["x0_default"] = bool((i // 3) % 2)
    spec["ugla_rng"] = bool(iface == "legacy" and (i // 2) % 2)
    spec["decl"] = (DECLS_2D if mkind == "matrix" else DECLS_1D)[(i // 2) % (10 if mkind == "matrix" else 6)]
    g = spec["liks"][0]["noise"]
    if g["shape"] in ("diagmat", "full"):
        set_decl(g, DECLS_2D[i % 10])
    elif g["shape"] == "vector":
        set_decl(g, DECLS_1D[i % 6])
    if (i // 2) % 2 == 1 and not spec.get("x0_default"):
        spec["init_other"] = [float(rng.randint(1, 3)) * (max(abs(v) for v in xk) or 1.0) for _ in range(n)]
    spec["xk_class"] = xkk
    spec["cell"] = cell_name(spec) + "%s/xk=%s/noise=%s-%s/units=%s" % ("/2d" if two_d else "", xkk, f, s, patname)
    return apply_scale(spec, PATTERN_BY_NAME[patname])


# ---------------------------------------------------------------------------------------------
# cases
# ---------------------------------------------------------------------------------------------
def small_dyadic(x, bits=14):
    """a dyadic rational with at most `bits` significant bits, whatever its exponent (unit scaling by powers of two does
    not change it): sums and products of a few such numbers of a common scale are exact in binary64"""
    f = F(x)
    d, nnum = f.denominator, abs(f.numerator)
    if d & (d - 1) != 0:
        return False
    while nnum and nnum % 2 == 0:
        nnum //= 2
    return nnum.bit_length() <= bits


def all_small(*arrs):
    """every entry has few significant bits AND, within each array, the non-zero magnitudes span at most 2^24: then the few
    products and sums the code forms from them are exact in binary64 (14 + 14 + 24 bits < 53), whatever the common unit"""
    for a in arrs:
        v = np.asarray(a, dtype=float).ravel()
        if not all(small_dyadic(x) for x in v):
            return False
        nz = np.abs(v[v != 0])
        if len(nz) and nz.max() / nz.min() > 2.0 ** 24:
            return False
    return True


def c_liks_obs(spec, obs):
    return clist(["(%s, %s, %s)" % (qm(l["A"]), qm(S), qv(l["b"])) for l, S in zip(spec["liks"], obs["S_liks"])])


def c_prior_obs(spec, obs, body):
    """wrap `body` (a Coq bool term using the variable pr : prior Qc) with the observed-sqrtprec prior"""
    p, n = spec["prior"], spec["n"]
    if p["kind"] == "gaussian":
        return "(let pr := q_gaussian_prior %s %s %s in %s)" % (cnat(n), qm(obs["S_prior"]), qv(p["mean"]), body)
    if p["kind"] == "gmrf":
        return "(match q_gmrf_prior %s %s %s with Some pr => %s | None => false end)" % (cnat(n), qm(obs["S_prior"]), qv(p["mean"]), body)
    blocks = clist(["(%s, %s)" % (qm(b["S"]), qv(b["mean"])) for b in p["blocks"]])
    return "(let pr := q_joint_prior %s in %s)" % (blocks, body)


def c_prior_spec(spec, obs):
    p = spec["prior"]
    if p["kind"] == "gaussian":
        return "(PGauss %s %s %s)" % (COQF[p["g"]["form"]], c_gval(p["g"]), qv(p["mean"]))
    if p["kind"] == "gmrf":
        reg = SQRT_EPS if p["bc"] != "zero" else 0.0
        return "(PGmrf %s %s %s %s)" % (qs(p["prec"]), qs(reg), qm(obs["Pop"]), qv(p["mean"]))
    return "(PJoint %s)" % clist(["(%s, %s)" % (qm(b["S"]), qv(b["mean"])) for b in p["blocks"]])


def side_conditions(spec, obs, cases, cell):
    """DECISION cases: the prior object carries the documented difference / precision operator; no array handed to the
    implementation was modified"""
    if "op_matches" in obs:
        ok = obs["op_matches"]
        cases.append(Case(expr=cbool(ok), meta={"spec": spec, "stage": "operator"}, cell=cell, kind="DECISION",
                          impl_fail=None if ok else "the prior's difference / precision operator is not the documented finite-difference stencil",
                          signature="" if ok else signature_of(spec, "operator")))
    pg = spec.get("prior", {})
    if pg.get("kind") == "gmrf" and "Pop" in obs:
        two_d = bool(pg.get("two_d"))
        N = int(round(spec["n"] ** 0.5)) if two_d else spec["n"]
        cases.append(Case(expr="check_gmrf_P %s %s %s %s %s" % (cnat(pg["order"]), cbool(two_d), {"zero": "BcZero", "neumann": "BcNeumann", "periodic": "BcPeriodic"}[pg["bc"]],
                                                            cnat(N), qm(obs["Pop"])),
                          meta={"spec": spec, "stage": "operator-model"}, cell=cell))
    bad = obs.get("inputs_modified") or []
    cases.append(Case(expr=cbool(not bad), meta={"spec": spec, "stage": "inputs"}, cell=cell, kind="DECISION",
                      impl_fail=None if not bad else "; ".join(bad[:3]), signature="" if not bad else signature_of(spec, "input-modified")))


def rto_cases(spec, obs, fail, only_precompute=False):
    n, p = spec["n"], obs["p"]
    cell = cell_name(spec)
    sig = signature_of(spec, fail[0]) if fail else ""
    detail = fail[1] if fail else None
    base = {"spec": spec}
    cases = []

    def add(stage, expr, kind="EXACT", extra=None):
        meta = dict(base)
        meta["stage"] = stage
        if extra:
            meta.update(extra)
        cases.append(Case(expr=expr, meta=meta, cell=cell, kind=kind, impl_fail=detail if stage == "law" else None,
                          signature=sig if stage == "law" else ""))
    # 1. Gaussian input forms: law of the observed square-root precisions
    items = ["(%s, %s, %s, %s)" % (COQF[l["noise"]["form"]], cnat(len(l["b"])), c_gval(l["noise"]), qm(S))
             for l, S in zip(spec["liks"], obs["S_liks"])]
    pr = spec["prior"]
    # (a matrix handed over in float32 is processed in float32 inside Gaussian: its square root is accurate to ~1e-7 only)
    # (a symmetric sqrtcov R = U^-1 U^-T squares the conditioning once more before inv / cholesky: ~1e-8 relative in binary64)
    ftol = lambda gs: "tol6" if any(g.get("decl") == "f32" or (g["form"] == "sqrtcov" and g.get("struct") == "symmetric") for g in gs) else "tol9"
    forms = "check_forms %s %s" % (ftol([l["noise"] for l in spec["liks"]]), clist(items))
    if pr["kind"] == "gaussian":
        forms += " && check_forms %s [(%s, %s, %s, %s)]" % (ftol([pr["g"]]), COQF[pr["g"]["form"]], cnat(n), c_gval(pr["g"]), qm(obs["S_prior"]))
    elif pr["kind"] == "gmrf":
        reg = SQRT_EPS if pr["bc"] != "zero" else 0.0
        forms += " && gmrf_sqrtprec_ok tol9 %s %s %s %s %s" % (cnat(n), qs(pr["prec"]), qs(reg), qm(obs["Pop"]), qm(obs["S_prior"]))
    else:
        forms += " && qcll_eqb %s %s" % (qm(obs["S_prior"]), qm([r for b in pr["blocks"] for r in b["S"]]))
    add("forms", forms)
    side_conditions(spec, obs, cases, cell)
    # 2. b_tild and the stacked operator
    exact = all_small(obs["S_prior"], *obs["S_liks"]) and all_small(pr.get("mean", [0])) and \
        (pr["kind"] != "joint" or all_small(*[b["mean"] for b in pr["blocks"]]))
    # single-precision inputs are processed in single precision (L @ data, sqrtprec @ mean): ~1e-7 relative
    f32ish = spec.get("decl") == "f32" or any(g.get("decl") == "f32" for g in [l["noise"] for l in spec["liks"]] + ([pr["g"]] if pr["kind"] == "gaussian" else []))
    tol = c_tol(0 if exact else (6 if f32ish else 9))
    if spec["target"] == "tuple":
        l = spec["liks"][0]
        body = "check_tuple %s %s %s %s %s %s %s %s %s %s" % (tol, cnat(n), qv(l["b"]), qm(l["A"]), c_spform(l["noise"]),
                                                               qv(pr["mean"]), c_spform(pr["g"]), qv(obs["b_tild"]), qm(obs["M_fwd"]), qm(obs["M_adj"]))
        add("precompute-tuple", body)
    body = "check_precompute %s %s %s pr %s %s %s" % (tol, cnat(n), c_liks_obs(spec, obs), qv(obs["b_tild"]), qm(obs["M_fwd"]), qm(obs["M_adj"]))
    add("precompute", c_prior_obs(spec, obs, body), extra={"exact": exact})
    if only_precompute:
        return cases
    # 3. every transition returns a point satisfying the normal equations of the model's (M, b_tild)
    big = max(n, p) > 40
    certified = obs["draws"] if not big else [obs["draws"][i] for i in (0, 1, p // 2, p)] + obs["draws"][p + 1:]
    dr = clist(["(%s, %s, %s)" % (qv(d["xcur_v"]), qv(d["e"]), qv(d["x"])) for d in certified])
    body = "check_draws %s %s %s pr %s && %s" % ("(1 # 100000)%Q" if f32ish else c_tol(8), cnat(n), c_liks_obs(spec, obs), dr, cbool(all(d["fired"] for d in obs["draws"])))
    add("draws", c_prior_obs(spec, obs, body))
    # 4. the affine map against the posterior the user specified
    ls = clist(["(%s, %s, %s, %s)" % (qm(l["A"]), COQF[l["noise"]["form"]], c_gval(l["noise"]), qv(l["b"])) for l in spec["liks"]])
    x0 = obs["draws"][0]["x"]
    xs = [obs["draws"][1 + i]["x"] for i in range(p)]
    if n > 40 and not spec.get("big_law"):
        # dimension > 75: the read-off H x(0) = rhs, H G G^T = I is evaluated by the oracle only (float64 on exact H); the model
        # side certifies forms, precompute and a subset of the transitions
        add("law", cbool(fail is None or fail[0] in ("state", "affine")))
        return cases
    add("law", "check_law_spec tol6 %s %s %s %s %s %s" % (cnat(n), ls, c_prior_spec(spec, obs), qs(obs["c"]), qv(x0), qm(xs)))
    # 5. independence of the current state (differences relative to the natural scale of x read off above)
    ref = {}
    pairs = []
    for d in obs["draws"]:
        key = tuple(d["e"])
        if key in ref and not d.get("extreme"):
            pairs.append("(%s, %s)" % (qv(d["x"]), qv(ref[key])))
        ref.setdefault(key, d["x"])
    add("state", "check_state_indep tol6 %s %s %s %s" % (qs(obs["c"]), qv(x0), qm(xs), clist(pairs)))
    if fail and fail[0] in ("state", "affine"):
        cases[-1].impl_fail, cases[-1].signature = detail, sig
        cases[-2].impl_fail, cases[-2].signature = None, ""
    return cases


def ugla_sw(D, z, beta):
    return ((np.array(D) @ np.array(z)) ** 2 + beta) ** (-0.25)


def ugla_cases(spec, obs, fail, fixed):
    n, p = spec["n"], obs["p"]
    l, pr = spec["liks"][0], spec["prior"]
    cell = cell_name(spec)
    D = np.array(obs["D"], dtype=float)
    loc = np.ones(n) * np.array(pr["loc"], dtype=float)
    xk = np.array(spec["xcurs"][0], dtype=float)
    variant = "UglaDoc" if fixed else "UglaCode"
    sw = ugla_sw(D, xk - loc if fixed else xk, spec["beta"])
    swd = ugla_sw(D, xk - loc, spec["beta"])
    rs = float(np.sqrt(1.0 / pr["scale"]))
    raw = "(mkRaw %s %s %s %s %s %s %s %s %s)" % (cnat(n), qm(l["A"]), qm(obs["S_liks"][0]), qv(l["b"]), qm(obs["D"]), qv(pr["loc"]),
                                                  qs(pr["scale"]), qs(rs), qs(spec["beta"]))
    sig = signature_of(spec, fail[0]) if fail else ""
    detail = fail[1] if fail else None
    cases = []

    def add(stage, expr, impl=False):
        cases.append(Case(expr=expr, meta={"spec": spec, "stage": stage, "variant": variant}, cell=cell, kind="EXACT",
                          impl_fail=detail if impl else None, signature=sig if impl else ""))
    add("forms", "check_forms %s [(%s, %s, %s, %s)]" % ("tol6" if l["noise"].get("decl") == "f32" else "tol9", COQF[l["noise"]["form"]], cnat(len(l["b"])),
                                                          c_gval(l["noise"]), qm(obs["S_liks"][0])))
    side_conditions(spec, obs, cases, cell)
    if "chain2" in obs:
        cases.append(Case(expr=cbool(obs["chain2"]), meta={"spec": spec, "stage": "chain"}, cell=cell, kind="DECISION",
                          impl_fail=None if obs["chain2"] else "two transitions in one call: the second is not the transition from the state the first arrived at",
                          signature="" if obs["chain2"] else signature_of(spec, "chain")))
    two_d = bool(pr.get("two_d"))
    add("operator-model", "check_lmrf_D %s %s %s %s" % (cbool(two_d), {"zero": "BcZero", "neumann": "BcNeumann", "periodic": "BcPeriodic"}[pr["bc"]],
                                                         cnat(int(round(n ** 0.5)) if two_d else n), qm(obs["D"])))
    f32ish = spec.get("decl") == "f32" or l["noise"].get("decl") == "f32"
    add("precompute", "check_ugla_precompute %s %%s %%s %%s %%s %%s %%s %%s %%s" % ("tol6" if f32ish else "tol9") % (
        variant, raw, qv(xk), qv(sw), qm(obs["L2"]), qv(obs["b_tild"]), qm(obs["M_fwd"]), qm(obs["M_adj"])))
    dr = clist(["(%s, %s)" % (qv(d["e"]), qv(d["x"])) for d in obs["draws"]])
    add("draws", "check_ugla_draws %s %s %s %s %s %s && %s" % ("(1 # 100000)%Q" if f32ish else c_tol(8), variant, raw, qv(xk), qv(sw), dr, cbool(all(d["fired"] for d in obs["draws"]))))
    x0 = obs["draws"][0]["x"]
    xs = [obs["draws"][1 + i]["x"] for i in range(p)]
    law = "check_ugla_law_spec tol6 %s %s %s %s %s %s %s %s" % (raw, COQF[l["noise"]["form"]], c_gval(l["noise"]), qs(obs["c"]), qv(xk), qv(swd), qv(x0), qm(xs))
    if spec.get("xk_class") == "huge":
        # the read-off from a state millions of times larger than the draw is accurate only relative to that state: the model
        # side certifies the transitions (normal equations relative to the initial residual); the law is the oracle's
        add("law", "true", impl=bool(fail))
    elif fail and spec.get("Dloc_nonzero") and not fixed:
        # inside the known defect class the documented law is expected to fail: the faithful model (UglaCode) is tied by
        # the precompute / draws stages; the law stage carries the oracle's verdict
        add("law", "negb (%s)" % law, impl=True)
    else:
        add("law", law, impl=bool(fail))
    return cases


# ---------------------------------------------------------------------------------------------
# state of the proposed repair (fixes/C06_ugla_location.diff), probed with a fixed witness per interface
# ---------------------------------------------------------------------------------------------
WITNESS_UGLA = {"kind": "ugla", "target": "posterior", "mkind": "matrix", "n": 3,
                "liks": [{"A": [[1.0, 2.0, 0.0], [0.0, 1.0, -1.0], [2.0, 0.0, 1.0], [1.0, 1.0, 1.0]], "b": [1.0, 2.0, 3.0, 4.0],
                          "noise": {"form": "cov", "shape": "scalar", "dim": 4, "value": 0.25}}],
                "prior": {"kind": "lmrf", "bc": "zero", "loc": [1.0, 2.0, 4.0], "scale": 0.25}, "beta": 0.25,
                "xcurs": [[1.0, -1.0, 0.5]], "idx": -1, "Dloc_nonzero": True}


def probe_ugla(cuqi):
    st = {}
    for iface in ("exp", "legacy"):
        spec = dict(WITNESS_UGLA, iface=iface)
        obs = try_observe(cuqi, spec)
        if "raised" in obs:
            # the witness cannot even be drawn: reported through known_witnesses ("fixed defect has returned" / finding) and
            # through the lattice, which keeps running in the repaired-model state
            st[iface] = (True, "witness could not be drawn: " + obs["raised"], spec, obs)
            continue
        fail = oracle_check(spec, obs)
        st[iface] = (fail is None, fail[1] if fail else "witness satisfies the documented local Gaussian", spec, obs)
    return st


def mark_dloc(spec, D):
    loc = np.ones(spec["n"]) * np.array(spec["prior"]["loc"], dtype=float)
    spec["Dloc_nonzero"] = bool(np.any(np.array(D) @ loc != 0))


# ---------------------------------------------------------------------------------------------
def build_rto(cuqi, rng, cellspec):
    """generate values inside one cell until the user-level posterior is well conditioned; returns (spec, obs)"""
    for attempt in range(40):
        spec = gen_rto_spec(rng, *cellspec)
        pr = spec["prior"]
        Pop = None
        if pr["kind"] == "gmrf":
            Pop = ref_prec_op(pr["order"], spec["n"], pr["bc"], bool(pr.get("two_d")))
        H, r = user_posterior(spec, {"Pop": Pop})
        Hf = np.array([[float(v) for v in row] for row in H])
        if not np.all(np.isfinite(Hf)) or np.linalg.cond(Hf) > 2e3:
            continue
        # options of the entry points and declaration styles cycle with the cell index (not with the seed)
        idx = spec["idx"]
        spec["entry"] = ENTRIES[spec["iface"]][(idx // 2) % 3]
        spec["x0_default"] = bool((idx // 3) % 2)
        spec["decl"] = (DECLS_2D if spec["mkind"] == "matrix" else DECLS_1D)[(idx // 2) % (10 if spec["mkind"] == "matrix" else 6)]
        for gi, g in enumerate([l["noise"] for l in spec["liks"]] + ([pr["g"]] if pr["kind"] == "gaussian" else [])):
            if g["shape"] in ("diagmat", "full"):
                set_decl(g, DECLS_2D[(idx + 3 * gi) % 10])
            elif g["shape"] == "vector":
                set_decl(g, DECLS_1D[(idx + gi) % 6])
        if spec["target"] == "tuple":
            spec["decl"] = "dense"
        spec["xdir"] = [float(rng.choice([-1, 1]) * rng.randint(1, 4)) for _ in range(spec["n"])]
        # current states at the natural scale of the posterior (a chain's state is a draw): power of two next to
        # max(|posterior mean|, largest posterior standard deviation), both exact
        mean_f, cov_f = f_solve_inv(H, r)
        sx = max(max(abs(float(v)) for v in mean_f), math.sqrt(max(float(cov_f[i][i]) for i in range(len(cov_f)))))
        sx = float(2.0 ** round(math.log2(sx)))
        spec["xcurs"] = [[v * sx for v in xc] for xc in spec["xcurs"]]
        spec["xscale"] = sx
        rows_prior = spec["n"] if pr["kind"] != "joint" else sum(len(b["S"]) for b in pr["blocks"])
        p = sum(len(l["b"]) for l in spec["liks"]) + rows_prior
        spec["estar"] = rand_dyadic_vec(rng, p, 2, -2, 2)
        spec["estar2"] = rand_dyadic_vec(rng, p, 2, -2, 2)
        if spec["estar2"] == spec["estar"]:
            spec["estar2"][0] += 1.0
        return spec, try_observe(cuqi, spec)
    raise RuntimeError("could not generate a well-conditioned configuration for cell %r" % (cellspec,))


def try_observe(cuqi, spec):
    """observations, or the exception the implementation (or the scripted-stream protocol) raised on this
    valid configuration -- reported as a failing case, never as a crash of the whole run"""
    try:
        return observe(cuqi, spec)
    except Exception as ex:
        import traceback
        return {"raised": "%s: %s" % (type(ex).__name__, ex), "trace": traceback.format_exc()[-1500:]}


SIG_CHOL = "utilities.sparse_cholesky|SPD-matrix-refused:SuperLU-row-pivoting"


def chol_witness(cuqi):
    """fixed witness of the sparse_cholesky defect: an SPD precision (min eigenvalue 0.70) given as a scipy sparse matrix"""
    import scipy.sparse as sps
    P = np.array([[1.0, 1.0, 0.0, 0.0], [1.0, 5.0, 0.0, 2.0], [0.0, 0.0, 1.0, 0.0], [0.0, 2.0, 0.0, 5.0]])
    try:
        with quiet():
            S = dense(cuqi.distribution.Gaussian(np.zeros(4), prec=sps.csc_matrix(P)).sqrtprec)
        ok = bool(np.allclose(S.T @ S, P))
        return (not ok, "Gaussian(zeros(4), prec=csc(P)) accepted, sqrtprec^T sqrtprec %s P" % ("==" if ok else "!="))
    except TypeError as ex:
        return (True, "Gaussian(zeros(4), prec=csc([[1,1,0,0],[1,5,0,2],[0,0,1,0],[0,2,0,5]])) raises TypeError(%s) although P is positive definite" % ex)


def raised_signature(spec, obs):
    gs = [l["noise"] for l in spec.get("liks", [])] + ([spec["prior"]["g"]] if spec.get("prior", {}).get("kind") == "gaussian" else [])
    sparse_full = any(g.get("decl") in ("csr", "csc", "dia", "coo") and g["shape"] == "full" and g["form"] in ("cov", "prec") for g in gs)
    if "not positive semi-definite" in obs["raised"] and sparse_full:
        return SIG_CHOL            # every generated matrix is positive definite by construction (U^T U, U triangular with non-zero diagonal)
    return signature_of(spec, "raises")


def raised_case(spec, obs):
    return Case(expr="false", meta={"spec": spec, "stage": "raised", "raised": obs["raised"]}, cell=cell_name(spec),
                impl_fail="valid configuration, but no draw: " + obs["raised"], signature=raised_signature(spec, obs))


def regularized_cases(cuqi, rng, ctx):
    """RegularizedLinearRTO (same anchored files) shares _precompute with LinearRTO: its (M, b_tild) must be those of the
    underlying Gaussian / GMRF.  Only that linear-Gaussian part belongs to C06 -- its draws are proximal (FISTA) solutions,
    not Gaussian draws, and the property text does not speak of them."""
    from cuqi.implicitprior import RegularizedGaussian, RegularizedGMRF
    cases = []
    for k in range(ctx.n(4, 16)):
        iface = ["exp", "legacy"][k % 2]
        pc = ("gmrf", ["zero", "neumann"][(k // 4) % 2], 1, None) if (k // 2) % 2 else PRIOR_CELLS[(k * 7 + 3) % 32]
        spec = gen_rto_spec(rng, 8000 + k, iface, "posterior", ["matrix", "function"][(k // 2) % 2], [NOISE_CELLS[(k * 5 + 1) % 16]], pc, ["over", "under"][k % 2])
        spec["cell"] = "regularized-rto/%s/prior=%s" % (iface, cell_name(spec).split("/prior=")[-1].split("/units")[0])
        n, p_ = spec["n"], spec["prior"]
        try:
            with quiet():
                if p_["kind"] == "gaussian":
                    mean = float(p_["mean"][0]) if p_.get("scalar_mean") else np.array(p_["mean"], dtype=float)
                    x = RegularizedGaussian(mean, constraint="nonnegativity", geometry=n, name="x", **gauss_kwargs(p_["g"]))
                else:
                    x = RegularizedGMRF(np.array(p_["mean"], dtype=float), float(p_["prec"]), bc_type=p_["bc"], order=p_["order"],
                                        constraint="nonnegativity", name="x")
                l = spec["liks"][0]
                y = cuqi.distribution.Gaussian(mk_model(cuqi, l["A"], spec["mkind"], len(l["b"]), n)(x), name="y", **gauss_kwargs(l["noise"]))
                post = cuqi.distribution.JointDistribution(x, y)(y=np.array(l["b"], dtype=float))
                if iface == "exp":
                    s = cuqi.experimental.mcmc.RegularizedLinearRTO(post, stepsize=0.05, maxit=5)
                    s.initialize()
                else:
                    s = cuqi.sampler.RegularizedLinearRTO(post, stepsize=0.05, maxit=5)
            b_t = np.array(s.b_tild, dtype=float)
            p = len(b_t)
            obs = {"S_liks": [dense(lk.distribution.sqrtprec).tolist() for lk in s.likelihoods], "S_prior": dense(s.prior.sqrtprec).tolist(),
                   "b_tild": b_t.tolist(), "p": p,
                   "M_fwd": [np.array(s.M(np.array(basis(n, j)), 1), dtype=float).tolist() for j in range(n)],
                   "M_adj": [np.array(s.M(np.array(basis(p, i)), 2), dtype=float).tolist() for i in range(p)]}
            if p_["kind"] == "gmrf":
                obs["Pop"] = [[float(v) for v in r] for r in ref_prec_op(p_["order"], n, p_["bc"], False)]
                obs["op_matches"] = bool(np.array_equal(dense(s.prior._prec_op.get_matrix()), np.array(obs["Pop"])))
        except Exception as ex:
            cases.append(raised_case(spec, {"raised": "%s: %s" % (type(ex).__name__, ex)}))
            continue
        cases += rto_cases(spec, obs, None, only_precompute=True)
    return cases


def refusal_cases(cuqi, rng):
    cases = []
    A = np.array([[1.0, 2.0, 0.0], [0.0, 1.0, -1.0], [2.0, 0.0, 1.0], [1.0, 1.0, 1.0]])
    b = np.array([1.0, 2.0, 3.0, 4.0])
    tup = (b, A, 2.0, np.array([1.0, -1.0, 2.0]), np.array([1.0, 2.0, 0.5]))
    with quiet():
        x = cuqi.distribution.Gaussian(np.zeros(3), cov=1.0, name="x")
        y = cuqi.distribution.Gaussian(cuqi.model.LinearModel(A)(x), cov=1.0, name="y")
        y2 = cuqi.distribution.Gaussian(cuqi.model.LinearModel(A[:2])(x), cov=1.0, name="y2")
        post = cuqi.distribution.JointDistribution(x, y)(y=b)
        mlp = cuqi.distribution.JointDistribution(x, y, y2)(y=b, y2=b[:2])
    for iface, I in (("exp", "Exp"), ("legacy", "Legacy")):
        for tk, T, tgt in (("posterior", "TPosterior", post), ("mlp", "TMlp", mlp), ("tuple", "TTuple", tup)):
            try:
                with quiet():
                    if iface == "exp":
                        cuqi.experimental.mcmc.LinearRTO(tgt)
                    else:
                        cuqi.sampler.LinearRTO(tgt)
                acc = True
            except (ValueError, TypeError):
                acc = False
            cases.append(Case(expr="check_target_accepted %s %s %s" % (I, T, cbool(acc)), meta={"stage": "accept", "iface": iface, "target": tk},
                              cell="accept/%s/%s" % (iface, tk), kind="DECISION"))
    # GMRF with a scalar mean: sqrtprecTimesMean = sqrtprec @ mean has no broadcast -> refused
    for iface in ("exp", "legacy"):
        for bc in ("zero", "neumann"):
            for mean in ([0.0], [1.5], [1.0, 2.0, 3.0]):
                with quiet():
                    kw = {"geometry": 3} if len(mean) == 1 else {}
                    xg = cuqi.distribution.GMRF(mean[0] if len(mean) == 1 else np.array(mean), 4.0, bc_type=bc, name="x", **kw)
                    yg = cuqi.distribution.Gaussian(cuqi.model.LinearModel(A)(xg), cov=1.0, name="y")
                    pg = cuqi.distribution.JointDistribution(xg, yg)(y=b)
                    S = dense(xg.sqrtprec)
                refused = False
                try:
                    with quiet():
                        if iface == "exp":
                            s = cuqi.experimental.mcmc.LinearRTO(pg)
                            s.initialize()
                        else:
                            cuqi.sampler.LinearRTO(pg)
                except ValueError:
                    refused = True
                cases.append(Case(expr="check_gmrf_refusal %s %s %s %s" % (cnat(3), qm(S.tolist()), qv(mean), cbool(refused)),
                                  meta={"stage": "gmrf-mean-length", "iface": iface, "bc": bc, "mean": mean},
                                  cell="refusal/gmrf-mean-len%d/%s" % (len(mean), iface), kind="DECISION"))
    return cases


# ---------------------------------------------------------------------------------------------
# HISTORIES on shared objects: build sampler -> draw -> re-assign ONE settable parameter of the prior / noise / data
# object IN PLACE -> (a) a new sampler on the same objects must be the sampler of fresh objects carrying the new
# value; (b) the OLD sampler keeps being used; (c) a third sampler shares the prior object with another likelihood;
# (d) keep-alive: everything observed earlier on a still-living sampler is re-read and must be bit-identical.
#
# What the property requires of (b): every draw is an exact draw of A posterior the target denoted -- the one at
# construction (snapshot semantics: _precompute ran then) or the current one (live semantics).  LinearRTO captures L1, L2,
# L2mu, b_tild and reads only the noise sqrtprec of flag 2 live: after a NOISE re-assignment its flag 2 is no longer the
# transpose of its flag 1 and the draws belong to neither posterior (finding *stale-sampler:noise-reassigned*, repair
# fixes/C06_rto_flag2_captured_sqrtprec.diff; state probed per interface).  Experimental UGLA captures L1, location, D and
# reads data, scale, beta live (each single re-assignment gives the old or the new local Gaussian); legacy UGLA reads
# everything at sample() time.
# ---------------------------------------------------------------------------------------------
SIG_STALE = {"exp": "experimental.LinearRTO.step|stale-sampler:noise-reassigned-in-place",
             "legacy": "sampler.LinearRTO._sample|stale-sampler:noise-reassigned-in-place"}
# which value the OLD experimental UGLA sampler uses after a re-assignment
UGLA_EXP_STALE = {"scale": "new", "location": "old", "noise": "old", "data": "new"}


def build_shared(cuqi, spec, lik_index=0):
    """the objects of one configuration, shared: prior x, noise distribution y, likelihood L, Posterior(L, x)"""
    n = spec["n"]
    with quiet():
        x = mk_prior(cuqi, spec)
        l = spec["liks"][lik_index]
        model = mk_model(cuqi, l["A"], spec["mkind"], len(l["b"]), dom_geom(cuqi, spec), spec.get("decl", "dense"))
        y = cuqi.distribution.Gaussian(model(x), name="y%d" % lik_index, **gauss_kwargs(l["noise"]))
        L = y.to_likelihood(decl_vec(l["b"], spec.get("decl", "dense")))
        post = cuqi.distribution.Posterior(L, x)
    return {"x": x, "y": y, "L": L, "post": post}


def apply_assign(spec, asg):
    spec = copy.deepcopy(spec)
    who, param, val = asg["who"], asg["param"], asg["value"]
    if who == "data":
        spec["liks"][0]["b"] = val
    elif who == "noise":
        spec["liks"][0]["noise"] = val
    elif who == "prior":
        p = spec["prior"]
        if param == "mean":
            p["mean"] = val
            p["scalar_mean"] = False
        elif param == "location":
            p["loc"] = val
        elif param == "scale":
            p["scale"] = val
        elif param == "prec" and p["kind"] == "gmrf":
            p["prec"] = val
        else:
            p["g"] = val
    return spec


def do_assign(objs, asg):
    who, param, val = asg["who"], asg["param"], asg["value"]
    with quiet():
        if who == "data":
            objs["L"].data = np.array(val, dtype=float)
        elif who == "noise":
            setattr(objs["y"], param, list(gauss_kwargs(val).values())[0])
        elif param in ("mean", "location"):
            setattr(objs["x"], param, np.array(val, dtype=float) if len(val) > 1 else float(val[0]))
        elif param in ("scale", "prec") and not isinstance(val, dict):
            setattr(objs["x"], param, float(val))
        else:
            setattr(objs["x"], param, list(gauss_kwargs(val).values())[0])


def snapshot(obs):
    return json.dumps({k: obs[k] for k in ("b_tild", "M_fwd", "M_adj") if k in obs}, sort_keys=True)


def probe_flag2(cuqi):
    """does flag 2 of a living sampler follow an in-place change of the noise sqrtprec (code as it stands) or keep the
    captured one (repaired)?  fixed witness, per interface"""
    st = {}
    A = [[1.0, 2.0, 0.0], [0.0, 1.0, -1.0], [2.0, 0.0, 1.0], [1.0, 1.0, 1.0]]
    for iface in ("exp", "legacy"):
        spec = {"kind": "rto", "iface": iface, "target": "posterior", "mkind": "matrix", "n": 3, "xcurs": [[0.0] * 3],
                "liks": [{"A": A, "b": [1.0, 2.0, 3.0, 4.0], "noise": {"form": "cov", "shape": "vector", "dim": 4, "value": [1.0, 4.0, 16.0, 0.25]}}],
                "prior": {"kind": "gaussian", "mean": [1.0, -1.0, 2.0], "scalar_mean": False,
                          "g": {"form": "prec", "shape": "scalar", "dim": 3, "value": 4.0}}}
        try:
            objs = build_shared(cuqi, spec)
            with quiet():
                s = make_sampler(cuqi, spec, objs["post"], [0.0] * 3)
            before = np.array(s.M(np.array(basis(7, 0)), 2), dtype=float)
            objs["y"].cov = np.array([4.0, 1.0, 1.0, 1.0])
            after = np.array(s.M(np.array(basis(7, 0)), 2), dtype=float)
            st[iface] = "captured" if np.array_equal(before, after) else "live"
        except Exception:
            st[iface] = "live"
    return st


def history_cells(ctx):
    """deterministic list of (id, sampler kind, iface, prior cell, noise cell, assignment kind)"""
    out = []
    j = 0
    reps = ctx.n(1, 3)
    for rep in range(reps):
        for iface in ("exp", "legacy"):
            cells = []
            for f in FORMS:
                cells.append(("rto", ("gaussian", f, SHAPES[(j + rep) % 4], bool(rep % 2)), NOISE_CELLS[(3 * j + rep) % 16], ("prior", f, SHAPES[(j + rep + 1) % 4])))
                cells.append(("rto", PRIOR_CELLS[(5 * j + rep) % 32], (f, SHAPES[(j + 2 * rep) % 4]), ("noise", f, SHAPES[(j + rep + 3) % 4])))
                j += 1
            cells.append(("rto", ("gaussian", FORMS[(j + rep) % 4], SHAPES[(j + rep) % 4], True), NOISE_CELLS[(j + rep) % 16], ("prior", "mean", None)))
            for bc in ("zero", "neumann", "periodic"):
                cells.append(("rto", ("gmrf", bc, 1, None), NOISE_CELLS[(j + rep) % 16], ("prior", "prec", None)))
                j += 1
            cells.append(("rto", ("gmrf", "zero", 2, None), NOISE_CELLS[(j + rep + 7) % 16], ("prior", "mean", None)))
            cells.append(("rto", PRIOR_CELLS[(7 * j + rep) % 32], NOISE_CELLS[(j + rep + 5) % 16], ("data", "data", None)))
            for k, what in enumerate(("scale", "location", "noise", "data")):
                cells.append(("ugla", ("lmrf", ["zero", "neumann", "periodic"][(k + rep) % 3]), (FORMS[(k + rep) % 4], SHAPES[(k + 2 * rep + 3) % 4]),
                              ("prior" if what in ("scale", "location") else what, what, SHAPES[(k + rep) % 4])))
            # two parameters re-assigned between the samplers
            f1, f2 = FORMS[(j + rep) % 4], FORMS[(j + rep + 1) % 4]
            cells.append(("rto", ("gaussian", f1, SHAPES[(j + 1) % 4], False), NOISE_CELLS[(j + rep + 2) % 16],
                          [("prior", f1, SHAPES[(j + 2) % 4]), ("data", "data", None)]))
            cells.append(("rto", ("gmrf", "zero", 1, None), (f2, SHAPES[(j + 3) % 4]), [("noise", f2, SHAPES[j % 4]), ("prior", "prec", None)]))
            cells.append(("ugla", ("lmrf", "zero"), (f1, SHAPES[(j + 1) % 4]), [("prior", "scale", None), ("data", "data", None)]))
            cells.append(("ugla", ("lmrf", "neumann"), (f2, SHAPES[(j + 2) % 4]), [("prior", "location", None), ("noise", "noise", SHAPES[(j + 3) % 4])]))
            for c in cells:
                out.append((len(out),) + (c[0], iface) + c[1:])
    return out


def gen_history(cuqi, rng, cell):
    hid, skind, iface, pc, nc, assigns = cell
    assigns = assigns if isinstance(assigns, list) else [assigns]
    for attempt in range(40):
        if skind == "rto":
            spec = gen_rto_spec(rng, hid, iface, "posterior", ["matrix", "function"][hid % 2], [nc], pc, ["over", "square", "under"][hid % 3])
        else:
            spec = gen_ugla_spec(rng, (hid, iface, ["matrix", "function"][hid % 2], pc[1], UGLA_LOCS[hid % 4], [1.0, 0.25, 4.0][hid % 3],
                                       [1.0, 0.25][hid % 2], ["zero", "random"][hid % 2], nc, "base"))
        n, m = spec["n"], len(spec["liks"][0]["b"])
        asg = []
        for (who, param, shape) in assigns:
            if who == "data":
                val = [float(rng.randint(-5, 5)) for _ in range(m)]
            elif who == "noise":
                val = gen_gspec(rng, m, nc[0], shape)
                param = nc[0]
            elif param == "mean":
                val = rand_dyadic_vec(rng, n)
            elif param == "location":
                val = rand_dyadic_vec(rng, n, 2, -3, 3) if hid % 2 else [rng.choice([1.0, -2.0, 0.5])]
            elif param == "scale":
                val = rng.choice([v for v in (1.0, 0.25, 4.0, 2.0) if v != spec["prior"]["scale"]])
            elif param == "prec" and pc[0] == "gmrf":
                val = rng.choice([v for v in (1.0, 4.0, 0.25, 3.0, 0.5) if v != spec["prior"]["prec"]])
            else:
                val = gen_gspec(rng, n, pc[1], shape)
                param = pc[1]
            asg.append({"who": who, "param": param, "value": val})
        spec["xcurs"] = [spec["xcurs"][0]]
        spec.pop("estar", None)
        spec1 = spec
        for a_ in asg:
            spec1 = apply_assign(spec1, a_)
        if spec1 == spec:
            continue
        # a second likelihood for the sampler that shares the prior object
        lb = {"A": rand_int_matrix(rng, n + 1, n), "b": [float(rng.randint(-5, 5)) for _ in range(n + 1)],
              "noise": gen_gspec(rng, n + 1, *NOISE_CELLS[(hid * 5) % 16])}
        if skind == "rto":
            ok = True
            for sp in (spec, spec1, dict(spec1, liks=[lb])):
                Pop = None
                if sp["prior"]["kind"] == "gmrf":
                    Pop = ref_prec_op(sp["prior"]["order"], sp["n"], sp["prior"]["bc"], bool(sp["prior"].get("two_d")))
                H, r = user_posterior(sp, {"Pop": Pop})
                if np.linalg.cond(np.array([[float(v) for v in row] for row in H])) > 2e3:
                    ok = False
            if not ok:
                continue
        base = "history/%s/%s/%s/reassign-%s" % (skind, iface, cell_name(spec).split("/prior=")[-1].split("/units")[0] if skind == "rto" else spec["prior"]["bc"],
                                                  "+".join("%s-%s" % (a_["who"], a_["param"]) for a_ in asg))
        return {"id": hid, "skind": skind, "iface": iface, "spec0": spec, "spec1": spec1, "assign": asg, "lik_b": lb, "cell": base}
    raise RuntimeError("could not generate history %r" % (cell,))


def run_history(cuqi, h, st_ugla, st_flag2):
    """drive one history on the real implementation; returns the list of cases"""
    spec0, spec1, asg, iface, skind = h["spec0"], h["spec1"], h["assign"], h["iface"], h["skind"]
    cases = []

    def tag(sp, step):
        sp = copy.deepcopy(sp)
        sp["cell"] = h["cell"] + "/" + step
        sp["history"] = {"id": h["id"], "step": step, "assign": asg}
        return sp

    def emit(sp, obs, step):
        sp = tag(sp, step)
        if "raised" in obs:
            cases.append(raised_case(sp, obs))
            return
        obs = {k: v for k, v in obs.items() if k != "_sampler"}
        if skind == "rto":
            fail = oracle_check(sp, obs)
            cs = rto_cases(sp, obs, fail)
        else:
            mark_dloc(sp, obs["D"])
            fail = oracle_check(sp, obs)
            cs = ugla_cases(sp, obs, fail, st_ugla[iface][0])
        for c in cs:
            c.meta["hspec"] = {k: h[k] for k in ("id", "skind", "iface", "spec0", "spec1", "assign", "lik_b", "cell")}
            c.meta["step"] = step
        cases.extend(cs)

    def guarded(f):
        try:
            return f()
        except Exception as ex:
            import traceback
            return {"raised": "%s: %s" % (type(ex).__name__, ex), "trace": traceback.format_exc()[-1500:]}
    objs = guarded(lambda: build_shared(cuqi, spec0))
    if "raised" in objs:
        emit(spec0, objs, "A-first-sampler")
        return cases
    # step A: first sampler on the shared objects
    obsA = guarded(lambda: observe(cuqi, spec0, target=objs["post"]))
    emit(spec0, obsA, "A-first-sampler")
    if "raised" in obsA:
        return cases
    S1 = obsA["_sampler"]
    snapA = snapshot(obsA)
    # re-assign in place
    asg_label = "+".join("%s-%s" % (a_["who"], a_["param"]) for a_ in asg)
    res = guarded(lambda: [do_assign(objs, a_) for a_ in asg] and {})
    if "raised" in res:
        emit(spec1, res, "B-new-sampler-same-objects")
        return cases
    asg_label = "+".join("%s-%s" % (a_["who"], a_["param"]) for a_ in asg)
    # step B: new sampler on the SAME objects = sampler of fresh objects carrying the new value
    obsB = guarded(lambda: observe(cuqi, spec1, target=objs["post"]))
    emit(spec1, obsB, "B-new-sampler-same-objects")
    if "raised" in obsB:
        return cases
    S2 = obsB["_sampler"]
    snapB = snapshot(obsB)
    obsF = guarded(lambda: observe(cuqi, spec1))                      # really fresh objects
    same = "raised" not in obsF and snapshot(obsF) == snapB and \
        json.dumps([d["x"] for d in obsF["draws"]]) == json.dumps([d["x"] for d in obsB["draws"]])
    cases.append(Case(expr=cbool(same), meta={"hspec": {k: h[k] for k in ("id", "skind", "iface", "spec0", "spec1", "assign", "lik_b", "cell")},
                                              "step": "B-bitwise-vs-fresh", "stage": "bitwise"}, cell=h["cell"] + "/B-bitwise-vs-fresh", kind="DECISION",
                      impl_fail=None if same else "a sampler built on the re-assigned objects differs (b_tild / M / draws) from one built on fresh objects with the same values",
                      signature="" if same else ("%s|history:rebuild-differs-from-fresh|%s" % (iface, asg_label))))
    # step C: the OLD sampler keeps being used
    if skind == "rto":
        noise_changed = any(a_["who"] == "noise" for a_ in asg)
        if not noise_changed or st_flag2[iface] == "captured":
            obsC = guarded(lambda: observe(cuqi, spec0, target=objs["post"], sampler=S1))
            if "raised" not in obsC:
                # S_liks / S_prior are read from the LIVE objects by observe(); the old sampler works with the captured ones
                obsC["S_liks"], obsC["S_prior"] = obsA["S_liks"], obsA["S_prior"]
            emit(spec0, obsC, "C-old-sampler-after-reassign(snapshot)")
        else:
            cases.extend(stale_noise_cases(cuqi, h, objs, S1, obsA, obsB, tag))
    else:
        if iface == "legacy":
            mixed = spec1
        else:
            mixed = spec0
            for a_ in asg:
                if UGLA_EXP_STALE[a_["param"] if a_["who"] == "prior" else a_["who"]] == "new":
                    mixed = apply_assign(mixed, a_)
            if mixed == spec1:
                mixed = spec1
            elif mixed == spec0:
                mixed = spec0
        obsC = guarded(lambda: observe(cuqi, mixed, target=objs["post"], sampler=S1))
        if "raised" not in obsC and mixed["liks"][0]["noise"] == spec0["liks"][0]["noise"]:
            obsC["S_liks"] = obsA["S_liks"]
        emit(mixed, obsC, "C-old-sampler-after-reassign(%s)" % ("new values" if mixed is spec1 else ("snapshot" if mixed is spec0 else "mixed")))
    # step D: a third sampler shares the prior object with another likelihood; the second one must be unaffected
    if skind == "rto":
        specD = dict(copy.deepcopy(spec1), liks=[h["lik_b"]])

        def third():
            with quiet():
                l = h["lik_b"]
                modelb = mk_model(cuqi, l["A"], specD["mkind"], len(l["b"]), dom_geom(cuqi, specD))
                yb = cuqi.distribution.Gaussian(modelb(objs["x"]), name="yb", **gauss_kwargs(l["noise"]))
                postD = cuqi.distribution.Posterior(yb.to_likelihood(np.array(l["b"], dtype=float)), objs["x"])
            return observe(cuqi, specD, target=postD)
        obsD = guarded(third)
        emit(specD, obsD, "D-third-sampler-sharing-prior")
    # keep-alive: the second sampler re-read after everything else happened
    obsB2 = guarded(lambda: observe(cuqi, spec1, target=objs["post"], sampler=S2))
    alive = "raised" not in obsB2 and snapshot(obsB2) == snapB and \
        json.dumps([d["x"] for d in obsB2["draws"]]) == json.dumps([d["x"] for d in obsB["draws"]])
    cases.append(Case(expr=cbool(alive), meta={"hspec": {k: h[k] for k in ("id", "skind", "iface", "spec0", "spec1", "assign", "lik_b", "cell")},
                                               "step": "E-keep-alive", "stage": "bitwise"}, cell=h["cell"] + "/E-keep-alive", kind="DECISION",
                      impl_fail=None if alive else "a living sampler changed (b_tild / M / draws) although none of its objects was touched since it was last read",
                      signature="" if alive else ("%s|history:living-sampler-changed|%s" % (iface, asg_label))))
    return cases


def stale_noise_cases(cuqi, h, objs, S1, obsA, obsB, tag):
    """LinearRTO as it stands, old sampler after an in-place re-assignment of the noise: b_tild and flag 1 from the captured
    sqrtprec, flag 2 from the live one.  The faithful model (check_precompute2) is compared; the oracle states that the
    draw belongs to neither posterior."""
    spec0, spec1, iface = h["spec0"], h["spec1"], h["iface"]
    n = spec0["n"]
    sp = tag(spec0, "C-old-sampler-after-noise-reassign(stale)")
    hmeta = {k: h[k] for k in ("id", "skind", "iface", "spec0", "spec1", "assign", "lik_b", "cell")}
    try:
        p = len(obsA["b_tild"])
        b_t = np.array(S1.b_tild, dtype=float).tolist()
        fwd = [np.array(S1.M(np.array(basis(n, j)), 1), dtype=float).tolist() for j in range(n)]
        adj = [np.array(S1.M(np.array(basis(p, i)), 2), dtype=float).tolist() for i in range(p)]
        with Capture(cuqi) as cap:
            x0, rec, log = one_draw(cuqi, spec0, S1, spec0["xcurs"][0], [0.0] * p, cap)
    except Exception as ex:
        return [raised_case(sp, {"raised": "%s: %s" % (type(ex).__name__, ex)})]
    l0, l1 = spec0["liks"][0], spec1["liks"][0]
    ls_old = clist(["(%s, %s, %s)" % (qm(l0["A"]), qm(obsA["S_liks"][0]), qv(l0["b"]))])
    ls_new = clist(["(%s, %s, %s)" % (qm(l1["A"]), qm(obsB["S_liks"][0]), qv(l1["b"]))])
    pobs = {"S_prior": obsA["S_prior"]}
    exact = all_small(obsA["S_prior"], obsA["S_liks"][0], obsB["S_liks"][0]) and all_small(spec0["prior"].get("mean", [0]))
    body = "check_precompute2 %s %s %s %s pr %s %s %s" % (c_tol(0 if exact else 9), cnat(n), ls_old, ls_new, qv(b_t), qm(fwd), qm(adj))
    cases = [Case(expr=c_prior_obs(spec0, pobs, body), meta={"spec": sp, "hspec": hmeta, "step": "C-stale", "stage": "precompute-stale"}, cell=sp["cell"])]
    # oracle: old or new posterior mean?
    verdicts = []
    for spx, obsx in ((spec0, obsA), (spec1, obsB)):
        H, r, mean_f, cov_f = exact_posterior(spx, obsx)
        mean = np.array([float(v) for v in mean_f])
        sc = max(np.max(np.abs(mean)), math.sqrt(max(float(cov_f[i][i]) for i in range(len(cov_f)))))
        verdicts.append(bool(np.max(np.abs(x0 - mean)) <= 1e-6 * sc))
    detail = None
    if not any(verdicts):
        detail = ("old sampler after the noise %s was re-assigned in place: x(e=0) = %s is the mean of neither the posterior at construction "
                  "nor the current one (flag 1 uses the captured sqrtprec, flag 2 the re-read one)" % ("+".join(a_["param"] for a_ in h["assign"] if a_["who"] == "noise"), x0.tolist()))
    cases.append(Case(expr="true", meta={"spec": sp, "hspec": hmeta, "step": "C-stale", "stage": "stale-draw"}, cell=sp["cell"],
                      impl_fail=detail, signature=SIG_STALE[iface] if detail else ""))
    return cases


def run(ctx):
    import cuqi
    rng = ctx.rng
    cases = []
    # ---- LinearRTO ------------------------------------------------------------------------------
    nfired = 0
    ndraws = 0
    for cellspec in lattice_rto(ctx):
        spec, obs = build_rto(cuqi, rng, cellspec)
        if "raised" in obs:
            cases.append(raised_case(spec, obs))
            continue
        fail = oracle_check(spec, obs)
        cases += rto_cases(spec, obs, fail)
        ndraws += len(obs["draws"])
        nfired += sum(1 for d in obs["draws"] if d["fired"])
    ctx.note("main lattice driven in %.0fs" % (time.time() - ctx.t0))
    for cell in lattice_big(ctx):
        spec = gen_big_spec(cuqi, rng, cell)
        obs = try_observe(cuqi, spec)
        if "raised" in obs:
            cases.append(raised_case(spec, obs))
            continue
        obs.pop("_sampler", None)
        cases += rto_cases(spec, obs, oracle_check(spec, obs))
        ndraws += len(obs["draws"])
        nfired += sum(1 for d in obs["draws"] if d["fired"])
    ctx.note("large-dimension cells driven, %.0fs" % (time.time() - ctx.t0))
    cases += regularized_cases(cuqi, rng, ctx)
    cases += refusal_cases(cuqi, rng)
    # ---- UGLA -----------------------------------------------------------------------------------
    st = probe_ugla(cuqi)
    for iface in ("exp", "legacy"):
        ctx.note("UGLA %s: %s" % (iface, "repaired state (documented local Gaussian also for location != 0)" if st[iface][0]
                                   else "defect #17 present (location != 0)"))
    for cell in lattice_ugla(ctx):
        spec = gen_ugla_spec(rng, cell)
        obs = try_observe(cuqi, spec)
        if "raised" in obs:
            cases.append(raised_case(spec, obs))
            continue
        mark_dloc(spec, obs["D"])
        fail = oracle_check(spec, obs)
        cases += ugla_cases(spec, obs, fail, st[spec["iface"]][0])
        ndraws += len(obs["draws"])
        nfired += sum(1 for d in obs["draws"] if d["fired"])
    ctx.note("UGLA lattice driven, %.0fs" % (time.time() - ctx.t0))
    # ---- histories on shared objects ---------------------------------------------------------------
    st2 = probe_flag2(cuqi)
    for iface in ("exp", "legacy"):
        ctx.note("LinearRTO %s: flag 2 reads the noise sqrtprec %s" % (iface, "again on every call (as the code stands)" if st2[iface] == "live"
                                                                        else "from the captured list (repaired state)"))
    nh = 0
    for cell in history_cells(ctx):
        h = gen_history(cuqi, rng, cell)
        cases += run_history(cuqi, h, st, st2)
        nh += 1
    ctx.note("%d parameter re-assignment histories on shared objects" % nh)
    ctx.note("driver time so far %.0fs" % (time.time() - ctx.t0))
    ctx.note("CGLS stopping test fired in %d of %d scripted transitions (tol %g, maxit %d)" % (nfired, ndraws, TOL, MAXIT))
    # spread the expensive cases (large dimensions, long histories) evenly over the shards, which are consecutive slices
    nsh = max(1, -(-len(cases) // SHARD))
    cases = [c for r in range(nsh) for c in cases[r::nsh]]
    return Result(cases=cases, rule=RULE,
                  extra={"scripted_transitions": ndraws, "cgls_stop_fired": nfired,
                         "ugla_state": {k: ("repaired" if v[0] else "defect-present") for k, v in st.items()}},
                  assumptions=["inner solver: CGLS is run with tol=1e-13 and maxit=400 and its result is accepted through the certificate "
                               "|M^T M x - M^T(b_tild+e)|_inf <= 1e-8 max(|M^T(b_tild+e)|_inf, |M^T(b_tild+e - M x_cur)|_inf) evaluated over Qc on the model's "
                               "operator (relative to the solver's own reference, the initial normal residual; convergence itself is C16's); the stop must have fired "
                               "on the residual clause, not on CGLS's absolute clause normx*tol >= 1 (x-units above 2^34 are therefore not posed)",
                               "no absolute tolerance anywhere: vectors/matrices are compared relative to the largest entry of the model's block (stacked vectors: per "
                               "likelihood/prior block), x-valued quantities relative to max(|posterior mean|, posterior std) (oracle: exact; model: read off), only the "
                               "dimensionless H G G^T vs I, sw^4((Dz)^2+beta) vs 1 and rs^2 scale vs 1 are compared with 1 as reference",
                               "numpy sqrt / cholesky / inv inside Gaussian and GMRF are oracles: the observed sqrtprec S is checked against S^T S = user precision (1e-9 of its largest entry)",
                               "GMRF: the precision operator P_op is read from the prior object (its definition is C20's); periodic/neumann use the class's own sqrt(eps) regularisation",
                               "float rounding of the implementation is not modelled: EXACT comparison on data with <= 14 significant bits (any power-of-two unit), otherwise 1e-9 / 1e-6 relative",
                               "the oracle's posterior mean and covariance are exact (Fractions) from the user-level inputs; current states are posed at the posterior's scale"])


# ---------------------------------------------------------------------------------------------
def rerun_history(cuqi, meta):
    h = meta["hspec"]
    return run_history(cuqi, h, probe_ugla(cuqi), probe_flag2(cuqi))


def oracle(ctx, meta):
    import cuqi
    if meta.get("hspec"):
        for c in rerun_history(cuqi, meta):
            if c.impl_fail and c.meta.get("step") == meta.get("step"):
                return c.impl_fail
        return None
    spec = meta.get("spec")
    if not spec:
        return None
    obs = try_observe(cuqi, spec)
    if "raised" in obs:
        return "valid configuration, but no draw: " + obs["raised"]
    fail = oracle_check(spec, obs)
    return fail[1] if fail else None


def classify(meta, detail):
    spec = meta.get("spec")
    if not spec:
        return "C06|" + str(meta.get("stage"))
    what = "law"
    for w in ("mean", "cov", "state", "affine"):
        if detail and ((w == "mean" and detail.startswith("offset")) or (w == "cov" and detail.startswith("G G^T")) or
                       (w == "state" and detail.startswith("same perturbation")) or (w == "affine" and detail.startswith("x(e*)"))):
            what = w
    return signature_of(spec, what)


def known_witnesses(ctx):
    import cuqi
    st = probe_ugla(cuqi)
    out = {SIG_UGLA[i]: ((not st[i][0]) or "raised" in st[i][3], st[i][1]) for i in ("exp", "legacy")}
    st2 = probe_flag2(cuqi)
    out[SIG_CHOL] = chol_witness(cuqi)
    for i in ("exp", "legacy"):
        out[SIG_STALE[i]] = (st2[i] == "live", "witness history (A 4x3, noise cov [1,4,16,.25] re-assigned in place to [4,1,1,1]): flag 2 of the living "
                             "sampler %s" % ("follows the re-assignment while flag 1 and b_tild keep the captured sqrtprec" if st2[i] == "live"
                                             else "keeps the captured sqrtprec (consistent snapshot)"))
    return out


def search(ctx):
    """wider search with the independent oracle only (fresh values in every cell)"""
    import cuqi, random
    rng = random.Random(ctx.seed * 7919 + 17)
    found = []
    for rep in range(2):
        for cellspec in lattice_rto(ctx):
            spec, obs = build_rto(cuqi, rng, cellspec)
            if "raised" in obs:
                found.append(raised_case(spec, obs))
                continue
            fail = oracle_check(spec, obs)
            if fail:
                found.append(Case(expr="true", meta={"spec": spec, "stage": "search"}, cell=cell_name(spec), impl_fail=fail[1],
                                  signature=signature_of(spec, fail[0])))
        for cell in lattice_ugla(ctx):
            spec = gen_ugla_spec(rng, cell)
            obs = try_observe(cuqi, spec)
            if "raised" in obs:
                found.append(raised_case(spec, obs))
                continue
            mark_dloc(spec, obs["D"])
            fail = oracle_check(spec, obs)
            if fail:
                found.append(Case(expr="true", meta={"spec": spec, "stage": "search"}, cell=cell_name(spec), impl_fail=fail[1],
                                  signature=signature_of(spec, fail[0])))
    return found


def replay(ctx, meta):
    import cuqi
    m = meta.get("meta", meta)
    print(json.dumps({k: v for k, v in meta.items() if k != "meta"}, indent=1)[:3000])
    if m.get("hspec"):
        h = m["hspec"]
        for a_ in h["assign"]:
            print("history %s: re-assign %s.%s in place to %s" % (h["cell"], a_["who"], a_["param"], json.dumps(a_["value"])[:400]))
        print("objects before:", json.dumps({"liks": h["spec0"]["liks"], "prior": h["spec0"]["prior"]})[:1500])
        for c in rerun_history(cuqi, m):
            if c.meta.get("stage") in ("law", "bitwise", "stale-draw", "raised"):
                print("  step %-45s %-10s %s" % (c.meta.get("step"), c.meta.get("stage"), "PROPERTY FAILS: " + str(c.impl_fail)[:600] if c.impl_fail else "holds"))
        return 0
    spec = m.get("spec")
    if not spec:
        if m.get("witness"):
            st = probe_ugla(cuqi)
            for i, (ok, detail, spec, obs) in st.items():
                print("witness %s: %s" % (SIG_UGLA[i], "satisfies the property" if ok else "FAILS: " + detail))
            return 0
        print(json.dumps(m, indent=1)[:3000])
        return 0
    print("configuration:", cell_name(spec))
    print(json.dumps(spec, indent=None)[:3000])
    obs = try_observe(cuqi, spec)
    if "raised" in obs:
        print("implementation raised on this valid configuration:", obs["raised"])
        return 0
    x0, G = read_off(obs)
    H, r, mean, cov = exact_posterior(spec, obs)
    print("unit-scale pattern:", spec.get("scale", {"name": "base"}))
    print("implementation: b_tild        =", obs["b_tild"])
    print("implementation: offset x(e=0) =", x0.tolist())
    print("expected      : posterior mean =", [float(v) for v in mean], "(exact rational arithmetic)")
    print("implementation: G G^T         =", (G @ G.T).tolist(), "(read off with perturbations %g * e_i)" % obs["c"])
    print("expected      : H^-1          =", [[float(v) for v in row] for row in cov])
    fail = oracle_check(spec, obs)
    print("oracle verdict:", "property holds on this configuration" if fail is None else "PROPERTY FAILS (%s): %s" % fail)
    return 0
