(* C10 -- the whole life of a Direct sampler object (experimental/mcmc/_direct.py on top of Sampler in _sampler.py).
   Definitions only.

     Direct(target, initial_point)     Sampler.__init__ assigns self.target: the setter runs validate_target, which CALLS
                                       target.sample() once inside try/except and throws the draw away -- TypeError if it raises
     sample(N) / warmup(N)             _ensure_initialized: current_point = copy of initial_point (default ones(dim)), _samples = [],
                                       _acc = [1]; then N times: current_point = target.sample(); _acc.append(1);
                                       _samples.append(current_point)   (tune is a no-op; an exception of target.sample() propagates)

   `draw k` is what the k-th call of target.sample() in program order returns on the randomness it finds (None = it raises):
   the model says WHICH calls the sampler makes and what it does with each result. *)
From CV Require Import Base.Tac Base.Cmp Model.C10_Conj.
From Coq Require Import QArith.
Open Scope Q_scope.

Section DirectLife.
Variable Pt : Type.
Variable draw : nat -> option Pt.

Record dlife := { dl_calls : nat;            (* calls of target.sample() made so far *)
                  dl_current : Pt;           (* current_point *)
                  dl_chain : list Pt;        (* _samples, oldest first *)
                  dl_acc : list Q }.         (* _acc *)

Inductive dres := DRefused | DRaised (st : dlife) | DOk (st : dlife).

(* constructor, then initialize() *)
Definition direct_new (initial : Pt) : dres :=
  match draw 0 with
  | None => DRefused
  | Some _ => DOk {| dl_calls := 1; dl_current := initial; dl_chain := []; dl_acc := [1] |}
  end.

(* the loop of sample(n) and of warmup(n) *)
Fixpoint direct_steps (n : nat) (st : dlife) : dres :=
  match n with
  | O => DOk st
  | S n' =>
      match draw (dl_calls st) with
      | None => DRaised st
      | Some p => direct_steps n' {| dl_calls := S (dl_calls st); dl_current := p;
                                      dl_chain := dl_chain st ++ [p]; dl_acc := dl_acc st ++ [1] |}
      end
  end.

(* Direct(target, initial).sample(ns).warmup(nw) *)
Definition direct_life (initial : Pt) (ns nw : nat) : dres :=
  match direct_new initial with
  | DOk st => match direct_steps ns st with DOk st' => direct_steps nw st' | r => r end
  | r => r
  end.
End DirectLife.
Arguments dl_calls {Pt} d.
Arguments dl_current {Pt} d.
Arguments dl_chain {Pt} d.
Arguments dl_acc {Pt} d.
Arguments DRefused {Pt}.
Arguments DRaised {Pt} st.
Arguments DOk {Pt} st.
Arguments direct_new {Pt} draw initial.
Arguments direct_steps {Pt} draw n st.
Arguments direct_life {Pt} draw initial ns nw.

(* what the harness observes of one such life *)
Inductive dobs :=
| ObsRefused                                                             (* the constructor raised TypeError *)
| ObsRaised (chain : list (list Q))                                      (* target.sample()'s exception came out of sample/warmup *)
| ObsDone (chain : list (list Q)) (current : list Q) (acc : list Q).     (* _samples, current_point, _acc *)

Definition table_draw (table : list (option (list Q))) (k : nat) : option (list Q) :=
  match nth_error table k with Some o => o | None => None end.

(* table = the results of consecutive target.sample() calls under the same random stream, taken WITHOUT any sampler *)
Definition check_direct_life (table : list (option (list Q))) (initial : list Q) (ns nw : nat) (obs : dobs) : bool :=
  match direct_life (table_draw table) initial ns nw, obs with
  | DRefused, ObsRefused => true
  | DRaised st, ObsRaised chain => qll_eqb (dl_chain st) chain
  | DOk st, ObsDone chain cur acc => qll_eqb (dl_chain st) chain && ql_eqb (dl_current st) cur && ql_eqb (dl_acc st) acc
  | _, _ => false
  end.
