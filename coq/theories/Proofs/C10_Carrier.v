(* C10 -- the executable Gamma parameters over Q (what the correspondence compares with the code) and the
   real-valued ones (what the exactness theorems are about) are the same function: Q2R commutes with
   gg_shape / gg_rate, for every size. *)
From CV Require Import Base.Tac Base.LinAlg Model.C10_Conj Model.C10_ConjR.
From Coq Require Import QArith Qreals Reals Lra.
Open Scope R_scope.

Definition Q2Rv (v : list Q) : Rvec := map Q2R v.
Definition Q2Rm (M : list (list Q)) : Rmat := map Q2Rv M.

Lemma Q2R_0 : Q2R 0 = 0.
Proof. unfold Q2R. simpl. field. Qed.

Lemma Q2R_half : Q2R (1 # 2) = 1 / 2.
Proof. unfold Q2R. simpl. field. Qed.

Lemma Q2R_dot x y : Q2R (dot 0%Q Qplus Qmult x y) = Rdot (Q2Rv x) (Q2Rv y).
Proof.
  revert y; induction x as [|a x IH]; intros [|b y]; simpl; try apply Q2R_0.
  rewrite Q2R_plus, Q2R_mult, IH. reflexivity.
Qed.

Lemma Q2R_vsub x y : Q2Rv (vsub Qminus x y) = Rvsub (Q2Rv x) (Q2Rv y).
Proof.
  revert y; induction x as [|a x IH]; intros [|b y]; simpl; try reflexivity.
  rewrite Q2R_minus. f_equal. apply IH.
Qed.

Lemma Q2R_matvec L v : Q2Rv (matvec 0%Q Qplus Qmult L v) = Rmatvec (Q2Rm L) (Q2Rv v).
Proof.
  induction L as [|row L IH]; simpl; [reflexivity|]. f_equal; [apply Q2R_dot | exact IH].
Qed.

Lemma Q2R_of_nat n : Q2R (q_of_nat n) = INR n.
Proof. unfold q_of_nat, Q2R. simpl. rewrite INR_IZR_INZ. field. Qed.

Theorem shape_carriers_agree m alpha : Q2R (q_shape m alpha) = r_shape m (Q2R alpha).
Proof.
  unfold q_shape, r_shape, gg_shape. rewrite Q2R_plus, Q2R_mult, Q2R_half, Q2R_of_nat. reflexivity.
Qed.

Theorem rate_carriers_agree L Ax b beta :
  Q2R (q_rate L Ax b beta) = r_rate (Q2Rm L) (Q2Rv Ax) (Q2Rv b) (Q2R beta).
Proof.
  unfold q_rate, r_rate, gg_rate, normsq. rewrite Q2R_plus, Q2R_mult, Q2R_half.
  rewrite Q2R_dot, Q2R_matvec, Q2R_vsub. reflexivity.
Qed.
