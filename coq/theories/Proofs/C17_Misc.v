(* C17 -- data rule, cubic Jacobian (exact Taylor identity over Qc), component bookkeeping. *)
From CV Require Import Base.Tac Base.LinAlg Base.Cmp Base.QcLin Model.C17_TP.
From Coq Require Import QArith Qcanon Qabs.

Lemma qvsub_vadd_cancel (a b : list Qc) : length a = length b -> qvsub (qvadd a b) a = b.
Proof.
  revert b; induction a as [|x a IH]; intros [|y b] H; simpl in *; try discriminate; try reflexivity.
  f_equal; [ring | apply IH; lia].
Qed.

(* data - exactData = |noise_std| * z *)
Theorem data_gaussian_affine s exact z : length exact = length z ->
  qvsub (data_gaussian s exact z) exact = qvscale (qcabs s) z.
Proof. intros H. unfold data_gaussian. apply qvsub_vadd_cancel. unfold qvscale. rewrite vscale_length. exact H. Qed.

Theorem data_gaussian_zero s exact n : length exact = n -> data_gaussian s exact (qvzero n) = exact.
Proof.
  intros H. unfold data_gaussian, qvscale, qvzero.
  rewrite (vscale_vzero Qc 0%Qc 1%Qc Qcplus Qcmult Qcminus Qcopp Qcrt).
  apply (vadd_vzero_r Qc 0%Qc 1%Qc Qcplus Qcmult Qcminus Qcopp Qcrt). exact H.
Qed.

Theorem data_scaled_affine s exact z : length exact = length z ->
  qvsub (data_scaled s exact z) exact = map (fun p => (qcabs (fst p * s) * snd p)%Qc) (combine exact z).
Proof. intros H. unfold data_scaled. apply qvsub_vadd_cancel. rewrite map_length, combine_length. lia. Qed.

Theorem data_snr_affine sigma exact z : length exact = length z ->
  qvsub (data_snr sigma exact z) exact = qvscale sigma z.
Proof. intros H. unfold data_snr. apply qvsub_vadd_cancel. unfold qvscale. rewrite vscale_length. exact H. Qed.

(* the stated level: sigma^2 = ||y||^2 / SNR^2  =>  SNR^2 * ||sigma z||^2 = ||y||^2 ||z||^2 *)
Theorem data_snr_level snr sigma exact z : snr <> 0%Qc ->
  (sigma * sigma)%Qc = snr_sigma2 snr exact ->
  (snr * snr * qnormsq (qvscale sigma z))%Qc = (qnormsq exact * qnormsq z)%Qc.
Proof.
  intros Hs E. unfold qnormsq, qvscale.
  rewrite (normsq_vscale Qc 0%Qc 1%Qc Qcplus Qcmult Qcminus Qcopp Qcrt), E. unfold snr_sigma2. fold qnormsq.
  field. exact Hs.
Qed.

(* WangCubic: exact second-order expansion -- the coded Jacobian is the derivative of the coded forward map *)
Theorem cubic_taylor x0 x1 h k :
  cubic_forward (x0 + h) (x1 + k) =
  (cubic_forward x0 x1 + nth 0 (cubic_jacobian x0 x1) 0 * h + nth 1 (cubic_jacobian x0 x1) 0 * k
   + h * h * (zq 5 - zq 30 * x0 - zq 10 * h))%Qc.
Proof.
  unfold cubic_forward, cubic_jacobian, zq. cbn [nth].
  replace (Q2Qc (inject_Z 10)) with (1+1+1+1+1+1+1+1+1+1)%Qc by (apply Qc_is_canon; reflexivity).
  replace (Q2Qc (inject_Z 5)) with (1+1+1+1+1)%Qc by (apply Qc_is_canon; reflexivity).
  replace (Q2Qc (inject_Z 6)) with (1+1+1+1+1+1)%Qc by (apply Qc_is_canon; reflexivity).
  replace (Q2Qc (inject_Z 30)) with ((1+1+1+1+1+1)*(1+1+1+1+1))%Qc by (apply Qc_is_canon; reflexivity).
  ring.
Qed.

(* components: what the problem hands out are the very objects the constructor passed on *)
Theorem components_same_objects model_id data_id lik_id prior_id :
  let h := construct model_id data_id lik_id prior_id in
  get_components h = Some (model_id, data_id) /\ bp_model h = Some model_id /\ bp_data h = Some data_id /\
  bp_likelihood h = lik_id /\ bp_prior h = prior_id /\
  find_lik h (post_lik (h_target h)) = Some (mkLik model_id data_id).
Proof.
  cbn. unfold get_components, bp_model, bp_data, find_lik, bp_likelihood. cbn. rewrite Z.eqb_refl. cbn.
  repeat split; reflexivity.
Qed.
