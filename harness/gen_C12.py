"""C12 -- forward models act identically on every representation of their input.

Correspondence: cuqi.model.Model / LinearModel / PDEModel (forward, gradient, forward on a distribution)
vs Model/C12_Model.v, EXACT on integer/dyadic data with polynomial forward maps and polynomial /
reshaping / step geometries.  Independent oracle: plain-Python Fractions (+ dual numbers for the exact
Jacobian of the parameter-to-output map); it never calls cuqi's conversion code.

Forward callables are F(x) = A phi(x) + b on flat (C-order) function values, phi an element-wise polynomial.  A matrix
model (LinearModel(A)) is only combined with 1-d function values.  Flat Jacobians / gradients returned by user callables are
indexed like the parameter vector.  The model's gradient callable and the geometry's `gradient` are written in three styles
(wrt-first, direction-first, np.asarray) because numpy hands the CUQIarray subclass of the leftmost CUQIarray operand on to
the result, and Model._2par looks at that subclass.

Six defect classes of today's tree are re-found on every run (signatures SIG_*, witnesses W_*, listed in
known_findings.tsv); for the three with a proposed repair (fixes/C12_*.diff) a probe reads off the state of the tree and the
Coq model is evaluated for that state, so the check is green before and after the repair.
"""
import copy as _copy
import itertools
from fractions import Fraction
import numpy as np
from common import *

IMPORTS = ("From CV Require Import Base.Cmp Base.QcLin Model.C12_Model Model.C12_Args Model.C12_Jac Model.C12_Pde.\n"
           "From Coq Require Import QArith Qcanon String. Open Scope string_scope.")
RULE = ("model kinds {Model+jacobian, Model+gradient, Model without gradient, LinearModel(matrix), LinearModel(callables), "
        "PDEModel with gradient_wrt_parameter / jacobian_wrt_parameter / both / neither} x domain/range geometries "
        "{int default, Continuous1D, Discrete, Image2D C/F/visual_only, default 2-d tuple, Continuous2D, MappedGeometry "
        "(polynomial map, with/without imap, with/without gradient, over Continuous1D and Image2D-F), StepExpansion "
        "(max/min/mean, with/without gradient), user subclass of Continuous1D, user subclass of Geometry} x input forms "
        "{par, fun(is_par=False), CUQIarray par/fun carrying the same geometry object or an equal copy, Samples of parameters, "
        "Samples of function values with is_par=False} ; gradient: direction forms x wrt forms x flags x the three ways "
        "(wrt-first, direction-first, np.asarray) of writing the model's gradient callable and the geometry's gradient, "
        "which decide where numpy takes the CUQIarray subclass of the result from; fixed sections for the six defect "
        "classes (geometry comparison: default-vs-subclass, Discrete sizes, gradient attribute; Samples flag; 0-d output; "
        "tag leak); rename on a distribution; argument binding; ROUND 3: get_non_default_args x {every combination of parameter kinds "
        "positional-only / positional-or-keyword / *args / keyword-only / **kwargs} x default placement x names from a pool with args/kwargs x "
        "{def, lambda, bound method, carried _non_default_args, cuqi Model as callable} x {positional, right keyword, wrong keyword, two positionals}; "
        "chain-rule instances {identity-type, attached unit gradient, element-wise with gradient in 3 styles, StepExpansion+gradient, KLExpansion+K^T "
        "gradient, Image2D C / F, tuple default, Continuous2D} x {7 model kinds with a gradient}; PDEModel {identity, unit-triangular, row-permuted "
        "scaled, parameter-dependent operator} x {observation_map or not} x 10 input forms x 6 domain geometries.  "
        "distinct = distinct (configuration, input values); "
        "trivial = identity geometry on both sides with plain parameter input, and zero directions")

F = Fraction
SIG_DEFEQ = "Model._2par|array-input:default1d-domain,range-continuous1d-subclass-same-grid"
SIG_SAMPLES = "Model._apply_func|samples-input:function-values,is_par=False"
SIG_EQIDX = "Geometry._all_values_equal|array-input:Discrete-geometries-of-different-size:IndexError"
SIG_EQKEY = "Geometry._all_values_equal|array-input:geometry-with-gradient-attribute-vs-equal-geometry-without:KeyError"
SIG_SUBCLS = "Model._apply_func|input:CUQIarray-subclass:type-is-check"
SIG_ISID = "CUQIarray.funvals|is_par:numpy.bool_-or-int:identity-test-is-True"
SIG_0D = "Model.forward|range:single-step-StepExpansion:0-d-output"
SIG_TAGLEAK = "Model.gradient|wrt:CUQIarray,domain-geometry-with-gradient:subclass-tag-of-wrt.funvals-reaches-_2par"


# ------------------------------------------------------------------------------------------------
# small helpers
# ------------------------------------------------------------------------------------------------
def fr(x):
    return x if isinstance(x, Fraction) else Fraction(x)


def fs(v):          # json encoding of exact numbers
    return [str(fr(a)) for a in v]


def ufs(v):
    return [Fraction(a) for a in v]


def horner(cs, x):
    """sum cs[k] x^k with +,* only; works for numpy arrays (keeps subclasses), Fractions, duals"""
    acc = cs[-1] + 0 * x
    for c in reversed(cs[:-1]):
        acc = c + x * acc
    return acc


def dcoef(cs):
    return [k * c for k, c in enumerate(cs)][1:] or [0]


def fl(cs):
    return [float(c) for c in cs]


class Dual:
    """a + b*eps over Fractions: exact derivatives of polynomial maps"""
    __slots__ = ("a", "b")

    def __init__(self, a, b=0):
        self.a, self.b = fr(a), fr(b)

    def __add__(self, o):
        o = o if isinstance(o, Dual) else Dual(o)
        return Dual(self.a + o.a, self.b + o.b)
    __radd__ = __add__

    def __mul__(self, o):
        o = o if isinstance(o, Dual) else Dual(o)
        return Dual(self.a * o.a, self.a * o.b + self.b * o.a)
    __rmul__ = __mul__

    # order by value (max/min projections of a range geometry; such gradients are refused anyway)
    def __lt__(self, o):
        return self.a < (o.a if isinstance(o, Dual) else o)

    def __gt__(self, o):
        return self.a > (o.a if isinstance(o, Dual) else o)


class Refuse(Exception):
    pass


def poly_compose(p, q):
    """coefficients of p(q(x))"""
    res = [F(0)]
    for c in reversed(p):
        new = [F(0)] * (len(res) + len(q) - 1)
        for i, a in enumerate(res):
            for j, b_ in enumerate(q):
                new[i + j] += a * b_
        new[0] += c
        res = new
    while len(res) > 1 and res[-1] == 0:
        res.pop()
    return res


def qv(v):
    return "(qvec %s)" % cqvec(v)


def qm(m):
    return "(qmat %s)" % cqmat(m)


def cnatll(ll):
    return clist([clist([cnat(k) for k in l]) for l in ll])


# ------------------------------------------------------------------------------------------------
# geometry specifications: build the cuqi object, print the Coq descriptor, independent maps
# ------------------------------------------------------------------------------------------------
_FN_CACHE = {}     # (kind of function, parameters) -> function object, so equal copies share them


def _fn(key, make):
    if key not in _FN_CACHE:
        _FN_CACHE[key] = make()
    return _FN_CACHE[key]


class Geo:
    """spec dict keys: kind, n | r,c, order, visual, cs, ics, grad, proj, nodes, steps, grid"""

    def __init__(self, **k):
        self.d = dict(k)
        self.kind = k["kind"]

    # ---- sizes
    @property
    def twod(self):
        return self.kind in ("image", "default2d", "cont2d", "mapped_img") and not self.d.get("visual")

    @property
    def nfun(self):
        d = self.d
        if self.kind in ("image", "default2d", "cont2d", "mapped_img"):
            return d["r"] * d["c"]
        if self.kind in ("step", "kl"):
            return d["nodes"]
        if self.kind == "mapped_over":
            return self.inner.nfun
        return d["n"]

    @property
    def inner(self):
        """mapped_over: MappedGeometry(inner geometry, map, imap) -- the WRAPPER has no gradient of its own, the
        inner geometry may (as a method of its class or attached to the object)"""
        return Geo(**self.d["inner"])

    @property
    def pdim(self):
        if self.kind == "step":
            return self.d["steps"]
        if self.kind == "kl":
            return self.d["modes"]
        if self.kind == "mapped_over":
            return self.inner.pdim
        return self.nfun

    @property
    def fshape(self):
        return (self.d["r"], self.d["c"]) if self.twod else (self.nfun,)

    def step_idx(self):
        nodes, steps = self.d["nodes"], self.d["steps"]
        # exact (rational) version of StepExpansion's interval rule on the grid 0..nodes-1
        L = F(nodes - 1)
        out = []
        for i in range(steps):
            lo, hi = i * L / steps, (i + 1) * L / steps
            out.append([k for k in range(nodes) if ((k >= lo) if i == 0 else (k > lo)) and k <= hi])
        return out

    def kl_mats(self):
        """KLExpansion from its documented formulas (scipy.fftpack idst/dst type 2 written out), as exact rationals of the
        float64 entries: par2fun p = K p with K[k][i] = sin(pi (2k+1)(i+1)/(2N)) / ((i+1)^decay * normalizer)  (i < N-1),
        fun2par f = M f with M[i][n] = (i+1)^decay * normalizer * 2 sin(pi (i+1)(2n+1)/(2N)) / N"""
        import math
        d = self.d
        N, Mo, dec, nz = d["nodes"], d["modes"], float(Fraction(d["decay"])), float(Fraction(d["normalizer"]))
        K = [[F(0)] * Mo for _ in range(N)]
        for i in range(Mo):
            c = 1.0 / (float(i + 1) ** dec * nz)
            for k in range(N):
                v = 0.5 * (-1) ** k * c if i == N - 1 else c * math.sin(math.pi * (2 * k + 1) * (i + 1) / (2 * N))
                K[k][i] = frac(v)
        Mi = [[frac(float(i + 1) ** dec * nz * 2.0 * math.sin(math.pi * (i + 1) * (2 * n + 1) / (2 * N)) / N) for n in range(N)] for i in range(Mo)]
        return K, Mi

    def par_order(self):
        """for 2-d geometries: inv[k] = C-order flat index of the function value that parameter k is"""
        d = self.d
        r, c = d["r"], d["c"]
        if d.get("visual") or d.get("order", "C") == "C":
            return list(range(r * c))
        return [i * c + j for j in range(c) for i in range(r)]

    @property
    def identity_like(self):
        return self.kind in ("default1d", "cont1d", "discrete", "image", "default2d", "cont2d")

    @property
    def has_grad(self):
        return bool(self.d.get("grad"))

    # ---- independent maps (generic numbers), flat C order
    def o_par2fun(self, p):
        d, k = self.d, self.kind
        if len(p) != self.pdim:
            raise Refuse("shape")
        if k == "mapped_over":
            return [horner(ufs(d["cs"]), t) for t in self.inner.o_par2fun(p)]
        if k == "kl":
            K, _ = self.kl_mats()
            return [sum((K[r][i] * p[i] for i in range(len(p))), F(0)) for r in range(len(K))]
        if k in ("default1d", "cont1d", "discrete"):
            return list(p)
        if k in ("image", "default2d", "cont2d", "mapped_img"):
            r, c = d["r"], d["c"]
            if d.get("visual"):
                f = list(p)
            elif d.get("order", "C") == "F":
                f = [p[j * r + i] for i in range(r) for j in range(c)]
            else:
                f = list(p)
            if k == "mapped_img":
                f = [horner(ufs(d["cs"]), t) for t in f]
            return f
        if k in ("mapped", "sub1d", "user"):
            return [horner(ufs(d["cs"]), t) for t in p]
        if k == "step":
            f = [0] * d["nodes"]
            for i, ix in enumerate(self.step_idx()):
                for kk in ix:
                    f[kk] = p[i]
            return f
        raise ValueError(k)

    def o_fun2par(self, f):
        d, k = self.d, self.kind
        if len(f) != self.nfun:
            raise Refuse("shape")
        if k == "mapped_over":
            if d.get("ics") is None:
                raise Refuse("no inverse map")
            return self.inner.o_fun2par([horner(ufs(d["ics"]), t) for t in f])
        if k == "kl":
            _, Mi = self.kl_mats()
            return [sum((Mi[i][n] * f[n] for n in range(len(f))), F(0)) for i in range(len(Mi))]
        if k in ("default1d", "cont1d", "discrete"):
            return list(f)
        if k in ("mapped", "sub1d", "user", "mapped_img"):
            if d.get("ics") is None:
                raise Refuse("no inverse map")
            f = [horner(ufs(d["ics"]), t) for t in f]
            if k != "mapped_img":
                return f
        if k in ("image", "default2d", "cont2d", "mapped_img"):
            r, c = d["r"], d["c"]
            if d.get("visual") or d.get("order", "C") == "C":
                return list(f)
            return [f[i * c + j] for j in range(c) for i in range(r)]
        if k == "step":
            out = []
            for ix in self.step_idx():
                vals = [f[kk] for kk in ix]
                pj = d["proj"]
                out.append(max(vals) if pj == "max" else min(vals) if pj == "min" else sum(vals) * F(1, len(vals)))
            return out
        raise ValueError(k)

    # ---- the cuqi object (a fresh one per call; function-valued attributes are shared)
    def build(self, cuqi):
        import cuqi.geometry as G
        d, k = self.d, self.kind
        key = json.dumps(d, sort_keys=True)
        fkey = json.dumps({k_: v_ for k_, v_ in d.items() if k_ not in ("grad", "gstyle")}, sort_keys=True)
        if k == "default1d":
            return d["n"]
        if k == "cont1d":
            g = G.Continuous1D(self.grid())
            if d.get("grad"):      # an identity-like geometry OBJECT with `gradient` attached: the (identity) Jacobian
                g.gradient = _fn(("grad", key), lambda: _geom_gradient([1.0], d.get("gstyle", "wrtfirst")))
            return g
        if k == "discrete":
            return G.Discrete(d["n"])
        if k == "image":
            return G.Image2D((d["r"], d["c"]), order=d.get("order", "C"), visual_only=bool(d.get("visual")))
        if k == "default2d":
            return (d["r"], d["c"])
        if k == "cont2d":
            return G.Continuous2D((d["r"], d["c"]))
        cs = fl(ufs(d["cs"])) if "cs" in d else None
        ics = fl(ufs(d["ics"])) if d.get("ics") is not None else None
        dcs = fl(dcoef(ufs(d["cs"]))) if "cs" in d else None
        if k == "kl" and d.get("defaults"):
            return G.KLExpansion(np.linspace(0.0, 1.0, d["nodes"]))
        if k == "step" and d.get("defaults"):
            return G.StepExpansion(np.arange(float(d["nodes"])))
        if k == "image" and d.get("defaults"):
            return G.Image2D((d["r"], d["c"]))
        if k == "kl":
            g = G.KLExpansion(np.linspace(0.0, 1.0, d["nodes"]), decay_rate=float(Fraction(d["decay"])),
                              normalizer=float(Fraction(d["normalizer"])), num_modes=d["modes"])
            if d.get("grad"):      # a user's gradient for the LINEAR expansion par2fun p = K p: K^T direction, K from the documented formula
                Kf = np.array([[float(x) for x in row] for row in self.kl_mats()[0]])
                g.gradient = _fn(("klgrad", key), lambda: (lambda direction, wrt: Kf.T @ np.asarray(direction)))
            return g
        if k == "mapped_over":
            mp = _fn(("map", fkey), lambda: (lambda x: horner(cs, x)))
            imp = _fn(("imap", fkey), lambda: (lambda x: horner(ics, x))) if ics is not None else None
            return G.MappedGeometry(self.inner.build(cuqi), map=mp, imap=imp)
        if k in ("mapped", "mapped_img"):
            base = G.Continuous1D(d["n"]) if k == "mapped" else G.Image2D((d["r"], d["c"]), order=d.get("order", "C"))
            mp = _fn(("map", fkey), lambda: (lambda x: horner(cs, x)))
            imp = _fn(("imap", fkey), lambda: (lambda x: horner(ics, x))) if ics is not None else None
            g = G.MappedGeometry(base, map=mp, imap=imp)
            if d.get("grad"):
                g.gradient = _fn(("grad", key), lambda: _geom_gradient(dcs, d.get("gstyle", "wrtfirst")))
            return g
        if k == "step":
            g = G.StepExpansion(np.arange(float(d["nodes"])), n_steps=d["steps"], fun2par_projection=d["proj"])
            if d.get("grad"):
                idx = self.step_idx()
                g.gradient = _fn(("sgrad", key), lambda: (lambda direction, wrt: np.array([np.sum(np.asarray(direction)[ix]) for ix in idx])))
            return g
        if k == "sub1d":
            cls = _fn(("sub1dcls", bool(d.get("grad")) and d.get("gstyle", "wrtfirst"), ics is not None),
                      lambda: _make_sub1d(G, bool(d.get("grad")) and d.get("gstyle", "wrtfirst"), ics is not None))
            return cls(d["n"], cs, ics, dcs)
        if k == "user":
            cls = _fn(("usercls", bool(d.get("grad")) and d.get("gstyle", "wrtfirst"), ics is not None),
                      lambda: _make_user(G, bool(d.get("grad")) and d.get("gstyle", "wrtfirst"), ics is not None))
            return cls(d["n"], cs, ics, dcs)
        raise ValueError(k)

    def grid(self):
        n = self.d["n"]
        return np.arange(float(n)) if not self.d.get("grid") else np.arange(float(n)) * 0.5 + 1.0

    # ---- Coq descriptor
    def coq(self):
        d, k = self.d, self.kind
        if k == "kl":
            K, Mi = self.kl_mats()
            grad = "(Some (GGMatT %s %s))" % (cnat(self.pdim), qm(K)) if d.get("grad") else "None"
            return "(mkGeo KStep %s %s (CvLin %s %s) None F2Base %s %s)" % (cnat(self.pdim), cnat(self.nfun), qm(K), qm(Mi), grad, cnat(3))
        if k == "mapped_over":
            # par2fun = map o inner.par2fun, fun2par = inner.fun2par o imap; hasattr(wrapper, "gradient") is False
            inn = self.inner
            ind = inn.d
            conv = "CvId"
            if inn.kind == "step":
                conv = "(CvStep %s %s %s %s)" % (cnat(ind["nodes"]), cnatll(inn.step_idx()), {"max": "PMax", "min": "PMin", "mean": "PMean"}[ind["proj"]], cbool(_step_squeezes()))
                cs, inner_ics, inner_raises = ufs(d["cs"]), [F(0), F(1)], None
            else:
                cs = poly_compose(ufs(d["cs"]), ufs(ind["cs"]))
                inner_ics = ufs(ind["ics"]) if ind.get("ics") is not None else None
                inner_raises = "F2NoImap" if inn.kind == "mapped" else "F2NotImpl"
            if d.get("ics") is None:
                f2p = "F2NoImap"
            elif inner_ics is None:
                f2p = inner_raises
            else:
                f2p = "(F2Imap %s)" % qv(poly_compose(inner_ics, ufs(d["ics"])))
            return "(mkGeo KMapped %s %s %s (Some %s) %s None %s)" % (cnat(self.pdim), cnat(self.nfun), conv, qv(cs), f2p, cnat(2))
        cls = {"default1d": "KDefault1D", "cont1d": "KCont1D", "discrete": "KDiscrete", "image": "KImage2D",
               "default2d": "KDefault2D", "cont2d": "KCont2D", "step": "KStep", "mapped": "KMapped",
               "mapped_img": "KMapped", "sub1d": "KSub1D", "user": "KUser"}[k]
        conv = "CvId"
        if k in ("image", "default2d", "cont2d", "mapped_img") and not d.get("visual"):
            conv = "(%s %s %s)" % ("CvImgF" if d.get("order", "C") == "F" else "CvImgC", cnat(d["r"]), cnat(d["c"]))
        if k == "step":
            conv = "(CvStep %s %s %s %s)" % (cnat(d["nodes"]), cnatll(self.step_idx()), {"max": "PMax", "min": "PMin", "mean": "PMean"}[d["proj"]], cbool(_step_squeezes()))
        mp = "(Some %s)" % qv(ufs(d["cs"])) if "cs" in d else "None"
        if k in ("mapped", "mapped_img", "sub1d", "user"):
            if d.get("ics") is not None:
                f2p = "(F2Imap %s)" % qv(ufs(d["ics"]))
            else:
                f2p = "F2NoImap" if k in ("mapped", "mapped_img") else "F2NotImpl"
        else:
            f2p = "F2Base"
        if d.get("grad"):
            grad = "(Some (GGStepSum %s))" % cnatll(self.step_idx()) if k == "step" else "(Some (GGDiag (pderiv %s) %s))" % (
                qv(ufs(d["cs"]) if "cs" in d else [F(0), F(1)]), GSTYLES[d.get("gstyle", "wrtfirst")])
        else:
            grad = "None"
        vid = 1 if d.get("grid") else 0
        return "(mkGeo %s %s %s %s %s %s %s %s)" % (cls, cnat(self.pdim), cnat(self.nfun), conv, mp, f2p, grad, cnat(vid))

    def name(self):
        d = self.d
        if self.kind == "kl":
            return "kl%d/%d%s" % (d["modes"], d["nodes"], "+grad" if d.get("grad") else "")
        if self.kind == "mapped_over":
            return "mapped(%s)%s" % (self.inner.name(), "+imap" if d.get("ics") is not None else "-noimap")
        s = self.kind
        if self.kind in ("image", "mapped_img"):
            s += "-" + ("visual" if d.get("visual") else d.get("order", "C"))
        if self.kind == "step":
            s += "-" + d["proj"]
        if self.kind in ("mapped", "mapped_img", "sub1d", "user"):
            s += "+imap" if d.get("ics") is not None else "-noimap"
        if d.get("grad"):
            s += "+grad" + ("" if d.get("gstyle", "wrtfirst") == "wrtfirst" or self.kind == "step" else ":" + d["gstyle"])
        if d.get("grid"):
            s += "+grid1"
        return s


GSTYLES = {"wrtfirst": "SelWrtDir", "dirfirst": "SelDirWrt", "strip": "SelNone"}


def _geom_gradient(dcs, style):
    """the user's geometry.gradient(direction, wrt_par) = dmap(wrt_par) * direction, written in one of three
    equally natural ways; they differ only in which operand numpy takes the ndarray subclass from"""
    if style == "dirfirst":
        return lambda direction, wrt: direction * horner(dcs, wrt)
    if style == "strip":
        return lambda direction, wrt: np.asarray(horner(dcs, np.asarray(wrt))) * np.asarray(direction)
    return lambda direction, wrt: horner(dcs, wrt) * direction


def _make_sub1d(G, with_grad, with_inv):
    class SubGeom(G.Continuous1D):
        """user geometry derived from Continuous1D with its own par2fun (and inverse)"""
        def __init__(self, n, cs, ics, dcs):
            super().__init__(n)
            self._cs, self._ics, self._dcs = cs, ics, dcs

        def par2fun(self, p):
            return horner(self._cs, p)

        def fun2par(self, f):
            if self._ics is None:
                raise NotImplementedError("no inverse")
            return horner(self._ics, f)
    if with_grad:
        SubGeom.gradient = lambda self, direction, wrt: _geom_gradient(self._dcs, with_grad)(direction, wrt)
    return SubGeom


def _make_user(G, with_grad, with_inv):
    class UserGeom(G.Geometry):
        """user geometry derived from Geometry"""
        def __init__(self, n, cs, ics, dcs):
            self._n, self._cs, self._ics, self._dcs = n, cs, ics, dcs

        @property
        def par_shape(self):
            return (self._n,)

        def _plot(self):
            pass

        def par2fun(self, p):
            return horner(self._cs, p)
    if with_inv:
        UserGeom.fun2par = lambda self, f: horner(self._ics, f)
    if with_grad:
        UserGeom.gradient = lambda self, direction, wrt: _geom_gradient(self._dcs, with_grad)(direction, wrt)
    return UserGeom


# ------------------------------------------------------------------------------------------------
# forward maps F(x) = A phi(x) + b on flat function values; model kinds
# ------------------------------------------------------------------------------------------------
MODEL_KINDS = ["jac", "dir", "nograd", "linmat", "linfun", "pde_gw", "pde_jw", "pde_both", "pde_none"]


def o_F(A, cs, b, x):
    ph = [horner(cs, t) for t in x]
    return [sum((A[i][j] * ph[j] for j in range(len(x))), 0) + b[i] for i in range(len(A))]


FSTYLES = ["def", "lambda", "defaults", "partial", "method", "callable", "static"]


def _style_callable(f, style):
    """the same one-argument function declared in another way (the argument is called x in all of them)"""
    import functools
    if style in (None, "def"):
        return f
    if style == "lambda":
        return lambda x: f(x)
    if style.startswith("name:"):           # a callable whose only argument has the given name
        return eval("lambda %s: f(%s)" % (style[5:], style[5:]), {"f": f})
    if style == "defaults":
        def g(x, scale=1.0, unused=None):
            return scale * f(x) if scale != 1.0 else f(x)
        return g
    if style == "partial":
        def g2(x, offset):
            return f(x) + offset
        return functools.partial(g2, offset=0.0)

    class Holder:
        def meth(self, x):
            return f(x)

        def __call__(self, x):
            return f(x)

        @staticmethod
        def st(x):
            return f(x)
    return {"method": Holder().meth, "callable": Holder(), "static": Holder.st}[style]


def build_model(cuqi, meta, dg_obj, rg_obj):
    """returns (model, raw_forward_callable).  meta["reassign"]: the model is first built with placeholder geometries and
    its range_geometry / domain_geometry attributes are assigned afterwards (a model object is re-targeted)"""
    if not meta.get("reassign"):
        return _build_model_core(cuqi, meta, dg_obj, rg_obj)
    import cuqi.geometry as G
    dgs, rgs = Geo(**meta["dg"]), Geo(**meta["rg"])
    model, raw = _build_model_core(cuqi, meta, G.Discrete(dgs.pdim), G.Discrete(rgs.pdim))
    as_geom = lambda g: G._DefaultGeometry1D(g) if isinstance(g, int) else G._DefaultGeometry2D(g) if isinstance(g, tuple) else g
    model.range_geometry, model.domain_geometry = as_geom(rg_obj), as_geom(dg_obj)
    return model, raw


def _build_model_core(cuqi, meta, dg_obj, rg_obj):
    from cuqi.model import Model, LinearModel, PDEModel
    A = np.array([[float(Fraction(a)) for a in row] for row in meta["A"]])
    cs, b = fl(ufs(meta["cs"])), np.array(fl(ufs(meta["b"])))
    dcs = fl(dcoef(ufs(meta["cs"])))
    dgs, rgs = Geo(**meta["dg"]), Geo(**meta["rg"])
    kind = meta["mk"]

    def chk(x, gs_):
        # a user's callable written for (r, c) images indexes them: function values of another shape are an error
        if gs_.twod and np.shape(x) != gs_.fshape:
            raise ValueError("callable received function values of shape %s, written for %s" % (np.shape(x), gs_.fshape))
        return x

    rstyle, bufs = meta.get("rstyle"), {}

    def ret(y, key):
        """how a user's callable hands its result back: a fresh C array (default), a Fortran-ordered / strided (non
        C-contiguous) array, one work buffer filled and returned on every call, or an integer array"""
        if meta.get("intdata") and np.all(np.asarray(y) == np.round(np.asarray(y))):
            y = np.asarray(y).astype(np.int64)
        if rstyle == "fortran":
            y = np.asarray(y)
            if y.ndim >= 2:
                return np.asfortranarray(y)
            big = np.full(2 * y.shape[0], 77, dtype=y.dtype)
            big[::2] = y
            return big[::2]
        if rstyle == "buffer":
            y = np.asarray(y)
            if key not in bufs or bufs[key].shape != y.shape or bufs[key].dtype != y.dtype:
                bufs[key] = np.empty_like(y)
            np.copyto(bufs[key], y)
            return bufs[key]
        return y

    def fwd(x):
        y = A @ horner(cs, chk(x, dgs).ravel()) + b
        return ret(y.reshape(rgs.fshape) if rgs.twod else y, "fwd")
    fwd = _style_callable(fwd, meta.get("fstyle"))

    # flat (1-d) Jacobians / gradients have one entry per PARAMETER (shape (range_dim, domain_dim)): for a
    # 2-d domain geometry their columns follow the parameter vector's order, not numpy's C order
    inv = dgs.par_order() if dgs.twod else None
    mstyle, jt = meta.get("mstyle", "wrtfirst"), bool(meta.get("jt"))

    def jac(wrt):
        w = chk(wrt, dgs).ravel() if jt else np.asarray(chk(wrt, dgs)).ravel()
        J = A * horner(dcs, w)[None, :]
        return ret(J[:, inv] if inv is not None else J, "jac")

    def gdir(direction, wrt):
        chk(wrt, dgs), chk(direction, rgs)
        if mstyle == "dirfirst":
            g = (A.T @ direction.ravel()) * horner(dcs, wrt.ravel())
        elif mstyle == "strip":
            g = np.asarray(horner(dcs, np.asarray(wrt).ravel())) * (A.T @ np.asarray(direction).ravel())
        else:
            g = horner(dcs, wrt.ravel()) * (A.T @ direction.ravel())
        return ret(g.reshape(dgs.fshape) if dgs.twod else g, "gdir")

    if kind == "jac":
        return Model(fwd, rg_obj, dg_obj, jacobian=jac), fwd
    if kind == "dir":
        return Model(fwd, rg_obj, dg_obj, gradient=gdir), fwd
    if kind == "nograd":
        return Model(fwd, rg_obj, dg_obj), fwd
    if kind == "linmat":
        return LinearModel(A.astype(np.int64) if meta.get("intdata") else A, range_geometry=None if isinstance(rg_obj, int) else rg_obj,
                           domain_geometry=None if isinstance(dg_obj, int) else dg_obj), None
    if kind == "linfun":
        def adj(y):
            g = A.T @ (np.asarray(y).ravel() if mstyle == "strip" else y.ravel())
            return ret(g.reshape(dgs.fshape) if dgs.twod else g, "adj")
        return LinearModel(fwd, adj, rg_obj, dg_obj), fwd
    if kind.startswith("pde"):
        from cuqi.pde import SteadyStateLinearPDE
        m = len(A)

        class P(SteadyStateLinearPDE):
            pass
        def gwp(self, direction, wrt):
            g = horner(dcs, np.asarray(wrt).ravel()) * (A.T @ direction)
            return g[inv] if inv is not None else g
        if kind in ("pde_gw", "pde_both"):
            P.gradient_wrt_parameter = gwp
        if kind == "pde_jw":
            P.jacobian_wrt_parameter = lambda self, wrt: jac(wrt)
        if kind == "pde_both":           # deliberately different, so that the dispatch order is visible
            P.jacobian_wrt_parameter = lambda self, wrt: 2 * jac(wrt)
        # PDE_form(x) = (Aop, Aop (A phi(x) + b)) with a unit triangular integer operator Aop (entries -1/0/1: LU with partial
        # pivoting and the substitutions are exact), so that observe(solve(assemble(x))) = A phi(x) + b exactly
        # round 3: the operator may depend on the parameter (off-diagonal entries of a unit triangular T times x[(i+j) mod n]), and
        # an observation_map u -> C u may follow; then the solution is A0 phi(x) + b0 and meta A = C A0, b = C b0
        A0 = np.array([[float(Fraction(a)) for a in row] for row in meta["pde_A0"]]) if meta.get("pde_A0") else A
        b0 = np.array(fl(ufs(meta["pde_b0"]))) if meta.get("pde_b0") else b
        Cm = np.array([[float(Fraction(a)) for a in row] for row in meta["pde_C"]]) if meta.get("pde_C") else None
        Aop = np.array(meta["pde_op"], dtype=float) if meta.get("pde_op") else np.eye(len(A0))

        def pde_form(x):
            xr = np.asarray(x, dtype=float).ravel()
            op = Aop.copy()
            if meta.get("pde_xdep"):
                for i in range(len(op)):
                    for j in range(len(op)):
                        if i != j:
                            op[i, j] = Aop[i, j] * xr[(i + j) % len(xr)]
            return op, op @ (A0 @ horner(cs, xr) + b0)
        pde = P(pde_form, observation_map=(lambda u: Cm @ u) if Cm is not None else None)
        if meta.get("pde_inst"):          # attached to the PDE object instead of its class (hasattr sees both)
            for nm in ("gradient_wrt_parameter", "jacobian_wrt_parameter"):
                if nm in P.__dict__:
                    fn = P.__dict__[nm]
                    delattr(P, nm)
                    setattr(pde, nm, (lambda f_: (lambda *a: f_(pde, *a)))(fn))
        return PDEModel(pde, rg_obj, dg_obj), None
    raise ValueError(kind)


def pde_parts(meta):
    """(A0, b0, T) of a PDE case as Fractions: solution = A0 phi(x) + b0, operator T (identity unless pde_op is given)"""
    A0 = [[Fraction(a) for a in row] for row in (meta.get("pde_A0") or meta["A"])]
    b0 = ufs(meta.get("pde_b0") or meta["b"])
    m = len(A0)
    T = [[Fraction(a) for a in row] for row in meta["pde_op"]] if meta.get("pde_op") else [[F(int(i == j)) for j in range(m)] for i in range(m)]
    return A0, b0, T


def coq_model(meta):
    A = [[Fraction(a) for a in row] for row in meta["A"]]
    cs, b = ufs(meta["cs"]), ufs(meta["b"])
    dcs = dcoef(cs)
    n = len(A[0])
    kind = meta["mk"]
    keeps = "false" if kind.startswith("pde") else "true"
    fwd = "(mkFwd (poly_forward %s %s %s) %s)" % (qm(A), qv(cs), qv(b), keeps)
    if kind == "linmat":
        fwd = "(mkFwd (qmatvec %s) true)" % qm(A)       # LinearModel(matrix): lambda x: self._matrix @ x  (C12_linear_matrix_model)
    if kind.startswith("pde"):
        # PDEModel._forward_func inside the model: assemble / solve (checked Gauss-Jordan) / observe
        A0, b0, T = pde_parts(meta)
        obs = "(Some (qmatvec %s))" % qm([[Fraction(a) for a in row] for row in meta["pde_C"]]) if meta.get("pde_C") else "None"
        fwd = "(pde_fwd (mkPde (pde_case_form %s %s %s %s %s) %s) (model_solve %s))" % (
            cbool(bool(meta.get("pde_xdep"))), qm(T), qm(A0), qv(cs), qv(b0), obs, cnat(len(T)))
    dgs = Geo(**meta["dg"])
    shaped = cbool(dgs.twod)
    msel = GSTYLES[meta.get("mstyle", "wrtfirst")]
    jt = cbool(bool(meta.get("jt")))
    # flat Jacobians / gradients are indexed like the parameter vector (see build_model)
    if dgs.twod and dgs.d.get("order", "C") == "F" and not dgs.d.get("visual"):
        r, c = cnat(dgs.d["r"]), cnat(dgs.d["c"])
        pj = lambda J: "(fun w => map (img_fun2par %s %s) (%s w))" % (r, c, J)
        pg = lambda g: "(fun d w => img_fun2par %s %s (%s d w))" % (r, c, g)
    else:
        pj = pg = lambda x: x
    # the derivative of the element-wise polynomial is computed by the model (pderiv), not handed over
    pjac = lambda AA: pj("(poly_jac %s (pderiv %s))" % (qm(AA), qv(cs)))
    pdir = "(poly_dir %s %s (pderiv %s))" % (cnat(n), qm(A), qv(cs))
    gf = {"jac": "(GJac %s %s %s)" % (cnat(n), pjac(A), jt),
          "dir": "(GDir %s %s %s)" % (pdir, shaped, msel),
          "nograd": "GNone",
          "linmat": "(GAdjMat %s %s)" % (cnat(n), qm(A)),
          "linfun": "(GAdjFun (qmattvec %s %s) %s %s)" % (cnat(n), qm(A), shaped, msel),
          "pde_gw": "(GPde (Some (%s, SelDir)) None)" % pg(pdir),
          "pde_jw": "(GPde None (Some (%s, %s, false)))" % (cnat(n), pjac(A)),
          "pde_both": "(GPde (Some (%s, SelDir)) (Some (%s, %s, false)))" % (
              pg(pdir), cnat(n), pjac([[2 * a for a in row] for row in A])),
          "pde_none": "(GPde None None)"}[kind]
    return fwd, gf


# ------------------------------------------------------------------------------------------------
# probes: which of the two known defects does this tree have (both states are handled)
# ------------------------------------------------------------------------------------------------
_PROBE = {}


def _step_squeezes():
    """state of the tree: StepExpansion.fun2par ends in an unrestricted squeeze() (a single-step geometry gives a 0-d array)"""
    if "sq" not in _PROBE:
        import cuqi.geometry as G
        _PROBE["sq"] = bool(np.ndim(G.StepExpansion(np.arange(2.0), 1).fun2par(np.ones(2))) == 0)
    return _PROBE["sq"]


def _subcls(CUQIarray):
    return _fn(("arrsubcls",), lambda: type("UserArray", (CUQIarray,), {"__doc__": "a user's subclass of CUQIarray"}))


def probe(cuqi):
    if "q" in _PROBE:
        return _PROBE["q"]
    import cuqi.geometry as G
    from cuqi.model import Model
    from cuqi.samples import Samples
    defeq = bool(G._DefaultGeometry1D(2) == G.StepExpansion(np.arange(2.0), 2))
    try:
        eqidx = bool(G.Discrete(2) == G.Discrete(3))
    except IndexError:
        eqidx = True
    g = G.MappedGeometry(G.Continuous1D(1), map=lambda x: x + 1)
    m = Model(lambda x: x, 1, g)
    out = m.forward(Samples(np.array([[1.0]])), is_par=False).samples
    samples_par = bool(out[0, 0] == 2.0)
    from cuqi.array import CUQIarray
    o = Model(lambda x: x, 1, 1).forward(_subcls(CUQIarray)(np.array([1.0])))
    typeis = type(o) is not CUQIarray
    # tag leak: the witness configuration of the finding, written out
    gm = G.MappedGeometry(G.Continuous1D(2), map=lambda x: 2 * x + 1, imap=lambda f: (f - 1) / 2)
    gm.gradient = lambda direction, wrt: direction * 2.0
    mt = Model(lambda x: x ** 2, 2, gm, gradient=lambda direction, wrt: 2 * wrt * direction)
    pw = np.array([1.0, 2.0])
    tagleak = not np.array_equal(np.asarray(mt.gradient(np.ones(2), CUQIarray(pw, geometry=gm))), np.asarray(mt.gradient(np.ones(2), pw)))
    isid = not np.array_equal(np.asarray(CUQIarray(pw, is_par=np.bool_(True), geometry=gm).funvals), 2 * pw + 1)
    _PROBE["q"] = (defeq, samples_par, eqidx, typeis, tagleak, isid)
    return _PROBE["q"]


def coq_quirks(q):
    return "(mkQ %s %s %s %s %s %s)" % (cbool(q[0]), cbool(q[1]), cbool(q[3]), cbool(q[5]), cbool(q[4]), cbool(q[2]))


# ------------------------------------------------------------------------------------------------
# running one case on the implementation
# ------------------------------------------------------------------------------------------------
def exc_class(e):
    if isinstance(e, NotImplementedError):
        return "ENotImpl"
    if isinstance(e, ValueError):
        return "EValue"
    if isinstance(e, IndexError):
        return "EIndex"
    if isinstance(e, KeyError):
        return "EKey"
    return "other:" + type(e).__name__


def shape_fun(gs, flat):
    a = np.array([float(x) for x in flat])
    return a.reshape(gs.fshape) if gs.twod else a


def observe_output(out, want_geom, also=()):
    """-> (kind, cols as lists of Fractions, labelling flag)
    kind: 0 ndarray 1-d, 1 CUQIarray 1-d, 2 Samples, 3 ndarray 0-d, 4 CUQIarray 0-d, 9 = something unexpected
    flag: a CUQIarray / Samples result is labelled is_par=True with the model's own geometry object (or, for
    `also`, the geometry object of an input array it inherited its label from)"""
    from cuqi.array import CUQIarray
    from cuqi.samples import Samples
    if isinstance(out, Samples):
        s = np.asarray(out.samples)
        ok = out.geometry is want_geom and out.is_par is True and s.ndim == 2
        return 2, [[frac(v) for v in s[:, k]] for k in range(s.shape[-1])] if s.ndim == 2 else [], ok
    if isinstance(out, CUQIarray):
        a = np.asarray(out)
        ok = (out.geometry is want_geom or any(out.geometry is g for g in also)) and out.is_par is True
        if type(out) is CUQIarray:
            kind = {1: 1, 0: 4}.get(a.ndim, 9)
        else:       # an instance of a subclass: 5/6 labelled is_par=True (1-d / 0-d), 7/8 labelled is_par=False
            kind = (5 if out.is_par is True else 7) + {1: 0, 0: 1}.get(a.ndim, 90)
            ok = (out.geometry is want_geom or out.geometry == want_geom) and out.is_par is True
        return kind, [[frac(v) for v in a.ravel()]], ok
    if isinstance(out, np.ndarray):
        a = np.asarray(out)
        return {1: 0, 0: 3}.get(a.ndim, 9), [[frac(v) for v in a.ravel()]], True
    return 9, [], False


STRICT_DT = ("int64", "int32", "bool", "float32", "float64", "ro", "strided", "negstride", "forder")
LENIENT_DT = ("object", "list", "tuple", "scalar0d")      # outside the documented ndarray/CUQIarray contract: may be refused


def _out_dtype(out):
    from cuqi.samples import Samples
    a = out.samples if isinstance(out, Samples) else out
    return str(getattr(a, "dtype", type(a).__name__))


def odd_flag(x, kind):
    """the same CUQIarray with its is_par flag as numpy.bool_ / int (truthiness unchanged)"""
    if kind and hasattr(x, "is_par") and hasattr(x, "geometry") and not hasattr(x, "samples"):
        x.is_par = np.bool_(x.is_par) if kind == "npbool" else int(x.is_par)
    return x


def cast_input(cuqi, x, dt):
    """the same numbers in another dtype / memory layout / container (dt: see STRICT_DT, LENIENT_DT)"""
    from cuqi.array import CUQIarray
    from cuqi.samples import Samples
    if not dt or dt == "float64":
        return x

    def conv(a):
        a = np.asarray(a, dtype=float)
        if dt in ("int64", "int32", "bool", "float32"):
            b = a.astype(dt)
            assert np.array_equal(b.astype(float), a), "value not representable in " + dt
            return b
        if dt == "object":
            return np.array([Fraction(float(v)) for v in a.ravel()], dtype=object).reshape(a.shape)
        if dt == "ro":
            b = a.copy()
            b.flags.writeable = False
            return b
        if dt == "strided":          # every second element of a larger buffer (last axis)
            big = np.full(a.shape[:-1] + (2 * a.shape[-1],), 99.0)
            big[..., ::2] = a
            return big[..., ::2]
        if dt == "negstride":
            return a[..., ::-1].copy()[..., ::-1]
        if dt == "forder":
            return np.asfortranarray(a)
        raise ValueError(dt)

    if isinstance(x, Samples):
        return Samples(conv(x.samples), geometry=x._geometry, is_par=x.is_par, is_vec=x.is_vec)
    if isinstance(x, CUQIarray):
        return type(x)(conv(x), is_par=x.is_par, geometry=x.geometry)
    if dt == "list":
        return np.asarray(x).tolist()
    if dt == "tuple":
        return tuple(np.asarray(x).tolist())
    if dt == "scalar0d":
        assert np.asarray(x).size == 1
        return np.array(float(np.asarray(x).ravel()[0]))
    return conv(x)


def mk_input(cuqi, form, vals, gs, gobj_same, model_geom):
    """form: par | fun | arrpar | arrfun (+ '=copy' for an equal copy of the geometry) | samples | samplesfun"""
    from cuqi.array import CUQIarray
    from cuqi.samples import Samples
    base = form.split("=")[0]
    if base == "par":
        return np.array([float(x) for x in vals[0]])
    if base == "fun":
        return shape_fun(gs, vals[0])
    if base in ("arrpar", "arrfun"):
        geom = model_geom if "=copy" not in form else gobj_same
        if base == "arrpar":
            return CUQIarray(np.array([float(x) for x in vals[0]]), is_par=True, geometry=geom)
        return CUQIarray(shape_fun(gs, vals[0]), is_par=False, geometry=geom)
    if base == "arrdefault":
        return CUQIarray(np.array([float(x) for x in vals[0]]))
    if base in ("subpar", "subfun"):
        S_ = _subcls(CUQIarray)
        if base == "subpar":
            return S_(np.array([float(x) for x in vals[0]]), is_par=True, geometry=model_geom)
        return S_(shape_fun(gs, vals[0]), is_par=False, geometry=model_geom)
    if base in ("samples", "samplessub"):
        cls = Samples if base == "samples" else _fn(("samplessubcls",), lambda: type("UserSamples", (Samples,), {}))
        if not vals:                      # a sample collection with zero samples
            return cls(np.zeros((gs.pdim, 0)))
        return cls(np.array([[float(x) for x in col] for col in vals]).T)
    if base == "samplesfun":
        arr = np.stack([shape_fun(gs, col) for col in vals], axis=-1)
        return Samples(arr, is_par=False, is_vec=not gs.twod, geometry=model_geom)
    raise ValueError(form)


def geom_object_for_copy(cuqi, gs):
    g = gs.build(cuqi)
    if isinstance(g, int):
        from cuqi.geometry import _DefaultGeometry1D
        return _DefaultGeometry1D(g)
    if isinstance(g, tuple):
        from cuqi.geometry import _DefaultGeometry2D
        return _DefaultGeometry2D(g)
    return g


def coq_vec_input(form, vals, gs_coq, ctor_vec, ctor_arr, ctor_samples):
    base = form.split("=")[0]
    if base in ("par", "fun"):
        return "(%s %s)" % (ctor_vec, qv(vals[0]))
    if base in ("arrpar", "arrfun"):
        return "(%s %s %s %s)" % (ctor_arr, gs_coq, cbool(base == "arrpar"), qv(vals[0]))
    if base == "arrdefault":
        return "(%s %s true %s)" % (ctor_arr, Geo(kind="default1d", n=len(vals[0])).coq(), qv(vals[0]))
    if base in ("subpar", "subfun"):
        return "(InSub %s %s %s)" % (gs_coq, cbool(base == "subpar"), qv(vals[0]))
    if base in ("samples", "samplesfun", "samplessub"):
        return ctor_samples(vals, base == "samplesfun")
    raise ValueError(form)


def _snapshot(x):
    from cuqi.samples import Samples
    return np.array(x.samples if isinstance(x, Samples) else x, dtype=float, copy=True)     # (lists, Fractions -> float)


def _ws_input(ws, key, obj):
    """meta["inplace"]: the caller keeps ONE array object per role and input form and overwrites its contents between
    the calls (x -= step*grad style loops): the new values are copied INTO the object used by the earlier calls"""
    from cuqi.samples import Samples
    if ws is None:
        return obj
    old = ws.get(key)
    a_new = obj.samples if isinstance(obj, Samples) else obj
    if old is not None and type(old) is type(obj):
        a_old = old.samples if isinstance(old, Samples) else old
        if isinstance(a_old, np.ndarray) and np.shape(a_old) == np.shape(a_new):
            np.copyto(a_old, np.asarray(a_new))
            return old
    ws[key] = obj
    return obj


def _as_geom_obj(g):
    import cuqi.geometry as G
    return G._DefaultGeometry1D(g) if isinstance(g, int) else G._DefaultGeometry2D(g) if isinstance(g, tuple) else g


def _setup_model(cuqi, meta):
    """builds the model (with the INITIAL domain geometry meta["dg0"] if the history re-targets it) and, if any call is made
    on it, a renamed copy `model(Gaussian(name="zcopy"))` that shares every attribute object with the original"""
    dgs0 = Geo(**meta.get("dg0", meta["dg"]))
    rgs = Geo(**meta["rg"])
    model, raw = build_model(cuqi, dict(meta, dg=dgs0.d), dgs0.build(cuqi), rgs.build(cuqi))
    mcopy = None
    if meta.get("on_copy") or any(h.get("on_copy") for h in meta.get("history", [])):
        from cuqi.distribution import Gaussian
        mcopy = model(Gaussian(np.zeros(dgs0.pdim), 1, name="zcopy"))
    return model, mcopy


def _replay_history(cuqi, model, meta, dgs, rgs, mcopy=None):
    """meta["history"]: earlier calls made on the SAME model object (same model description, other inputs): they are
    re-made before the call under test -- a model object must not remember anything between calls.  A step may be made on
    the renamed copy (on_copy), and a step {"op": "setgeom", "dg": spec} assigns another domain geometry to the model (and
    its copy).  Returns the workspace of caller-owned arrays (None unless meta["inplace"]) and the earlier outputs with
    their values at the time."""
    ws = {} if meta.get("inplace") else None
    kept = []
    cur = Geo(**meta.get("dg0", meta["dg"]))
    for h in meta.get("history", []):
        try:
            tgt = mcopy if h.get("on_copy") and mcopy is not None else model
            if h["op"] == "setgeom":
                cur = Geo(**h["dg"])
                gobj = _as_geom_obj(cur.build(cuqi))
                model.domain_geometry = gobj
                if mcopy is not None:
                    mcopy.domain_geometry = gobj
                continue
            if h["op"] == "forward":
                x = _ws_input(ws, ("x", h["form"]), mk_input(cuqi, h["form"], [ufs(c) for c in h["vals"]], cur, geom_object_for_copy(cuqi, cur), tgt.domain_geometry))
                out = tgt.forward(x, is_par=h["flag"])
            else:
                direction = _ws_input(ws, ("d", h["dform"]), mk_ginput(cuqi, h["dform"], ufs(h["d"]), rgs, geom_object_for_copy(cuqi, rgs), tgt.range_geometry))
                wrt = _ws_input(ws, ("w", h["wform"]), mk_ginput(cuqi, h["wform"], ufs(h["w"]), cur, geom_object_for_copy(cuqi, cur), tgt.domain_geometry))
                out = tgt.gradient(direction, wrt, is_direction_par=h["dform"].split("=")[0] != "fun", is_wrt_par=h["wform"].split("=")[0] != "fun")
            kept.append((out, _snapshot(out)))
        except Exception:
            pass
    return ws, kept


def _earlier_outputs_changed(kept):
    """keep-alive re-comparison: results handed out by earlier calls must not change when the model is used again or the
    caller overwrites its own input arrays"""
    for out, snap in kept:
        try:
            if not np.array_equal(_snapshot(out), snap):
                return True
        except Exception:
            return True
    return False


def tol_cell(meta):
    """tolerance cell class (1e-9 relative instead of exact): KLExpansion geometries (real-valued DST) and PDE operators
    that are not unit triangular (LU with pivoting rounds)"""
    if "kl" in (meta["dg"].get("kind"), meta["rg"].get("kind")):
        return True
    op = meta.get("pde_op")
    if meta.get("pde_xdep") and meta["mk"].startswith("pde"):
        return True          # parameter-dependent operators: scipy's pivoted LU divides by non-unit pivots
    if op and meta["mk"].startswith("pde"):
        m = len(op)
        upper = all(op[i][j] == 0 for i in range(m) for j in range(i))
        lower = all(op[i][j] == 0 for i in range(m) for j in range(i + 1, m))
        return not ((upper or lower) and all(op[i][i] == 1 for i in range(m)))
    return False


def run_forward_case(cuqi, meta):
    """meta: op=forward, mk, A, cs, b, dg, rg, form, vals (list of columns, strings), flag"""
    dgs, rgs = Geo(**meta["dg"]), Geo(**meta["rg"])
    model, mcopy = _setup_model(cuqi, meta)
    vals = [ufs(c) for c in meta["vals"]]
    form, flag = meta["form"], meta["flag"]
    ws, kept = _replay_history(cuqi, model, meta, dgs, rgs, mcopy)
    if meta.get("on_copy"):
        model = mcopy
    x = cast_input(cuqi, mk_input(cuqi, form, vals, dgs, geom_object_for_copy(cuqi, dgs), model.domain_geometry), meta.get("dt"))
    x = _ws_input(ws, ("x", form), odd_flag(x, meta.get("ipk")))
    before = _snapshot(x)
    try:
        if meta.get("kw"):      # the input bound by keyword
            out = model.forward(is_par=flag, **{"zcopy" if meta.get("on_copy") else "x": x})      # the DECLARED name
        else:
            out = model.forward(x, is_par=flag) if not meta.get("call") else model(x, is_par=flag)
        kind, cols, ok = observe_output(out, model.range_geometry)
        obs = ("val", kind, cols, ok, _out_dtype(out))
    except Exception as e:
        obs = ("err", exc_class(e), repr(e)[:200])
    if not np.array_equal(before, _snapshot(x)):
        obs = ("err", "other:InputMutated", "the input array was modified in place")
    elif _earlier_outputs_changed(kept):
        obs = ("err", "other:EarlierOutputChanged", "a result returned by an earlier call changed afterwards")
    # ---- independent expectation
    A = [[Fraction(a) for a in row] for row in meta["A"]]
    cs, b = ufs(meta["cs"]), ufs(meta["b"])
    base = form.split("=")[0]
    in_is_fun = base in ("fun", "arrfun", "subfun") or (base == "samplesfun")
    try:
        ecols = []
        for col in vals:
            f = list(col) if in_is_fun else dgs.o_par2fun(col)
            if len(f) != len(A[0]):
                raise Refuse("shape")
            ecols.append(rgs.o_fun2par(o_F(A, cs, b, f)))
        ekind = {"par": 0, "fun": 0, "arrpar": 1, "arrfun": 1, "arrdefault": 1, "samples": 2, "samplesfun": 2, "samplessub": 2, "subpar": 1, "subfun": 1}[base]
        exp = ("val", ekind, ecols) + ((F(1, 10 ** 9),) if tol_cell(meta) else ())
    except Refuse as e:
        exp = ("err", str(e))
    return obs, exp, model


def _same(a, b, tol):
    if not tol:
        return a == b
    return len(a) == len(b) and all(len(x) == len(y) and all(abs(u - v) <= tol * (1 + abs(v)) for u, v in zip(x, y)) for x, y in zip(a, b))


def compare(obs, exp):
    """None if the property holds on this case, else a description (exp[3], if present: relative tolerance of the
    tolerance cell class -- real-valued DST geometries; everything else is compared exactly)"""
    tol = exp[3] if len(exp) > 3 else 0
    if exp[0] == "err":
        return None if obs[0] == "err" else "expected a refusal (%s) but a value was returned: %s" % (exp[1], _show(obs))
    if obs[0] == "err":
        return "expected %s but the call raised %s" % (_show(exp), obs[2])
    if tol and obs[0] == "val" and obs[1] == exp[1] and _same(obs[2], exp[2], tol):
        obs = obs[:2] + (exp[2],) + obs[3:]
    if obs[1] in (3, 4) and obs[1] - 3 == exp[1]:
        return "0-d output %s where the range geometry has par_shape (1,): expected %s" % (_show(obs), _show(exp))
    if obs[1] == 5 and exp[1] == 1 and obs[2] == exp[2] and obs[3]:
        return None     # a subclass instance truthfully labelled as parameters of (a geometry equal to) the range geometry
    if obs[1] != exp[1]:
        return "wrapper kind %s, expected %s (0 ndarray, 1 CUQIarray, 2 Samples, 3/4 the same but 0-d, 5-8 CUQIarray-subclass instance labelled is_par True/False, 9 malformed)" % (obs[1], exp[1])
    if obs[2] != exp[2]:
        return "values %s, expected (parameters of the range geometry) %s" % (_show(obs), _show(exp))
    if not obs[3]:
        return "output is not wrapped with the model's own geometry / is_par=True"
    if len(obs) > 4 and not obs[4].startswith("float") and obs[4] != "object":
        return "output dtype %s: the model's outputs are real numbers, the output must be floating" % obs[4]
    return None


def _show(o):
    if o[0] == "err":
        return "raised " + str(o[1])
    return "kind=%s %s" % (o[1], [[float(v) for v in c] for c in o[2]])


def coq_obs(obs):
    if obs[0] == "err":
        return "(ObsErr %s)" % obs[1] if obs[1] in ("ENotImpl", "EValue", "EIndex", "EKey") else "(ObsVal 99%nat [])"
    return "(ObsVal %s %s)" % (cnat(obs[1]), clist([cqvec(c) for c in obs[2]]))


def forward_case(cuqi, meta, q):
    obs, exp, model = run_forward_case(cuqi, meta)
    dgs, rgs = Geo(**meta["dg"]), Geo(**meta["rg"])
    fwd, _ = coq_model(meta)
    vals = [ufs(c) for c in meta["vals"]]
    xin = coq_vec_input(meta["form"], vals, dgs.coq(), "InVec", "InArr",
                        lambda vs, isfun: "(InSamples %s %s)" % (cbool(isfun and dgs.twod), clist([qv(c) for c in vs])))
    if meta.get("ipk") and q[5]:      # .funvals tests `is_par is True`: a numpy.bool_/int flag is never that -> used unconverted
        xin = "(InArr %s false %s)" % (dgs.coq(), qv(vals[0]))
    okflag = obs[3] if obs[0] == "val" and obs[1] not in (5, 6, 7, 8) else True      # (a subclass instance's label is part of its kind)
    expr = "%s %s %s %s %s %s %s %s %s" % ("check_forward_tol" if tol_cell(meta) else "check_forward", coq_quirks(q), fwd, rgs.coq(), dgs.coq(), xin,
                                                      cbool(meta["flag"]), coq_obs(obs), cbool(okflag))
    if obs[0] == "val" and len(obs) > 4 and not (obs[4].startswith("float") or obs[4] == "object"):
        expr += " && false"        # DECISION: the output dtype is floating
    if meta["mk"].startswith("pde"):
        # hypothesis of C12_pde_solver_is_exact for every operator this case assembles: the model's elimination found a
        # two-sided inverse (checked by multiplication)
        _, _, T = pde_parts(meta)
        xs = []
        if meta.get("pde_xdep"):
            in_is_fun = meta["form"].split("=")[0] in ("fun", "arrfun", "subfun", "samplesfun")
            for col in vals:
                try:
                    xs.append(list(col) if in_is_fun else dgs.o_par2fun(col))
                except Refuse:
                    pass
            xs = [x for x in xs if len(x) == len(meta["A"][0])]
        expr += " && pde_ops_ok %s %s %s %s" % (cnat(len(T)), cbool(bool(meta.get("pde_xdep"))), qm(T), clist([qv(x) for x in xs]))
        base_ = meta["form"].split("=")[0]
        if base_.startswith("samples") and obs[0] == "val" and hasattr(getattr(model, "pde", None), "rhs") and not meta.get("plan"):
            # C12_pde_columns_are_independent: after a sample collection the PDE object holds the LAST column's system
            A0_, b0_, _ = pde_parts(meta)
            try:
                fcols = [list(col) if base_ == "samplesfun" else dgs.o_par2fun(col) for col in vals]
            except Refuse:
                fcols = None
            if fcols is not None and all(len(x) == len(meta["A"][0]) for x in fcols):
                rhs_obs = [frac(float(v)) for v in np.asarray(model.pde.rhs).ravel()]
                expr += " && check_pde_state %s %s %s %s %s %s %s %s %s" % (
                    cbool(tol_cell(meta)), cnat(len(T)), cbool(bool(meta.get("pde_xdep"))), qm(T), qm(A0_), qv(ufs(meta["cs"])), qv(b0_),
                    clist([qv(x) for x in fcols]), cqvec(rhs_obs))
    fail = compare(obs, exp)
    obs_s = obs
    if len(exp) > 3 and obs[0] == "val" and exp[0] == "val" and _same(obs[2], exp[2], exp[3]):
        obs_s = obs[:2] + (exp[2],) + obs[3:]      # tolerance cells: classify on the values up to the tolerance
    sig = forward_signature(meta, obs_s, exp, q) if fail else ""
    base = meta["form"].split("=")[0]
    trivial = base == "par" and dgs.kind in ("default1d", "cont1d", "discrete") and rgs.kind in ("default1d", "cont1d", "discrete")
    cell = "fwd/%s/%s->%s/%s%s%s" % (meta["mk"], dgs.name(), rgs.name(), meta["form"], "" if meta["flag"] else "/flag=F",
                                     "/dt=" + meta["dt"] if meta.get("dt") else "")
    if meta.get("dt") in LENIENT_DT and obs[0] == "err" and obs[1] != "other:InputMutated":
        # a container outside the documented ndarray/CUQIarray contract may be refused; if accepted it must be right
        return Case(expr="true", meta=meta, cell=cell + "/refused", trivial=True, kind="DECISION")
    return Case(expr=expr, meta=meta, cell=cell, trivial=trivial, kind="EXACT", impl_fail=fail, signature=sig)


# ---------------- gradient ----------------
def mk_ginput(cuqi, form, vals, gs, copy_geom, model_geom):
    from cuqi.samples import Samples
    if form == "samples":
        return Samples(np.array([[float(x) for x in vals]]).T)
    return mk_input(cuqi, form, [vals], gs, copy_geom, model_geom)


def run_gradient_case(cuqi, meta):
    dgs, rgs = Geo(**meta["dg"]), Geo(**meta["rg"])
    model, mcopy = _setup_model(cuqi, meta)
    d, w = ufs(meta["d"]), ufs(meta["w"])
    dform, wform = meta["dform"], meta["wform"]
    ws, kept = _replay_history(cuqi, model, meta, dgs, rgs, mcopy)
    if meta.get("on_copy"):
        model = mcopy
    direction = mk_ginput(cuqi, dform, d, rgs, geom_object_for_copy(cuqi, rgs), model.range_geometry)
    wrt = mk_ginput(cuqi, wform, w, dgs, geom_object_for_copy(cuqi, dgs), model.domain_geometry)
    direction, wrt = cast_input(cuqi, direction, meta.get("ddt")), cast_input(cuqi, wrt, meta.get("wdt"))
    direction, wrt = odd_flag(direction, meta.get("dipk")), odd_flag(wrt, meta.get("wipk"))
    dpar = dform.split("=")[0] not in ("fun",) if "dpar" not in meta else meta["dpar"]
    wpar = wform.split("=")[0] not in ("fun",) if "wpar" not in meta else meta["wpar"]
    direction, wrt = _ws_input(ws, ("d", dform), direction), _ws_input(ws, ("w", wform), wrt)
    before = (_snapshot(direction), _snapshot(wrt))
    try:
        out = model.gradient(direction, wrt, is_direction_par=dpar, is_wrt_par=wpar)
        kind, cols, ok = observe_output(out, model.domain_geometry,
                                        also=[x.geometry for x in (wrt, direction) if hasattr(x, "geometry")])
        obs = ("val", kind, cols, ok, _out_dtype(out))
    except Exception as e:
        obs = ("err", exc_class(e), repr(e)[:200])
    if not (np.array_equal(before[0], _snapshot(direction)) and np.array_equal(before[1], _snapshot(wrt))):
        obs = ("err", "other:InputMutated", "direction or wrt was modified in place")
    elif _earlier_outputs_changed(kept):
        obs = ("err", "other:EarlierOutputChanged", "a result returned by an earlier call changed afterwards")
    # ---- independent expectation: transposed exact Jacobian of p -> fun2par_r(F(par2fun_d(p))) at wrt_par
    A = [[Fraction(a) for a in row] for row in meta["A"]]
    cs, b = ufs(meta["cs"]), ufs(meta["b"])
    exp = None
    refusal_ok = None
    mk = meta["mk"]
    dbase, wbase = dform.split("=")[0], wform.split("=")[0]
    if mk in ("nograd", "pde_none"):
        refusal_ok = "model has no gradient"
    elif dbase.startswith("samples") or wbase.startswith("samples"):
        refusal_ok = "Samples argument"
    elif not rgs.identity_like:
        refusal_ok = "range geometry is not identity-like"
    elif not dgs.identity_like and not dgs.has_grad:
        refusal_ok = "domain geometry neither identity-like nor with gradient"
    elif rgs.twod and mk in ("jac", "linmat", "pde_jw"):
        refusal_ok = "Jacobian/matrix product with a 2-d direction (matmul shape mismatch)"
    try:
        wfun_given = wbase in ("fun", "arrfun")
        wp = dgs.o_fun2par(w) if wfun_given else list(w)
        dpar_vec = rgs.o_fun2par(d) if dbase in ("fun", "arrfun") else list(d)
        n = dgs.pdim
        grad = []
        for k in range(n):
            pk = [Dual(wp[i], 1 if i == k else 0) for i in range(n)]
            yk = rgs.o_fun2par(o_F(A, cs, b, dgs.o_par2fun(pk)))
            grad.append(sum((dpar_vec[i] * yk[i].b for i in range(len(yk))), F(0)))
        ekind = 1 if dbase in ("arrpar", "arrfun") else 0
        exp = ("val", ekind, [grad]) + ((F(1, 10 ** 9),) if tol_cell(meta) else ())
    except Refuse as e:
        if refusal_ok is None:
            refusal_ok = "conversion unavailable: " + str(e)
    return obs, exp, refusal_ok, (dpar, wpar)


def compare_gradient(obs, exp, refusal_ok):
    if obs[0] == "err":
        if refusal_ok:
            return None
        return "gradient raised %s where it can be formed; expected %s" % (obs[2], _show(exp) if exp else "?")
    # a value was returned: it must be the transposed Jacobian applied to the direction
    if exp is None:
        return "a value was returned although no gradient can be formed (%s): %s" % (refusal_ok, _show(obs))
    # the property fixes the VALUE of the gradient; about its wrapper it only follows that a CUQIarray result must
    # be truthfully labelled (parameters of the domain geometry).  Whether the result is a CUQIarray is compared
    # exactly with the Coq model (it follows `direction`, except that the subclass of a CUQIarray `wrt` leaks
    # through numpy arithmetic), but a CUQIarray where an ndarray was expected is not counted as a violation.
    if obs[1] not in (0, 1) or (exp[1] == 1 and obs[1] != 1):
        return "wrapper kind %s, expected %s" % (obs[1], exp[1])
    if len(exp) > 3 and _same(obs[2], exp[2], exp[3]):      # tolerance cell class (KLExpansion): 1e-9 relative
        obs = obs[:2] + (exp[2],) + obs[3:]
    if obs[2] != exp[2]:
        return "gradient %s differs from J^T d = %s (exact Jacobian of the parameter-to-output map)" % (_show(obs), _show(exp))
    if not obs[3]:
        return "gradient is a CUQIarray not labelled as parameters of the model's domain geometry"
    if len(obs) > 4 and not obs[4].startswith("float") and obs[4] != "object":
        return "gradient dtype %s: must be floating" % obs[4]
    return None


def chain_instance(meta):
    """gradient cells that are instances of C12_gradient_chain_rule: plain parameter vectors for direction and wrt, a model kind of
    the family with a gradient, a plain 1-d range geometry, and a domain geometry for which the model computes the Jacobian of
    par2fun (geo_jac): identity-type (not Image2D order F), element-wise with gradient, StepExpansion / KLExpansion with gradient"""
    dgs, rgs = Geo(**meta["dg"]), Geo(**meta["rg"])
    if meta["dform"] != "par" or meta["wform"] != "par" or "dpar" in meta or "wpar" in meta or meta.get("dipk") or meta.get("wipk"):
        return False
    if meta["mk"] in ("nograd", "pde_none") or rgs.kind not in ("default1d", "cont1d", "discrete"):
        return False
    if dgs.kind in ("default1d", "cont1d", "discrete"):
        return True
    if dgs.kind in ("image", "default2d", "cont2d"):
        return bool(dgs.d.get("visual")) or dgs.d.get("order", "C") == "C"
    return dgs.has_grad and dgs.kind in ("mapped", "sub1d", "user", "step", "kl")


FD_STENCIL = {-3: F(-1, 60), -2: F(9, 60), -1: F(-45, 60), 1: F(45, 60), 2: F(-9, 60), 3: F(1, 60)}


def fd_case(cuqi, meta, q):
    """finite differences of forward() in parameter space vs gradient() (the property's observation point), both taken from the
    implementation: the 7-point central difference along an integer direction h is EXACT for polynomials of degree <= 6 (phi_F of degree
    <= 3 after a geometry map of degree <= 2) on the integer / dyadic data generated, so d.(J h) from forward must equal gradient(d, w).h.
    The Coq side compares both the difference quotient (J h) and the gradient (J^T d) with the matrix J of C12_gradient_is_transposed_
    jacobian_of_forward.  meta: op=fd, mk, dg, rg, A, cs, b, w, h, d"""
    dgs, rgs = Geo(**meta["dg"]), Geo(**meta["rg"])
    model, _ = build_model(cuqi, meta, dgs.build(cuqi), rgs.build(cuqi))
    w, h, d = ufs(meta["w"]), ufs(meta["h"]), ufs(meta["d"])
    tol = F(1, 10 ** 9) if tol_cell(meta) else 0
    fail, Jh, g = None, None, None
    try:
        Jh = [F(0)] * rgs.pdim
        for k, ck in FD_STENCIL.items():
            y = model.forward(np.array([float(a + k * b_) for a, b_ in zip(w, h)]))
            Jh = [acc + ck * frac(float(v)) for acc, v in zip(Jh, np.asarray(y).ravel())]
        gout = model.gradient(np.array([float(a) for a in d]), np.array([float(a) for a in w]))
        g = [frac(float(v)) for v in np.asarray(gout).ravel()]
        lhs = sum((a * b_ for a, b_ in zip(d, Jh)), F(0))
        rhs = sum((a * b_ for a, b_ in zip(g, h)), F(0))
        if abs(lhs - rhs) > tol * (1 + abs(rhs)) * 100:
            fail = "gradient is not the transposed derivative of forward: direction.(J h) = %s from central differences of forward along h, gradient.h = %s" % (float(lhs), float(rhs))
    except Exception as e:
        fail = "forward / gradient raised %r on an instance where both exist" % (e,)
    if Jh is None or g is None:
        expr = "false"
    else:
        A_ = [[Fraction(a) for a in row] for row in meta["A"]]
        common_ = "%s %s %s %s" % (cbool(bool(tol)), qm(A_), qv(ufs(meta["cs"])), dgs.coq())
        expr = "check_fd %s %s %s %s && check_chain_rule %s %s %s %s" % (common_, qv(w), qv(h), cqvec(Jh), common_, qv(d), qv(w), cqvec(g))
    return Case(expr=expr, meta=meta, cell="fd/%s/%s->%s" % (meta["mk"], dgs.name(), rgs.name()), kind="EXACT", impl_fail=fail,
                signature="Model.gradient-vs-finite-differences-of-forward|%s:%s" % (dgs.name(), meta["mk"]) if fail else "")


def chain_instance_imgF(meta):
    """gradient cells that are instances of C12_gradient_chain_rule_imgF (domain Image2D order F, not visual_only)"""
    dgs, rgs = Geo(**meta["dg"]), Geo(**meta["rg"])
    if meta["dform"] != "par" or meta["wform"] != "par" or "dpar" in meta or "wpar" in meta or meta.get("dipk") or meta.get("wipk"):
        return False
    if meta["mk"] not in ("jac", "dir", "linfun", "pde_gw", "pde_jw", "pde_both") or rgs.kind not in ("default1d", "cont1d", "discrete"):
        return False
    return dgs.kind == "image" and dgs.d.get("order", "C") == "F" and not dgs.d.get("visual")


def gradient_case(cuqi, meta, q):
    obs, exp, refusal_ok, (dpar, wpar) = run_gradient_case(cuqi, meta)
    dgs, rgs = Geo(**meta["dg"]), Geo(**meta["rg"])
    _, gf = coq_model(meta)
    d, w = ufs(meta["d"]), ufs(meta["w"])
    samp = lambda vs, isfun: "GiSamples"
    din = coq_vec_input(meta["dform"], [d], rgs.coq(), "GiVec", "GiArr", samp)
    win = coq_vec_input(meta["wform"], [w], dgs.coq(), "GiVec", "GiArr", samp)
    if meta.get("dipk"):
        din = "(GiArrOdd %s %s %s)" % (rgs.coq(), cbool(meta["dform"].split("=")[0] == "arrpar"), qv(d))
    if meta.get("wipk"):
        win = "(GiArrOdd %s %s %s)" % (dgs.coq(), cbool(meta["wform"].split("=")[0] == "arrpar"), qv(w))
    okflag = obs[3] if obs[0] == "val" else True
    expr = "%s %s %s %s %s %s %s %s %s %s %s" % ("check_gradient_tol" if tol_cell(meta) else "check_gradient", coq_quirks(q), gf, rgs.coq(), dgs.coq(), din, win,
                                                cbool(dpar), cbool(wpar), coq_obs(obs), cbool(okflag))
    if chain_instance(meta) and obs[0] == "val":
        # the right-hand side of C12_gradient_chain_rule, (J_F(par2fun w) geo_jac(w))^T d, evaluated for THIS instance (this also
        # shows the theorem's hypotheses hold for it: geo_jac = Some _) and compared with the implementation's gradient
        A_ = [[Fraction(a) for a in row] for row in meta["A"]]
        expr += " && check_chain_rule %s %s %s %s %s %s %s" % (cbool(tol_cell(meta)), qm(A_), qv(ufs(meta["cs"])), dgs.coq(), qv(d), qv(w), cqvec(obs[2][0]))
    if chain_instance_imgF(meta) and obs[0] == "val":
        # C12_gradient_chain_rule_imgF: (J_F(par2fun w) P)^T d, P the permutation matrix of Image2D(order='F').par2fun
        A_ = [[Fraction(a) for a in row] for row in meta["A"]]
        expr += " && check_chain_rule_imgF %s %s %s %s %s %s %s" % (qm(A_), qv(ufs(meta["cs"])), cnat(dgs.d["r"]), cnat(dgs.d["c"]), qv(d), qv(w), cqvec(obs[2][0]))
    if dgs.kind == "step" and dgs.has_grad:     # hypothesis of C12_gradient_chain_step for the index family actually used
        expr += " && step_wf %s %s" % (cnat(dgs.d["nodes"]), cnatll(dgs.step_idx()))
    if meta.get("refusal_only"):      # Samples flagged as function values: only "refused" is compared, not the exception class
        expr = "check_refused (gradient %s %s %s %s %s %s true true) %s" % (coq_quirks(q), gf, rgs.coq(), dgs.coq(), din, win,
                                                                            cbool(obs[0] == "err" and obs[1] != "other:InputMutated"))
    if obs[0] == "val" and len(obs) > 4 and not (obs[4].startswith("float") or obs[4] == "object"):
        expr += " && false"        # DECISION: the gradient's dtype is floating
    fail = compare_gradient(obs, exp, refusal_ok)
    sig = gradient_signature(meta, obs, exp, q) if fail else ""
    if (meta.get("ddt") in LENIENT_DT or meta.get("wdt") in LENIENT_DT) and obs[0] == "err" and obs[1] != "other:InputMutated":
        return Case(expr="true", meta=meta, cell="grad/%s/lenient-container/refused" % meta["mk"], trivial=True, kind="DECISION")
    cell = "grad/%s/%s->%s/d:%s,w:%s%s" % (meta["mk"], dgs.name(), rgs.name(), meta["dform"], meta["wform"],
                                           "/dt=%s,%s" % (meta.get("ddt"), meta.get("wdt")) if meta.get("ddt") or meta.get("wdt") else "")
    return Case(expr=expr, meta=meta, cell=cell, trivial=all(x == 0 for x in d), kind="DECISION" if obs[0] == "err" else "EXACT",
                impl_fail=fail, signature=sig)


# ---------------- rename on a distribution, argument binding ----------------
def model_fingerprint(m, ids):
    """object identities of a model's attributes as small integers (ids: id -> small int)"""
    def t(o):
        return ids.setdefault(id(o), len(ids) + 1)
    d = m.__dict__
    extra = sorted((k, t(v)) for k, v in d.items() if k not in ("_forward_func", "_gradient_func", "range_geometry",
                                                                 "domain_geometry", "_non_default_args"))
    return {"ff": t(d["_forward_func"]), "gf": t(d["_gradient_func"]), "rg": t(d["range_geometry"]), "dg": t(d["domain_geometry"]),
            "dim": int(m.domain_dim), "args": list(d["_non_default_args"]), "extra": extra}


def coq_fp(fp):
    return "(mkModel %s %s %s %s %s %s %s)" % (cnat(fp["ff"]), cnat(fp["gf"]), cnat(fp["rg"]), cnat(fp["dg"]), cnat(fp["dim"]),
                                             clist([cstr(a) for a in fp["args"]]),
                                             clist(["(%s, %s)" % (cstr(k), cnat(v)) for k, v in fp["extra"]]))


def rename_case(cuqi, meta, q):
    from cuqi.distribution import Gaussian
    dgs, rgs = Geo(**meta["dg"]), Geo(**meta["rg"])
    model, _ = build_model(cuqi, meta, dgs.build(cuqi), rgs.build(cuqi))
    ids = {}
    before = model_fingerprint(model, ids)
    dist = Gaussian(np.zeros(meta["ddim"]), 1, name=meta["name"])
    fail = None
    try:
        new = model.forward(dist) if meta.get("via", "forward") == "forward" else model(dist)
        obs = model_fingerprint(new, ids)
        if type(new) is not type(model) or new is model:
            fail = "result is not a fresh object of the model's class"
    except ValueError:
        new, obs = None, None
    after = model_fingerprint(model, ids)
    expect_ok = meta["ddim"] == dgs.pdim
    if fail is None:
        if (obs is not None) != expect_ok:
            fail = "dimension %d vs domain %d: %s" % (meta["ddim"], dgs.pdim, "accepted" if obs is not None else "refused")
        elif after != before:
            fail = "the original model was altered: %s -> %s" % (before, after)
        elif obs is not None:
            want = dict(before)
            want["args"] = [meta["name"]]
            if obs != want:
                fail = "renamed copy differs in more than its argument name: %s vs %s" % (obs, want)
            else:
                # behaviour unchanged: same outputs under the new name, old name refused
                p = np.array([float(Fraction(a)) for a in meta["p"]])
                try:
                    y0 = model(p)
                    y1 = new(**{meta["name"]: p})
                    if not np.array_equal(np.asarray(y0), np.asarray(y1)):
                        fail = "renamed model gives other outputs"
                    if meta["name"] != before["args"][0]:
                        try:
                            new(**{before["args"][0]: p})
                            fail = "renamed model still accepts the old argument name"
                        except ValueError:
                            pass
                except Exception as e:
                    fail = "renamed model raised %r" % (e,)
    expr = "check_rename %s %s %s %s %s" % (coq_fp(before), cstr(meta["name"]), cnat(meta["ddim"]),
                                           "None" if obs is None else "(Some %s)" % coq_fp(obs), coq_fp(after))
    return Case(expr=expr, meta=meta, cell="rename/%s/%s" % (meta["mk"], "ok" if expect_ok else "dim-mismatch"), kind="DECISION",
                impl_fail=fail, signature=classify(meta, fail) if fail else "")


SIG_ARGNAME = "get_non_default_args|forward-argument-named-args-or-kwargs:dropped-by-name"


def bind_case(cuqi, meta, q):
    dgs, rgs = Geo(**meta["dg"]), Geo(**meta["rg"])
    declared = [meta.get("argname", "x")]      # what the callable DECLARES (not read back from the model)
    if meta.get("argname") and meta["mk"] in ("jac", "dir", "nograd", "linfun"):
        meta = dict(meta, fstyle="name:" + meta["argname"])
    elif meta.get("argname"):
        declared = ["x"]
    model, _ = build_model(cuqi, meta, dgs.build(cuqi), rgs.build(cuqi))
    if meta.get("two_args"):       # a forward callable with two non-default arguments: every call is refused (one input only)
        from cuqi.model import Model
        model = Model(lambda x, y: x, rgs.build(cuqi), dgs.build(cuqi))
        declared = ["x", "y"]
    if meta.get("renamed"):
        declared = [meta["renamed"]]
        from cuqi.distribution import Gaussian
        try:
            model = model(Gaussian(np.zeros(dgs.pdim), 1, name=meta["renamed"]))
        except Exception as e:
            return Case(expr="false", meta=meta, cell="args/rename-refused", kind="DECISION",
                        impl_fail="applying the model to a distribution of the domain's parameter dimension raised %r" % (e,),
                        signature="Model.forward(distribution)|%s" % meta["mk"])
    ids = {}
    fp = model_fingerprint(model, ids)
    p = np.array([float(Fraction(a)) for a in meta["p"]])
    args = [p] * meta["npos"]
    kw = {k: p for k in meta["kws"]}
    try:
        y = model.forward(*args, **kw)
        accepted = True
    except ValueError:
        accepted = False
    argname = declared[0]
    # `is_par` is forward()'s own keyword: an input of that name can only be given positionally (accepted refusal)
    expect = ((meta["npos"] == 1 and not meta["kws"]) or (meta["npos"] == 0 and meta["kws"] == [argname] and argname != "is_par")) and len(declared) == 1
    fail = None if accepted == expect else "forward(%d positional, keywords %s) on a model with argument %r: %s" % (
        meta["npos"], meta["kws"], argname, "accepted" if accepted else "refused")
    if fp["args"] != declared:
        fail = "the model reports the inputs %s, the forward callable declares %s" % (fp["args"], declared)
    expr = "check_bind %s %s %s %s%s" % (coq_fp(dict(fp, args=declared)), cnat(meta["npos"]), clist([cstr(k) for k in meta["kws"]]), cbool(accepted),
                                         "" if fp["args"] == declared else " && false")
    if argname == "is_par" and meta["kws"] == ["is_par"]:
        expr = cbool(not accepted)      # (the Coq binding model does not know about forward()'s reserved keyword)
    sig = ""
    if fail:
        sig = SIG_ARGNAME if argname in ("args", "kwargs") and meta["mk"] in ("jac", "dir", "nograd", "linfun") else classify(meta, fail)
    return Case(expr=expr, meta=meta, cell="args/npos=%d,kws=%d%s%s" % (meta["npos"], len(meta["kws"]), ",renamed" if meta.get("renamed") else "",
                                                                      ",name=" + argname if meta.get("argname") else ""),
                kind="DECISION", impl_fail=fail, signature=sig)


# ---------------- get_non_default_args for every parameter kind; the call func(x) ----------------
PKINDS = {"po": "KPosOnly", "pk": "KPosOrKw", "vp": "KVarPos", "ko": "KKwOnly", "vk": "KVarKw"}
_DEFAULT = object()          # the default value of every defaulted parameter of the generated callables


def sig_text(sig):
    """Python source of a parameter list; sig = [[name, kind, has_default], ...] in declaration order"""
    parts, n_po = [], sum(1 for _, k, _ in sig if k == "po")
    has_vp = any(k == "vp" for _, k, _ in sig)
    star_done = False
    for i, (name, kind, dflt) in enumerate(sig):
        if kind == "ko" and not has_vp and not star_done:
            parts.append("*")
            star_done = True
        parts.append({"vp": "*", "vk": "**"}.get(kind, "") + name + ("=_DEFAULT" if dflt else ""))
        if kind == "po" and i + 1 == n_po:
            parts.append("/")
    return ", ".join(parts)


def o_required(sig):
    """the property, stated on the declaration: the inputs of a callable are its parameters that are neither variadic nor defaulted"""
    return [name for name, kind, dflt in sig if kind in ("po", "pk", "ko") and not dflt]


def o_receiver(sig):
    """which parameter the single positional argument of func(x) lands in (Python's calling convention), or None when the
    call is a TypeError: the first parameter that takes positional arguments, else *args; nothing else may be required"""
    pos = [s for s in sig if s[1] in ("po", "pk")]
    recv = pos[0] if pos else next((s for s in sig if s[1] == "vp"), None)
    if recv is None or any(n != recv[0] for n in o_required(sig)):
        return None
    return recv


def intended_input(sig):
    """the parameter the user's code reads the model input from"""
    req = o_required(sig)
    if req:
        return next(s for s in sig if s[0] == req[0])
    return next((s for s in sig if s[1] in ("po", "pk")), None) or next((s for s in sig if s[1] == "vp"), None)


def make_callable(sig, A, style="def"):
    """a forward callable with the given parameter list: returns A @ (its input) and raises AssertionError unless every
    other parameter is at its default / empty"""
    inp = intended_input(sig)
    lines = []
    for name, kind, dflt in sig:
        if inp is not None and name == inp[0]:
            continue
        if kind == "vp":
            lines.append("    assert %s == (), 'positional extras received'" % name)
        elif kind == "vk":
            lines.append("    assert %s == {}, 'keyword extras received'" % name)
        elif dflt:
            lines.append("    assert %s is _DEFAULT, 'parameter %s is not at its default'" % (name, name))
    if inp is None:
        lines.append("    return _A @ _np.zeros(_A.shape[1])")
    elif inp[1] == "vp":
        lines.append("    assert len(%s) == 1\n    return _A @ _np.asarray(%s[0])" % (inp[0], inp[0]))
    else:
        lines.append("    assert %s is not _DEFAULT\n    return _A @ _np.asarray(%s)" % (inp[0], inp[0]))
    ns = {"_A": A, "_np": np, "_DEFAULT": _DEFAULT}
    if style == "method":
        src = "class H:\n    def f(self, %s):\n%s\nf = H().f\n" % (sig_text(sig), "\n".join("    " + ln.replace("\n", "\n    ") for ln in lines))
    elif style == "lambda" and inp is not None and inp[1] != "vp":
        src = "f = lambda %s: _A @ _np.asarray(%s)\n" % (sig_text(sig), inp[0])
    else:
        src = "def f(%s):\n%s\n" % (sig_text(sig), "\n".join(lines))
    exec(src, ns)
    return ns["f"]


def _args_byname():
    """state of the tree: get_non_default_args recognises *args / **kwargs by their NAMES (before /repo 074a70c)"""
    if "byname" not in _PROBE:
        from cuqi.utilities import get_non_default_args
        _PROBE["byname"] = get_non_default_args(lambda args: 0) == []
    return _PROBE["byname"]


def coq_sig(sig):
    return clist(["(mkParam %s %s %s)" % (cstr(n), PKINDS[k], cbool(bool(d))) for n, k, d in sig])


def args_case(cuqi, meta, q):
    """meta: op=args, sig, style, cached (None | list of names set as f._non_default_args), npos, kws, A, p, mk (Model | LinearModel)"""
    from cuqi.model import Model, LinearModel
    sig = [list(s) for s in meta["sig"]]
    A = np.array([[float(Fraction(a)) for a in row] for row in meta["A"]])
    p = ufs(meta["p"])
    if meta.get("inner_sig") is not None:
        # a cuqi Model used as the forward callable of another Model: its signature is (*args, **kwargs) and it carries
        # `_non_default_args` (its own input name, possibly after renaming on a distribution)
        f = Model(make_callable([list(s_) for s_ in meta["inner_sig"]], A), len(A), len(A[0]))
        if meta.get("inner_name"):
            from cuqi.distribution import Gaussian
            f = f(Gaussian(np.zeros(len(A[0])), 1, name=meta["inner_name"]))
    else:
        f = make_callable(sig, A, meta.get("style", "def"))
        if meta.get("cached") is not None:
            f._non_default_args = list(meta["cached"])
    model = LinearModel(f, lambda y: A.T @ y, len(A), len(A[0])) if meta.get("mk") == "linfun" else Model(f, len(A), len(A[0]))
    names = list(model._non_default_args)
    x = np.array([float(t) for t in p])
    try:
        y = model.forward(*([x] * meta["npos"]), **{k: x for k in meta["kws"]})
        accepted, how = True, [frac(float(v)) for v in np.asarray(y).ravel()]
    except AssertionError as e:
        accepted, how = False, "mis-bound: %s" % (e,)
    except Exception as e:
        accepted, how = False, type(e).__name__
    # ---- the property on the declaration (no inspect, no cuqi)
    declared = list(meta["cached"]) if meta.get("cached") is not None else o_required(sig)
    recv = o_receiver(sig)
    want_accept = len(declared) == 1 and recv is not None and (
        (meta["npos"] == 1 and not meta["kws"]) or (meta["npos"] == 0 and meta["kws"] == [declared[0]]))
    want = [sum((Fraction(a) * t for a, t in zip(row, p)), F(0)) for row in meta["A"]]
    fail = None
    if names != declared:
        fail = "the model reports the inputs %s, the forward callable `def f(%s)` declares %s" % (names, sig_text(sig), declared)
    elif isinstance(how, str) and how.startswith("mis-bound"):
        fail = "forward handed the input to the wrong parameter of `def f(%s)`: %s" % (sig_text(sig), how)
    elif accepted != want_accept:
        fail = "forward(%d positional, keywords %s) on `def f(%s)`: %s" % (meta["npos"], meta["kws"], sig_text(sig),
                                                                          "accepted" if accepted else "refused (%s)" % how)
    elif accepted and how != want:
        fail = "forward returned %s, expected A p = %s" % ([float(v) for v in how], [float(v) for v in want])
    cached = "None" if meta.get("cached") is None else "(Some %s)" % clist([cstr(a) for a in meta["cached"]])
    expr = "check_args %s (mkCallable %s %s) %s %s %s %s" % (cbool(_args_byname()), cached, coq_sig(sig), clist([cstr(a) for a in names]),
                                                         cnat(meta["npos"]), clist([cstr(k) for k in meta["kws"]]), cbool(accepted))
    if accepted and how != want:
        expr += " && false"
    pattern = ",".join(k + ("=" if d else "") for _, k, d in sig) or "none"
    sig_ = ""
    if fail:
        by_name_class = any(n in ("args", "kwargs") and k not in ("vp", "vk") for n, k, _ in sig) or \
            any(n not in ("args", "kwargs") and k in ("vp", "vk") for n, k, _ in sig)
        sig_ = SIG_ARGNAME if (names != declared and by_name_class and _args_byname()) else "get_non_default_args|kinds=%s" % pattern
    return Case(expr=expr, meta=meta, cell="args/sig=%s%s%s/npos=%d,kws=%d" % (pattern, "/" + meta["style"] if meta.get("style", "def") != "def" else "",
                                                                             ("/model-as-callable" if meta.get("inner_sig") is not None else "/cached") if meta.get("cached") is not None else "", meta["npos"], len(meta["kws"])),
                kind="DECISION", impl_fail=fail, signature=sig_)


def rand_signatures(rng):
    """one valid Python parameter list for every combination of parameter kinds present (positional-only 0/1, positional-or-
    keyword 0/1/2, *args, keyword-only 0/1, **kwargs) x number of required positional parameters {0, 1, all} x keyword-only
    parameter defaulted or not (the structure -- hence the cell -- does not depend on the seed); the variadics and the ordinary
    parameters draw their names from one pool that contains `args` and `kwargs` (seed dependent)"""
    out = []
    for n_po, n_pk, vp, n_ko, vk in itertools.product([0, 1], [0, 1, 2], [0, 1], [0, 1], [0, 1]):
        npos = n_po + n_pk
        for nreq in sorted({0, min(1, npos), npos}):
            for ko_default in ([False, True] if n_ko else [False]):
                names = ["x", "a", "y", "scale", "args", "kwargs", "rest", "options"]
                rng.shuffle(names)
                nm = iter(names)
                sig = []
                for i in range(npos):
                    sig.append([next(nm), "po" if i < n_po else "pk", i >= nreq])
                if vp:
                    sig.append([next(nm), "vp", False])
                for _ in range(n_ko):
                    sig.append([next(nm), "ko", ko_default])
                if vk:
                    sig.append([next(nm), "vk", False])
                out.append(sig)
    return out


# ------------------------------------------------------------------------------------------------
# signatures
# ------------------------------------------------------------------------------------------------
def leak_config(m):
    """gradient configurations in which the subclass tag (geometry, is_par=False) of wrt.funvals survives to the final
    _2par of Model.gradient: wrt is a CUQIarray, the domain geometry has a `gradient` written direction-first, and the
    model's gradient callable hands on wrt's subclass"""
    dg = Geo(**m["dg"])
    if not dg.has_grad or dg.kind == "step" or dg.d.get("gstyle", "wrtfirst") != "dirfirst":
        return False
    if m["wform"].split("=")[0] not in ("arrpar", "arrfun"):
        return False
    d_tagged = m["dform"].split("=")[0] in ("arrpar", "arrfun")
    if m["mk"] == "dir":
        ms = m.get("mstyle", "wrtfirst")
        return ms == "wrtfirst" or (ms == "dirfirst" and not d_tagged)
    if m["mk"] == "jac":
        return bool(m.get("jt")) and not d_tagged
    return False


def _strip(g):
    return {k_: v_ for k_, v_ in g.d.items() if k_ not in ("grad", "gstyle")}


def forward_signature(m, obs, exp, q):
    """Signature of a failing forward case.  A known class is named only when (1) the probed tree HAS that defect,
    (2) the configuration is in the class and (3) the observation is exactly what the defect predicts (the prediction is
    computed here with the independent Fraction maps); anything else gets the generic per-cell signature."""
    dg, rg = Geo(**m["dg"]), Geo(**m["rg"])
    base = m["form"].split("=")[0]
    arr = base in ("arrpar", "arrfun", "arrdefault")
    sub = base in ("subpar", "subfun")
    err = obs[1] if obs[0] == "err" else None
    vals = [ufs(c) for c in m["vals"]]
    A = [[Fraction(a) for a in row] for row in m["A"]]
    cs, b = ufs(m["cs"]), ufs(m["b"])
    # 0-d output: the value is right, only the shape is () instead of (1,)
    if _step_squeezes() and rg.kind == "step" and rg.d["steps"] == 1 and obs[0] == "val" and exp[0] == "val" and obs[1] in (3, 4) \
            and obs[1] - 3 == exp[1] and obs[2] == exp[2]:
        return SIG_0D
    if q[5] and m.get("ipk") and obs[0] == "val" and exp[0] == "val" and obs[1] == exp[1]:
        return SIG_ISID         # right wrapper, values of the unconverted array
    if q[3] and sub and obs[0] == "val" and exp[0] == "val" and obs[1] in (0, 3, 5, 6, 7, 8) and (obs[2] == exp[2] or q[0] or q[1]):
        return SIG_SUBCLS       # right numbers (unless another open defect interferes), not re-wrapped as CUQIarray of the range geometry
    if q[2] and (arr or sub) and err == "EIndex" and dg.kind == "discrete" and rg.kind == "discrete" and dg.pdim != rg.pdim:
        return SIG_EQIDX
    if q[2] and (arr or sub) and err == "EKey" and dg.kind in ("step", "mapped", "mapped_img", "cont1d") and dg.has_grad \
            and not rg.has_grad and _strip(dg) == _strip(rg):
        return SIG_EQKEY
    if q[0] and arr and dg.kind == "default1d" and rg.kind in ("step", "sub1d") and rg.nfun == dg.nfun and not rg.d.get("grid") \
            and m["mk"] not in ("pde_gw", "pde_jw", "pde_both", "pde_none") and obs[0] == "val" and obs[1] == 1:
        # prediction: the output keeps the default geometry's tag and is "converted" by its identity fun2par
        f = vals[0] if base == "arrfun" else dg.o_par2fun(vals[0])
        if obs[2] == [o_F(A, cs, b, f)]:
            return SIG_DEFEQ
    if q[1] and base == "samplesfun" and not m["flag"]:
        # prediction: every column is converted with par2fun once more (2-d items are left alone by the reshape)
        try:
            again = lambda c: ([horner(ufs(dg.d["cs"]), t) for t in c] if dg.kind == "mapped_img" else list(c)) if dg.twod else dg.o_par2fun(c)
            pred = ("val", 2, [rg.o_fun2par(o_F(A, cs, b, again(c))) for c in vals])
        except Refuse:
            pred = ("err",)
        if (pred[0] == "err" and err == "EValue") or (pred[0] == "val" and obs[0] == "val" and obs[1] == 2 and obs[2] == pred[2]):
            return SIG_SAMPLES
    return "Model.forward|%s:%s->%s:%s" % (base, dg.name(), rg.name(), m["mk"])


def gradient_signature(m, obs, exp, q):
    dg, rg = Geo(**m["dg"]), Geo(**m["rg"])
    dbase, wbase = m["dform"].split("=")[0], m["wform"].split("=")[0]
    err = obs[1] if obs[0] == "err" else None
    darr = dbase in ("arrpar", "arrfun")
    if q[2] and darr and err == "EIndex" and dg.kind == "discrete" and rg.kind == "discrete" and dg.pdim != rg.pdim:
        return SIG_EQIDX
    if q[2] and darr and err == "EKey" and rg.kind == "cont1d" and rg.has_grad and not dg.has_grad and _strip(dg) == _strip(rg):
        return SIG_EQKEY            # the direction's tag (range geometry object with `gradient`) meets the domain geometry
    if q[5] and (m.get("dipk") or m.get("wipk")) and obs[0] == "val" and exp is not None:
        return SIG_ISID
    if q[4] and leak_config(m) and exp is not None:
        # prediction: fun2par of the domain geometry applied to the correct gradient (or its refusal)
        try:
            pred = dg.o_fun2par(exp[2][0])
        except Refuse:
            pred = None
        if (pred is None and err in ("EValue", "ENotImpl")) or (pred is not None and obs[0] == "val" and obs[2] == [pred]):
            return SIG_TAGLEAK
    return "Model.gradient|d=%s,w=%s:%s->%s:%s" % (dbase, wbase, dg.name(), rg.name(), m["mk"])


def classify(meta, detail):
    """called by bin/check for a case without a stored signature: re-run it and classify the observation"""
    m = meta.get("meta", meta)
    if m.get("witness"):
        return m["witness"]
    op = m.get("op")
    if op in ("forward", "gradient"):
        import cuqi
        q = probe(cuqi)
        if op == "forward":
            obs, exp, _ = run_forward_case(cuqi, m)
            return forward_signature(m, obs, exp, q)
        obs, exp, refusal_ok, _ = run_gradient_case(cuqi, m)
        return gradient_signature(m, obs, exp, q)
    if op == "rename":
        return "Model.forward(distribution)|%s" % m["mk"]
    if op == "bind":
        return "Model._parse_args_add_to_kwargs|npos=%d,kws=%d" % (m["npos"], len(m["kws"]))
    if op == "args":
        import cuqi
        return args_case(cuqi, m, None).signature or "get_non_default_args"
    if op == "fd":
        return "Model.gradient-vs-finite-differences-of-forward|%s:%s" % (Geo(**m["dg"]).name(), m["mk"])
    return "C12"


# ------------------------------------------------------------------------------------------------
# generators
# ------------------------------------------------------------------------------------------------
def geo_pool_1d(n, rng):
    """1-d function-value geometries with n function values (domain or range side)"""
    cs2 = [rng.randint(-2, 2), rng.randint(-2, 2), rng.choice([1, -1, 2])]           # quadratic
    a = rng.choice([2, -2, 4, 1, -1])
    b0 = rng.randint(-3, 3)
    aff, iaff = [b0, a], [F(-b0, a), F(1, a)]                                       # affine + exact inverse
    pool = [Geo(kind="default1d", n=n), Geo(kind="cont1d", n=n), Geo(kind="cont1d", n=n, grid=1), Geo(kind="discrete", n=n),
            Geo(kind="image", r=1, c=n, visual=True),
            Geo(kind="mapped", n=n, cs=fs(cs2)), Geo(kind="mapped", n=n, cs=fs(cs2), grad=True),
            Geo(kind="mapped", n=n, cs=fs(aff), ics=fs(iaff)), Geo(kind="mapped", n=n, cs=fs(aff), ics=fs(iaff), grad=True),
            Geo(kind="sub1d", n=n, cs=fs(aff), ics=fs(iaff)), Geo(kind="sub1d", n=n, cs=fs(aff), ics=fs(iaff), grad=True),
            Geo(kind="user", n=n, cs=fs(cs2)), Geo(kind="user", n=n, cs=fs(cs2), grad=True),
            Geo(kind="user", n=n, cs=fs(aff), ics=fs(iaff), grad=True),
            Geo(kind="mapped", n=n, cs=fs(aff), ics=fs(iaff), grad=True, gstyle="dirfirst"),
            Geo(kind="mapped", n=n, cs=fs(cs2), grad=True, gstyle="strip"),
            Geo(kind="sub1d", n=n, cs=fs(aff), ics=fs(iaff), grad=True, gstyle="strip"),
            Geo(kind="user", n=n, cs=fs(cs2), grad=True, gstyle="dirfirst")]
    for steps in sorted({1, max(1, n // 2), n}):
        if steps <= n and all(Geo(kind="step", nodes=n, steps=steps, proj="max").step_idx()):
            sizes = {len(ix) for ix in Geo(kind="step", nodes=n, steps=steps, proj="max").step_idx()}
            projs = ["max", "min"] + (["mean"] if sizes <= {1, 2, 4} else [])
            for pj in projs:
                pool.append(Geo(kind="step", nodes=n, steps=steps, proj=pj))
            pool.append(Geo(kind="step", nodes=n, steps=steps, proj="max", grad=True))
    return pool


def geo_pool_2d(r, c, rng):
    a = rng.choice([2, -2, 1, -1])
    b0 = rng.randint(-2, 2)
    aff, iaff = [b0, a], [F(-b0, a), F(1, a)]
    return [Geo(kind="image", r=r, c=c, order="C"), Geo(kind="image", r=r, c=c, order="F"), Geo(kind="default2d", r=r, c=c),
            Geo(kind="cont2d", r=r, c=c), Geo(kind="mapped_img", r=r, c=c, order="F", cs=fs(aff), ics=fs(iaff)),
            Geo(kind="mapped_img", r=r, c=c, order="C", cs=fs([rng.randint(-1, 1), 0, 1]))]


def rand_vec(rng, n, lo=-3, hi=3, halves=True):
    if halves and rng.random() < 0.3:
        return [F(rng.randint(2 * lo, 2 * hi), 2) for _ in range(n)]
    return [F(rng.randint(lo, hi)) for _ in range(n)]


def rand_model(rng, mk, nin, nout):
    A = [[rng.randint(-2, 2) for _ in range(nin)] for _ in range(nout)]
    if all(a == 0 for row in A for a in row):
        A[0][0] = 1
    if mk in ("linmat", "linfun"):
        cs, b = [0, 1], [0] * nout
    else:
        cs = rng.choice([[0, 1], [rng.randint(-1, 1), rng.randint(-2, 2), 1], [0, rng.randint(-1, 1), rng.randint(-1, 1), 1],
                         [rng.randint(-2, 2), 0, rng.choice([-1, 1, 2])]])
        b = [rng.randint(-2, 2) for _ in range(nout)]
    return {"A": [[str(a) for a in row] for row in A], "cs": fs(cs), "b": fs(b)}


def rand_unit_triangular(rng, m):
    up = rng.random() < 0.5
    return [[1 if i == j else (rng.randint(-1, 1) if ((j > i) if up else (j < i)) else 0) for j in range(m)] for i in range(m)]


def rand_operator(rng, m):
    """unit triangular (scipy's solve is exact on these: 0 of 20000 trials inexact), or a row-permuted, row-scaled one
    (pivoting needed; NOT always exact: cases using it belong to the tolerance cell class, see forward_case)"""
    T = rand_unit_triangular(rng, m)
    if rng.random() < 0.5:
        return T
    perm = list(range(m))
    rng.shuffle(perm)
    return [[T[perm[i]][j] * 2 ** ((i * 3 + 1) % 4 - 1) for j in range(m)] for i in range(m)]


def model_allowed(mk, dg, rg, forward=True):
    """combinations in which the forward callable is well defined (see module docstring)"""
    if mk == "linmat" and (dg.twod or (rg.twod and forward)):
        return False            # matrix @ 2-d image: not a model the matrix form supports
    if mk.startswith("pde") and rg.twod:
        return False            # observations are 1-d
    return True


def run(ctx):
    import cuqi
    rng = ctx.rng
    q = probe(cuqi)
    ctx.note("tree state: _DefaultGeometry1D equals Continuous1D subclasses = %s; Samples columns always treated as parameters = %s; "
             "Discrete(m) == Discrete(n) raises IndexError = %s; CUQIarray subclass output not re-wrapped = %s; "
             "gradient leaks wrt's CUQIarray tag = %s; CUQIarray tests is_par by identity = %s" % q + "; StepExpansion.fun2par squeezes to 0-d = %s" % _step_squeezes())
    cases = []
    reps = 1

    def add(fn, meta):
        cases.append(fn(cuqi, meta, q))

    # ---------------- forward: model kind x domain x range x input form ----------------
    fwd_forms = ["par", "fun", "arrpar", "arrpar=copy", "arrfun", "arrfun=copy", "samples", "samplesfun", "subpar", "subfun"]
    for rep in range(reps):
        for n in ([3, 4] if not ctx.thorough else [2, 3, 4, 5]):
            doms = geo_pool_1d(n, rng) + (geo_pool_2d(2, 2, rng) if n == 4 else [])
            for dg in doms:
                # ranges: one of each family, rotating with the repetition
                m_out = rng.choice([2, 3, 4])
                rpool1 = geo_pool_1d(m_out, rng)
                rpool = rpool1 + geo_pool_2d(2, 2, rng)
                # every range family in thorough; a rotating selection in quick
                picks = rpool if ctx.thorough else rng.sample(rpool, 5)
                for rg in picks:
                    nout = rg.nfun
                    mks = [rng.choice(["jac", "dir", "nograd", "linmat", "linfun", "pde_gw", "pde_none"])]
                    for mk in mks:
                        if not model_allowed(mk, dg, rg):
                            continue
                        mm = rand_model(rng, mk, dg.nfun, nout)
                        forms = rng.sample(fwd_forms, 4)
                        for form in forms:
                            base = form.split("=")[0]
                            ncols = rng.randint(1, 3) if base.startswith("samples") else 1
                            cols = []
                            for _ in range(ncols):
                                p = rand_vec(rng, dg.pdim)
                                cols.append(dg.o_par2fun(p) if base in ("fun", "arrfun", "samplesfun", "subfun") else p)
                            flag = base not in ("fun", "samplesfun")
                            if base in ("arrpar", "arrfun") and rng.random() < 0.3:
                                flag = not flag            # the keyword is irrelevant for a matching CUQIarray
                            meta = dict(op="forward", mk=mk, dg=dg.d, rg=rg.d, form=form, vals=[fs(c) for c in cols], flag=flag,
                                        call=rng.random() < 0.3, **mm)
                            if mk.startswith("pde") and rng.random() < 0.6:
                                meta["pde_op"] = rand_operator(rng, nout)
                            if mk in ("jac", "dir", "nograd", "linfun"):
                                meta["fstyle"] = rng.choice(FSTYLES)
                            if rng.random() < 0.25:
                                meta["reassign"] = True
                            if rng.random() < 0.2:
                                meta["kw"] = True
                            add(forward_case, meta)
    # ---- the default-geometry equality class, always (both array forms, step and user-subclass ranges)
    for n in [3, 4, 6]:
        for rg in [Geo(kind="step", nodes=n, steps=max(1, n // 2), proj="max"), Geo(kind="step", nodes=n, steps=1, proj="min"),
                   Geo(kind="sub1d", n=n, cs=fs([1, 2]), ics=fs([F(-1, 2), F(1, 2)]))]:
            for mk in ["jac", "linmat", "linfun", "pde_gw"]:
                for form in ["par", "arrpar", "arrpar=copy", "arrfun", "arrdefault", "samples"]:
                    dg = Geo(kind="default1d", n=n)
                    mm = rand_model(rng, mk, n, n)
                    p = rand_vec(rng, n)
                    meta = dict(op="forward", mk=mk, dg=dg.d, rg=rg.d, form=form, vals=[fs(p)], flag=True, call=False, **mm)
                    add(forward_case, meta)

    # ---- Discrete geometries of different size on the two sides, always (geometry comparison of a CUQIarray's tag)
    for n, m_ in [(4, 3), (2, 3), (3, 3)]:
        dg, rg = Geo(kind="discrete", n=n), Geo(kind="discrete", n=m_)
        for mk in ["linmat", "jac", "pde_gw"]:
            mm = rand_model(rng, mk, n, m_)
            for form in ["par", "arrpar", "arrfun=copy", "samples"]:
                cols = [rand_vec(rng, n) for _ in range(2 if form == "samples" else 1)]
                add(forward_case, dict(op="forward", mk=mk, dg=dg.d, rg=rg.d, form=form, vals=[fs(c) for c in cols], flag=True, call=False, **mm))
            for dform, wform in [("par", "par"), ("arrpar", "par"), ("arrfun=copy", "arrpar"), ("par", "arrfun")]:
                add(gradient_case, dict(op="gradient", mk=mk, dg=dg.d, rg=rg.d, dform=dform, wform=wform, d=fs(rand_vec(rng, m_)),
                                        w=fs(rand_vec(rng, n)), **mm))
    # ---- a geometry object with a `gradient` attribute against an otherwise equal one without, always
    for dg, rg in [(Geo(kind="step", nodes=4, steps=2, proj="max", grad=True), Geo(kind="step", nodes=4, steps=2, proj="max")),
                   (Geo(kind="mapped", n=3, cs=fs([1, 2]), ics=fs([F(-1, 2), F(1, 2)]), grad=True),
                    Geo(kind="mapped", n=3, cs=fs([1, 2]), ics=fs([F(-1, 2), F(1, 2)]))),
                   (Geo(kind="mapped", n=3, cs=fs([1, 2]), ics=fs([F(-1, 2), F(1, 2)])),
                    Geo(kind="mapped", n=3, cs=fs([1, 2]), ics=fs([F(-1, 2), F(1, 2)]), grad=True))]:
        for mk in ["jac", "linfun", "pde_gw"]:
            mm = rand_model(rng, mk, dg.nfun, rg.nfun)
            for form in ["par", "arrpar", "arrfun=copy", "samples"]:
                base = form.split("=")[0]
                p = rand_vec(rng, dg.pdim, halves=False)
                add(forward_case, dict(op="forward", mk=mk, dg=dg.d, rg=rg.d, form=form, vals=[fs(dg.o_par2fun(p) if base == "arrfun" else p)],
                                       flag=True, call=False, **mm))
    # ---- single-parameter StepExpansion ranges, always (fun2par squeezes to a 0-d array)
    for n in [2, 3]:
        for pj in ["max", "min", "mean"] if n == 2 else ["max"]:
            rg = Geo(kind="step", nodes=n, steps=1, proj=pj)
            for dg in [Geo(kind="cont1d", n=3), Geo(kind="mapped", n=2, cs=fs([1, 0, 1])), Geo(kind="image", r=2, c=2, order="F")]:
                for mk in ["jac", "linfun", "pde_gw"]:
                    mm = rand_model(rng, mk, dg.nfun, n)
                    for form in ["par", "fun", "arrpar", "arrfun=copy", "samples"]:
                        base = form.split("=")[0]
                        cols = []
                        for _ in range(2 if base == "samples" else 1):
                            p = rand_vec(rng, dg.pdim, halves=False)
                            cols.append(dg.o_par2fun(p) if base in ("fun", "arrfun") else p)
                        meta = dict(op="forward", mk=mk, dg=dg.d, rg=rg.d, form=form, vals=[fs(c) for c in cols], flag=base != "fun",
                                    call=False, **mm)
                        add(forward_case, meta)

    # ---------------- gradient ----------------
    dforms = ["par", "fun", "arrpar", "arrfun=copy", "samples"]
    wforms = ["par", "fun", "arrpar=copy", "arrfun", "samples"]
    for rep in range(reps):
        for n in ([3, 4] if not ctx.thorough else [2, 3, 4]):
            doms = geo_pool_1d(n, rng) + (geo_pool_2d(2, 2, rng) if n == 4 else [])
            for dg in doms:
                rpool = [Geo(kind="default1d", n=3), Geo(kind="cont1d", n=2), Geo(kind="discrete", n=3), Geo(kind="image", r=1, c=3, visual=True),
                         Geo(kind="image", r=2, c=2, order="F"), Geo(kind="image", r=2, c=2, order="C"), Geo(kind="default2d", r=2, c=2),
                         Geo(kind="cont2d", r=2, c=2),
                         Geo(kind="mapped", n=3, cs=fs([0, 2]), ics=fs([0, F(1, 2)])), Geo(kind="step", nodes=3, steps=3, proj="max"),
                         Geo(kind="sub1d", n=2, cs=fs([0, 1]), ics=fs([0, 1]))]
                picks = rpool if ctx.thorough else rng.sample(rpool[:8], 3) + rng.sample(rpool[8:], 1)
                for rg in picks:
                    mks = rng.sample(MODEL_KINDS, 3)
                    for mk in mks:
                        if not model_allowed(mk, dg, rg, forward=False):
                            continue
                        mm = rand_model(rng, mk, dg.nfun, rg.nfun)
                        combos = list(itertools.product(dforms, wforms))
                        for dform, wform in rng.sample(combos, 8 if ctx.thorough else 4):
                            dvec = rand_vec(rng, rg.pdim) if rng.random() > 0.05 else [F(0)] * rg.pdim
                            p = rand_vec(rng, dg.pdim)
                            try:
                                d_in = rg.o_par2fun(dvec) if dform.split("=")[0] in ("fun", "arrfun") else dvec
                            except Refuse:
                                d_in = dvec
                            w_in = dg.o_par2fun(p) if wform.split("=")[0] in ("fun", "arrfun") else p
                            meta = dict(op="gradient", mk=mk, dg=dg.d, rg=rg.d, dform=dform, wform=wform, d=fs(d_in), w=fs(w_in), **mm)
                            if mk in ("dir", "linfun"):
                                meta["mstyle"] = rng.choice(["wrtfirst", "dirfirst", "strip"])
                            if mk == "jac":
                                meta["jt"] = rng.random() < 0.4
                            if mk.startswith("pde") and rng.random() < 0.6:
                                meta["pde_op"] = rand_operator(rng, rg.nfun)
                            if mk in ("jac", "dir", "linfun"):
                                meta["fstyle"] = rng.choice(FSTYLES)
                            if rng.random() < 0.25:
                                meta["reassign"] = True
                            # the flags are irrelevant for a CUQIarray that carries the matching geometry
                            if dform.split("=")[0] in ("arrpar", "arrfun") and rng.random() < 0.3:
                                meta["dpar"] = rng.random() < 0.5
                            if wform.split("=")[0] in ("arrpar", "arrfun") and rng.random() < 0.3:
                                meta["wpar"] = rng.random() < 0.5
                            if wform == "samples":
                                meta["wpar"] = True
                            add(gradient_case, meta)
    # ---- attribute-based dispatch (`hasattr(domain_geometry, "gradient")`, hasattr(pde, ...)), always: the attribute on the
    #      class / on the object / only on a geometry WRAPPED by a MappedGeometry (the wrapper has none: refusal) / on an
    #      identity-like geometry object; as domain and as range
    aff_o, iaff_o = [1, 2], [F(-1, 2), F(1, 2)]
    aff_i, iaff_i = [-1, 4], [F(1, 4), F(1, 4)]
    inners = [Geo(kind="user", n=3, cs=fs(aff_i), ics=fs(iaff_i), grad=True),
              Geo(kind="user", n=3, cs=fs([0, 1, 1]), grad=True, gstyle="dirfirst"),
              Geo(kind="sub1d", n=3, cs=fs(aff_i), ics=fs(iaff_i), grad=True),
              Geo(kind="step", nodes=4, steps=2, proj="max", grad=True),
              Geo(kind="mapped", n=3, cs=fs(aff_i), ics=fs(iaff_i), grad=True),
              Geo(kind="user", n=3, cs=fs(aff_i), ics=fs(iaff_i))]
    wrapped = []
    for inn in inners:
        wrapped.append(Geo(kind="mapped_over", inner=inn.d, cs=fs(aff_o), ics=fs(iaff_o)))
        wrapped.append(Geo(kind="mapped_over", inner=inn.d, cs=fs([0, 0, 1])))
    # a decreasing outer map over projecting inner geometries: imap and the inner max/min projection do not commute
    for pj in ["max", "min", "mean"]:
        wrapped.append(Geo(kind="mapped_over", inner=Geo(kind="step", nodes=4, steps=2, proj=pj).d, cs=fs([1, -2]), ics=fs([F(1, 2), F(-1, 2)])))
    for wg in wrapped:
        for mk, extra in [("jac", {}), ("dir", {"mstyle": "dirfirst"}), ("linmat", {}), ("pde_gw", {"pde_inst": True})]:
            rg = rng.choice([Geo(kind="default1d", n=2), Geo(kind="cont1d", n=3), Geo(kind="discrete", n=2)])
            mm = rand_model(rng, mk, wg.nfun, rg.nfun)
            for dform, wform in [("par", "par"), ("arrpar", "par"), ("par", "arrpar"), ("fun", "arrfun=copy"), ("par", "fun"), ("arrfun=copy", "arrpar=copy")]:
                dvec, pvec = rand_vec(rng, rg.pdim), rand_vec(rng, wg.pdim, halves=False)
                w_in = wg.o_par2fun(pvec) if wform.split("=")[0] in ("fun", "arrfun") else pvec
                meta = dict(op="gradient", mk=mk, dg=wg.d, rg=rg.d, dform=dform, wform=wform, d=fs(dvec), w=fs(w_in), **mm)
                meta.update(extra)
                add(gradient_case, meta)
            if mk != "linmat":
                for form in ["par", "fun", "arrpar", "arrfun=copy", "samples"]:
                    base = form.split("=")[0]
                    p = rand_vec(rng, wg.pdim, halves=False)
                    add(forward_case, dict(op="forward", mk=mk, dg=wg.d, rg=rg.d, form=form, vals=[fs(wg.o_par2fun(p) if base in ("fun", "arrfun") else p)],
                                           flag=base != "fun", call=False, **dict(mm, **extra)))
        # as range (refused whatever the domain), and the output conversion of forward
        dgr = Geo(kind="cont1d", n=3)
        mm = rand_model(rng, "jac", 3, wg.nfun)
        for dform, wform in [("par", "par"), ("arrpar", "arrpar")]:
            add(gradient_case, dict(op="gradient", mk="jac", dg=dgr.d, rg=wg.d, dform=dform, wform=wform, d=fs(rand_vec(rng, wg.pdim)),
                                    w=fs(rand_vec(rng, 3)), **mm))
        for form in ["par", "arrpar", "samples"]:
            add(forward_case, dict(op="forward", mk="jac", dg=dgr.d, rg=wg.d, form=form, vals=[fs(rand_vec(rng, 3))], flag=True, call=False, **mm))
    # identity-like geometry object with `gradient` attached (domain: used; range: ignored), every style; PDE attributes on the object
    for gsty in ["wrtfirst", "dirfirst", "strip"]:
        cg = Geo(kind="cont1d", n=3, grad=True, gstyle=gsty)
        for dg, rg in [(cg, Geo(kind="default1d", n=2)), (cg, Geo(kind="cont1d", n=3)), (Geo(kind="discrete", n=2), cg),
                       (Geo(kind="cont1d", n=3), cg)]:
            for mk, extra in [("jac", {"jt": True}), ("dir", {"mstyle": "wrtfirst"}), ("linfun", {}), ("pde_jw", {"pde_inst": True}),
                              ("pde_both", {"pde_inst": True})]:
                mm = rand_model(rng, mk, dg.nfun, rg.nfun)
                for dform, wform in [("par", "par"), ("arrpar", "arrpar"), ("par", "arrfun"), ("arrfun=copy", "par")]:
                    meta = dict(op="gradient", mk=mk, dg=dg.d, rg=rg.d, dform=dform, wform=wform, d=fs(rand_vec(rng, rg.pdim)),
                                w=fs(rand_vec(rng, dg.pdim)), **mm)
                    meta.update(extra)
                    add(gradient_case, meta)
                for form in ["par", "arrpar", "arrfun=copy"]:
                    add(forward_case, dict(op="forward", mk=mk, dg=dg.d, rg=rg.d, form=form, vals=[fs(rand_vec(rng, dg.pdim))], flag=True,
                                           call=False, **dict(mm, **extra)))

    # ---- subclass-tag propagation through the user callables, always: every style of the model's gradient callable x
    #      every style of the geometry's gradient x direction form x wrt form (contains the tag-leak class)
    for n in [3]:
        a_, b_ = 2, 1
        aff, iaff = [b_, a_], [F(-b_, a_), F(1, a_)]
        for gsty in ["wrtfirst", "dirfirst", "strip"]:
            doms = [Geo(kind="mapped", n=n, cs=fs(aff), ics=fs(iaff), grad=True, gstyle=gsty),
                    Geo(kind="mapped", n=n, cs=fs([0, 1, 1]), grad=True, gstyle=gsty),
                    Geo(kind="user", n=n, cs=fs(aff), ics=fs(iaff), grad=True, gstyle=gsty),
                    Geo(kind="sub1d", n=n, cs=fs(aff), ics=fs(iaff), grad=True, gstyle=gsty)]
            for dg in doms:
                for mk, extra in [("dir", {"mstyle": "wrtfirst"}), ("dir", {"mstyle": "dirfirst"}), ("dir", {"mstyle": "strip"}),
                                  ("jac", {"jt": True}), ("jac", {"jt": False}), ("linmat", {}), ("pde_gw", {})]:
                    rg = rng.choice([Geo(kind="default1d", n=2), Geo(kind="cont1d", n=2), Geo(kind="discrete", n=3)])
                    mm = rand_model(rng, mk, n, rg.nfun)
                    for dform in ["par", "arrpar", "arrfun=copy"]:
                        for wform in ["par", "arrpar", "arrfun", "arrpar=copy"]:
                            dvec, pvec = rand_vec(rng, rg.pdim), rand_vec(rng, n, halves=False)
                            w_in = dg.o_par2fun(pvec) if wform.split("=")[0] == "arrfun" else pvec
                            meta = dict(op="gradient", mk=mk, dg=dg.d, rg=rg.d, dform=dform, wform=wform, d=fs(dvec), w=fs(w_in), **mm)
                            meta.update(extra)
                            add(gradient_case, meta)

    # ---- DTYPE / memory layout / container of every input form, always: integer-valued inputs, models with non-integer
    #      outputs (entries /2, /4): values compared exactly with the dtype-agnostic model, output dtype must be floating
    def frac_model(mk, nin, nout):
        A = [[F(rng.choice([-3, -1, 1, 1, 3, 5]), rng.choice([2, 4, 1, 2])) for _ in range(nin)] for _ in range(nout)]
        if mk in ("linmat", "linfun"):
            cs_, b_ = [0, 1], [0] * nout
        else:
            cs_, b_ = rng.choice([[0, 1], [0, F(1, 2), 1], [1, 0, F(1, 4)]]), [F(rng.randint(-3, 3), 2) for _ in range(nout)]
        return {"A": [[str(a) for a in row] for row in A], "cs": fs(cs_), "b": fs(b_)}

    int_aff, int_iaff = [1, 2], [F(-1, 2), F(1, 2)]
    dt_doms = [Geo(kind="cont1d", n=3), Geo(kind="default1d", n=3), Geo(kind="discrete", n=2), Geo(kind="mapped", n=3, cs=fs(int_aff), ics=fs(int_iaff)),
               Geo(kind="step", nodes=4, steps=2, proj="max"), Geo(kind="image", r=2, c=2, order="F"), Geo(kind="cont2d", r=2, c=2),
               Geo(kind="cont1d", n=1), Geo(kind="mapped", n=1, cs=fs(int_aff), ics=fs(int_iaff))]
    dt_rngs = [Geo(kind="cont1d", n=2), Geo(kind="mapped", n=2, cs=fs(int_aff), ics=fs(int_iaff)), Geo(kind="discrete", n=3),
               Geo(kind="step", nodes=2, steps=2, proj="mean"), Geo(kind="cont1d", n=1)]
    for di, dg in enumerate(dt_doms):
        for form in ["par", "fun", "arrpar", "arrfun=copy", "samples", "samplesfun", "subpar"]:
            base = form.split("=")[0]
            isfun = base in ("fun", "arrfun", "samplesfun")
            dts = list(STRICT_DT) + (list(LENIENT_DT) if base in ("par", "fun") else [])
            for ti, dt in enumerate(dts):
                if dt == "bool" and isfun and dg.kind in ("mapped",):
                    continue          # function values of 0/1 parameters are not 0/1 there
                if dt == "scalar0d" and dg.nfun != 1:
                    continue
                if dt in ("list", "tuple") and dg.twod and isfun:
                    continue
                rg = dt_rngs[(di + ti) % len(dt_rngs)]
                mk = ["jac", "linfun", "pde_gw", "dir", "linmat"][(di + ti + len(form)) % 5]
                if not model_allowed(mk, dg, rg):
                    mk = "jac"
                mm = frac_model(mk, dg.nfun, rg.nfun)
                if mk == "pde_gw":
                    mm["pde_op"] = rand_unit_triangular(rng, rg.nfun)
                cols = []
                for _ in range(3 if base.startswith("samples") else 1):
                    pcol = [F(rng.randint(0, 1)) for _ in range(dg.pdim)] if dt == "bool" else [F(rng.randint(-4, 6)) for _ in range(dg.pdim)]
                    cols.append(dg.o_par2fun(pcol) if isfun else pcol)
                add(forward_case, dict(op="forward", mk=mk, dg=dg.d, rg=rg.d, form=form, vals=[fs(c) for c in cols], flag=not isfun or base == "arrfun",
                                       call=False, dt=dt, **mm))
    for di, dg in enumerate([Geo(kind="cont1d", n=3), Geo(kind="mapped", n=3, cs=fs(int_aff), ics=fs(int_iaff), grad=True),
                             Geo(kind="step", nodes=4, steps=2, proj="max", grad=True), Geo(kind="image", r=2, c=2, order="C"),
                             Geo(kind="cont1d", n=1)]):
        for fi, (dform, wform) in enumerate([("par", "par"), ("arrpar", "arrpar"), ("fun", "arrfun"), ("par", "fun")]):
            for ti, dt in enumerate(list(STRICT_DT) + list(LENIENT_DT)):
                for ddt, wdt in [(dt, None), (None, dt), (dt, dt)]:
                    if dt in LENIENT_DT and ((ddt and dform != "par" and dform != "fun") or (wdt and wform not in ("par", "fun"))):
                        continue
                    if dt == "scalar0d" and dg.nfun != 1:
                        continue
                    if dt in ("list", "tuple") and dg.twod and wdt and wform == "fun":
                        continue
                    if dt == "bool" and wdt and wform in ("fun", "arrfun") and dg.kind == "mapped":
                        continue
                    rg = Geo(kind="cont1d", n=1) if dg.nfun == 1 else [Geo(kind="cont1d", n=2), Geo(kind="discrete", n=3)][(di + ti) % 2]
                    mk = ["jac", "dir", "linfun", "pde_jw"][(di + fi + ti) % 4]
                    mm = frac_model(mk, dg.nfun, rg.nfun)
                    bw, bd = dt == "bool" and wdt, dt == "bool" and ddt
                    pvec = [F(rng.randint(0, 1)) if bw else F(rng.randint(-3, 4)) for _ in range(dg.pdim)]
                    dvec = [F(rng.randint(0, 1)) if bd else F(rng.randint(-3, 4)) for _ in range(rg.pdim)]
                    w_in = dg.o_par2fun(pvec) if wform in ("fun", "arrfun") else pvec
                    add(gradient_case, dict(op="gradient", mk=mk, dg=dg.d, rg=rg.d, dform=dform, wform=wform, d=fs(dvec), w=fs(w_in),
                                            ddt=ddt, wdt=wdt, **mm))

    # ---- NON-SQUARE 2-d function values (2x3, 3x2) through every path, always: single arrays, CUQIarrays, Samples of 2-d
    #      function values (is_vec=False) with one and with several samples, as domain and as range, forward and gradient
    ns_doms = [Geo(kind="image", r=2, c=3, order="C"), Geo(kind="image", r=2, c=3, order="F"), Geo(kind="cont2d", r=3, c=2),
               Geo(kind="default2d", r=2, c=3), Geo(kind="mapped_img", r=3, c=2, order="F", cs=fs(int_aff), ics=fs(int_iaff))]
    ns_rngs = [Geo(kind="cont1d", n=2), Geo(kind="image", r=3, c=2, order="F"), Geo(kind="cont2d", r=2, c=3), Geo(kind="mapped", n=3, cs=fs(int_aff), ics=fs(int_iaff))]
    for di, dg in enumerate(ns_doms):
        for fi, form in enumerate(["par", "fun", "arrpar", "arrfun", "arrfun=copy", "samples", "samplesfun", "samplesfun1", "subfun"]):
            one = form == "samplesfun1"
            form_ = "samplesfun" if one else form
            base = form_.split("=")[0]
            isfun = base in ("fun", "arrfun", "samplesfun", "subfun")
            rg = ns_rngs[(di + fi) % len(ns_rngs)]
            mk = ["jac", "dir", "linfun", "pde_gw", "nograd"][(di + fi) % 5]
            if not model_allowed(mk, dg, rg):
                mk = "jac"
            mm = rand_model(rng, mk, dg.nfun, rg.nfun)
            cols = []
            for _ in range(1 if one or not base.startswith("samples") else 3):
                pcol = rand_vec(rng, dg.pdim, halves=False)
                cols.append(dg.o_par2fun(pcol) if isfun else pcol)
            add(forward_case, dict(op="forward", mk=mk, dg=dg.d, rg=rg.d, form=form_, vals=[fs(c) for c in cols], flag=not isfun or base in ("arrfun", "subfun"),
                                   call=False, fstyle=FSTYLES[(di + fi) % len(FSTYLES)], **mm))
        if dg.kind != "mapped_img":
            for mk in ["dir", "jac", "linfun", "pde_gw"]:
                rg = [Geo(kind="cont1d", n=2), Geo(kind="discrete", n=3)][di % 2]
                mm = rand_model(rng, mk, dg.nfun, rg.nfun)
                for dform, wform in [("par", "par"), ("par", "fun"), ("arrpar", "arrfun"), ("fun", "arrpar=copy")]:
                    p = rand_vec(rng, dg.pdim, halves=False)
                    add(gradient_case, dict(op="gradient", mk=mk, dg=dg.d, rg=rg.d, dform=dform, wform=wform, d=fs(rand_vec(rng, rg.pdim)),
                                            w=fs(dg.o_par2fun(p) if wform.split("=")[0] in ("fun", "arrfun") else p), mstyle="dirfirst", **mm))

    # ---- TOLERANCE CELL CLASS: KLExpansion as domain and as range (real-valued DST maps; model matrices from the documented
    #      formulas; values within 1e-9 relative), every input form; the gradient through a KL domain is refused
    kls = [Geo(kind="kl", nodes=5, modes=3, decay="3/2", normalizer="4"), Geo(kind="kl", nodes=4, modes=4, decay="5/2", normalizer="12"),
           Geo(kind="kl", nodes=6, modes=2, decay="2", normalizer="1/2")]
    for ki, kg in enumerate(kls):
        for fi, form in enumerate(["par", "fun", "arrpar", "arrfun=copy", "samples", "samplesfun", "subpar"]):
            base = form.split("=")[0]
            isfun = base in ("fun", "arrfun", "samplesfun")
            for side in ["domain", "range", "both"]:
                dg = kg if side in ("domain", "both") else [Geo(kind="cont1d", n=3), Geo(kind="mapped", n=3, cs=fs(int_aff), ics=fs(int_iaff))][(ki + fi) % 2]
                rg = kls[(ki + 1) % 3] if side == "both" else kg if side == "range" else [Geo(kind="cont1d", n=2), Geo(kind="discrete", n=3)][(ki + fi) % 2]
                mk = ["jac", "linfun", "pde_gw", "linmat"][(ki + fi) % 4]
                mm = rand_model(rng, mk, dg.nfun, rg.nfun)
                cols = []
                for _ in range(2 if base.startswith("samples") else 1):
                    pcol = rand_vec(rng, dg.pdim, halves=False)
                    cols.append(dg.o_par2fun(pcol) if isfun else pcol)
                add(forward_case, dict(op="forward", mk=mk, dg=dg.d, rg=rg.d, form=form, vals=[fs(c) for c in cols], flag=not isfun or base == "arrfun",
                                       call=False, **mm))
        rg = Geo(kind="cont1d", n=2)
        mm = rand_model(rng, "jac", kg.nfun, 2)
        for dform, wform in [("par", "par"), ("arrpar", "arrpar"), ("par", "fun")]:
            p = rand_vec(rng, kg.pdim, halves=False)
            add(gradient_case, dict(op="gradient", mk="jac", dg=kg.d, rg=rg.d, dform=dform, wform=wform, d=fs(rand_vec(rng, 2)),
                                    w=fs(kg.o_par2fun(p) if wform == "fun" else p), **mm))
        mm = rand_model(rng, "jac", 3, kg.nfun)
        add(gradient_case, dict(op="gradient", mk="jac", dg=Geo(kind="cont1d", n=3).d, rg=kg.d, dform="par", wform="par", d=fs(rand_vec(rng, kg.pdim)),
                                w=fs(rand_vec(rng, 3)), **mm))

    # ---- falsy/truthy-but-legitimate flag values: CUQIarray.is_par given as numpy.bool_ / int, always
    for dg in [Geo(kind="mapped", n=3, cs=fs(int_aff), ics=fs(int_iaff), grad=True), Geo(kind="cont1d", n=3),
               Geo(kind="user", n=3, cs=fs(int_aff), ics=fs(int_iaff), grad=True)]:
        for ipk in ["npbool", "int"]:
            for rg in [Geo(kind="cont1d", n=2), Geo(kind="mapped", n=3, cs=fs(int_aff), ics=fs(int_iaff))]:
                mk = rng.choice(["jac", "linfun", "dir"])
                mm = rand_model(rng, mk, dg.nfun, rg.nfun)
                for form in ["arrpar", "arrfun", "arrpar=copy"]:
                    p = rand_vec(rng, dg.pdim, halves=False)
                    add(forward_case, dict(op="forward", mk=mk, dg=dg.d, rg=rg.d, form=form, ipk=ipk, vals=[fs(dg.o_par2fun(p) if form == "arrfun" else p)],
                                           flag=True, call=False, **mm))
            rg = Geo(kind="cont1d", n=2)
            for mk in ["jac", "dir"]:
                mm = rand_model(rng, mk, dg.nfun, rg.nfun)
                for dform, wform, dk, wk in [("arrpar", "par", ipk, None), ("par", "arrpar", None, ipk), ("par", "arrfun", None, ipk),
                                             ("arrfun", "arrpar", ipk, ipk)]:
                    if dg.twod and wform == "arrfun" and wk:
                        continue      # (.parameters would wrap the unconverted 2-d array as parameters: ValueError, same defect)
                    p = rand_vec(rng, dg.pdim, halves=False)
                    meta = dict(op="gradient", mk=mk, dg=dg.d, rg=rg.d, dform=dform, wform=wform, d=fs(rand_vec(rng, rg.pdim)),
                                w=fs(dg.o_par2fun(p) if wform == "arrfun" else p), **mm)
                    if dk:
                        meta["dipk"] = dk
                    if wk:
                        meta["wipk"] = wk
                    add(gradient_case, meta)

    # ---- instances of a user subclass of CUQIarray as input, always
    aff_s, iaff_s = [1, 2], [F(-1, 2), F(1, 2)]
    sub_doms = [Geo(kind="cont1d", n=3), Geo(kind="mapped", n=3, cs=fs(aff_s), ics=fs(iaff_s)), Geo(kind="step", nodes=4, steps=2, proj="max"),
                Geo(kind="image", r=2, c=2, order="F")]
    for dg in sub_doms:
        for rg in [Geo(kind="cont1d", n=2), Geo(kind="mapped", n=3, cs=fs(aff_s), ics=fs(iaff_s)), Geo(kind="step", nodes=2, steps=1, proj="mean"),
                   Geo(kind="discrete", n=3), dg]:
            for mk in ["jac", "linfun", "pde_gw"]:
                if not model_allowed(mk, dg, rg):
                    continue
                mm = rand_model(rng, mk, dg.nfun, rg.nfun)
                for form in ["subpar", "subfun", "arrpar"]:
                    p = rand_vec(rng, dg.pdim, halves=False)
                    meta = dict(op="forward", mk=mk, dg=dg.d, rg=rg.d, form=form, vals=[fs(dg.o_par2fun(p) if form == "subfun" else p)],
                                flag=rng.random() < 0.7, call=False, **mm)
                    add(forward_case, meta)

    # ---- Samples flagged as function values given as `wrt` / `direction`: refused (only the refusal is compared), always
    for dg in [Geo(kind="cont1d", n=3), Geo(kind="mapped", n=3, cs=fs(aff_s), ics=fs(iaff_s), grad=True), Geo(kind="image", r=2, c=2, order="C"),
               Geo(kind="step", nodes=4, steps=2, proj="max", grad=True), Geo(kind="user", n=3, cs=fs(aff_s), grad=True)]:
        rg = Geo(kind="cont1d", n=2)
        for mk in ["jac", "linfun"]:
            mm = rand_model(rng, mk, dg.nfun, rg.nfun)
            for dform, wform in [("par", "samplesfun"), ("samplesfun", "par"), ("samplesfun", "samplesfun"), ("arrpar", "samplesfun")]:
                p = rand_vec(rng, dg.pdim, halves=False)
                meta = dict(op="gradient", mk=mk, dg=dg.d, rg=rg.d, dform=dform, wform=wform, d=fs(rand_vec(rng, rg.pdim)),
                            w=fs(dg.o_par2fun(p) if wform == "samplesfun" else p), refusal_only=True,
                            dpar=dform != "samplesfun", wpar=wform != "samplesfun", **mm)
                add(gradient_case, meta)

    # ---- histories: several calls on ONE model object (PDE models keep the assembled system in the PDE object; an earlier
    #      call may have been refused); every call is compared, with the earlier ones re-made first
    hist_specs = [("pde_gw", Geo(kind="mapped", n=3, cs=fs(aff_s), ics=fs(iaff_s), grad=True), Geo(kind="cont1d", n=3), True),
                  ("pde_jw", Geo(kind="cont1d", n=3), Geo(kind="default1d", n=2), True),
                  ("jac", Geo(kind="step", nodes=4, steps=2, proj="max", grad=True), Geo(kind="discrete", n=3), False),
                  ("linmat", Geo(kind="cont1d", n=3), Geo(kind="cont1d", n=3), False),
                  ("dir", Geo(kind="image", r=2, c=2, order="F"), Geo(kind="cont1d", n=2), False)]
    # ... and the same with CALLER-OWNED arrays reused across the calls and overwritten in place between them (descent loops
    # `x -= step*model.gradient(r, x)`): one array object per role and form; identity-like geometries hand that very object to
    # the callables, so anything a model keeps by reference from an earlier call silently follows the caller's updates
    plan_a = ["fwd:par", "grad:par,par", "fwd:arrfun", "fwd:bad", "grad:arrpar,arrfun", "fwd:samples", "fwd:par"]
    plan_b = ["grad:par,par", "grad:par,par", "fwd:par", "grad:par,par", "fwd:par", "grad:arrpar,arrpar", "grad:arrpar,arrpar", "fwd:arrpar", "fwd:arrpar",
              "grad:fun,arrfun", "grad:fun,arrfun", "fwd:samples", "fwd:samples", "fwd:arrfun", "fwd:arrfun"]
    inplace_specs = [("jac", Geo(kind="cont1d", n=3), Geo(kind="cont1d", n=4), False), ("jac", Geo(kind="default1d", n=3), Geo(kind="discrete", n=2), False),
                     ("jac", Geo(kind="image", r=2, c=2, order="C"), Geo(kind="cont1d", n=3), False), ("jac", Geo(kind="discrete", n=2), Geo(kind="default1d", n=3), False),
                     ("pde_jw", Geo(kind="discrete", n=3), Geo(kind="cont1d", n=2), True), ("dir", Geo(kind="cont1d", n=3), Geo(kind="cont1d", n=2), False),
                     ("linfun", Geo(kind="cont1d", n=2), Geo(kind="cont1d", n=3), False), ("pde_gw", Geo(kind="cont1d", n=3), Geo(kind="discrete", n=3), True),
                     ("jac", Geo(kind="mapped", n=3, cs=fs(aff_s), ics=fs(iaff_s), grad=True), Geo(kind="cont1d", n=2), False),
                     ("jac", Geo(kind="step", nodes=4, steps=2, proj="max", grad=True), Geo(kind="cont1d", n=2), False)]
    for mk, dg, rg, with_op, plan, inplace in [sp + (plan_a, False) for sp in hist_specs] + [sp + (plan_b, True) for sp in hist_specs + inplace_specs]:
        mm = rand_model(rng, mk, dg.nfun, rg.nfun)
        if mk in ("jac", "pde_jw", "dir", "pde_gw") and ufs(mm["cs"])[2:] in ([], [0]):
            mm["cs"] = fs([0, 1, 1])          # a genuinely non-linear map: the Jacobian depends on the point
        if with_op:
            mm["pde_op"] = rand_unit_triangular(rng, rg.nfun)
        if inplace:
            mm["inplace"] = True
        history = []
        for step in plan:
            kind, forms = step.split(":")
            if kind == "fwd":
                if forms == "bad":      # wrong length: refused, must leave nothing behind
                    meta = dict(op="forward", mk=mk, dg=dg.d, rg=rg.d, form="par", vals=[fs(rand_vec(rng, dg.pdim + 1))], flag=True, call=False, **mm)
                    history.append({k_: v_ for k_, v_ in meta.items() if k_ in ("op", "form", "vals", "flag")})
                    continue
                cols = [rand_vec(rng, dg.pdim, halves=False) for _ in range(2 if forms == "samples" else 1)]
                vals = [fs(dg.o_par2fun(c) if forms == "arrfun" else c) for c in cols]
                meta = dict(op="forward", mk=mk, dg=dg.d, rg=rg.d, form=forms, vals=vals, flag=True, call=False, history=list(history), **mm)
                add(forward_case, meta)
                history.append({k_: v_ for k_, v_ in meta.items() if k_ in ("op", "form", "vals", "flag")})
            else:
                dform, wform = forms.split(",")
                p = rand_vec(rng, dg.pdim, halves=False)
                meta = dict(op="gradient", mk=mk, dg=dg.d, rg=rg.d, dform=dform, wform=wform, d=fs(rand_vec(rng, rg.pdim)),
                            w=fs(dg.o_par2fun(p) if wform == "arrfun" else p), history=list(history), **mm)
                add(gradient_case, meta)
                history.append({k_: v_ for k_, v_ in meta.items() if k_ in ("op", "dform", "wform", "d", "w")})

    # =========================== round-4 lesson families (L14 - L26), always ===========================
    aff_l, iaff_l = [1, 2], [F(-1, 2), F(1, 2)]
    m_aff = lambda n, **k: Geo(kind="mapped", n=n, cs=fs(aff_l), ics=fs(iaff_l), **k)

    def nonlin(mm):
        if ufs(mm["cs"])[2:] in ([], [0]):
            mm["cs"] = fs([0, 1, 1])
        return mm

    # L14 life-cycle of the refusals + L25 shallow copies: one model object whose domain geometry is re-assigned BETWEEN calls
    # (gradient possible -> refused -> possible again), calls alternating between the model and its renamed copy (which shares
    # every attribute object, e.g. the PDE); every call compared, refusals included
    for mk, g_ok, g_no, rg, with_op in [("jac", m_aff(3, grad=True), m_aff(3), Geo(kind="cont1d", n=2), False),
                                        ("dir", Geo(kind="cont1d", n=3), Geo(kind="step", nodes=3, steps=3, proj="max"), Geo(kind="discrete", n=2), False),
                                        ("pde_gw", m_aff(3, grad=True), Geo(kind="user", n=3, cs=fs(aff_l), ics=fs(iaff_l)), Geo(kind="cont1d", n=3), True),
                                        ("pde_jw", Geo(kind="discrete", n=2), m_aff(2), Geo(kind="cont1d", n=2), True),
                                        ("linmat", Geo(kind="cont1d", n=3), m_aff(3), Geo(kind="cont1d", n=2), False)]:
        mm = nonlin(rand_model(rng, mk, g_ok.nfun, rg.nfun)) if mk not in ("linmat",) else rand_model(rng, mk, g_ok.nfun, rg.nfun)
        if with_op:
            mm["pde_op"] = rand_unit_triangular(rng, rg.nfun)
        history, cur = [], g_ok
        plan = ["grad", "fwd", "copy:grad", "set:no", "grad", "copy:fwd", "fwd", "copy:grad", "set:ok", "grad", "copy:fwd", "grad", "fwd", "copy:grad"]
        for step in plan:
            if step.startswith("set:"):
                cur = g_no if step == "set:no" else g_ok
                history.append({"op": "setgeom", "dg": cur.d})
                continue
            on_copy = step.startswith("copy:")
            kind = step.split(":")[-1]
            p = rand_vec(rng, cur.pdim, halves=False)
            if kind == "fwd":
                form = rng.choice(["par", "arrpar", "fun"])
                meta = dict(op="forward", mk=mk, dg=cur.d, dg0=g_ok.d, rg=rg.d, form=form, vals=[fs(cur.o_par2fun(p) if form == "fun" else p)],
                            flag=form != "fun", call=False, history=list(history), on_copy=on_copy, kw=True, **mm)
                add(forward_case, meta)
                history.append({k_: v_ for k_, v_ in meta.items() if k_ in ("op", "form", "vals", "flag", "on_copy")})
            else:
                dform, wform = rng.choice([("par", "par"), ("arrpar", "arrpar"), ("par", "arrpar")])
                meta = dict(op="gradient", mk=mk, dg=cur.d, dg0=g_ok.d, rg=rg.d, dform=dform, wform=wform, d=fs(rand_vec(rng, rg.pdim)), w=fs(p),
                            history=list(history), on_copy=on_copy, **mm)
                add(gradient_case, meta)
                history.append({k_: v_ for k_, v_ in meta.items() if k_ in ("op", "dform", "wform", "d", "w", "on_copy")})

    # L18 exact zeros: all-zero inputs / points / directions through maps with par2fun(0) != 0, matrices with a zero column and a zero row
    for dg in [m_aff(3, grad=True), Geo(kind="cont1d", n=3), Geo(kind="step", nodes=4, steps=2, proj="min", grad=True), Geo(kind="image", r=2, c=2, order="F")]:
        for rg in [Geo(kind="cont1d", n=2), m_aff(3)]:
            for mk in ["jac", "linfun", "pde_gw"]:
                if not model_allowed(mk, dg, rg):
                    continue
                mm = rand_model(rng, mk, dg.nfun, rg.nfun)
                A_ = [[Fraction(a) for a in row] for row in mm["A"]]
                for r_ in range(len(A_)):
                    A_[r_][0] = Fraction(0)                 # a zero column ...
                A_[-1] = [Fraction(0)] * len(A_[-1])        # ... and a zero row
                if all(a == 0 for row in A_ for a in row):
                    A_[0][-1] = Fraction(1)
                mm["A"] = [[str(a) for a in row] for row in A_]
                z = [F(0)] * dg.pdim
                for form in ["par", "fun", "arrpar", "arrfun", "samples"]:
                    cols = [z, rand_vec(rng, dg.pdim, halves=False), z] if form == "samples" else [z]
                    isfun = form in ("fun", "arrfun")
                    add(forward_case, dict(op="forward", mk=mk, dg=dg.d, rg=rg.d, form=form, vals=[fs(dg.o_par2fun(c) if isfun else c) for c in cols],
                                           flag=form != "fun", call=False, **mm))
                if rg.identity_like:
                    for dform, wform, dz, wz in [("par", "par", False, True), ("par", "arrpar", True, True), ("arrpar", "arrfun", True, False), ("par", "fun", False, True)]:
                        p = z if wz else rand_vec(rng, dg.pdim, halves=False)
                        dv = [F(0)] * rg.pdim if dz else rand_vec(rng, rg.pdim)
                        add(gradient_case, dict(op="gradient", mk=mk, dg=dg.d, rg=rg.d, dform=dform, wform=wform, d=fs(dv),
                                                w=fs(dg.o_par2fun(p) if wform in ("fun", "arrfun") else p), **mm))

    # L19 how user callables hand their result back (Fortran-ordered / strided arrays, one reused work buffer) and L20 integer data
    # (integer matrices, callables returning integer arrays) through non-integer range maps
    for rstyle in ["fortran", "buffer"]:
        for dg, rg in [(Geo(kind="cont1d", n=3), Geo(kind="image", r=2, c=3, order="C")), (Geo(kind="image", r=2, c=3, order="C"), Geo(kind="image", r=3, c=2, order="F")),
                       (m_aff(3, grad=True), Geo(kind="cont2d", r=2, c=2)), (Geo(kind="cont2d", r=3, c=2), Geo(kind="cont1d", n=2)),
                       (Geo(kind="image", r=2, c=2, order="F"), m_aff(3))]:
            for mk in ["jac", "dir", "linfun"]:
                mm = rand_model(rng, mk, dg.nfun, rg.nfun)
                for form in ["par", "arrfun", "samples", "samplesfun"]:
                    isfun = form in ("arrfun", "samplesfun")
                    cols = [rand_vec(rng, dg.pdim, halves=False) for _ in range(3 if form.startswith("samples") else 1)]
                    add(forward_case, dict(op="forward", mk=mk, dg=dg.d, rg=rg.d, form=form, vals=[fs(dg.o_par2fun(c) if isfun else c) for c in cols],
                                           flag=form != "samplesfun", call=False, rstyle=rstyle, **mm))
                if rg.identity_like and (dg.identity_like or dg.has_grad):
                    for dform, wform in [("par", "par"), ("fun", "arrfun")]:
                        p = rand_vec(rng, dg.pdim, halves=False)
                        add(gradient_case, dict(op="gradient", mk=mk, dg=dg.d, rg=rg.d, dform=dform, wform=wform, d=fs(rg.o_par2fun(rand_vec(rng, rg.pdim)) if dform == "fun" else rand_vec(rng, rg.pdim)),
                                                w=fs(dg.o_par2fun(p) if wform == "arrfun" else p), rstyle=rstyle, **mm))
    for dg in [Geo(kind="cont1d", n=4), m_aff(4), Geo(kind="discrete", n=4)]:
        for rg in [Geo(kind="step", nodes=4, steps=2, proj="mean"), m_aff(4), Geo(kind="step", nodes=4, steps=1, proj="mean")]:
            for mk in ["linmat", "jac", "linfun"]:
                mm = rand_model(rng, mk, dg.nfun, rg.nfun)
                mm["A"] = [[str(2 * int(Fraction(a)) + 1) for a in row] for row in mm["A"]]      # odd integers: means of two are non-integer
                if mk == "jac":
                    mm["cs"], mm["b"] = fs([1, 1, 1]), fs([1] * rg.nfun)
                for form in ["par", "arrpar", "samples"]:
                    cols = [rand_vec(rng, dg.pdim, halves=False) for _ in range(2 if form == "samples" else 1)]
                    add(forward_case, dict(op="forward", mk=mk, dg=dg.d, rg=rg.d, form=form, vals=[fs(c) for c in cols], flag=True, call=False,
                                           intdata=True, dt=rng.choice(["int64", "int32", None]), **mm))

    # L21 degenerate counts: a sample collection with ZERO samples (Ns = 0 is falsy), with one sample; L23 exact type vs subclass: a
    # user subclass of Samples
    for dg in [Geo(kind="cont1d", n=3), m_aff(3), Geo(kind="step", nodes=4, steps=2, proj="max"), Geo(kind="image", r=2, c=2, order="F")]:
        for rg in [Geo(kind="cont1d", n=2), m_aff(3)]:
            mk = rng.choice(["jac", "linfun", "pde_gw"])
            if not model_allowed(mk, dg, rg):
                mk = "jac"
            mm = rand_model(rng, mk, dg.nfun, rg.nfun)
            for form, ncol in [("samples", 0), ("samples", 1), ("samplessub", 0), ("samplessub", 1), ("samplessub", 3)]:
                cols = [rand_vec(rng, dg.pdim, halves=False) for _ in range(ncol)]
                add(forward_case, dict(op="forward", mk=mk, dg=dg.d, rg=rg.d, form=form, vals=[fs(c) for c in cols], flag=True, call=rng.random() < 0.5, **mm))

    # L22 the SHIPPED DEFAULTS of the geometry constructors (StepExpansion(grid): 3 steps, 'mean'; KLExpansion(grid): decay 2.5,
    # normalizer 12, all modes; Image2D(shape): order C)
    dflt = [Geo(kind="step", nodes=6, steps=3, proj="mean", defaults=True), Geo(kind="kl", nodes=4, modes=4, decay="5/2", normalizer="12", defaults=True),
            Geo(kind="image", r=2, c=3, defaults=True)]
    for g_ in dflt:
        for side in ["domain", "range"]:
            dg = g_ if side == "domain" else Geo(kind="cont1d", n=3)
            rg = g_ if side == "range" else Geo(kind="cont1d", n=2)
            for mk in ["jac", "linfun"]:
                mm = rand_model(rng, mk, dg.nfun, rg.nfun)
                for form in ["par", "fun", "arrpar", "arrfun=copy", "samples"]:
                    isfun = form.split("=")[0] in ("fun", "arrfun")
                    cols = [rand_vec(rng, dg.pdim, halves=False) for _ in range(2 if form == "samples" else 1)]
                    add(forward_case, dict(op="forward", mk=mk, dg=dg.d, rg=rg.d, form=form, vals=[fs(dg.o_par2fun(c) if isfun else c) for c in cols],
                                           flag=form != "fun", call=False, **mm))

    # L26 large offsets / scales (dyadic, exact): inputs scaled by 2^10, offsets of 2^20
    for dg in [Geo(kind="cont1d", n=3), m_aff(3, grad=True), Geo(kind="step", nodes=4, steps=2, proj="mean", grad=True)]:
        for rg in [Geo(kind="cont1d", n=2), m_aff(3), Geo(kind="step", nodes=2, steps=2, proj="mean")]:
            mk = rng.choice(["jac", "dir", "pde_gw"])
            mm = rand_model(rng, mk, dg.nfun, rg.nfun)
            mm["b"] = fs([2 ** 20 + rng.randint(-3, 3) for _ in range(rg.nfun)])
            for form in ["par", "arrpar", "samples"]:
                cols = [[F(1024 * rng.randint(-3, 3) + rng.randint(-2, 2)) for _ in range(dg.pdim)] for _ in range(2 if form == "samples" else 1)]
                add(forward_case, dict(op="forward", mk=mk, dg=dg.d, rg=rg.d, form=form, vals=[fs(c) for c in cols], flag=True, call=False, **mm))
            if rg.identity_like:
                p = [F(1024 * rng.randint(-3, 3) + rng.randint(-2, 2)) for _ in range(dg.pdim)]
                add(gradient_case, dict(op="gradient", mk=mk, dg=dg.d, rg=rg.d, dform="par", wform="arrpar", d=fs([F(1024 * rng.randint(1, 3)) for _ in range(rg.pdim)]), w=fs(p), **mm))

    # ---------------- rename on a distribution; argument binding ----------------
    for rep in range(ctx.n(2, 10)):
        for mki, mk in enumerate(MODEL_KINDS):
            n = rng.choice([2, 3, 4])
            # every kind of domain for every repetition, rotating over the model kinds (parameter dim != function dim for the last two)
            dg = [Geo(kind="default1d", n=n), Geo(kind="cont1d", n=n), Geo(kind="mapped", n=n, cs=fs([0, 0, 1])),
                  Geo(kind="step", nodes=n + 2, steps=n, proj="max"), Geo(kind="kl", nodes=n + 1, modes=n, decay="2", normalizer="1")][(mki + rep) % 5]
            rg = Geo(kind="cont1d", n=2)
            mm = rand_model(rng, mk, dg.nfun, 2)
            for ddim in [dg.pdim, dg.pdim + 1, dg.nfun if dg.nfun != dg.pdim else dg.pdim - 1]:
                meta = dict(op="rename", mk=mk, dg=dg.d, rg=rg.d, ddim=max(1, ddim), name=rng.choice(["z", "x", "theta", "y1"]),
                            via=rng.choice(["forward", "call"]), p=fs(rand_vec(rng, dg.pdim)), **mm)
                add(rename_case, meta)
            for npos, kws in [(1, []), (0, ["x"]), (0, ["z"]), (1, ["x"]), (2, []), (0, ["x", "z"]), (0, [])]:
                if (npos, kws) == (0, []):
                    continue
                renamed = rng.choice([None, "z"])
                meta = dict(op="bind", mk=mk, dg=dg.d, rg=rg.d, npos=npos, kws=kws, renamed=renamed, p=fs(rand_vec(rng, dg.pdim)), **mm)
                add(bind_case, meta)
            if rep == 0:      # L17 name coincidences: the input named like Python's / forward()'s own special names
                for nm in ["args", "kwargs", "is_par", "self_", "forward", "x"]:
                    for npos, kws in [(1, []), (0, [nm]), (0, ["x"] if nm != "x" else ["y"])]:
                        add(bind_case, dict(op="bind", mk=mk, dg=dg.d, rg=rg.d, npos=npos, kws=kws, renamed=None, argname=nm, p=fs(rand_vec(rng, dg.pdim)), **mm))
                    add(bind_case, dict(op="bind", mk=mk, dg=dg.d, rg=rg.d, npos=0, kws=[nm], renamed=nm, p=fs(rand_vec(rng, dg.pdim)), **mm))
            if rep == 0:      # forward callable with two inputs: every way of calling it is refused
                for npos, kws in [(1, []), (2, []), (0, ["x"]), (0, ["x", "y"]), (1, ["y"]), (3, [])]:
                    add(bind_case, dict(op="bind", mk=mk, dg=dg.d, rg=rg.d, npos=npos, kws=kws, renamed=None, two_args=True,
                                        p=fs(rand_vec(rng, dg.pdim)), **mm))

    # ---------------- get_non_default_args for every parameter kind; the call func(x) (round 3) ----------------
    ctx.note("tree state: get_non_default_args recognises *args/**kwargs by name = %s" % _args_byname())
    fixed_sigs = [[["args", "pk", False]], [["kwargs", "pk", False]], [["x", "pk", False], ["rest", "vp", False], ["options", "vk", False]],
                  [["x", "ko", False]], [["a", "pk", True], ["x", "ko", False]], [["args", "vp", False], ["x", "ko", False]],
                  [["x", "po", False]], [["x", "po", False], ["y", "pk", True]], [["a", "po", False], ["x", "pk", False]],
                  [["x", "pk", True]], [], [["rest", "vp", False]], [["kw", "vk", False]],
                  [["x", "pk", False], ["args", "vp", False], ["k", "ko", True], ["kwargs", "vk", False]]]
    for si, sig in enumerate(fixed_sigs + [s_ for _ in range(ctx.n(1, 4)) for s_ in rand_signatures(rng)]):
        A = [[str(rng.randint(-2, 2)) for _ in range(3)] for _ in range(2)]
        req = o_required(sig)
        kwname = req[0] if req else (sig[0][0] if sig else "x")
        style = ["def", "def", "method", "lambda"][si % 4]
        for npos, kws in [(1, []), (0, [kwname]), (0, ["zz"])] + ([(2, []), (1, [kwname])] if si % 5 == 0 else []):
            add(args_case, dict(op="args", sig=sig, style=style, cached=None, npos=npos, kws=kws, A=A, p=fs(rand_vec(rng, 3)),
                                mk=["model", "linfun"][si % 2]))
    # a callable that carries `_non_default_args` (what a cuqi Model / Distribution used as a callable has): trusted as it is
    for sig, cached in [([["x", "pk", False]], ["q"]), ([["u", "pk", False], ["v", "pk", True]], ["theta"]), ([["rest", "vp", False]], ["z"]),
                        ([["x", "pk", False]], ["a", "b"]), ([["x", "ko", False]], ["x"]), ([["x", "pk", False], ["y", "pk", False]], ["x"])]:
        A = [[str(rng.randint(-2, 2)) for _ in range(3)] for _ in range(2)]
        for npos, kws in [(1, []), (0, [cached[0]]), (0, [sig[0][0]])]:
            add(args_case, dict(op="args", sig=sig, style="def", cached=cached, npos=npos, kws=kws, A=A, p=fs(rand_vec(rng, 3)), mk="model"))

    # a cuqi Model as the forward callable of another Model (the real source of a `_non_default_args` attribute)
    msig = [["args", "vp", False], ["kwargs", "vk", False]]
    for inner_sig, inner_name in [([["x", "pk", False]], None), ([["x", "pk", False]], "theta"), ([["u", "po", False], ["s", "pk", True]], None),
                                  ([["args", "pk", False]], None), ([["v", "pk", False], ["rest", "vp", False]], "kwargs")]:
        A = [[str(rng.randint(-2, 2)) for _ in range(3)] for _ in range(2)]
        nm = inner_name or o_required(inner_sig)[0]
        for npos, kws in [(1, []), (0, [nm]), (0, [inner_sig[0][0] if inner_name else "zz"]), (2, [])]:
            add(args_case, dict(op="args", sig=msig, style="def", cached=[nm], inner_sig=inner_sig, inner_name=inner_name, npos=npos, kws=kws,
                                A=A, p=fs(rand_vec(rng, 3)), mk=["model", "linfun"][npos % 2]))

    # ---------------- instances of C12_gradient_chain_rule: every geometry kind with a model-computed Jacobian x every model
    # kind with a gradient, plain vectors (the theorem's form) and array forms for the new linear-expansion gradient (round 3)
    for n in ([3, 4] if not ctx.thorough else [2, 3, 4, 5]):
        a_, b_ = rng.choice([2, -2, 4, -1]), rng.randint(-3, 3)
        aff, iaff = [b_, a_], [F(-b_, a_), F(1, a_)]
        quad = [rng.randint(-2, 2), rng.randint(-2, 2), rng.choice([1, -1, 2])]
        inst = [Geo(kind="default1d", n=n), Geo(kind="cont1d", n=n), Geo(kind="cont1d", n=n, grad=True), Geo(kind="discrete", n=n),
                Geo(kind="image", r=1, c=n, visual=True),
                Geo(kind="mapped", n=n, cs=fs(aff), ics=fs(iaff), grad=True), Geo(kind="mapped", n=n, cs=fs(quad), grad=True, gstyle="dirfirst"),
                Geo(kind="mapped", n=n, cs=fs([0, 0, 1]), grad=True, gstyle="strip"),
                Geo(kind="sub1d", n=n, cs=fs(quad), ics=None, grad=True), Geo(kind="user", n=n, cs=fs(aff), ics=fs(iaff), grad=True),
                Geo(kind="step", nodes=n, steps=max(1, n // 2), proj="max", grad=True), Geo(kind="step", nodes=n, steps=n, proj="mean", grad=True),
                Geo(kind="step", nodes=n, steps=1, proj="min", grad=True),
                Geo(kind="kl", nodes=n, modes=n, decay="2", normalizer="1", grad=True),
                Geo(kind="kl", nodes=n, modes=max(1, n - 2), decay="3/2", normalizer="4", grad=True)]
        if n == 4:
            inst += [Geo(kind="image", r=2, c=2, order="C"), Geo(kind="default2d", r=2, c=2), Geo(kind="cont2d", r=2, c=2),
                     Geo(kind="image", r=2, c=2, order="F"), Geo(kind="image", r=2, c=3, order="F"), Geo(kind="image", r=3, c=2, order="F"),
                     Geo(kind="image", r=2, c=3, order="C")]
        for gi, dg in enumerate(inst):
            if not all(dg.step_idx()) if dg.kind == "step" else False:
                continue
            for mi, mk in enumerate(["jac", "dir", "linmat", "linfun", "pde_gw", "pde_jw", "pde_both"]):
                m_out = rng.choice([2, 3])
                rg = [Geo(kind="default1d", n=m_out), Geo(kind="cont1d", n=m_out), Geo(kind="discrete", n=m_out)][(gi + mi) % 3]
                if not model_allowed(mk, dg, rg, forward=False):
                    continue
                mm = rand_model(rng, mk, dg.nfun, m_out)
                meta = dict(op="gradient", mk=mk, dg=dg.d, rg=rg.d, dform="par", wform="par", d=fs(rand_vec(rng, m_out)), w=fs(rand_vec(rng, dg.pdim)), **mm)
                if mk == "dir":
                    meta["mstyle"] = ["wrtfirst", "dirfirst", "strip"][gi % 3]
                add(gradient_case, meta)
            if not (dg.kind == "image" and dg.d.get("order") == "F"):
                # finite differences of forward() vs gradient(), integer direction h, for two model kinds per geometry
                for mk in [["jac", "dir", "linfun"][gi % 3], ["pde_gw", "pde_jw", "linmat"][gi % 3]]:
                    m_out = rng.choice([2, 3])
                    rg = Geo(kind="cont1d", n=m_out)
                    if not model_allowed(mk, dg, rg):
                        continue
                    mm = rand_model(rng, mk, dg.nfun, m_out)
                    hh = [F(rng.randint(-1, 1)) for _ in range(dg.pdim)]
                    if all(x == 0 for x in hh):
                        hh[0] = F(1)
                    add(fd_case, dict(op="fd", mk=mk, dg=dg.d, rg=rg.d, w=fs(rand_vec(rng, dg.pdim, halves=False)), h=fs(hh),
                                      d=fs(rand_vec(rng, m_out, halves=False)), **mm))
            if dg.kind == "kl":
                for dform, wform in [("arrpar", "arrpar"), ("par", "arrfun"), ("arrfun=copy", "par"), ("fun", "fun"), ("par", "arrpar=copy"), ("samples", "par")]:
                    mk = rng.choice(["jac", "dir", "linfun", "pde_gw"])
                    mm = rand_model(rng, mk, dg.nfun, 2)
                    w = rand_vec(rng, dg.pdim, halves=False)
                    wv = dg.o_par2fun(w) if wform.split("=")[0] in ("fun", "arrfun") else w
                    add(gradient_case, dict(op="gradient", mk=mk, dg=dg.d, rg=Geo(kind="cont1d", n=2).d, dform=dform, wform=wform,
                                            d=fs(rand_vec(rng, 2)), w=fs(wv), **mm))
                for form in ["par", "arrpar", "arrfun=copy", "samples"]:        # and the forward map through the same object
                    mk = rng.choice(["jac", "linfun"])
                    mm = rand_model(rng, mk, dg.nfun, 2)
                    isfun = form.split("=")[0] in ("fun", "arrfun")
                    cols = [rand_vec(rng, dg.pdim, halves=False) for _ in range(2 if form == "samples" else 1)]
                    add(forward_case, dict(op="forward", mk=mk, dg=dg.d, rg=Geo(kind="cont1d", n=2).d, form=form,
                                           vals=[fs(dg.o_par2fun(c) if isfun else c) for c in cols], flag=not isfun, call=False, **mm))

    # ---------------- PDEModel inside the model: assemble / solve / observe (round 3) ----------------
    # operator: identity, unit triangular, row-permuted + scaled (tolerance class), parameter dependent (tolerance class);
    # with and without an observation_map; every input form; the PDE object is re-used across the columns of a Samples input
    def matmul_f(X, Y):
        return [[sum((X[i][k] * Y[k][j] for k in range(len(Y))), F(0)) for j in range(len(Y[0]))] for i in range(len(X))]
    pde_doms = [Geo(kind="cont1d", n=3), Geo(kind="mapped", n=3, cs=fs([1, 2]), ics=fs([F(-1, 2), F(1, 2)])), Geo(kind="mapped", n=3, cs=fs([0, 0, 1])),
                Geo(kind="step", nodes=4, steps=2, proj="max"), Geo(kind="image", r=2, c=2, order="F"), Geo(kind="kl", nodes=4, modes=3, decay="2", normalizer="1")]
    for di, dg in enumerate(pde_doms):
        for vi, variant in enumerate(["id", "tri", "perm", "xdep", "obs", "xdep+obs"]):
            mk = ["pde_gw", "pde_jw", "pde_both", "pde_none"][(di + vi) % 4]
            m = rng.choice([2, 3])                         # size of the PDE solution
            nout = m if "obs" not in variant else rng.choice([2, 3])
            rg = [Geo(kind="cont1d", n=nout), Geo(kind="discrete", n=nout), Geo(kind="mapped", n=nout, cs=fs([1, 2]), ics=fs([F(-1, 2), F(1, 2)])),
                  Geo(kind="step", nodes=nout, steps=nout, proj="max")][(di + 2 * vi) % 4]
            mm = rand_model(rng, mk, dg.nfun, m)
            extra = {}
            if variant in ("tri", "xdep", "xdep+obs"):
                extra["pde_op"] = rand_unit_triangular(rng, m)
            if variant == "perm":
                extra["pde_op"] = rand_operator(rng, m)
            if variant.startswith("xdep"):
                extra["pde_xdep"] = True
            if "obs" in variant:
                C = [[F(rng.randint(-2, 2)) for _ in range(m)] for _ in range(nout)]
                A0 = [[Fraction(a) for a in row] for row in mm["A"]]
                b0 = ufs(mm["b"])
                extra.update(pde_A0=mm["A"], pde_b0=mm["b"], pde_C=[fs(r_) for r_ in C])
                mm = dict(mm, A=[fs(r_) for r_ in matmul_f(C, A0)], b=fs([sum((C[i][k] * b0[k] for k in range(m)), F(0)) for i in range(nout)]))
            for form in fwd_forms:
                base = form.split("=")[0]
                cols = []
                for _ in range(rng.randint(2, 3) if base.startswith("samples") else 1):
                    p = rand_vec(rng, dg.pdim, halves=dg.kind != "kl")
                    cols.append(dg.o_par2fun(p) if base in ("fun", "arrfun", "samplesfun", "subfun") else p)
                flag = base not in ("fun", "samplesfun")
                add(forward_case, dict(op="forward", mk=mk, dg=dg.d, rg=rg.d, form=form, vals=[fs(c) for c in cols], flag=flag, call=False, **mm, **extra))

    return Result(cases=cases, rule=RULE,
                  extra={"tree_state": {"default1d_eq_accepts_subclasses": q[0], "samples_flag_ignored": q[1],
                                        "discrete_eq_indexerror": q[2], "cuqiarray_subclass_not_rewrapped": q[3],
                                        "gradient_tag_leak": q[4], "step_fun2par_squeezes": _step_squeezes()}},
                  assumptions=["numpy @, reshape/ravel(order), elementwise + and * are exact on the small integer/dyadic data generated",
                               "scipy.linalg.solve on an identity matrix is exact (PDEModel cells)",
                               "the forward callable, the user Jacobian / direction-Jacobian product and the user geometry gradient are "
                               "oracles of the model (polynomial families A.phi(x)+b); the oracle differentiates the composite map exactly "
                               "with dual numbers over Fractions",
                               "flat (1-d) user Jacobians / gradients are indexed like the parameter vector (shape (range_dim, domain_dim)), "
                               "also for Image2D(order='F') domains",
                               "which state (today / repaired) each of the three sites with a proposed repair is in is read off by one-line "
                               "probes; the model is evaluated for that state (both states are covered by theorems)"])


def oracle(ctx, meta):
    """re-check the property itself for one stored case (independent of the Coq model)"""
    import cuqi
    m = meta.get("meta", meta)
    if m.get("op") == "forward":
        obs, exp, _ = run_forward_case(cuqi, m)
        return compare(obs, exp)
    if m.get("op") == "gradient":
        obs, exp, refusal_ok, _ = run_gradient_case(cuqi, m)
        return compare_gradient(obs, exp, refusal_ok)
    if m.get("op") == "rename":
        return rename_case(cuqi, m, probe(cuqi)).impl_fail
    if m.get("op") == "bind":
        return bind_case(cuqi, m, probe(cuqi)).impl_fail
    if m.get("op") == "args":
        return args_case(cuqi, m, None).impl_fail
    if m.get("op") == "fd":
        return fd_case(cuqi, m, probe(cuqi)).impl_fail
    return None


# ------------------------------------------------------------------------------------------------
# fixed witnesses of the known defects
# ------------------------------------------------------------------------------------------------
W_DEFEQ = dict(op="forward", mk="jac", dg=dict(kind="default1d", n=6), rg=dict(kind="step", nodes=6, steps=3, proj="max"),
               form="arrpar", vals=[["1", "2", "3", "4", "5", "6"]], flag=True, call=False,
               A=[[("2" if i == j else "0") for j in range(6)] for i in range(6)], cs=["0", "1"], b=["0"] * 6)
W_SAMPLES = dict(op="forward", mk="jac", dg=dict(kind="mapped", n=3, cs=["0", "0", "1"]), rg=dict(kind="default1d", n=3),
                 form="samplesfun", vals=[["1", "9", "25"], ["4", "16", "36"]], flag=False, call=False,
                 A=[[("3" if i == j else "0") for j in range(3)] for i in range(3)], cs=["0", "1"], b=["0"] * 3)


W_0D = dict(op="forward", mk="jac", dg=dict(kind="cont1d", n=3), rg=dict(kind="step", nodes=2, steps=1, proj="mean"),
            form="par", vals=[["1", "2", "3"]], flag=True, call=False,
            A=[["1", "0", "1"], ["0", "2", "1"]], cs=["0", "1"], b=["0", "0"])
W_TAGLEAK = dict(op="gradient", mk="dir", mstyle="wrtfirst",
                 dg=dict(kind="mapped", n=3, cs=["1", "2"], ics=["-1/2", "1/2"], grad=True, gstyle="dirfirst"),
                 rg=dict(kind="default1d", n=2), dform="par", wform="arrpar", d=["1", "-1"], w=["1", "2", "3"],
                 A=[["1", "2", "0"], ["0", "1", "3"]], cs=["0", "0", "1"], b=["0", "0"])
W_EQIDX = dict(op="forward", mk="linmat", dg=dict(kind="discrete", n=4), rg=dict(kind="discrete", n=3),
               form="arrpar", vals=[["1", "2", "3", "4"]], flag=True, call=False,
               A=[["1", "1", "-1", "0"], ["2", "0", "2", "-2"], ["0", "0", "1", "1"]], cs=["0", "1"], b=["0", "0", "0"])
W_EQKEY = dict(op="forward", mk="jac", dg=dict(kind="step", nodes=4, steps=2, proj="max", grad=True),
               rg=dict(kind="step", nodes=4, steps=2, proj="max"), form="arrpar", vals=[["1", "2"]], flag=True, call=False,
               A=[[("1" if i == j else "0") for j in range(4)] for i in range(4)], cs=["0", "1"], b=["0"] * 4)
W_SUBCLS = dict(op="forward", mk="jac", dg=dict(kind="cont1d", n=3), rg=dict(kind="mapped", n=2, cs=["1", "2"], ics=["-1/2", "1/2"]),
                form="subpar", vals=[["1", "2", "3"]], flag=True, call=False,
                A=[["1", "0", "1"], ["0", "2", "1"]], cs=["0", "1"], b=["1", "1"])
W_ISID = dict(op="forward", mk="jac", dg=dict(kind="mapped", n=3, cs=["1", "2"], ics=["-1/2", "1/2"]), rg=dict(kind="cont1d", n=3),
              form="arrpar", ipk="npbool", vals=[["1", "2", "3"]], flag=True, call=False,
              A=[[("1" if i == j else "0") for j in range(3)] for i in range(3)], cs=["0", "1"], b=["0"] * 3)
W_ARGNAME = dict(op="args", sig=[["args", "pk", False]], style="lambda", cached=None, npos=1, kws=[],
                 A=[["1", "2", "0"], ["0", "1", "3"]], p=["1", "2", "3"], mk="model")
WITNESSES = {SIG_ARGNAME: W_ARGNAME, SIG_ISID: W_ISID, SIG_SUBCLS: W_SUBCLS, SIG_EQIDX: W_EQIDX, SIG_EQKEY: W_EQKEY, SIG_DEFEQ: W_DEFEQ, SIG_SAMPLES: W_SAMPLES, SIG_0D: W_0D, SIG_TAGLEAK: W_TAGLEAK}


def known_witnesses(ctx):
    import cuqi
    out = {}
    for sig, w in WITNESSES.items():
        if w["op"] == "args":
            d = args_case(cuqi, w, None).impl_fail
        elif w["op"] == "forward":
            obs, exp, _ = run_forward_case(cuqi, w)
            d = compare(obs, exp)
        else:
            obs, exp, refusal_ok, _ = run_gradient_case(cuqi, w)
            d = compare_gradient(obs, exp, refusal_ok)
        out[sig] = (d is not None, d or "witness agrees with the property")
    return out


def replay(ctx, meta):
    import cuqi
    m = meta.get("meta", meta)
    print(json.dumps({k: v for k, v in meta.items() if k != "meta"}, indent=1)[:3000])
    print("case:", json.dumps(m)[:3000])
    if m.get("witness"):
        m = WITNESSES.get(m["witness"], m)
    q = probe(cuqi)
    if m.get("op") == "forward":
        obs, exp, _ = run_forward_case(cuqi, m)
        print("implementation :", _show(obs))
        print("property expects:", _show(exp))
        print("verdict        :", compare(obs, exp) or "holds")
        c = forward_case(cuqi, m, q)
    elif m.get("op") == "gradient":
        obs, exp, refusal_ok, _ = run_gradient_case(cuqi, m)
        print("implementation :", _show(obs))
        print("property expects:", _show(exp) if exp else "refusal", "| accepted refusal reason:", refusal_ok)
        print("verdict        :", compare_gradient(obs, exp, refusal_ok) or "holds")
        c = gradient_case(cuqi, m, q)
    elif m.get("op") == "rename":
        c = rename_case(cuqi, m, q)
        print("verdict        :", c.impl_fail or "holds")
    elif m.get("op") == "bind":
        c = bind_case(cuqi, m, q)
        print("verdict        :", c.impl_fail or "holds")
    elif m.get("op") == "fd":
        c = fd_case(cuqi, m, q)
        print("verdict        :", c.impl_fail or "holds (direction.(J h) from central differences of forward = gradient.h)")
    elif m.get("op") == "args":
        c = args_case(cuqi, m, q)
        print("declaration    : def f(%s)" % sig_text(m["sig"]), "| cached _non_default_args:", m.get("cached"))
        print("verdict        :", c.impl_fail or "holds")
    else:
        print("nothing to replay")
        return 0
    rc, out = eval_in_coq(IMPORTS, c.expr, tag="replay_C12")
    print("model check (true = model agrees with implementation):", out.splitlines()[-2:] if out else out)
    term = c.expr.split(" ", 1)
    return 0
