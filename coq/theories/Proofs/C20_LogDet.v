(* C20 -- over the reals: log det (L L^T) = 2 sum_i log l_ii for a factor with positive diagonal
   (what `2*sum(np.log(self._chol.diagonal()))` computes), given det(L L^T) = (prod l_ii)^2
   (mc/C20_Det.v). *)
From Coq Require Import Reals List Lra.
Import ListNotations.
Local Open Scope R_scope.

Definition rprod (l : list R) : R := fold_right Rmult 1 l.
Definition rsum (l : list R) : R := fold_right Rplus 0 l.

Lemma rprod_pos l : Forall (fun a => 0 < a) l -> 0 < rprod l.
Proof.
  intros H; induction H as [|a l Ha Hl IH]; cbn; [lra|]. apply Rmult_lt_0_compat; assumption.
Qed.

Lemma ln_rprod l : Forall (fun a => 0 < a) l -> ln (rprod l) = rsum (map ln l).
Proof.
  intros H; induction H as [|a l Ha Hl IH]; cbn [rprod rsum fold_right map]; [apply ln_1|].
  fold (rprod l). fold (rsum (map ln l)). rewrite ln_mult by (try assumption; apply rprod_pos; assumption).
  rewrite IH. reflexivity.
Qed.

Theorem logdet_from_diag l : Forall (fun a => 0 < a) l ->
  ln ((rprod l) ^ 2) = 2 * rsum (map ln l).
Proof.
  intros H. pose proof (rprod_pos l H) as Hp. replace ((rprod l) ^ 2) with (rprod l * rprod l) by ring.
  rewrite ln_mult by assumption. rewrite ln_rprod by assumption. ring.
Qed.
