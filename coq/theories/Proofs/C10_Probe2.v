(* C10 -- the reciprocal probe (math.isclose at 1, 10, 100): explicit neighbourhoods, mirror of the identity probe. *)
From CV Require Import Base.Tac Base.Cmp Model.C10_Conj Proofs.C10_Valid.
From Coq Require Import QArith Qabs Qminmax Lqa.
Open Scope Q_scope.

Lemma isclose1_spec a b :
  isclose1 a b = true <-> Qabs (a - b) <= Qmax (py_reltol * Qmax (Qabs a) (Qabs b)) 0.
Proof. unfold isclose1. apply Qle_bool_iff. Qed.

Lemma reltol_pos : 0 < py_reltol.
Proof. unfold py_reltol, Qlt. simpl. lia. Qed.

(* for a positive reference value b:  accepted  =>  b (1 - r) <= a  and  a (1 - r) <= b *)
Lemma isclose1_pos_bounds a b : 0 < b -> isclose1 a b = true ->
  b * (1 - py_reltol) <= a /\ a * (1 - py_reltol) <= b.
Proof.
  intros Hb H. apply isclose1_spec in H. unfold py_reltol in *.
  assert (Hbb : Qabs b == b) by (apply Qabs_pos, Qlt_le_weak; exact Hb).
  assert (H0 : 0 <= py_reltol * Qmax (Qabs a) (Qabs b)).
  { apply Qmult_le_0_compat; [unfold py_reltol; lra|]. apply Qle_trans with (Qabs b); [apply Qabs_nonneg | apply Q.le_max_r]. }
  rewrite (Q.max_l _ 0 H0) in H. unfold py_reltol in *.
  apply Qabs_Qle_condition in H. destruct H as [H1 H2].
  destruct (Q.max_spec (Qabs a) (Qabs b)) as [[Hlt Hm]|[Hle Hm]]; rewrite Hm in H1, H2.
  - rewrite Hbb in *. split; lra.
  - destruct (Qlt_le_dec a 0) as [Ha|Ha].
    + rewrite (Qabs_neg a) in * by lra. rewrite Hbb in Hle. split; lra.
    + rewrite (Qabs_pos a Ha) in *. split; lra.
Qed.

(* conversely: within relative distance r of a positive reference value => accepted *)
Lemma isclose1_intro a b : 0 < b -> - (py_reltol * b) <= a - b -> a - b <= py_reltol * b -> isclose1 a b = true.
Proof.
  intros Hb H1 H2. apply isclose1_spec.
  assert (Hr : 0 < py_reltol) by exact reltol_pos.
  assert (Hbb : Qabs b == b) by (apply Qabs_pos, Qlt_le_weak; exact Hb).
  apply Qle_trans with (py_reltol * b).
  - apply Qabs_Qle_condition. split; assumption.
  - apply Qle_trans with (py_reltol * Qmax (Qabs a) (Qabs b)); [| apply Q.le_max_l].
    apply Qmult_le_l; [exact Hr|]. rewrite <- Hbb at 1. apply Q.le_max_r.
Qed.

Lemma probe_reciprocal_single e :
  probe_reciprocal [e] = PTrue ->
  isclose1 (deval e 1) 1 = true /\ isclose1 (deval e 10) (1 # 10) = true /\ isclose1 (deval e 100) (1 # 100) = true.
Proof.
  unfold probe_reciprocal, probe_pts. cbn [forallb].
  destruct (isclose1 (deval e 1) (1 / 1)) eqn:E1; [|discriminate].
  destruct (isclose1 (deval e 10) (1 / 10)) eqn:E2; [|discriminate].
  destruct (isclose1 (deval e 100) (1 / 100)) eqn:E3; [|discriminate].
  intros _. repeat split; assumption.
Qed.

Lemma dpow_pos p x : 0 < x -> 0 < deval (dpow p) x.
Proof. intros Hx. induction p as [|p IH]; cbn [dpow deval]; [lra | nra]. Qed.

Lemma dpow_1 p : deval (dpow p) 1 == 1.
Proof. induction p as [|p IH]; cbn [dpow deval]; [reflexivity | rewrite IH; ring]. Qed.

(* every c / s^p accepted by the reciprocal probe has p = 1 and |c - 1| <= 1.000000002e-9 *)
Theorem probe_reciprocal_monomial c p :
  probe_reciprocal [DMul (DConst c) (DInv (dpow p))] = PTrue ->
  p = 1%nat /\ Qabs (c - 1) <= 1000000002 # 1000000000000000000.
Proof.
  intros H. apply probe_reciprocal_single in H as (H1 & H10 & _).
  cbn [deval] in H1, H10.
  apply isclose1_pos_bounds in H1; [| lra]. apply isclose1_pos_bounds in H10; [| lra].
  unfold py_reltol in *.
  assert (P1 : / deval (dpow p) 1 == 1) by (rewrite dpow_1; reflexivity).
  rewrite P1 in H1. destruct H1 as [H1a H1b].
  assert (Hc : Qabs (c - 1) <= 1000000002 # 1000000000000000000) by (apply Qabs_Qle_condition; split; lra).
  destruct p as [|[|p]].
  - exfalso. cbn [dpow deval] in H10. assert (E : / 1 == 1) by reflexivity. rewrite E in H10. lra.
  - split; [reflexivity | exact Hc].
  - exfalso. set (t := deval (dpow (S (S p))) 10) in *.
    assert (Ht : 100 <= t) by (apply dpow_ge_100; lia).
    assert (Hu : t * / t == 1) by (apply Qmult_inv_r; lra).
    assert (Hu0 : 0 < / t) by (apply Qinv_lt_0_compat; lra).
    set (u := / t) in *. destruct H10 as [Ha Hb]. nra.
Qed.

(* affine perturbations a/s + b: outer and inner neighbourhoods of the reciprocal *)
Theorem probe_reciprocal_affine_outer a b :
  probe_reciprocal [DAdd (DMul (DConst a) (DInv DVar)) (DConst b)] = PTrue ->
  Qabs (a - 1) <= 103 # 100000000000 /\ Qabs b <= 205 # 100000000000.
Proof.
  intros H. apply probe_reciprocal_single in H as (H1 & _ & H100). cbn [deval] in H1, H100.
  change (/ 1) with 1 in H1. change (/ 100) with (1 # 100) in H100.
  apply isclose1_pos_bounds in H1; [| lra]. apply isclose1_pos_bounds in H100; [| lra].
  unfold py_reltol in *. destruct H1, H100. split; apply Qabs_Qle_condition; split; lra.
Qed.

Theorem probe_reciprocal_affine_inner a b :
  Qabs (a - 1) <= 4 # 10000000000 -> Qabs b <= 4 # 1000000000000 ->
  probe_reciprocal [DAdd (DMul (DConst a) (DInv DVar)) (DConst b)] = PTrue.
Proof.
  intros Ha Hb. apply Qabs_Qle_condition in Ha as [Ha1 Ha2]. apply Qabs_Qle_condition in Hb as [Hb1 Hb2].
  unfold probe_reciprocal, probe_pts. cbn [forallb deval].
  change (/ 1) with 1. change (/ 10) with (1 # 10). change (/ 100) with (1 # 100).
  change (1 / 1) with 1. change (1 / 10) with (1 # 10). change (1 / 100) with (1 # 100).
  rewrite (isclose1_intro (a * 1 + b) 1), (isclose1_intro (a * (1 # 10) + b) (1 # 10)),
          (isclose1_intro (a * (1 # 100) + b) (1 # 100)); try reflexivity; unfold py_reltol; lra.
Qed.

(* the reciprocal probe is not a decision procedure either *)
Definition rpoly_witness : dexp :=
  let d x := DSub DVar (DConst x) in DAdd (DInv DVar) (DMul (DMul (d 1) (d 10)) (d 100)).

Theorem probe_reciprocal_refuted :
  exists f s, probe_reciprocal [f] = PTrue /\ ~ deval f s == 1 / s.
Proof. exists rpoly_witness, 2. split; [vm_compute; reflexivity | vm_compute; discriminate]. Qed.
