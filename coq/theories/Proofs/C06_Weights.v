(* C06 -- the prior block of UGLA's normal operator in terms of the WEIGHTS w = sw^2 (not their square roots):
   (W^1/2 D)^T (W^1/2 D) x = D^T diag(w) D x, for every D (1-d, 2-d), every size, any commutative ring. *)
From CV Require Import Base.Tac Base.LinAlg Model.C06_RTO Proofs.C06_Lin Proofs.C06_UGLA.
From Coq Require Import Ring.

Section W.
Variable R : Type.
Variables (r0 r1 : R) (radd rmul rsub : R -> R -> R) (ropp : R -> R).
Hypothesis Rth : ring_theory r0 r1 radd rmul rsub ropp (@eq R).
Add Ring Rring5 : Rth.

Notation vec := (list R).
Notation mat := (list (list R)).
Notation Dot := (dot r0 radd rmul).
Notation Matvec := (matvec r0 radd rmul).
Notation Mattvec := (mattvec r0 radd rmul).
Notation Vadd := (vadd radd).
Notation Vscale := (vscale rmul).
Notation "x * y" := (rmul x y).

Fixpoint pmul (x y : vec) : vec :=
  match x, y with a :: x', b :: y' => (a * b) :: pmul x' y' | _, _ => [] end.

Lemma matvec_scale_rows sw (D : mat) x : length sw = length D ->
  Matvec (scale_rows R rmul sw D) x = pmul sw (Matvec D x).
Proof.
  revert D; induction sw as [|s sw IH]; intros [|row D] H; simpl in *; try lia; try reflexivity.
  rewrite (dot_vscale_l R r0 r1 radd rmul rsub ropp Rth). f_equal. apply IH. lia.
Qed.

Lemma mattvec_scale_rows n sw (D : mat) y : length sw = length D ->
  Mattvec n (scale_rows R rmul sw D) y = Mattvec n D (pmul sw y).
Proof.
  revert D y; induction sw as [|s sw IH]; intros [|row D] y H; simpl in *; try lia; try reflexivity.
  destruct y as [|b y]; simpl; [reflexivity|].
  rewrite IH by lia. f_equal.
  clear IH H. induction row as [|c row IHr]; simpl; [reflexivity|]. f_equal; [ring | exact IHr].
Qed.

Lemma pmul_pmul sw v : pmul sw (pmul sw v) = pmul (map (fun s => s * s) sw) v.
Proof.
  revert v; induction sw as [|s sw IH]; intros [|a v]; simpl; try reflexivity.
  f_equal; [ring | apply IH].
Qed.

(* D^T W D with W = diag(w), w = sw^2 *)
Theorem DtWD_weights (c : ugla_cfg R) sw x : length sw = length (g_D c) ->
  DtWD R r0 radd rmul c sw x = Mattvec (g_n c) (g_D c) (pmul (map (fun s => s * s) sw) (Matvec (g_D c) x)).
Proof.
  intros H. unfold DtWD, ugla_L2.
  rewrite matvec_scale_rows, mattvec_scale_rows by exact H. rewrite pmul_pmul. reflexivity.
Qed.
End W.
