(* C05 -- proofs about the exact part of the sampling model (Model/C05_Sample.v):
   the wrapper Distribution.sample, generator output -> columns, RNG isolation from call-site facts,
   and the executable witnesses of the two refuted covariance classes. *)
From CV Require Import Base.Tac Base.Cmp Base.LinAlg Model.C05_Sample.
From Coq Require Import QArith Qabs.
From Coq Require String.
Open Scope Q_scope.

(* ---------------- the wrapper ---------------- *)
Lemma wrap_conditional_refused N s : sample_wrap true N s = WRefused.
Proof. reflexivity. Qed.

Lemma wrap_unconditional_answers N s : sample_wrap false N s <> WRefused.
Proof.
  unfold sample_wrap. destruct (N =? 1)%nat; [|discriminate].
  destruct (raw_len s =? 1)%nat; [|discriminate].
  destruct (raw_flat s); discriminate.
Qed.

Lemma nth_map' {A B} (f : A -> B) l d d' i : (i < length l)%nat -> nth i (map f l) d' = f (nth i l d).
Proof. intros H. rewrite (nth_indep _ d' (f d)) by (rewrite map_length; exact H). apply map_nth. Qed.

Definition wf_raw (dim N : nat) (m : Qmat) : Prop := length m = dim /\ Forall (fun r => length r = N) m.

Lemma concat_singletons (m : Qmat) : Forall (fun r => length r = 1%nat) m ->
  concat m = map (fun r => nth 0 r 0) m.
Proof.
  induction 1 as [|r m Hr Hm IH]; [reflexivity|].
  destruct r as [|x [|y r]]; simpl in Hr; try discriminate. simpl. f_equal. exact IH.
Qed.

(* one draw: an array with one entry per component (the geometry's dimension), entry i = component i of the draw;
   a single number when the dimension is 1 *)
Lemma wrap_single dim (m : Qmat) : wf_raw dim 1 m ->
  (dim <> 1%nat -> sample_wrap false 1 (Raw2 m) = WArray (qcol m 0) /\ length (qcol m 0) = dim) /\
  (dim = 1%nat -> exists x, m = [[x]] /\ sample_wrap false 1 (Raw2 m) = WScalar x).
Proof.
  intros [Hl Hr]. split.
  - intros Hd. unfold sample_wrap. cbn [Nat.eqb raw_len raw_flat].
    destruct (length m =? 1)%nat eqn:E; [apply Nat.eqb_eq in E; lia|].
    unfold qcol. rewrite concat_singletons by exact Hr. rewrite map_length. auto.
  - intros Hd. rewrite Hd in Hl. destruct m as [|r [|r' m]]; simpl in Hl; try discriminate.
    inversion Hr as [|? ? Hr1 _]; subst. destruct r as [|x [|y r]]; simpl in Hr1; try discriminate.
    exists x. split; reflexivity.
Qed.

(* several draws: the array is kept as it is; draw j is column j, with one entry per component *)
Lemma wrap_many dim N (m : Qmat) : wf_raw dim N m -> N <> 1%nat ->
  sample_wrap false N (Raw2 m) = WSamples (Raw2 m) /\
  forall j, (j < N)%nat -> length (draw (Raw2 m) j) = dim /\
                           forall i, (i < dim)%nat -> nth i (draw (Raw2 m) j) 0 = nth j (nth i m []) 0.
Proof.
  intros [Hl Hr] HN. split.
  - unfold sample_wrap. destruct (N =? 1)%nat eqn:E; [apply Nat.eqb_eq in E; contradiction | reflexivity].
  - intros j Hj. cbn [draw]. unfold qcol. rewrite map_length. split; [exact Hl|].
    intros i Hi. rewrite <- Hl in Hi.
    rewrite (nth_map' _ _ []) by exact Hi. reflexivity.
Qed.

(* the univariate families: the generator returns an N x dim array whose row j is the j-th generated vector;
   after the transpose, draw j of the Samples object is exactly that vector *)
Lemma qcol_qtr_row (G : Qmat) dim j : Forall (fun r => length r = dim) G -> (j < length G)%nat ->
  qcol (qtr G) j = nth j G [].
Proof.
  intros HG Hj. unfold qcol, qtr. rewrite map_map.
  assert (Hn : ncols G = dim).
  { destruct G as [|r G]; [simpl in Hj; lia|]. inversion HG; subst. reflexivity. }
  rewrite Hn.
  assert (Hrow : length (nth j G []) = dim).
  { rewrite Forall_forall in HG. apply HG. apply nth_In. exact Hj. }
  apply nth_ext with (d := 0) (d' := 0).
  - rewrite map_length, seq_length. symmetry. exact Hrow.
  - intros i Hi. rewrite map_length, seq_length in Hi.
    rewrite (nth_map' _ _ O) by (rewrite seq_length; exact Hi).
    rewrite seq_nth by exact Hi. cbn [plus]. unfold qcol.
    rewrite (nth_map' _ _ []) by exact Hj. reflexivity.
Qed.

Lemma univariate_draw (G : Qmat) dim j : Forall (fun r => length r = dim) G -> (j < length G)%nat ->
  draw (univariate_raw G) j = nth j G [].
Proof. intros. unfold univariate_raw, draw. eapply qcol_qtr_row; eassumption. Qed.

(* ---------------- RNG isolation ---------------- *)
Lemma forallb_In {A} (f : A -> bool) l x : forallb f l = true -> In x l -> f x = true.
Proof. intros H Hx. rewrite forallb_forall in H. auto. Qed.

Lemma step_indep g1 g2 r s x : site_ok s = true ->
  step true g1 r s x = step true g2 r s x /\ gpos (step true g1 r s x) = gpos x.
Proof.
  unfold site_ok, step. intros H.
  destruct (reached true s) eqn:Er; cbn [negb orb andb] in *.
  - destruct (uses_global s); [discriminate|]. destruct (draws s); split; reflexivity.
  - split; reflexivity.
Qed.

(* A sampling method all of whose RNG call sites that are reachable when a generator is given draw from that
   generator: whatever the control flow (ctrl: any function of the values drawn so far, e.g. rejection loops),
   the values drawn and the generator's final position do not depend on the global stream, and the global
   stream's position is left where it was. *)
Theorem rng_isolated (sites : list site) fuel g1 g2 r ctrl x :
  isolated sites = true -> (forall h s, ctrl h = Some s -> In s sites) ->
  outs (run fuel true g1 r ctrl x) = outs (run fuel true g2 r ctrl x) /\
  rpos (run fuel true g1 r ctrl x) = rpos (run fuel true g2 r ctrl x) /\
  gpos (run fuel true g1 r ctrl x) = gpos x.
Proof.
  intros Hiso Hctrl. revert x. induction fuel as [|f IH]; intros x; cbn [run]; [auto|].
  destruct (ctrl (outs x)) as [s|] eqn:E; [|auto].
  assert (Hs : site_ok s = true) by (eapply forallb_In; [exact Hiso | eapply Hctrl; exact E]).
  destruct (step_indep g1 g2 r s x Hs) as [E1 E2].
  rewrite <- E1. destruct (IH (step true g1 r s x)) as (A & B & C).
  repeat split; try assumption. rewrite C. exact E2.
Qed.

(* and determinism in the generator: equal generator streams give equal draws (trivially, run is a function);
   stated for streams that agree only on the consumed prefix *)
Theorem rng_deterministic (sites : list site) fuel g1 g2 r1 r2 ctrl x :
  isolated sites = true -> (forall h s, ctrl h = Some s -> In s sites) -> (forall k, r1 k = r2 k) ->
  outs (run fuel true g1 r1 ctrl x) = outs (run fuel true g2 r2 ctrl x).
Proof.
  intros Hiso Hctrl Hr. revert x. induction fuel as [|f IH]; intros x; cbn [run]; [reflexivity|].
  destruct (ctrl (outs x)) as [s|] eqn:E; [|reflexivity].
  assert (Hs : site_ok s = true) by (eapply forallb_In; [exact Hiso | eapply Hctrl; exact E]).
  assert (Est : step true g1 r1 s x = step true g2 r2 s x).
  { unfold site_ok in Hs. unfold step. destruct (reached true s); cbn [negb orb andb] in *; [|reflexivity].
    destruct (uses_global s); [discriminate|]. destruct (draws s); [|reflexivity]. rewrite Hr. reflexivity. }
  rewrite Est. apply IH.
Qed.

(* a site that draws from the global stream while a generator is given breaks isolation: witness *)
Import String.StringSyntax.
Open Scope string_scope.
Lemma opaque_not_isolated :
  exists g1 g2 r x s, isolated [s] = false /\ s_src s = SOpaque /\
    outs (run 1 true g1 r (fun _ => Some s) x) <> outs (run 1 true g2 r (fun _ => Some s) x).
Proof.
  exists (fun _ => 0), (fun _ => 1), (fun _ => 0), (RS 0 0 []), (Site "UserDefinedDistribution._sample" SOpaque GAlways "self.sample_func").
  repeat split. cbn. intros H. inversion H.
Qed.
Close Scope string_scope.

(* ---------------- Gaussian: the solver-selection model ---------------- *)
(* outside the triangular branch the selected solver inverts the stored square root itself *)
Lemma gauss_eff_not_tri fixed sparse S : gauss_branch sparse S <> BTri -> gauss_eff fixed sparse S = S.
Proof. unfold gauss_eff. destruct (gauss_branch sparse S); congruence. Qed.

(* with the proposed repair the triangular branch inverts the lower triangle, which IS the matrix when it is
   exactly lower triangular *)
Lemma imap_aux_id {A} (f : nat -> A -> A) k (l : list A) :
  (forall i a, f i a = a) -> imap_aux f k l = l.
Proof. intros H. revert k. induction l as [|a l IH]; intros k; simpl; [reflexivity|]. rewrite H, IH. reflexivity. Qed.

Definition exactly_lower (S : Qmat) : Prop := tril S = S.
Lemma gauss_eff_fixed_lower sparse S : exactly_lower S -> gauss_eff true sparse S = S.
Proof. intros H. unfold gauss_eff. destruct (gauss_branch sparse S); auto. Qed.

(* the refuted class: a lower-triangular non-diagonal square root.  The model of the code as it stands accepts
   T = I for S = [[1,0],[1,1]] (only the upper triangle [[1,0],[0,1]] is read), and then the draws' covariance
   T T^T = I is not the inverse of S^T S = [[2,1],[1,1]]. *)
Lemma gauss_lower_tri_refuted :
  exists (S T : Qmat) (mean off : Qvec),
    is_lower S = true /\ tril S = S /\ triu S <> S /\
    gauss_ok false false mean S off T = true /\
    cov_matches tol6 1 (qmm (qtr S) S) T = false /\
    (* ... while the repaired selection rejects this T and accepts the true inverse, whose covariance matches *)
    gauss_ok true false mean S off T = false /\
    gauss_ok true false mean S off [[1; 0]; [-1; 1]] = true /\
    cov_matches tol6 1 (qmm (qtr S) S) [[1; 0]; [-1; 1]] = true.
Proof.
  exists [[1; 0]; [1; 1]], [[1; 0]; [0; 1]], [0; 0], [0; 0].
  repeat split; try (vm_compute; reflexivity).
  vm_compute. intros H. inversion H.
Qed.

(* second refuted class of the solver selection: the triangularity test is np.allclose with its ABSOLUTE tolerance 1e-8, so a
   full matrix all of whose entries are below 1e-8 (standard deviations above 1e8) counts as lower triangular and only its
   lower triangle is inverted:  S = 2^-30 [[2,1],[1,1]] *)
Lemma gauss_tiny_scale_refuted :
  let c : Q := 1 # 1073741824 in                       (* 2^-30 *)
  let S1 : Qmat := [[2; 1]; [1; 1]] in
  exists (T : Qmat) (mean off : Qvec),
    let S := qmscale c S1 in
    is_lower S = true /\ tril S <> S /\
    gauss_ok true false mean S off T = true /\
    (* covariance test in scale-free form: (S1^T S1) ((cT)(cT)^T) = (S^T S)(T T^T) *)
    cov_matches tol6 1 (qmm (qtr S1) S1) (qmscale c T) = false /\
    (* the same matrix at scale 1 takes the general solve, and an exact triangularity test would do so at every scale *)
    gauss_branch false S1 = BGeneral /\
    gauss_ok_exact false mean S off (qmscale (/ c) [[1; -1]; [-1; 2]]) = true /\
    cov_matches tol6 1 (qmm (qtr S1) S1) [[1; -1]; [-1; 2]] = true.
Proof.
  exists [[536870912; 0]; [-536870912; 1073741824]], [0; 0], [0; 0].
  repeat split; try (vm_compute; reflexivity).
  vm_compute. intros H. inversion H.
Qed.

(* non-vacuity of the certificate checks: a full non-symmetric square root and its inverse *)
Lemma gauss_general_example :
  gauss_branch false [[2; 1]; [0; 1]] = BGeneral /\
  gauss_ok false false [1; 2] [[2; 1]; [0; 1]] [1; 2] [[1 # 2; -1 # 2]; [0; 1]] = true /\
  cov_matches tol6 1 (qmm (qtr [[2; 1]; [0; 1]]) [[2; 1]; [0; 1]]) [[1 # 2; -1 # 2]; [0; 1]] = true.
Proof. repeat split; vm_compute; reflexivity. Qed.

(* ---------------- GMRF, one draw (N = 1) ---------------- *)
(* as the code stands the neumann/periodic branches return an n x n array for a single draw; zero returns n x 1 *)
Lemma outer_add_shape mean p : has_shape (length mean) (length p) (outer_add mean p) = true.
Proof.
  unfold has_shape, outer_add. rewrite map_length, Nat.eqb_refl. cbn [andb].
  apply forallb_forall. intros r Hr. apply in_map_iff in Hr as (m & <- & _). rewrite map_length. apply Nat.eqb_refl.
Qed.

Lemma gmrf_single_draw_refuted :
  exists n mean p, (1 < n)%nat /\ length mean = n /\ length p = n /\
    has_shape n n (gmrf_raw1 false Neumann n mean p) = true /\
    sample_wrap false 1 (Raw2 (gmrf_raw1 false Neumann n mean p)) = WArray (concat (outer_add mean p)) /\
    length (concat (outer_add mean p)) = (n * n)%nat /\
    (* repaired / zero boundary: n entries *)
    sample_wrap false 1 (Raw2 (gmrf_raw1 true Neumann n mean p)) = WArray (qvadd mean p) /\
    sample_wrap false 1 (Raw2 (gmrf_raw1 false Zero n mean p)) = WArray (qvadd mean p).
Proof. exists 2%nat, [1; 2], [10; 20]. repeat split; try lia; vm_compute; reflexivity. Qed.

(* ---------------- GMRF, periodic boundary: the refuted class ---------------- *)
(* GMRF(zeros(4), 1, 'periodic', order=1) as built by the code: P = D^T D is NOT circulant (the wrap-around difference is
   counted twice: corner entries -2, diagonal 3), ev = eigsh's three largest eigenvalues in the order returned, w = 1/sqrt(ev ++ [last]),
   F = dft(4, 'sqrtn').  The model of the code accepts T = [Fre W | Fim W]; its covariance is not a generalised inverse of P. *)
Definition wit_mean := [(0 # 1)%Q; (0 # 1)%Q; (0 # 1)%Q; (0 # 1)%Q].
Definition wit_P := [[(3 # 1)%Q; (-1 # 1)%Q; (0 # 1)%Q; (-2 # 1)%Q]; [(-1 # 1)%Q; (2 # 1)%Q; (-1 # 1)%Q; (0 # 1)%Q]; [(0 # 1)%Q; (-1 # 1)%Q; (2 # 1)%Q; (-1 # 1)%Q]; [(-2 # 1)%Q; (0 # 1)%Q; (-1 # 1)%Q; (3 # 1)%Q]].
Definition wit_D := [[(1 # 1)%Q; (0 # 1)%Q; (0 # 1)%Q; (-1 # 1)%Q]; [(-1 # 1)%Q; (1 # 1)%Q; (0 # 1)%Q; (0 # 1)%Q]; [(0 # 1)%Q; (-1 # 1)%Q; (1 # 1)%Q; (0 # 1)%Q]; [(0 # 1)%Q; (0 # 1)%Q; (-1 # 1)%Q; (1 # 1)%Q]; [(1 # 1)%Q; (0 # 1)%Q; (0 # 1)%Q; (-1 # 1)%Q]].
Definition wit_Fre := [[(1 # 2)%Q; (1 # 2)%Q; (1 # 2)%Q; (1 # 2)%Q]; [(1 # 2)%Q; (0 # 1)%Q; (-1 # 2)%Q; (0 # 1)%Q]; [(1 # 2)%Q; (-1 # 2)%Q; (1 # 2)%Q; (-1 # 2)%Q]; [(1 # 2)%Q; (0 # 1)%Q; (-1 # 2)%Q; (0 # 1)%Q]].
Definition wit_Fim := [[(0 # 1)%Q; (0 # 1)%Q; (0 # 1)%Q; (0 # 1)%Q]; [(0 # 1)%Q; (-1 # 2)%Q; (0 # 1)%Q; (1 # 2)%Q]; [(0 # 1)%Q; (0 # 1)%Q; (0 # 1)%Q; (0 # 1)%Q]; [(0 # 1)%Q; (1 # 2)%Q; (0 # 1)%Q; (-1 # 2)%Q]].
Definition wit_ev := [(4503599627370497 # 2251799813685248)%Q; (5822673418478103 # 2251799813685248)%Q; (1523965636375485 # 281474976710656)%Q].
Definition wit_w := [(1592262918131443 # 2251799813685248)%Q; (5601359456256955 # 9007199254740992)%Q; (3870990263689131 # 9007199254740992)%Q; (3870990263689131 # 9007199254740992)%Q].
Definition wit_off := [(0 # 1)%Q; (0 # 1)%Q; (0 # 1)%Q; (0 # 1)%Q].
Definition wit_T := gmrf_periodic_T 1 wit_Fre wit_Fim wit_w.

Lemma gmrf_periodic_refuted :
  exists n mean prec r P D Fre Fim ev w off T,
    gmrf_periodic_ok n mean prec r P D Fre Fim ev w off T = true /\
    qll_eqb (qmm (qtr D) D) P = true /\
    cov_matches tol6 prec P T = false.
Proof.
  exists 4%nat, wit_mean, 1, 1, wit_P, wit_D, wit_Fre, wit_Fim, wit_ev, wit_w, wit_off, wit_T.
  repeat split; vm_compute; reflexivity.
Qed.

(* for contrast: order 0 (P = I, all eigenvalues 1) passes the same covariance test *)
Lemma gmrf_periodic_order0_example :
  let I4 := qid 4 in
  gmrf_periodic_ok 4 wit_mean 1 1 I4 I4 wit_Fre wit_Fim [1; 1; 1] [1; 1; 1; 1] wit_off (gmrf_periodic_T 1 wit_Fre wit_Fim [1; 1; 1; 1]) = true /\
  cov_matches tol6 1 I4 (gmrf_periodic_T 1 wit_Fre wit_Fim [1; 1; 1; 1]) = true.
Proof. split; vm_compute; reflexivity. Qed.

(* ---------------- the optimised dot product is the textbook one ---------------- *)
(* Model.qdot brings both vectors to a common denominator, multiplies integers and skips zeros; it computes the same
   rational number (Qeq) as the plain recursion  a1*b1 + (a2*b2 + ...)  of Base.LinAlg.dot -- which is, over an abstract
   field, the recursion ldot of mc/C05_Link.v for which the covariance theorems are proved. *)
Definition qdot_ref (x y : Qvec) : Q := dot 0 Qplus Qmult x y.

Lemma common_den_divides v q : In q v -> (Z.pos (Qden q) | Z.pos (common_den v))%Z.
Proof.
  induction v as [|a v IH]; intros Hin; [destruct Hin|].
  cbn [common_den fold_right]. fold (common_den v).
  assert (Hpos : (0 < Z.lcm (Z.pos (Qden a)) (Z.pos (common_den v)))%Z).
  { pose proof (Z.lcm_nonneg (Z.pos (Qden a)) (Z.pos (common_den v))) as Hn.
    destruct (Z.eq_dec (Z.lcm (Z.pos (Qden a)) (Z.pos (common_den v))) 0) as [E|E]; [|lia].
    apply Z.lcm_eq_0 in E. lia. }
  rewrite Z2Pos.id by exact Hpos.
  destruct Hin as [-> | Hin].
  - apply Z.divide_lcm_l.
  - eapply Z.divide_trans; [apply IH; exact Hin | apply Z.divide_lcm_r].
Qed.

Lemma scaled_entry (n : Z) (d D : positive) : (Z.pos d | Z.pos D)%Z ->
  (n # d) == ((n * (Z.pos D / Z.pos d))%Z # D).
Proof.
  intros [k Hk]. unfold Qeq. cbn [Qnum Qden].
  rewrite Hk. rewrite Z.div_mul by lia. ring.
Qed.

Lemma zdot_acc_spec xs : forall ys acc Dx Dy,
  (zdot_acc acc xs ys # (Dx * Dy)) ==
  (acc # (Dx * Dy)) + qdot_ref (map (fun a => a # Dx) xs) (map (fun b => b # Dy) ys).
Proof.
  unfold qdot_ref. induction xs as [|a xs IH]; intros [|b ys] acc Dx Dy; cbn [zdot_acc map dot]; try ring.
  destruct (a =? 0)%Z eqn:Ea.
  - apply Z.eqb_eq in Ea. subst a. rewrite IH.
    assert (E0 : (0 # Dx) * (b # Dy) == 0) by (unfold Qeq, Qmult; cbn; ring). rewrite E0. ring.
  - rewrite IH.
    assert (E : ((acc + a * b)%Z # (Dx * Dy)) == (acc # (Dx * Dy)) + (a # Dx) * (b # Dy)).
    { unfold Qeq, Qplus, Qmult. cbn [Qnum Qden]. rewrite !Pos2Z.inj_mul. ring. }
    rewrite E. ring.
Qed.

Lemma qdot_ref_compat x : forall x' y y', Forall2 Qeq x x' -> Forall2 Qeq y y' -> qdot_ref x y == qdot_ref x' y'.
Proof.
  unfold qdot_ref. induction x as [|a x IH]; intros x' y y' Hx Hy; inversion Hx; subst; [reflexivity|].
  inversion Hy; subst; cbn [dot]; [reflexivity|].
  match goal with H1 : a == _, H2 : _ == _ |- _ => rewrite H1, H2 end. erewrite IH by eassumption. reflexivity.
Qed.

Lemma scaled_Qeq v : Forall2 Qeq (map (fun a => a # snd (scaled v)) (fst (scaled v))) v.
Proof.
  unfold scaled. cbn [fst snd]. set (D := common_den v).
  assert (H : forall q, In q v -> (Z.pos (Qden q) | Z.pos D)%Z) by (intros; apply common_den_divides; assumption).
  clearbody D. induction v as [|q v IH]; cbn [map]; constructor.
  - symmetry. destruct q as [n d]. cbn [Qnum Qden]. apply scaled_entry. apply (H (n # d)). left. reflexivity.
  - apply IH. intros q' Hq'. apply H. right. exact Hq'.
Qed.

Theorem qdot_is_dot x y : qdot x y == qdot_ref x y.
Proof.
  unfold qdot, sdot. rewrite Qred_correct. rewrite zdot_acc_spec.
  assert (E0 : (0 # (snd (scaled x) * snd (scaled y))) == 0) by (unfold Qeq; cbn; ring). rewrite E0, Qplus_0_l.
  apply qdot_ref_compat; apply scaled_Qeq.
Qed.

(* hence every entry of the model's matrix product is the textbook sum over k of A_ik B_kj *)
Lemma nth_map_Qeq {X} (f g : X -> Q) (l : list X) j : (forall x, f x == g x) -> nth j (map f l) 0 == nth j (map g l) 0.
Proof. intros H. revert j. induction l as [|a l IH]; intros [|j]; cbn [map nth]; try reflexivity; auto. Qed.

Lemma nth_nth_map_Qeq {X} (F G : X -> Qvec) (l : list X) i j :
  (forall x, nth j (F x) 0 == nth j (G x) 0) -> nth j (nth i (map F l) []) 0 == nth j (nth i (map G l) []) 0.
Proof.
  intros H. revert i. induction l as [|a l IH]; intros [|i]; cbn [map nth]; auto; destruct j; reflexivity.
Qed.

Corollary qmm_entry A B i j :
  nth j (nth i (qmm A B) []) 0 == nth j (nth i (map (fun r => map (fun c => qdot_ref r c) (qtr B)) A) []) 0.
Proof.
  unfold qmm. cbv zeta. apply nth_nth_map_Qeq. intros r. rewrite map_map.
  apply nth_map_Qeq. intros c. apply qdot_is_dot.
Qed.

(* ---------------- what a passed EXACT cell establishes ---------------- *)
Lemma ql_eqb_nth (x y : Qvec) : ql_eqb x y = true -> forall j, nth j x 0 == nth j y 0.
Proof.
  unfold ql_eqb. revert y. induction x as [|a x IH]; intros [|b y] H j; cbn [list_eqb] in H; try discriminate.
  - reflexivity.
  - apply andb_true_iff in H as [H1 H2]. destruct j; cbn [nth]; [apply Qeq_bool_iff; exact H1 | apply IH; exact H2].
Qed.

Lemma qll_eqb_nth (A B : Qmat) : qll_eqb A B = true -> forall i j, nth j (nth i A []) 0 == nth j (nth i B []) 0.
Proof.
  unfold qll_eqb. revert B. induction A as [|r A IH]; intros [|s B] H i j; cbn [list_eqb] in H; try discriminate.
  - reflexivity.
  - apply andb_true_iff in H as [H1 H2]. destruct i; cbn [nth]; [apply ql_eqb_nth; exact H1 | apply IH; exact H2].
Qed.

(* if the model accepts an exact cell, then -- as a statement about textbook sums, not about the optimised arithmetic --
   every entry of S T and of T S equals the corresponding entry of the identity, and the offset is the (broadcast) mean:
   these are exactly the hypotheses of C05_list_gaussian_cov / C05_gaussian_cov, with == on Q in place of = in a field *)
Definition textbook_mm (A B : Qmat) : Qmat := map (fun r => map (fun c => qdot_ref r c) (qtr B)) A.

Theorem exact_cell_sound mean S off T : check_gauss_exact mean S off T = true ->
  (forall i j, nth j (nth i (textbook_mm S T) []) 0 == nth j (nth i (qid (length S)) []) 0) /\
  (forall i j, nth j (nth i (textbook_mm T S) []) 0 == nth j (nth i (qid (length S)) []) 0) /\
  (forall j, nth j off 0 == nth j (bmean (length S) mean) 0).
Proof.
  unfold check_gauss_exact. intros H.
  repeat (apply andb_true_iff in H; destruct H as [H ?]).
  repeat split.
  - intros i j. unfold textbook_mm. rewrite <- qmm_entry. apply qll_eqb_nth. assumption.
  - intros i j. unfold textbook_mm. rewrite <- qmm_entry. apply qll_eqb_nth. assumption.
  - apply ql_eqb_nth. assumption.
Qed.
