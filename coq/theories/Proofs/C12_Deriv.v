(* C12 -- derivative laws at full strength.  "v is the derivative of f at x along h" is stated as a polynomial identity
   in the step length t:  f(x + t h) = f(x) + t v + t^2 R(t)  FOR ALL t with ONE polynomial R chosen before t
   (a remainder that may depend on t -- `exists r` after `forall t` -- would be satisfiable by any v).
   Proved: pderiv is the derivative of a polynomial; geo_jac is the Jacobian of par2fun for every geometry instance;
   J_F(par2fun w) geo_jac(w) is the Jacobian of the parameter-to-output map p |-> A phi_F(par2fun p) + b. *)
From CV Require Import Base.Tac Base.LinAlg Base.QcLin Base.Cmp Model.C12_Model Model.C12_Jac
     Proofs.C12_Model Proofs.C12_Chain Proofs.C12_Instances Proofs.C12_Pde.
From Coq Require Import QArith Qcanon Ring.
Local Open Scope Qc_scope.

(* ------------------------------------------------------------------------------------------ *)
(* polynomial arithmetic on coefficient lists                                                   *)
(* ------------------------------------------------------------------------------------------ *)
Definition pscale (c : Qc) (p : list Qc) : list Qc := map (Qcmult c) p.

Lemma peval_pscale c p t : peval (pscale c p) t = c * peval p t.
Proof.
  induction p as [|a p IH]; [unfold pscale; cbn [map]; rewrite peval_nil; ring|].
  unfold pscale in *. cbn [map]. rewrite !peval_cons, IH. ring.
Qed.

Fixpoint pmul (p q : list Qc) : list Qc :=
  match p with [] => [] | a :: p' => padd (pscale a q) (0 :: pmul p' q) end.

Lemma peval_pmul p q t : peval (pmul p q) t = peval p t * peval q t.
Proof.
  induction p as [|a p IH]; [cbn [pmul]; rewrite !peval_nil; ring|].
  cbn [pmul]. rewrite peval_padd, peval_pscale, !peval_cons, IH. ring.
Qed.

Fixpoint pcomp (p q : list Qc) : list Qc :=
  match p with [] => [] | a :: p' => padd [a] (pmul q (pcomp p' q)) end.

Lemma peval_pcomp p q t : peval (pcomp p q) t = peval p (peval q t).
Proof.
  induction p as [|a p IH]; [reflexivity|].
  cbn [pcomp]. rewrite peval_padd, peval_pmul, !peval_cons, peval_nil, IH. ring.
Qed.

(* ------------------------------------------------------------------------------------------ *)
(* scalar functions                                                                             *)
(* ------------------------------------------------------------------------------------------ *)
Definition sderiv (f f' : Qc -> Qc) : Prop :=
  forall x, exists rs, forall h, f (x + h) = f x + h * f' x + h * h * peval rs h.

(* pderiv is the derivative of the polynomial *)
Theorem pderiv_sderiv cs : sderiv (peval cs) (peval (pderiv cs)).
Proof.
  induction cs as [|c p IH]; intros x.
  - exists []. intros h. rewrite !peval_nil. ring.
  - destruct (IH x) as [rs Hrs].
    exists (padd [peval (pderiv p) x] (padd (pscale x rs) (0 :: rs))). intros h.
    rewrite !peval_padd, peval_pscale, !peval_cons, peval_nil, peval_pderiv_cons, (Hrs h). ring.
Qed.

(* the increment itself a polynomial in t: f(x + t U(t)) = f x + t (U(0) f'(x)) + t^2 R(t) *)
Lemma sderiv_poly_incr f f' : sderiv f f' -> forall x (u : list Qc), exists rs, forall t,
  f (x + t * peval u t) = f x + t * (peval u 0 * f' x) + t * t * peval rs t.
Proof.
  intros Hf x u. destruct (Hf x) as [r0 Hr0].
  destruct u as [|u0 u1].
  - exists []. intros t. rewrite !peval_nil. replace (x + t * 0) with (x + 0) by ring. rewrite (Hr0 0). ring.
  - exists (padd (pscale (f' x) u1) (pmul (pmul (u0 :: u1) (u0 :: u1)) (pcomp r0 (0 :: u0 :: u1)))). intros t.
    rewrite (Hr0 (t * peval (u0 :: u1) t)).
    rewrite peval_padd, peval_pscale, !peval_pmul, peval_pcomp.
    replace (peval (0 :: u0 :: u1) t) with (t * peval (u0 :: u1) t) by (rewrite (peval_cons 0); ring).
    rewrite !(peval_cons u0). ring.
Qed.

(* ------------------------------------------------------------------------------------------ *)
(* vector functions: directional derivative as a polynomial identity in the step length          *)
(* ------------------------------------------------------------------------------------------ *)
Definition pvec_eval (c2 : list (list Qc)) (t : Qc) : vec := map (fun cs => peval cs t) c2.

(* fw = f w; v = the derivative of f at w along h *)
Definition dir_deriv (f : vec -> res vec) (w h fw v : vec) : Prop :=
  exists c2, length c2 = length fw /\
    forall t, f (qvadd w (qvscale t h)) = Ok (qvadd (qvadd fw (qvscale t v)) (qvscale (t * t) (pvec_eval c2 t))).

Lemma pvec_eval_zero n t : pvec_eval (repeat [] n) t = qvzero n.
Proof. induction n as [|n IH]; [reflexivity|]. unfold pvec_eval in *. cbn [repeat map]. rewrite IH. reflexivity. Qed.

Lemma qvadd_scaled_zero v c n : length v = n -> qvadd v (qvscale c (qvzero n)) = v.
Proof.
  intros H. unfold qvscale, qvzero.
  rewrite (vscale_vzero Qc 0 1 Qcplus Qcmult Qcminus Qcopp Qcrt c n).
  apply (vadd_vzero_r Qc 0 1 Qcplus Qcmult Qcminus Qcopp Qcrt v n H).
Qed.

Lemma qvscale_length c v : length (qvscale c v) = length v.
Proof. apply vscale_length. Qed.

(* a linear map p |-> S p has Jacobian S, exactly *)
Lemma linear_dir_deriv k (S : mat) w h : wf_mat k S -> length w = k -> length h = k ->
  exists c2, length c2 = length (qmatvec S w) /\ forall t,
    qmatvec S (qvadd w (qvscale t h)) =
    qvadd (qvadd (qmatvec S w) (qvscale t (qmatvec S h))) (qvscale (t * t) (pvec_eval c2 t)).
Proof.
  intros HS Hw Hh. exists (repeat [] (length (qmatvec S w))). split; [apply repeat_length|]. intros t.
  rewrite pvec_eval_zero.
  assert (L : length (qvscale t h) = k) by (rewrite qvscale_length; exact Hh).
  unfold qmatvec, qvadd, qvscale in *.
  rewrite (matvec_vadd Qc 0 1 Qcplus Qcmult Qcminus Qcopp Qcrt S w (vscale Qcmult t h) k HS Hw L).
  rewrite (matvec_vscale Qc 0 1 Qcplus Qcmult Qcminus Qcopp Qcrt S t h).
  symmetry. apply (qvadd_scaled_zero _ (t * t)).
  rewrite vadd_length; rewrite ?vscale_length, ?matvec_length; reflexivity.
Qed.

(* an element-wise map with polynomial increments *)
Lemma elementwise_poly_incr f f' : sderiv f f' -> forall x u (c2 : list (list Qc)),
  length u = length x -> length c2 = length x ->
  exists d2, length d2 = length x /\ forall t,
    map f (qvadd (qvadd x (qvscale t u)) (qvscale (t * t) (pvec_eval c2 t))) =
    qvadd (qvadd (map f x) (qvscale t (vmul (map f' x) u))) (qvscale (t * t) (pvec_eval d2 t)).
Proof.
  intros Hf x; induction x as [|a x IH]; intros [|b u] [|c c2] Lu Lc; simpl in Lu, Lc; try discriminate.
  - exists []. split; [reflexivity|]. intros t. reflexivity.
  - destruct (IH u c2) as (d2 & Ld & Hd); [lia | lia |].
    destruct (sderiv_poly_incr f f' Hf a (b :: c)) as [rs Hrs].
    exists (rs :: d2). split; [simpl; lia|]. intros t.
    unfold qvadd, qvscale, vscale, pvec_eval in *. cbn [map vadd vmul]. rewrite <- (Hd t). f_equal.
    replace (a + t * b + t * t * peval c t) with (a + t * peval (b :: c) t) by (rewrite peval_cons; ring).
    rewrite (Hrs t), (peval_cons b). ring.
Qed.

(* ... in particular along a straight line *)
Lemma elementwise_dir_deriv f f' : sderiv f f' -> forall w h, length h = length w ->
  exists c2, length c2 = length w /\ forall t,
    map f (qvadd w (qvscale t h)) =
    qvadd (qvadd (map f w) (qvscale t (vmul (map f' w) h))) (qvscale (t * t) (pvec_eval c2 t)).
Proof.
  intros Hf w h Lh.
  destruct (elementwise_poly_incr f f' Hf w h (repeat [] (length w)) Lh (repeat_length _ _)) as (d2 & Ld & Hd).
  exists d2. split; [exact Ld|]. intros t. rewrite <- (Hd t), pvec_eval_zero. f_equal. symmetry.
  apply qvadd_scaled_zero. unfold qvadd. rewrite vadd_length; rewrite ?qvscale_length; congruence.
Qed.

Lemma qvadd_length_eq x y : length x = length y -> length (qvadd x y) = length x.
Proof. apply vadd_length. Qed.

(* the identity, with an optional shape test that a straight line never leaves *)
Lemma identity_dir_deriv w h : length h = length w ->
  exists c2, length c2 = length w /\ forall t,
    qvadd w (qvscale t h) =
    qvadd (qvadd w (qvscale t (qmatvec (diagmat (ones w)) h))) (qvscale (t * t) (pvec_eval c2 t)).
Proof.
  intros Lh. exists (repeat [] (length w)). split; [apply repeat_length|]. intros t.
  rewrite pvec_eval_zero, matvec_diag by (rewrite ones_length; exact Lh).
  rewrite (vmul_comm (ones w) h), vmul_ones by exact Lh.
  symmetry. apply qvadd_scaled_zero. rewrite qvadd_length_eq; rewrite ?qvscale_length; congruence.
Qed.

(* geo_jac IS the Jacobian of par2fun, for every instance *)
Theorem geo_jac_is_jacobian dg w wf JG :
  geo_jac dg w = Some JG -> g_par2fun dg w = Ok wf ->
  forall h, length h = length w -> dir_deriv (g_par2fun dg) w h wf (qmatvec JG h).
Proof.
  intros HJG Hw h Lh. unfold dir_deriv.
  assert (Lline : forall t, length (qvadd w (qvscale t h)) = length w)
    by (intros t; rewrite qvadd_length_eq; rewrite ?qvscale_length; congruence).
  unfold geo_jac in HJG. unfold g_par2fun, g_par2fun_gen in *.
  destruct (plain1d (g_cls dg)) eqn:Ep.
  - inversion Hw; subst wf.
    assert (E : JG = diagmat (ones w)).
    { destruct (g_grad dg) as [[dcs gsel|idx|m K]|]; try discriminate.
      - destruct (qcl_eqb dcs (pderiv [0; 1])) eqn:Ed; [|discriminate]. apply qcl_eqb_eq in Ed. subst dcs.
        inversion HJG. rewrite pmap_pderiv_id. reflexivity.
      - inversion HJG. reflexivity. }
    subst JG. destruct (identity_dir_deriv w h Lh) as (c2 & L2 & H2). exists c2. split; [exact L2|].
    intros t. rewrite <- (H2 t). reflexivity.
  - destruct (g_conv dg) as [|r c|r c|K M|nfun idx pj sq] eqn:Ec; try discriminate.
    + destruct (g_map dg) as [csG|] eqn:Em.
      * destruct (g_grad dg) as [[dcs gsel|idx|m K]|] eqn:Eg; try discriminate.
        destruct (qcl_eqb dcs (pderiv csG)) eqn:Ed; [|discriminate]. apply qcl_eqb_eq in Ed. subst dcs.
        inversion HJG; subst JG. cbn [conv_par2fun rmap omap] in *. inversion Hw; subst wf.
        destruct (elementwise_dir_deriv _ _ (pderiv_sderiv csG) w h Lh) as (c2 & L2 & H2).
        exists c2. split; [unfold pmap; rewrite map_length; exact L2|]. intros t.
        rewrite matvec_diag by (unfold pmap; rewrite map_length; exact Lh).
        unfold pmap in *. rewrite (H2 t). reflexivity.
      * destruct (g_grad dg) eqn:Eg; try discriminate.
        destruct (identity_class (g_cls dg) && f2p_is_base (g_f2p dg)); [|discriminate]. inversion HJG; subst JG.
        cbn [conv_par2fun rmap omap] in *. inversion Hw; subst wf.
        destruct (identity_dir_deriv w h Lh) as (c2 & L2 & H2). exists c2. split; [exact L2|].
        intros t. rewrite <- (H2 t). reflexivity.
    + destruct (g_map dg) eqn:Em; try discriminate. destruct (g_grad dg) eqn:Eg; try discriminate.
      destruct (identity_class (g_cls dg) && f2p_is_base (g_f2p dg) && Nat.eqb (length w) (r * c)) eqn:Ei; [|discriminate].
      inversion HJG; subst JG. apply andb_prop in Ei as [_ Ei].
      cbn [conv_par2fun] in *. rewrite Ei in Hw. cbn [rmap omap] in Hw. inversion Hw; subst wf.
      destruct (identity_dir_deriv w h Lh) as (c2 & L2 & H2). exists c2. split; [exact L2|].
      intros t. rewrite (Lline t), Ei. cbn [rmap omap]. rewrite <- (H2 t). reflexivity.
    + destruct (g_map dg) eqn:Em; try discriminate.
      destruct (g_grad dg) as [[dcs gsel|idx|m K']|] eqn:Eg; try discriminate.
      destruct (qcll_eqb K K' && lin_wf m K && Nat.eqb (length w) m && negb (Nat.eqb (length K) 0)) eqn:Ei; [|discriminate].
      inversion HJG; subst JG. bool_hyps.
      match goal with H : lin_wf _ _ = true |- _ => apply lin_wf_spec in H; rename H into HK end.
      cbn [conv_par2fun] in *. destruct K as [|row K]; [discriminate|].
      assert (Lrow : length row = m) by (inversion HK; assumption).
      assert (E1 : Nat.eqb (length w) (length row) = true) by (apply Nat.eqb_eq; congruence).
      rewrite E1 in Hw. cbn [rmap omap] in Hw. inversion Hw; subst wf.
      destruct (linear_dir_deriv m (row :: K) w h HK) as (c2 & L2 & H2); [congruence | congruence |].
      exists c2. split; [exact L2|]. intros t. rewrite (Lline t), E1. cbn [rmap omap]. rewrite (H2 t). reflexivity.
    + destruct (g_map dg) eqn:Em; try discriminate.
      destruct (g_grad dg) as [[dcs gsel|idx'|m K']|] eqn:Eg; try discriminate.
      destruct (natll_eqb idx idx' && step_wf nfun idx && Nat.eqb (length w) (length idx)) eqn:Ei; [|discriminate].
      inversion HJG; subst JG. bool_hyps.
      match goal with H : length w = length idx |- _ => rename H into Lwi end.
      cbn [conv_par2fun] in *. rewrite (proj2 (Nat.eqb_eq _ _) Lwi) in Hw. cbn [rmap omap] in Hw. inversion Hw; subst wf.
      destruct (linear_dir_deriv (length idx) (step_jac nfun idx) w h (step_jac_wf nfun idx)) as (c2 & L2 & H2); [congruence | congruence |].
      exists c2. split; [rewrite step_par2fun_is_matvec by exact Lwi; exact L2|]. intros t.
      rewrite (Lline t), (proj2 (Nat.eqb_eq _ _) Lwi). cbn [rmap omap].
      rewrite !step_par2fun_is_matvec by (rewrite ?Lline; exact Lwi). rewrite (H2 t). reflexivity.
Qed.

(* ------------------------------------------------------------------------------------------ *)
(* the parameter-to-output map  p |-> A phi_F(par2fun p) + b                                     *)
(* ------------------------------------------------------------------------------------------ *)
Fixpoint plincomb (row : vec) (ps : list (list Qc)) : list Qc :=
  match row, ps with a :: r, p :: ps' => padd (pscale a p) (plincomb r ps') | _, _ => [] end.

Lemma peval_plincomb row ps t : peval (plincomb row ps) t = qdot row (pvec_eval ps t).
Proof.
  revert ps; induction row as [|a r IH]; intros [|p ps]; try reflexivity.
  cbn [plincomb]. rewrite peval_padd, peval_pscale, IH. reflexivity.
Qed.

Lemma matvec_pvec_eval A ps t : qmatvec A (pvec_eval ps t) = pvec_eval (map (fun row => plincomb row ps) A) t.
Proof.
  unfold qmatvec, matvec, pvec_eval at 2. rewrite map_map. apply map_ext. intros row. symmetry. apply peval_plincomb.
Qed.

Definition par2out (A : mat) (csF : list Qc) (b : vec) (dg : geo) (p : vec) : res vec :=
  rmap (poly_forward A csF b) (g_par2fun dg p).

Lemma qvadd_shuffle x y z b : qvadd (qvadd (qvadd x y) z) b = qvadd (qvadd (qvadd x b) y) z.
Proof.
  unfold qvadd. revert y z b; induction x as [|a x IH]; intros [|a1 y] [|a2 z] [|a3 b]; simpl; try reflexivity.
  rewrite IH. f_equal. ring.
Qed.

(* composition with the model: if u is the derivative of par2fun at w along h, J_F(par2fun w) u is that of the
   parameter-to-output map *)
Theorem par2out_dir_deriv n A csF b dg w wf h u :
  g_par2fun dg w = Ok wf -> wf_mat n A -> length wf = n -> length b = length A -> length u = n ->
  dir_deriv (g_par2fun dg) w h wf u ->
  dir_deriv (par2out A csF b dg) w h (poly_forward A csF b wf) (qmatvec (poly_jac A (pderiv csF) wf) u).
Proof.
  intros Hw HA Ln Lb Lu (c2 & L2 & H2).
  destruct (elementwise_poly_incr _ _ (pderiv_sderiv csF) wf u c2) as (d2 & Ld & Hd); [congruence | exact L2 |].
  exists (map (fun row => plincomb row d2) A). split.
  - rewrite map_length. unfold poly_forward.
    assert (E : length (qmatvec A (pmap csF wf)) = length A) by (unfold qmatvec; apply matvec_length).
    rewrite qvadd_length_eq by congruence. symmetry. exact E.
  - intros t. unfold par2out. rewrite (H2 t). cbn [rmap]. f_equal. unfold poly_forward, pmap. rewrite (Hd t).
    set (X := map (peval csF) wf).
    set (Y := vmul (map (peval (pderiv csF)) wf) u). set (Z := pvec_eval d2 t).
    assert (LX : length X = n) by (unfold X; rewrite map_length; exact Ln).
    assert (LY : length Y = n) by (unfold Y; rewrite vmul_length; rewrite map_length; congruence).
    assert (LZ : length Z = n) by (unfold Z, pvec_eval; rewrite map_length; congruence).
    assert (E1 : qmatvec A (qvadd (qvadd X (qvscale t Y)) (qvscale (t * t) Z)) =
                 qvadd (qvadd (qmatvec A X) (qvscale t (qmatvec A Y))) (qvscale (t * t) (qmatvec A Z))).
    { unfold qmatvec, qvadd, qvscale.
      rewrite (matvec_vadd Qc 0 1 Qcplus Qcmult Qcminus Qcopp Qcrt A _ _ n HA)
        by (rewrite ?vadd_length; rewrite ?vscale_length; congruence).
      rewrite (matvec_vadd Qc 0 1 Qcplus Qcmult Qcminus Qcopp Qcrt A _ _ n HA) by (rewrite ?vscale_length; congruence).
      rewrite !(matvec_vscale Qc 0 1 Qcplus Qcmult Qcminus Qcopp Qcrt A). reflexivity. }
    rewrite E1. unfold Z. rewrite matvec_pvec_eval.
    replace (qmatvec (poly_jac A (pderiv csF) wf) u) with (qmatvec A Y).
    + rewrite qvadd_shuffle. reflexivity.
    + rewrite poly_jac_col_scale, matvec_col_scale. unfold Y, pmap. rewrite vmul_comm. reflexivity.
Qed.

(* J_F(par2fun w) (J_G(w) h) is the derivative of the parameter-to-output map at w along h, for every instance *)
Theorem par2out_jacobian n A csF b dg w wf JG :
  geo_jac dg w = Some JG -> g_par2fun dg w = Ok wf -> wf_mat n A -> length wf = n -> length b = length A ->
  forall h, length h = length w ->
    length (qmatvec JG h) = n ->
    dir_deriv (par2out A csF b dg) w h (poly_forward A csF b wf)
              (qmatvec (poly_jac A (pderiv csF) wf) (qmatvec JG h)).
Proof.
  intros HJG Hw HA Ln Lb h Lh Lu.
  apply (par2out_dir_deriv n); try assumption. apply geo_jac_is_jacobian; assumption.
Qed.

(* with a well-formed J_G: J_F (J_G h) = (J_F J_G) h, the matrix whose transpose Model.gradient applies (gradient_chain_rule) *)
Lemma jacobian_product_apply m (JF JG : mat) h : wf_mat m JG -> length h = m ->
  qmatvec JF (qmatvec JG h) = qmatvec (qmatmul m JF JG) h.
Proof. intros HG Hh. symmetry. apply matvec_matmul; assumption. Qed.
