(* Extended floats for accept/reject and guard logic: NaN, -inf, +inf, finite rationals, with
   IEEE comparison semantics (every comparison involving NaN is false) and Python's builtin
   min/max (which return their FIRST argument unless the second compares strictly smaller/larger). *)
From CV Require Import Base.Tac.
From Coq Require Import QArith.

Inductive ext := NaN | NInf | PInf | Fin (q : Q).

Definition is_nan (a : ext) : bool := match a with NaN => true | _ => false end.
Definition is_inf (a : ext) : bool := match a with NInf | PInf => true | _ => false end.
Definition is_fin (a : ext) : bool := match a with Fin _ => true | _ => false end.

Definition ext_le (a b : ext) : bool :=
  match a, b with
  | NaN, _ | _, NaN => false
  | NInf, _ => true
  | _, PInf => true
  | PInf, _ => false
  | _, NInf => false
  | Fin x, Fin y => Qle_bool x y
  end.

Definition ext_lt (a b : ext) : bool :=
  match a, b with
  | NaN, _ | _, NaN => false
  | NInf, NInf => false
  | PInf, PInf => false
  | NInf, _ => true
  | _, PInf => true
  | PInf, _ => false
  | _, NInf => false
  | Fin x, Fin y => negb (Qle_bool y x)
  end.

Definition ext_ge a b := ext_le b a.
Definition ext_gt a b := ext_lt b a.

Definition ext_eqb (a b : ext) : bool :=      (* structural, NaN = NaN: for comparing observations *)
  match a, b with
  | NaN, NaN | NInf, NInf | PInf, PInf => true
  | Fin x, Fin y => Qeq_bool x y
  | _, _ => false
  end.

Definition ext_add (a b : ext) : ext :=
  match a, b with
  | NaN, _ | _, NaN => NaN
  | PInf, NInf | NInf, PInf => NaN
  | PInf, _ | _, PInf => PInf
  | NInf, _ | _, NInf => NInf
  | Fin x, Fin y => Fin (x + y)
  end.

Definition ext_opp (a : ext) : ext :=
  match a with NaN => NaN | PInf => NInf | NInf => PInf | Fin x => Fin (- x) end.

Definition ext_sub (a b : ext) : ext := ext_add a (ext_opp b).

(* Python: min(a, b) = b if b < a else a ;  max(a, b) = b if b > a else a *)
Definition pymin (a b : ext) : ext := if ext_lt b a then b else a.
Definition pymax (a b : ext) : ext := if ext_lt a b then b else a.
(* numpy: np.minimum / np.maximum propagate NaN *)
Definition npmin (a b : ext) : ext := if is_nan a || is_nan b then NaN else if ext_lt b a then b else a.

Lemma ext_le_nan_l a : ext_le NaN a = false. Proof. reflexivity. Qed.
Lemma ext_le_nan_r a : ext_le a NaN = false. Proof. destruct a; reflexivity. Qed.
Lemma pymin_zero_nan : pymin (Fin 0) NaN = Fin 0. Proof. reflexivity. Qed.
