(* C08 -- invariance of the transition under an additive constant of the log-density (lesson L26): if the Hamiltonian,
   the log-density and the slice variable are all shifted by the same finite constant c, BuildTree, the doubling loop and
   the whole transition are, outcome by outcome and probability by probability, the same programs.  (The slice variable
   is H0 - Exp(1), so shifting the log-density shifts it by the same constant.) *)
From CV Require Import Base.Tac Base.Ext Model.C08_NUTS Proofs.C08_Prog Proofs.C08_Sim.
From Coq Require Import QArith Lqa.

Definition shift (c : Q) (a : ext) : ext := ext_add a (Fin c).

Lemma Qle_bool_shift a b c : Qle_bool (a + c) (b + c) = Qle_bool a b.
Proof.
  destruct (Qle_bool a b) eqn:E.
  - apply Qle_bool_iff. apply Qle_bool_iff in E. lra.
  - destruct (Qle_bool (a + c) (b + c)) eqn:E2; [|reflexivity].
    apply Qle_bool_iff in E2. assert (a <= b) by lra. apply Qle_bool_iff in H. congruence.
Qed.

Lemma ext_le_shift c a b : ext_le (shift c a) (shift c b) = ext_le a b.
Proof. destruct a, b; cbn; try reflexivity. apply Qle_bool_shift. Qed.

Lemma ext_lt_shift_delta c a b : ext_lt (shift c a) (ext_add (Fin 1000) (shift c b)) = ext_lt a (ext_add (Fin 1000) b).
Proof.
  destruct a, b; cbn; try reflexivity. f_equal.
  destruct (Qle_bool (1000 + q0) q) eqn:E.
  - apply Qle_bool_iff. apply Qle_bool_iff in E. lra.
  - destruct (Qle_bool (1000 + (q0 + c)) (q + c)) eqn:E2; [|reflexivity].
    apply Qle_bool_iff in E2. assert (1000 + q0 <= q) by lra. apply Qle_bool_iff in H. congruence.
Qed.

Lemma finite_shift c a : (negb (is_nan (shift c a)) && negb (is_inf (shift c a))) = (negb (is_nan a) && negb (is_inf a)).
Proof. destruct a; reflexivity. Qed.

Section Offset.
Variable S : Type.
Variable leap : bool -> S -> S.
Variable ham lgd : S -> ext.
Variable uturn : S -> S -> bool.
Variable alpha : S -> Q.
Variable logu : ext.
Variable c : Q.

Notation ham' := (fun s => shift c (ham s)).
Notation lgd' := (fun s => shift c (lgd s)).
Notation logu' := (shift c logu).

Lemma in_slice_shift s : in_slice S ham' logu' s = in_slice S ham logu s.
Proof. unfold in_slice. apply ext_le_shift. Qed.

Lemma not_diverged_shift s : not_diverged S ham' logu' s = not_diverged S ham logu s.
Proof. unfold not_diverged, delta_max. apply ext_lt_shift_delta. Qed.

Theorem build_offset : forall j s v,
  peq (build S leap ham' uturn alpha logu' s v j) (build S leap ham uturn alpha logu s v j).
Proof.
  induction j as [|j IH]; intros s v.
  - cbn. rewrite in_slice_shift, not_diverged_shift. reflexivity.
  - cbn [build]. apply peq_bind; [apply IH|]. intros t1. destruct (t_ok t1); [|apply peq_refl].
    apply peq_bind; [apply IH|]. intros t2. apply peq_refl.
Qed.

Theorem doublings_offset guard : forall k st,
  peq (doublings S leap ham' lgd' uturn alpha logu' guard k st) (doublings S leap ham lgd uturn alpha logu guard k st).
Proof.
  induction k as [|k IH]; intros st; cbn [doublings]; [reflexivity|].
  destruct (p_s st); cbn [negb]; [|reflexivity].
  apply peq_bind; [|intros st1; apply IH].
  unfold doubling. cbn [peq]. repeat split. intros v. unfold doubling_dir.
  apply peq_bind; [apply build_offset|]. intros t. destruct (t_ok t); [|apply peq_refl].
  cbn [peq]. repeat split. intros b. unfold finite_logd. rewrite finite_shift. reflexivity.
Qed.

Theorem transition_offset guard md s0 :
  peq (transition S leap ham' lgd' uturn alpha logu' guard md s0) (transition S leap ham lgd uturn alpha logu guard md s0).
Proof. apply doublings_offset. Qed.

Corollary transition_offset_dist guard md s0 (f : top S -> Q) :
  dist (transition S leap ham' lgd' uturn alpha logu' guard md s0) f
  == dist (transition S leap ham lgd uturn alpha logu guard md s0) f.
Proof. apply peq_dist, transition_offset. Qed.
End Offset.
