(* C08 -- The No-U-Turn sampler leaves its target invariant: FINITE STATE SPACE, THE REAL SLICE VARIABLE log u = H0 - Exp(1),
   TARGET e^H.  Over the classical reals (Coquelicot).  Property theorems only. *)
From CV Require Import Base.Tac Base.Cmp Base.Ext Model.C08_NUTS.
From CV Require Import Proofs.C08_Prog Proofs.C08_Closed Proofs.C08_Finite Proofs.C08_RealMix.
From Coq Require Import QArith Qreals Reals.
From Coquelicot Require Import Coquelicot.
Local Open Scope R_scope.

(* S: any type with a duplicate-free complete list of states and decidable equality; leap: its two directions undo each
   other; the Hamiltonian is finite everywhere, ham s = Fin (hq s), and bs lists its values in increasing order.
   The slice variable of a step from s is log u = H(s) - E, E ~ Exp(1).  The transition sees log u only through the class
   (b_(j-1), b_j] it falls in (C08_slice_level_classes; class 0 is (-oo, b_0]); the representative of class j is b_j and
   its mass under e^t dt is e^b_j - e^b_(j-1): exp_levels bs.  The probability of class j given s is
     w(s, j) = [b_j <= H(s)] (e^b_j - e^b_(j-1)) / e^H(s) = F(H(s) - b_(j-1)) - F(H(s) - b_j),  F c = 1 - e^-c,
   F the distribution function of Exp(1) -- the integral of the density e^-e (first three conjuncts).  One NUTS step at
   fixed momentum is  T(s,k) = sum_j w(s,j) P_j(s -> k),  P_j the law of the complete transition at level b_j (rational,
   embedded by Q2R).  Then: the w(s,.) are non-negative and sum to 1, the layer cake is e^H, T is a Markov kernel,
   e^H T = e^H, and started from e^H the law after ANY number of steps (a refreshment kernel preserving e^H, then T) is e^H
   -- for every max_depth, every U-turn predicate, both samplers (finite log-density).
   _partial with respect to the property text; what is still missing, precisely: (a) the state space is finite here: on
   R^2d the sum over states becomes an integral over orbits (the per-orbit statement C08_orbit_stationary_alldepth and
   volume preservation C08_leapfrog_volume are proved, their combination by Fubini is not); (b) that the integral over E of
   P_(H(s)-E)(s -> k) e^-E equals the sum over classes used here is the integral of a step function (the constancy on classes
   is C08_slice_level_classes, the class probabilities are the third conjunct); (c) momentum resampling enters as a
   hypothesis on the refreshment kernel (C08_momentum_refresh_preserves discharges it on product spaces). *)
Theorem C08_finite_space_exp_target_invariant_partial :
  forall (S : Type) (leap : bool -> S -> S), (forall v s, leap (negb v) (leap v s) = s) ->
  forall (eqb : S -> S -> bool), (forall a b, eqb a b = true <-> a = b) ->
  forall (states : list S), NoDup states -> (forall s, In s states) ->
  forall (ham lgd : S -> ext) (uturn : S -> S -> bool) (alpha : S -> Q) (guard : bool),
  guard = false \/ (forall s, finite_logd S lgd s = true) ->
  forall (hq : S -> Q), (forall s, ham s = Fin (hq s)) ->
  forall (bs : list Q), incr bs -> (forall s, In (hq s) bs) ->
  forall (max_depth : nat),
  let levels := exp_levels bs in
  let w := wcls S ham hq in
  let T := TE S leap eqb ham lgd uturn alpha guard hq bs max_depth in
  let piE := fun s => exp (Q2R (hq s)) in
  (forall c, is_RInt (fun e => exp (- e)) 0 c (1 - exp (- c))) /\
  (forall prev b r, lv_from prev (b :: r) = (Fin b, exp (Q2R b) - prev) :: lv_from (exp (Q2R b)) r) /\
  (forall a b h, (exp b - exp a) / exp h = (1 - exp (- (h - a))) - (1 - exp (- (h - b))) /\
                 (exp b - 0) / exp h = 1 - (1 - exp (- (h - b)))) /\
  (forall s lv, w s lv = snd lv * (if in_slice S ham (fst lv) s then 1 else 0) / piE s) /\
  (forall s lv, In lv levels -> 0 <= w s lv) /\
  (forall s, rsum (w s) levels = 1) /\
  (forall s, rsum (fun lv => snd lv * (if in_slice S ham (fst lv) s then 1 else 0)) levels = piE s) /\
  (forall s k, T s k = rsum (fun lv => w s lv * Q2R (C08_NUTS.dist (transition S leap ham lgd uturn alpha (fst lv) guard max_depth s)
                                                                (fun tp => if eqb (p_cur tp) k then 1%Q else 0%Q))) levels) /\
  (forall s, rsum (fun k => T s k) states = 1) /\
  (forall k, rsum (fun s => piE s * T s k) states = piE k) /\
  (forall Rk : S -> S -> R, (forall s', rsum (fun s => piE s * Rk s s') states = piE s') ->
     forall n k, pushR S states Rk T piE n k = piE k).
Proof.
  intros S leap Hb eqb Heq states ND Hall ham lgd uturn alpha guard Hf hq Hh bs Hi Hbs md levels w T piE.
  split; [exact exp1_cdf|]. split; [reflexivity|]. split; [intros a b h; split; [apply class_prob | apply class_prob_low]|].
  split; [reflexivity|]. split; [intros s lv; exact (wcls_nonneg S ham hq bs Hi s lv)|].
  split; [exact (wcls_sum S ham hq Hh bs Hi Hbs)|]. split; [exact (piR_exp S ham hq Hh bs Hi Hbs)|].
  split; [reflexivity|].
  split; [exact (TE_stochastic S leap eqb Heq states ND Hall ham lgd uturn alpha guard hq Hh bs Hi Hbs md)|].
  split; [exact (TE_invariant S leap Hb eqb Heq states ND Hall ham lgd uturn alpha guard Hf hq Hh bs Hi Hbs md)|].
  intros Rk HR n k.
  exact (exp_chain_invariant S leap Hb eqb Heq states ND Hall ham lgd uturn alpha guard Hf hq Hh bs Hi Hbs md Rk HR n k).
Qed.
Print Assumptions C08_finite_space_exp_target_invariant_partial.

(* the hypotheses are satisfiable: the three-state orbit of C08_finite_space_example, Hamiltonians 0, -1, -3, bs = [-3; -1; 0] *)
Example C08_exp_target_example :
  let ham := fun s : option bool => match s with None => Fin 0 | Some true => Fin (-1 # 1) | Some false => Fin (-3 # 1) end in
  let hq := fun s : option bool => match s with None => 0%Q | Some true => (-1 # 1)%Q | Some false => (-3 # 1)%Q end in
  let bs := [(-3 # 1)%Q; (-1 # 1)%Q; 0%Q] in
  (forall s, ham s = Fin (hq s)) /\ incr bs /\ (forall s, In (hq s) bs) /\ (forall s, finite_logd (option bool) ham s = true).
Proof.
  cbv zeta. split; [intros [[]|]; reflexivity|]. split.
  - cbn. repeat split; intros c Hc; repeat (destruct Hc as [<- | Hc]; [reflexivity|]); destruct Hc.
  - split; intros [[]|]; cbn; auto.
Qed.
