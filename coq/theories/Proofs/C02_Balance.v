(* C02 -- detailed balance and invariance of Metropolis-Hastings kernels over Q (any state type, any finite
   state space), composition of invariant kernels, and the prior-reversibility identity behind pCN. *)
From CV Require Import Base.Tac.
From Coq Require Import QArith Qabs Setoid Morphisms Field.
Local Open Scope Q_scope.

(* ============================================================================================
   1. the MH acceptance probability and detailed balance, for every pair of states
   ============================================================================================ *)
Definition qmin (a b : Q) : Q := if Qle_bool a b then a else b.

Lemma qmin_l a b : a <= b -> qmin a b == a.
Proof. intro H. unfold qmin. apply Qle_bool_iff in H. rewrite H. reflexivity. Qed.

Lemma qmin_r a b : b <= a -> qmin a b == b.
Proof.
  intro H. unfold qmin. destruct (Qle_bool a b) eqn:E; [|reflexivity].
  apply Qle_bool_iff in E. apply Qle_antisym; assumption.
Qed.

Lemma Qpos_neq0 a : 0 < a -> ~ a == 0.
Proof. intros H E. apply Qlt_not_eq in H. apply H. symmetry. exact E. Qed.

Section MH.
Variable A : Type.
Variable pi : A -> Q.               (* target density (unnormalised) *)
Variable q : A -> A -> Q.           (* q x y : density of proposing y from x *)
Hypothesis pi_pos : forall x, 0 < pi x.
Hypothesis q_pos : forall x y, 0 < q x y.

Definition alpha (x y : A) : Q := qmin 1 (pi y * q y x / (pi x * q x y)).

Lemma flow_pos x y : 0 < pi x * q x y.
Proof. apply Qmult_lt_0_compat; [apply pi_pos | apply q_pos]. Qed.

Lemma alpha_range x y : 0 < alpha x y /\ alpha x y <= 1.
Proof.
  unfold alpha, qmin. destruct (Qle_bool 1 _) eqn:E.
  - split; [reflexivity | apply Qle_refl].
  - split.
    + apply Qlt_shift_div_l; [apply flow_pos|]. rewrite Qmult_0_l. apply flow_pos.
    + destruct (Qlt_le_dec 1 (pi y * q y x / (pi x * q x y))) as [H|H]; [|exact H].
      apply Qlt_le_weak in H. apply Qle_bool_iff in H. congruence.
Qed.

(* pi(x) q(x,y) alpha(x,y) = pi(y) q(y,x) alpha(y,x) *)
Theorem detailed_balance x y :
  pi x * q x y * alpha x y == pi y * q y x * alpha y x.
Proof.
  pose proof (flow_pos x y) as Fxy. pose proof (flow_pos y x) as Fyx.
  set (a := pi x * q x y) in *. set (b := pi y * q y x) in *.
  unfold alpha. fold a b.
  assert (Na : ~ a == 0) by (apply Qpos_neq0; exact Fxy).
  assert (Nb : ~ b == 0) by (apply Qpos_neq0; exact Fyx).
  destruct (Qlt_le_dec a b) as [H|H].
  - (* a < b : alpha x y = 1, alpha y x = a / b *)
    rewrite (qmin_l 1 (b / a)).
    + rewrite (qmin_r 1 (a / b)).
      * field. exact Nb.
      * apply Qle_shift_div_r; [exact Fyx|]. rewrite Qmult_1_l. apply Qlt_le_weak. exact H.
    + apply Qle_shift_div_l; [exact Fxy|]. rewrite Qmult_1_l. apply Qlt_le_weak. exact H.
  - (* b <= a : alpha x y = b / a, alpha y x = 1 *)
    rewrite (qmin_r 1 (b / a)).
    + rewrite (qmin_l 1 (a / b)).
      * field. exact Na.
      * apply Qle_shift_div_l; [exact Fyx|]. rewrite Qmult_1_l. exact H.
    + apply Qle_shift_div_r; [exact Fxy|]. rewrite Qmult_1_l. exact H.
Qed.

(* symmetric proposal: the ratio is pi(y)/pi(x) *)
Lemma alpha_symmetric x y : q x y == q y x -> alpha x y == qmin 1 (pi y / pi x).
Proof.
  intro H. unfold alpha.
  assert (E : pi y * q y x / (pi x * q x y) == pi y / pi x).
  { rewrite H. field. split; apply Qpos_neq0; first [apply q_pos | apply pi_pos]. }
  unfold qmin. destruct (Qle_bool 1 (pi y * q y x / (pi x * q x y))) eqn:E1;
    destruct (Qle_bool 1 (pi y / pi x)) eqn:E2; try reflexivity.
  - apply Qle_bool_iff in E1. rewrite E in E1. apply Qle_bool_iff in E1. congruence.
  - apply Qle_bool_iff in E2. rewrite <- E in E2. apply Qle_bool_iff in E2. congruence.
  - exact E.
Qed.
End MH.

(* ============================================================================================
   2. finite sums
   ============================================================================================ *)
Section Sums.
Variable A : Type.

Fixpoint sumQ (f : A -> Q) (l : list A) : Q :=
  match l with [] => 0 | x :: r => f x + sumQ f r end.

Lemma sumQ_ext_in f g l : (forall x, In x l -> f x == g x) -> sumQ f l == sumQ g l.
Proof.
  induction l as [|x r IH]; intro H; cbn; [reflexivity|].
  rewrite (H x (or_introl eq_refl)), IH; [reflexivity|]. intros y Hy. apply H. right. exact Hy.
Qed.

Lemma sumQ_plus f g l : sumQ (fun x => f x + g x) l == sumQ f l + sumQ g l.
Proof. induction l as [|x r IH]; cbn; [reflexivity|]. rewrite IH. ring. Qed.

Lemma sumQ_scal c f l : sumQ (fun x => c * f x) l == c * sumQ f l.
Proof. induction l as [|x r IH]; cbn; [ring|]. rewrite IH. ring. Qed.

Lemma sumQ_scal_r c f l : sumQ (fun x => f x * c) l == sumQ f l * c.
Proof. induction l as [|x r IH]; cbn; [ring|]. rewrite IH. ring. Qed.

Lemma sumQ_zero l : sumQ (fun _ => 0) l == 0.
Proof. induction l as [|x r IH]; cbn; [reflexivity|]. rewrite IH. ring. Qed.

Lemma sumQ_swap (f : A -> A -> Q) l1 l2 :
  sumQ (fun x => sumQ (fun y => f x y) l2) l1 == sumQ (fun y => sumQ (fun x => f x y) l1) l2.
Proof.
  induction l1 as [|x r IH]; cbn.
  - symmetry. apply sumQ_zero.
  - rewrite IH. symmetry. apply sumQ_plus.
Qed.

Variable eqb : A -> A -> bool.
Hypothesis eqb_spec : forall x y, eqb x y = true <-> x = y.

Lemma sumQ_indicator_out x c l : ~ In x l -> sumQ (fun y => if eqb x y then c else 0) l == 0.
Proof.
  induction l as [|z r IH]; intro H; cbn; [reflexivity|].
  destruct (eqb x z) eqn:E.
  - apply eqb_spec in E. subst. exfalso. apply H. left. reflexivity.
  - rewrite IH; [ring|]. intro Hi. apply H. right. exact Hi.
Qed.

Lemma sumQ_indicator x c l : NoDup l -> In x l -> sumQ (fun y => if eqb x y then c else 0) l == c.
Proof.
  induction l as [|z r IH]; intros Hn Hi; [destruct Hi|]. cbn.
  inversion Hn as [|? ? Hz Hr]; subst.
  destruct (eqb x z) eqn:E.
  - apply eqb_spec in E. subst. rewrite sumQ_indicator_out by exact Hz. ring.
  - destruct Hi as [->|Hi].
    + assert (eqb x x = true) by (apply eqb_spec; reflexivity). congruence.
    + rewrite IH by assumption. ring.
Qed.

(* ============================================================================================
   3. kernels on a finite state space S
   ============================================================================================ *)
Variable S : list A.
Hypothesis S_nodup : NoDup S.

Definition stochastic (K : A -> A -> Q) : Prop := forall x, In x S -> sumQ (K x) S == 1.
Definition invariant (pi : A -> Q) (K : A -> A -> Q) : Prop :=
  forall y, In y S -> sumQ (fun x => pi x * K x y) S == pi y.
Definition reversible (pi : A -> Q) (K : A -> A -> Q) : Prop :=
  forall x y, pi x * K x y == pi y * K y x.

(* detailed balance + row sums one  =>  pi K = pi *)
Theorem reversible_invariant pi K : reversible pi K -> stochastic K -> invariant pi K.
Proof.
  intros Hr Hs y Hy.
  transitivity (sumQ (fun x => pi y * K y x) S).
  { apply sumQ_ext_in. intros x _. apply Hr. }
  transitivity (pi y * sumQ (K y) S).
  { apply (sumQ_scal (pi y) (K y)). }
  rewrite (Hs y Hy). ring.
Qed.

(* composition (one kernel after the other) of invariant kernels is invariant *)
Definition compose (K1 K2 : A -> A -> Q) (x z : A) : Q := sumQ (fun y => K1 x y * K2 y z) S.

Theorem compose_invariant pi K1 K2 : invariant pi K1 -> invariant pi K2 -> invariant pi (compose K1 K2).
Proof.
  intros H1 H2 z Hz. unfold compose.
  transitivity (sumQ (fun x => sumQ (fun y => pi x * K1 x y * K2 y z) S) S).
  { apply sumQ_ext_in. intros x _.
    transitivity (sumQ (fun y => pi x * (K1 x y * K2 y z)) S).
    { symmetry. apply (sumQ_scal (pi x) (fun y => K1 x y * K2 y z)). }
    apply sumQ_ext_in. intros; ring. }
  transitivity (sumQ (fun y => sumQ (fun x => pi x * K1 x y * K2 y z) S) S).
  { apply (sumQ_swap (fun x y => pi x * K1 x y * K2 y z)). }
  transitivity (sumQ (fun y => pi y * K2 y z) S); [|apply H2; exact Hz].
  apply sumQ_ext_in. intros y Hy.
  transitivity (sumQ (fun x => pi x * K1 x y) S * K2 y z).
  { apply (sumQ_scal_r (K2 y z) (fun x => pi x * K1 x y)). }
  rewrite (H1 y Hy). reflexivity.
Qed.

Theorem compose_stochastic K1 K2 : stochastic K1 -> stochastic K2 -> stochastic (compose K1 K2).
Proof.
  intros H1 H2 x Hx. unfold compose.
  transitivity (sumQ (fun y => sumQ (fun z => K1 x y * K2 y z) S) S).
  { apply (sumQ_swap (fun z y => K1 x y * K2 y z)). }
  transitivity (sumQ (K1 x) S); [|apply H1; exact Hx].
  apply sumQ_ext_in. intros y Hy.
  transitivity (K1 x y * sumQ (K2 y) S).
  { apply (sumQ_scal (K1 x y) (K2 y)). }
  rewrite (H2 y Hy). ring.
Qed.

(* a sweep over any number of kernels (CWMH: one per coordinate) *)
Definition ident (x y : A) : Q := if eqb x y then 1 else 0.

Lemma sumQ_pick (f : A -> Q) y l : NoDup l -> In y l -> sumQ (fun x => f x * ident x y) l == f y.
Proof.
  unfold ident. induction l as [|z r IH]; intros Hn Hi; [destruct Hi|]. cbn.
  inversion Hn as [|? ? Hz Hr]; subst.
  destruct (eqb z y) eqn:E.
  - apply eqb_spec in E. subst z.
    assert (Z0 : sumQ (fun x => f x * (if eqb x y then 1 else 0)) r == 0).
    { clear IH Hn Hi Hr. induction r as [|w r IH]; cbn; [reflexivity|].
      destruct (eqb w y) eqn:E2.
      - apply eqb_spec in E2. subst. exfalso. apply Hz. left. reflexivity.
      - rewrite IH; [ring|]. intro Hi. apply Hz. right. exact Hi. }
    rewrite Z0. ring.
  - destruct Hi as [->|Hi].
    + assert (eqb y y = true) by (apply eqb_spec; reflexivity). congruence.
    + rewrite IH by assumption. ring.
Qed.

Theorem ident_invariant pi : invariant pi ident.
Proof. intros y Hy. apply (sumQ_pick pi y S S_nodup Hy). Qed.

Fixpoint compose_list (Ks : list (A -> A -> Q)) : A -> A -> Q :=
  match Ks with [] => ident | K :: r => compose K (compose_list r) end.

Theorem compose_list_invariant pi Ks : Forall (invariant pi) Ks -> invariant pi (compose_list Ks).
Proof.
  induction Ks as [|K r IH]; intro H; cbn [compose_list].
  - apply ident_invariant.
  - inversion H; subst. apply compose_invariant; [assumption | apply IH; assumption].
Qed.

(* the Metropolis-Hastings kernel with its rejection mass *)
Variable pi : A -> Q.
Variable q : A -> A -> Q.
Hypothesis pi_pos : forall x, 0 < pi x.
Hypothesis q_pos : forall x y, 0 < q x y.
Hypothesis q_stochastic : stochastic q.

Definition rej (x : A) : Q := sumQ (fun z => q x z * (1 - alpha A pi q x z)) S.
Definition mh_kernel (x y : A) : Q := q x y * alpha A pi q x y + (if eqb x y then rej x else 0).

Theorem mh_kernel_stochastic : stochastic mh_kernel.
Proof.
  intros x Hx.
  transitivity (sumQ (fun y => q x y * alpha A pi q x y) S + sumQ (fun y => if eqb x y then rej x else 0) S).
  { apply (sumQ_plus (fun y => q x y * alpha A pi q x y) (fun y => if eqb x y then rej x else 0)). }
  rewrite (sumQ_indicator x (rej x) S S_nodup Hx). unfold rej.
  transitivity (sumQ (fun y => q x y * alpha A pi q x y + q x y * (1 - alpha A pi q x y)) S).
  { symmetry. apply (sumQ_plus (fun y => q x y * alpha A pi q x y) (fun y => q x y * (1 - alpha A pi q x y))). }
  transitivity (sumQ (q x) S); [|apply q_stochastic; exact Hx].
  apply sumQ_ext_in. intros; ring.
Qed.

Theorem mh_kernel_reversible : reversible pi mh_kernel.
Proof.
  intros x y. unfold mh_kernel.
  destruct (eqb x y) eqn:E.
  - pose proof E as E0. apply eqb_spec in E0. subst y. rewrite E. reflexivity.
  - assert (E' : eqb y x = false).
    { destruct (eqb y x) eqn:E2; [|reflexivity]. apply eqb_spec in E2. subst.
      assert (eqb x x = true) by (apply eqb_spec; reflexivity). congruence. }
    rewrite E'. pose proof (detailed_balance A pi q pi_pos q_pos x y) as D.
    setoid_replace (pi x * (q x y * alpha A pi q x y + 0)) with (pi x * q x y * alpha A pi q x y) by ring.
    setoid_replace (pi y * (q y x * alpha A pi q y x + 0)) with (pi y * q y x * alpha A pi q y x) by ring.
    exact D.
Qed.

Theorem mh_kernel_invariant : invariant pi mh_kernel.
Proof. apply reversible_invariant; [apply mh_kernel_reversible | apply mh_kernel_stochastic]. Qed.
End Sums.

(* ============================================================================================
   4. pCN: prior reversibility of the Crank-Nicolson proposal
   ============================================================================================ *)
Section PCN.
Variable V : Type.
Variable B : V -> V -> Q.                          (* the prior precision as a bilinear form *)
Variable lin : Q -> V -> Q -> V -> V.              (* lin a u b v = a u + b v *)
Hypothesis B_sym : forall u v, B u v == B v u.
Hypothesis B_lin : forall a u b v w, B (lin a u b v) w == a * B u w + b * B v w.

Lemma B_lin_r a u b v w : B w (lin a u b v) == a * B w u + b * B w v.
Proof. rewrite B_sym, B_lin, (B_sym u w), (B_sym v w). reflexivity. Qed.

(* residual of the proposal: x' - a x *)
Definition res (a : Q) (x x' : V) : V := lin 1 x' (- a) x.

Lemma B_res a x x' : B (res a x x') (res a x x') == B x' x' - 2 * a * B x x' + a * a * B x x.
Proof. unfold res. rewrite B_lin, !B_lin_r, (B_sym x' x). ring. Qed.

(* -2 log [ prior(x) q(x'|x) ]  up to constants, for x' | x ~ N(a x, s^2 C), prior N(0, C) *)
Definition energy (a s : Q) (x x' : V) : Q := B x x + B (res a x x') (res a x x') / (s * s).

Theorem pcn_energy_symmetric a s x x' :
  a * a + s * s == 1 -> ~ s == 0 -> energy a s x x' == energy a s x' x.
Proof.
  intros H Hs. unfold energy. rewrite !B_res, (B_sym x' x).
  assert (Ha : a * a == 1 - s * s) by (rewrite <- H; ring).
  setoid_replace (B x x + (B x' x' - 2 * a * B x x' + a * a * B x x) / (s * s))
    with ((B x x + B x' x' - 2 * a * B x x') / (s * s)).
  2:{ rewrite Ha. field. exact Hs. }
  setoid_replace (B x' x' + (B x x - 2 * a * B x x' + a * a * B x' x') / (s * s))
    with ((B x x + B x' x' - 2 * a * B x x') / (s * s)).
  2:{ rewrite Ha. field. exact Hs. }
  reflexivity.
Qed.

(* hence, for a ZERO-MEAN Gaussian prior, the full MH log-ratio of the proposal used
   [loglik(x') + logprior(x') + log q(x|x')] - [loglik(x) + logprior(x) + log q(x'|x)]  is the likelihood-only ratio *)
Definition log_prior (x : V) : Q := - (1 # 2) * B x x.
Definition log_q (a s : Q) (x x' : V) : Q := - (1 # 2) * (B (res a x x') (res a x x') / (s * s)).

Theorem pcn_ratio_is_MH a s x x' (l l' : Q) :
  a * a + s * s == 1 -> ~ s == 0 ->
  (l' + log_prior x' + log_q a s x' x) - (l + log_prior x + log_q a s x x') == l' - l.
Proof.
  intros H Hs. pose proof (pcn_energy_symmetric a s x x' H Hs) as E. unfold energy in E.
  unfold log_prior, log_q.
  setoid_replace (l' + - (1 # 2) * B x' x' + - (1 # 2) * (B (res a x' x) (res a x' x) / (s * s))
                  - (l + - (1 # 2) * B x x + - (1 # 2) * (B (res a x x') (res a x x') / (s * s))))
    with (l' - l + (1 # 2) * ((B x x + B (res a x x') (res a x x') / (s * s))
                              - (B x' x' + B (res a x' x) (res a x' x) / (s * s)))) by ring.
  rewrite E. ring.
Qed.

(* prior mean m, CENTRED proposal  x' = m + a (x - m) + s (xi - m):  the same identity in the shifted variable *)
Variable m : V.
Definition sh (x : V) : V := lin 1 x (- (1)) m.
Definition log_prior_m (x : V) : Q := - (1 # 2) * B (sh x) (sh x).
Definition log_q_centred (a s : Q) (x x' : V) : Q := log_q a s (sh x) (sh x').

Theorem pcn_centred_ratio_is_MH a s x x' (l l' : Q) :
  a * a + s * s == 1 -> ~ s == 0 ->
  (l' + log_prior_m x' + log_q_centred a s x' x) - (l + log_prior_m x + log_q_centred a s x x') == l' - l.
Proof. intros H Hs. exact (pcn_ratio_is_MH a s (sh x) (sh x') l l' H Hs). Qed.
End PCN.

(* ---- instances ---------------------------------------------------------------------------- *)
(* one dimension: V = Q, B u v = p u v *)
Definition lin1 (a u b v : Q) : Q := a * u + b * v.
Definition B1 (p u v : Q) : Q := p * u * v.
Lemma B1_sym p u v : B1 p u v == B1 p v u. Proof. unfold B1. ring. Qed.
Lemma B1_lin p a u b v w : B1 p (lin1 a u b v) w == a * B1 p u w + b * B1 p v w.
Proof. unfold B1, lin1. ring. Qed.

(* any dimension n, diagonal precision p_0..p_{n-1}: vectors as index functions *)
Definition linF (a : Q) (u : nat -> Q) (b : Q) (v : nat -> Q) : nat -> Q := fun i => a * u i + b * v i.
Fixpoint BF (p : nat -> Q) (n : nat) (u v : nat -> Q) : Q :=
  match n with O => 0 | S k => BF p k u v + p k * u k * v k end.
Lemma BF_sym p n u v : BF p n u v == BF p n v u.
Proof. induction n as [|k IH]; cbn; [reflexivity|]. rewrite IH. ring. Qed.
Lemma BF_lin p n a u b v w : BF p n (linF a u b v) w == a * BF p n u w + b * BF p n v w.
Proof. induction n as [|k IH]; cbn; [ring|]. rewrite IH. unfold linF. ring. Qed.

(* ---- the UNCENTRED proposal of the unchanged code with prior mean m <> 0 is not prior reversible ---- *)
(* x' | x ~ N(a x + s m, s^2), prior N(m, 1), one dimension *)
Definition log_q_code (a s m x x' : Q) : Q := - (1 # 2) * ((x' - a * x - s * m) * (x' - a * x - s * m) / (s * s)).
Definition log_prior1 (m x : Q) : Q := - (1 # 2) * ((x - m) * (x - m)).

Lemma pcn_uncentred_refuted :
  exists a s m x x' : Q, a * a + s * s == 1 /\ ~ s == 0 /\ ~ m == 0 /\
    ~ (log_prior1 m x' + log_q_code a s m x' x) - (log_prior1 m x + log_q_code a s m x x') == 0.
Proof.
  exists (3 # 5), (4 # 5), 1, 0, 1. repeat split; intro H; vm_compute in H; discriminate.
Qed.

(* ... and with m = 0 the same expression vanishes for all x, x' (consistency with pcn_ratio_is_MH) *)
Lemma pcn_uncentred_zero_mean a s x x' :
  a * a + s * s == 1 -> ~ s == 0 ->
  (log_prior1 0 x' + log_q_code a s 0 x' x) - (log_prior1 0 x + log_q_code a s 0 x x') == 0.
Proof.
  intros H Hs. unfold log_prior1, log_q_code.
  assert (Ha : a * a == 1 - s * s) by (rewrite <- H; ring).
  setoid_replace (- (1 # 2) * ((x' - 0) * (x' - 0)) + - (1 # 2) * ((x - a * x' - s * 0) * (x - a * x' - s * 0) / (s * s))
                  - (- (1 # 2) * ((x - 0) * (x - 0)) + - (1 # 2) * ((x' - a * x - s * 0) * (x' - a * x - s * 0) / (s * s))))
    with ((1 # 2) * ((x * x - x' * x') * (s * s + a * a - 1)) / (s * s)).
  - rewrite Ha. field. exact Hs.
  - field. exact Hs.
Qed.

(* ---- random walk with a proposal distribution of mean mu: x' | x ~ N(x + s mu, s^2) (one dimension) ---- *)
Definition log_q_rw (s mu x x' : Q) : Q := - (1 # 2) * ((x' - x - s * mu) * (x' - x - s * mu) / (s * s)).

(* mean zero: q(x'|x) = q(x|x'), the target ratio alone is the MH ratio *)
Lemma rw_zero_mean_symmetric s x x' : log_q_rw s 0 x x' == log_q_rw s 0 x' x.
Proof.
  unfold log_q_rw.
  setoid_replace ((x' - x - s * 0) * (x' - x - s * 0)) with ((x - x' - s * 0) * (x - x' - s * 0)) by ring.
  reflexivity.
Qed.

(* mean not zero: the proposal is not symmetric although the distribution is flagged is_symmetric *)
Lemma rw_nonzero_mean_refuted :
  exists s mu x x' : Q, ~ s == 0 /\ ~ mu == 0 /\ ~ log_q_rw s mu x' x - log_q_rw s mu x x' == 0.
Proof. exists 1, 1, 0, (3 # 2). repeat split; intro H; vm_compute in H; discriminate. Qed.
