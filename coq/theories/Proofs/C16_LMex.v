(* C16 -- non-vacuity of the LM fixed-point / zero-gain theorems: r(x) = x^2 + 1 at its stationary point x = 0 (J = 0, g = 0, nu = |g| = 0):
   the system is 0 s = 0, the model's solver returns s = 0, the trial point is x itself and the objectives coincide *)
From CV Require Import Base.Tac Base.LinAlg Base.QcLin Model.C16_Solve Proofs.C16_LMdesc.
From Coq Require Import QArith Qcanon.

Lemma lm_fixed_point_nonvacuous_ex :
  let co := qco ((1, 0, 1) :: nil)%Q in
  let st := q_lm_init co (0%Qc :: nil) in
  qmatvec (lm_matrix Qc 0%Qc 1%Qc Qcplus Qcmult 1 (lm_J Qc st) (lm_nu Qc st)) (step_s Qc 0%Qc 1%Qc Qcplus Qcmult q_solve1 1 st) = lm_g Qc st /\
  step_s Qc 0%Qc 1%Qc Qcplus Qcmult q_solve1 1 st = vzero 0%Qc 1 /\
  lm_f Qc st = step_ftemp Qc 0%Qc 1%Qc Qcplus Qcmult Qcminus Qcdiv (quadF co) q_solve1 1 st.
Proof.
  cbn zeta. split; [ | split].
  - vm_compute; first [reflexivity | f_equal; apply Qc_is_canon; reflexivity].
  - vm_compute; first [reflexivity | f_equal; apply Qc_is_canon; reflexivity].
  - apply Qc_is_canon. vm_compute. reflexivity.
Qed.
