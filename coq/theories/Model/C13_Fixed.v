(* C13 -- the geometry maps with two proposed repairs switched on or off:
     sq = true : fixes/C13_squeeze_batch_axis.diff      -- `.squeeze()` replaced by "drop the trailing batch axis iff it has
                 length one" in Continuous2D / KLExpansion / StepExpansion par2fun and fun2par (six sites)
     im = true : fixes/C13_image2d_fun2par_batch.diff   -- Image2D.fun2par reshapes to par_shape+(-1,) in the image's order,
                 keeping the batch axis, instead of ravelling everything
   With both flags false these are the maps of Model/C13_Geom.v (proved: Proofs/C13_Fixed.v).  The generated cases
   evaluate THESE definitions with the flags the harness reads off the tree.  No proofs here. *)
From CV Require Import Base.Tac Base.Cmp Base.QcLin Model.C13_Geom.
From Coq Require Import QArith Qcanon.

(* drop the trailing axis iff it has length one (numpy: a.squeeze(axis=-1) if a.shape[-1] == 1 else a) *)
Definition drop_last1 {A} (a : arr A) : arr A :=
  match rev (shp a) with 1%nat :: r => mkArr (rev r) (dat a) | _ => a end.
Definition sq_arr {A} (sq : bool) (a : arr A) : arr A := if sq then drop_last1 a else squeeze_arr a.

Definition cont2d_par2fun_m (sq : bool) (n1 n2 : nat) (a : arr Qc) : option (arr Qc) :=
  option_map (sq_arr sq) (reshape_tail 0%Qc [n1; n2] OC a).
Definition cont2d_fun2par_m (sq : bool) (n1 n2 : nat) (a : arr Qc) : option (arr Qc) :=
  option_map (sq_arr sq) (reshape_tail 0%Qc [(n1 * n2)%nat] OC a).

Definition image_fun2par_m (im : bool) (r c : nat) (o : C13_Geom.order) (visual : bool) (a : arr Qc) : option (arr Qc) :=
  if im then (if visual then Some a else option_map drop_last1 (reshape_tail 0%Qc [(r * c)%nat] o a))
  else image_fun2par 0%Qc o visual a.

Definition kl_par2fun_m (sq : bool) (idst : list Qc -> list Qc) (N m : nat) (coefs : list Qc) (tau : Qc) (a : arr Qc) : option (arr Qc) :=
  if (m =? 0)%nat then None else
  match batch_in m a with
  | None => None
  | Some k => Some (sq_arr sq (mkArr [N; k] (of_cols 0%Qc N (map (kl_par2fun_col idst N coefs tau) (cols_of 0%Qc m k (dat a))))))
  end.
Definition kl_fun2par_m (sq : bool) (dst : list Qc -> list Qc) (N m : nat) (coefs : list Qc) (tau : Qc) (a : arr Qc) : option (arr Qc) :=
  if (m =? 0)%nat then None else
  match batch_in N a with
  | None => None
  | Some k => Some (sq_arr sq (mkArr [m; k] (of_cols 0%Qc m (map (kl_fun2par_col dst N m coefs tau) (cols_of 0%Qc N k (dat a))))))
  end.

Definition step_par2fun_m (sq : bool) (N : nat) (idx : list (list nat)) (a : arr Qc) : option (arr Qc) :=
  match batch_in (length idx) a with
  | None => None
  | Some k => Some (sq_arr sq (mkArr [N; k] (of_cols 0%Qc N (map (step_par2fun_col N idx) (cols_of 0%Qc (length idx) k (dat a))))))
  end.
Definition step_fun2par_m (sq : bool) (N : nat) (idx : list (list nat)) (p : proj) (a : arr Qc) : option (arr (option Qc)) :=
  match batch_in N a with
  | None => None
  | Some k => match omap_list (step_fun2par_col idx p) (cols_of 0%Qc N k (dat a)) with
              | None => None
              | Some cols => Some (sq_arr sq (mkArr [length idx; k] (of_cols None (length idx) cols)))
              end
  end.

Fixpoint g_par2fun_m (sq : bool) (g : geom) (a : arr Qc) : option (arr Qc) :=
  match g with
  | GCont1D _ | GDiscrete _ => Some a
  | GCont2D n1 n2 => cont2d_par2fun_m sq n1 n2 a
  | GImage r c o v => image_par2fun 0%Qc r c o v a
  | GMapped g' fm _ => option_map (arr_map fm) (g_par2fun_m sq g' a)
  | GMappedLin g' M _ => obind (g_par2fun_m sq g' a) (matmap M)
  | GKL N nm coefs tau _ idstM => kl_par2fun_m sq (qmatvec idstM) N (kl_modes N nm) coefs tau a
  | GStep N idx _ => step_par2fun_m sq N idx a
  end.

Fixpoint g_fun2par_m (sq im : bool) (g : geom) (a : arr Qc) : option (arr Qc) :=
  match g with
  | GCont1D _ | GDiscrete _ => Some a
  | GCont2D n1 n2 => cont2d_fun2par_m sq n1 n2 a
  | GImage r c o v => image_fun2par_m im r c o v a
  | GMapped g' _ fi => match fi with Some f => g_fun2par_m sq im g' (arr_map f a) | None => None end
  | GMappedLin g' _ Mi => match Mi with Some R => obind (matmap R a) (g_fun2par_m sq im g') | None => None end
  | GKL N nm coefs tau dstM _ => kl_fun2par_m sq (qmatvec dstM) N (kl_modes N nm) coefs tau a
  | GStep N idx p =>
      obind (step_fun2par_m sq N idx p a) (fun r => option_map (mkArr (shp r)) (all_some (dat r)))
  end.

Fixpoint g_fun2vec_m (im : bool) (g : geom) (a : arr Qc) : option (arr Qc) :=
  match g with
  | GCont2D _ _ => None
  | GImage r c o v => image_fun2par_m im r c o v a
  | GMapped g' _ _ | GMappedLin g' _ _ => g_fun2vec_m im g' a
  | _ => Some a
  end.

Definition g_fun_shape_m (sq : bool) (g : geom) : option (list nat) :=
  match g with
  | GMapped _ _ _ | GMappedLin _ _ _ => option_map shp (g_par2fun_m sq g (ones [prodn (g_par_shape g)]))
  | _ => g_fun_shape g
  end.
Definition g_funvec_shape_m (sq im : bool) (g : geom) : option (list nat) :=
  match g with
  | GImage r c _ _ => Some [(r * c)%nat]
  | _ => match obind (g_par2fun_m sq g (ones [prodn (g_par_shape g)])) (g_fun2vec_m im g) with
         | Some r => match shp r with [n] => Some [n] | _ => None end
         | None => None
         end
  end.

(* Samples / CUQIarray over the flagged maps (same loops as Model/C13_Geom.v) *)
Definition samples_funvals_m (sq : bool) (g : geom) (S : samples) : option samples :=
  if negb (s_is_par S) && negb (s_is_vec S) then Some S
  else match g_fun_shape_m sq g with
       | None => None
       | Some fs =>
           option_map (fun a => mkS a false (length (shp a) <=? 2)%nat)
                      (convert_all (if s_is_par S then g_par2fun_m sq g else g_vec2fun g) fs (s_arr S))
       end.
Definition samples_vector_m (sq im : bool) (g : geom) (S : samples) : option samples :=
  if s_is_vec S || s_is_par S then Some S
  else match g_funvec_shape_m sq im g with
       | None => None
       | Some vs => option_map (fun a => mkS a (s_is_par S) true)
                               (convert_all (g_fun2vec_m im g) [prodn vs] (s_arr S))
       end.
Definition samples_parameters_m (sq im : bool) (g : geom) (S : samples) : option samples :=
  if s_is_par S then Some S
  else option_map (fun a => mkS a true true)
         (convert_all (if s_is_vec S then (fun v => obind (g_vec2fun g v) (g_fun2par_m sq im g)) else g_fun2par_m sq im g)
                      [prodn (g_par_shape g)] (s_arr S)).

Definition samples_apply_m (sq im : bool) (op : sop) (g : geom) (S : samples) : option samples :=
  match op with Sfunvals => samples_funvals_m sq g S | Svector => samples_vector_m sq im g S | Sparameters => samples_parameters_m sq im g S end.
Fixpoint samples_chain_m (sq im : bool) (ops : list sop) (g : geom) (S : samples) : option samples :=
  match ops with [] => Some S | op :: r => obind (samples_apply_m sq im op g S) (samples_chain_m sq im r g) end.

Definition cuqiarray_funvals_m (sq : bool) (g : geom) (a : arr Qc) (is_par : bool) : option (arr Qc * bool) :=
  if is_par then option_map (fun r => (r, false)) (g_par2fun_m sq g a) else Some (a, false).
Definition cuqiarray_parameters_m (sq im : bool) (g : geom) (a : arr Qc) (is_par : bool) : option (arr Qc * bool) :=
  if is_par then Some (a, true)
  else obind (g_fun2par_m sq im g a) (fun r => if (length (shp r) <=? 1)%nat then Some (r, true) else None).

(* ---------------- checkers for the generated cases ---------------- *)
Definition g_apply_m (sq im : bool) (m : mapname) (g : geom) (a : arr Qc) : option (arr Qc) :=
  match m with Mpar2fun => g_par2fun_m sq g a | Mfun2par => g_fun2par_m sq im g a
             | Mfun2vec => g_fun2vec_m im g a | Mvec2fun => g_vec2fun g a end.
Definition check_map_m (sq im exact : bool) (m : mapname) (g : geom) (input : arr Qc) (observed : option (arr Qc)) : bool :=
  opt_eqb (fun o r => if exact then arr_eqb o r else arr_close o r) observed (g_apply_m sq im m g input).
Definition check_step_fun2par_m (sq : bool) (N : nat) (idx : list (list nat)) (p : proj) (input : arr Qc)
           (observed : option (arr (option Qc))) : bool :=
  opt_eqb arro_close observed (step_fun2par_m sq N idx p input).
Definition check_shapes_m (sq im : bool) (g : geom) (o_par : list nat) (o_pardim : nat) (o_fun : option (list nat))
           (o_fundim : option nat) (o_funvec : option (list nat)) : bool :=
  natl_eqb o_par (g_par_shape g) && (o_pardim =? prodn (g_par_shape g))%nat &&
  opt_eqb natl_eqb o_fun (g_fun_shape_m sq g) && opt_eqb Nat.eqb o_fundim (option_map prodn (g_fun_shape_m sq g)) &&
  opt_eqb natl_eqb o_funvec (g_funvec_shape_m sq im g).
Definition check_samples_m (sq im exact : bool) (ops : list sop) (g : geom) (S : samples) (observed : option samples) : bool :=
  opt_eqb (samples_eqb exact) observed (samples_chain_m sq im ops g S).
Definition check_cuqiarray_m (sq im exact : bool) (to_par : bool) (g : geom) (a : arr Qc) (is_par : bool)
           (observed : option (arr Qc * bool)) : bool :=
  opt_eqb (fun o r => (if exact then arr_eqb (fst o) (fst r) else arr_close (fst o) (fst r)) && Bool.eqb (snd o) (snd r))
          observed (if to_par then cuqiarray_parameters_m sq im g a is_par else cuqiarray_funvals_m sq g a is_par).
