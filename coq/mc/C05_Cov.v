(* C05 -- covariance of an affine image of a standard normal vector, for matrices of every size over
   any field (mathcomp / ssreflect style; logical path CVmc).

   A draw is  s = mu + T e  with  e ~ N(0, I), so  Cov s = T T^T.  What the sampler must achieve is
   Cov s = (S^T S)^-1  where S is the stored square root of the precision (the density is
   exp(-1/2 |S (x - mu)|^2)).  The solver selected by Gaussian._sample returns T with  S_eff T = I. *)
From mathcomp Require Import all_ssreflect all_algebra.
Set Implicit Arguments.
Unset Strict Implicit.
Unset Printing Implicit Defensive.
Import GRing.Theory.
Local Open Scope ring_scope.

Section Cov.
Variable F : fieldType.

Lemma trmx_scale m n (a : F) (A : 'M[F]_(m, n)) : (a *: A)^T = a *: A^T.
Proof. by apply/matrixP=> i j; rewrite !mxE. Qed.

(* S T = I  =>  (S^T S) (T T^T) = I *)
Lemma prec_times_cov n (S T : 'M[F]_n) : S *m T = 1%:M -> (S^T *m S) *m (T *m T^T) = 1%:M.
Proof.
move=> H.
have H' : T *m S = 1%:M by exact: (mulmx1C H).
by rewrite mulmxA -(mulmxA S^T S T) H mulmx1 -trmx_mul H' trmx1.
Qed.

(* ... hence the precision is invertible and the covariance of the draws is its inverse *)
Theorem gaussian_cov n (S T : 'M[F]_n) :
  S *m T = 1%:M -> (S^T *m S) \in unitmx /\ T *m T^T = invmx (S^T *m S).
Proof.
move=> H; have P := prec_times_cov H.
have [U _] := mulmx1_unit P.
split=> //.
by rewrite -[LHS](mulKmx U) P mulmx1.
Qed.

(* the same with the mean: the map e |-> mu + T e sends 0 to mu (offset) and is T on differences *)
Lemma affine_offset n (mu : 'cV[F]_n) (T : 'M[F]_n) : mu + T *m 0 = mu.
Proof. by rewrite mulmx0 addr0. Qed.

Lemma affine_linear n m (mu : 'cV[F]_n) (T : 'M[F]_(n, m)) (e1 e2 : 'cV[F]_m) :
  (mu + T *m e1) - (mu + T *m e2) = T *m (e1 - e2).
Proof. by rewrite mulmxBr opprD addrACA subrr add0r. Qed.

(* GMRF, zero boundary: s = mu + (1/r) U^-1 e with U = L^T, L L^T = P, r^2 = prec:
   with T the read-off map,  r L^T T = I  =>  (prec P) (T T^T) = I *)
Theorem gmrf_zero_cov n (L P T : 'M[F]_n) (r prec : F) :
  L *m L^T = P -> r * r = prec -> (r *: L^T) *m T = 1%:M ->
  (prec *: P) *m (T *m T^T) = 1%:M.
Proof.
move=> HL Hr H.
have E : (r *: L^T)^T *m (r *: L^T) = prec *: P.
  by rewrite trmx_scale trmxK -scalemxAl -scalemxAr scalerA Hr HL.
by rewrite -E; exact: prec_times_cov.
Qed.

(* GMRF, neumann boundary: s = mu + (1/r) (L L^T)^-1 D^T e,  L L^T = P + eps I (regularised), P = D^T D.
   With A = r (L L^T):  A T = D^T  =>  A (T T^T) A^T = D^T D = P, i.e. the covariance is the
   (eps-regularised) generalised inverse of the density's precision: P_eps C P_eps = P / prec. *)
Theorem sandwich_cov n m (A : 'M[F]_n) (T B : 'M[F]_(n, m)) :
  A *m T = B -> A *m (T *m T^T) *m A^T = B *m B^T.
Proof. by move=> H; rewrite mulmxA H -mulmxA -trmx_mul H. Qed.

Theorem gmrf_neumann_cov n m (Pe : 'M[F]_n) (D : 'M[F]_(m, n)) (T : 'M[F]_(n, m)) (r prec : F) :
  r * r = prec -> (r *: Pe) *m T = D^T ->
  (prec *: Pe) *m (T *m T^T) *m Pe^T = D^T *m D.
Proof.
move=> Hr H.
have := sandwich_cov H.
rewrite trmxK trmx_scale -!scalemxAl -scalemxAr scalerA Hr => <-.
by [].
Qed.

(* the defective branch, abstractly: if the solver inverts another matrix S' than the one the density uses,
   the covariance is that of S', and it equals the wanted one only if S'^T S' = S^T S *)
Theorem wrong_matrix_cov n (S S' T : 'M[F]_n) :
  S' *m T = 1%:M -> (S^T *m S) *m (T *m T^T) = 1%:M -> S'^T *m S' = S^T *m S.
Proof.
move=> H H2.
have [_ E] := gaussian_cov H.
have [U _] := mulmx1_unit (prec_times_cov H).
have [U2 _] := mulmx1_unit H2.
have E2 : T *m T^T = invmx (S^T *m S) by rewrite -[LHS](mulKmx U2) H2 mulmx1.
have : invmx (S'^T *m S') = invmx (S^T *m S) by rewrite -E -E2.
by move/(congr1 invmx); rewrite !invmxK.
Qed.

End Cov.
