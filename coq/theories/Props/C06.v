(* C06 -- Linear randomize-then-optimize draws are exact Gaussian posterior draws; the unadjusted Laplace
   sampler draws from its documented local Gaussian.
   Property theorems only: each is closed by `exact <lemma>` and followed by Print Assumptions.
   The theorems of this file hold over EVERY commutative ring (in particular Qc, where the model runs, and R),
   for every size and every number of likelihoods; the part that needs an inverse (offset = posterior mean,
   G G^T = posterior covariance, independence of the current state) is in Props/C06_mc.v (mathcomp). *)
From CV Require Import Base.Tac Base.LinAlg Base.Cmp Base.QcLin Model.C06_RTO Model.C06_FD Model.C06_GMRFop Proofs.C06_FD Proofs.C06_GMRFop
                       Proofs.C06_Lin Proofs.C06_Forms Proofs.C06_UGLA Proofs.C06_History.
From Coq Require Import Ring QArith Qcanon.

Section Ring.
Variable R : Type.
Variables (r0 r1 : R) (radd rmul rsub : R -> R -> R) (ropp : R -> R).
Hypothesis Rth : ring_theory r0 r1 radd rmul rsub ropp (@eq R).

(* The stacked operator used internally has an adjoint that is the exact transpose of its forward action:
   <M(x,1), y> = <x, M(y,2)>, for 1..k likelihoods of any sizes, given each model's own adjointness (C07)
   -- `lik_wf` asks, per likelihood, a square sqrtprec of the data's length and a model with
   <fwd x, y> = <x, adj y> (and adj additive); a matrix-based model satisfies it (second theorem). *)
Theorem C06_adjoint : forall (n : nat) (liks : list (lik R)) (pr : prior R) (x y : list R),
  Forall (lik_wf R r0 radd rmul n) liks -> wf_mat n (p_L pr) -> length x = n ->
  dot r0 radd rmul (M_fwd R r0 radd rmul liks pr x) y = dot r0 radd rmul x (M_adj R r0 radd rmul n liks pr y).
Proof. exact (M_adjoint R r0 r1 radd rmul rsub ropp Rth). Qed.

Theorem C06_matrix_model_wf : forall (n : nat) (A : list (list R)), wf_mat n A ->
  model_wf R r0 radd rmul n (length A) (matrix_model R r0 radd rmul n A).
Proof. exact (matrix_model_wf R r0 r1 radd rmul rsub ropp Rth). Qed.

(* One step with the inner solver run to convergence returns a point of the normal equations
   M^T M x = M^T (b~ + e).  These ARE the linear system of the Gaussian posterior the user specified, perturbed by
   M^T e:   (sum_i A_i^T Lam_i A_i + sum_j P_j) x = sum_i A_i^T Lam_i b_i + sum_j P_j mu_j + M^T e
   for 1..k likelihoods, whenever each sqrtprec the sampler reads is a square root of the corresponding precision
   (`lik_repr`, `prior_repr`) -- whatever square root it is, i.e. for every way of specifying the Gaussians. *)
Theorem C06_normal_equations_model :
  forall (n : nat) (liks : list (lik R)) (pr : prior R) (uls : list (ulik R)) (pfs : list (list (list R) * list R))
         (e x : list R),
  Forall (lik_wf R r0 radd rmul n) liks -> wf_mat n (p_L pr) ->
  Forall2 (lik_repr R r0 radd rmul) liks uls -> prior_repr R r0 radd rmul n pr pfs ->
  length x = n -> length e = length (b_tild R r0 radd rmul liks pr) ->
  (normal_eq R r0 radd rmul n liks pr e x <->
   H_apply R r0 radd rmul n uls pfs x
   = vadd radd (rhs_apply R r0 radd rmul n uls pfs) (M_adj R r0 radd rmul n liks pr e)).
Proof. exact (normal_eq_user R r0 r1 radd rmul rsub ropp Rth). Qed.

(* Input forms agree.  (i) the legacy 5-tuple, the Posterior it builds and a MultipleLikelihoodPosterior with the
   same likelihood give the same (M, b~); *)
Theorem C06_forms_agree_tuple :
  forall (n : nat) (data : list R) (A : list (list R)) (Lsp : spform R) (Pmean : list R) (Psp : spform R),
  let l := mkLik (matrix_model R r0 radd rmul n A) (sqrtprec_from_sqrtprec R r0 (length data) Lsp) data in
  let pr := gaussian_prior R r0 radd rmul n (sqrtprec_from_sqrtprec R r0 n Psp) Pmean in
  of_tuple R r0 radd rmul n data A Lsp Pmean Psp = of_posterior R l pr /\
  of_posterior R l pr = of_mlp R [l] pr /\
  (forall x, M_fwd R r0 radd rmul (fst (of_tuple R r0 radd rmul n data A Lsp Pmean Psp)) (snd (of_tuple R r0 radd rmul n data A Lsp Pmean Psp)) x
             = M_fwd R r0 radd rmul [l] pr x) /\
  b_tild R r0 radd rmul (fst (of_tuple R r0 radd rmul n data A Lsp Pmean Psp)) (snd (of_tuple R r0 radd rmul n data A Lsp Pmean Psp))
  = b_tild R r0 radd rmul [l] pr.
Proof. exact (tuple_is_posterior R r0 radd rmul). Qed.

(* (ii) two configurations whose square roots differ but represent the same user-level Gaussians have the same
   normal operator and the same right-hand side: M^T M and M^T b~ depend on the precisions only; *)
Theorem C06_forms_agree :
  forall (n : nat) (liks : list (lik R)) (pr : prior R) (uls : list (ulik R)) (pfs : list (list (list R) * list R)) (x : list R),
  Forall (lik_wf R r0 radd rmul n) liks -> Forall2 (lik_repr R r0 radd rmul) liks uls ->
  prior_repr R r0 radd rmul n pr pfs -> length x = n ->
  M_adj R r0 radd rmul n liks pr (M_fwd R r0 radd rmul liks pr x) = H_apply R r0 radd rmul n uls pfs x /\
  M_adj R r0 radd rmul n liks pr (b_tild R r0 radd rmul liks pr) = rhs_apply R r0 radd rmul n uls pfs.
Proof.
  intros n liks pr uls pfs x H HR HP Hx.
  rewrite (MtM_code R r0 r1 radd rmul rsub ropp Rth) by exact H.
  rewrite (Mtb_code R r0 r1 radd rmul rsub ropp Rth) by exact H.
  exact (code_is_user R r0 radd rmul n liks pr uls pfs x H HR HP Hx).
Qed.

(* (iii) what each prior family hands over stands for its Gaussian factors: Gaussian (scalar mean broadcast),
   GMRF (accepted iff the mean has length n), JointGaussianSqrtPrec (stacked blocks); a diagonal square root with
   s_i^2 = p_i (scalar and vector input forms) obeys the square-root law. *)
Theorem C06_prior_gaussian : forall (n : nat) (S P : list (list R)) (mean : list R),
  sqrt_law R r0 radd rmul n S P -> length P = n -> length (bcast n mean) = n ->
  prior_repr R r0 radd rmul n (gaussian_prior R r0 radd rmul n S mean) [(P, bcast n mean)].
Proof. exact (gaussian_prior_repr R r0 r1 radd rmul rsub ropp Rth). Qed.

Theorem C06_prior_gmrf : forall (n : nat) (S P : list (list R)) (mean : list R) (pr : prior R),
  gmrf_prior R r0 radd rmul n S mean = Some pr -> sqrt_law R r0 radd rmul n S P -> length P = n ->
  length mean = n /\ prior_repr R r0 radd rmul n pr [(P, mean)].
Proof. exact (gmrf_prior_repr R r0 r1 radd rmul rsub ropp Rth). Qed.

Theorem C06_prior_gmrf_refused : forall (n : nat) (S : list (list R)) (mean : list R),
  gmrf_prior R r0 radd rmul n S mean = None <-> length mean <> n.
Proof. exact (gmrf_prior_refused R r0 radd rmul). Qed.

Theorem C06_prior_joint : forall (n : nat) (blocks pfs : list (list (list R) * list R)),
  Forall2 (block_repr R r0 radd rmul n) blocks pfs ->
  prior_repr R r0 radd rmul n (joint_prior R r0 radd rmul blocks) pfs /\
  wf_mat n (p_L (joint_prior R r0 radd rmul blocks)).
Proof. exact (joint_prior_repr R r0 r1 radd rmul rsub ropp Rth). Qed.

Theorem C06_diag_sqrt_law : forall (s p : list R), Forall2 (fun a b => rmul a a = b) s p ->
  sqrt_law R r0 radd rmul (length s) (diag_of R r0 s) (diag_of R r0 p).
Proof. exact (diag_sqrt_law R r0 r1 radd rmul rsub ropp Rth). Qed.

(* ---------------- UGLA ---------------- *)
(* its stacked operator: flag 2 is the transpose of flag 1 *)
Theorem C06_ugla_adjoint : forall (c : ugla_cfg R) (sw x y : list R),
  ugla_wf R r0 radd rmul c sw -> length x = g_n c ->
  dot r0 radd rmul (ugla_M_fwd R r0 radd rmul c sw x) y = dot r0 radd rmul x (ugla_M_adj R r0 radd rmul c sw y).
Proof. exact (ugla_adjoint R r0 r1 radd rmul rsub ropp Rth). Qed.

(* The step of the DOCUMENTED variant (weights from D (x_k - loc), L2mu scaled like the operator; = the proposed
   repair) solves exactly the normal equations of N(.; precision A^T Lam A + D^T W_k D / scale) centred at loc,
   perturbed by M^T e -- no guard. *)
Theorem C06_ugla_local_gaussian_documented :
  forall (c : ugla_cfg R) (sw : list R) (Lam : list (list R)) (e x : list R),
  ugla_wf R r0 radd rmul c sw -> sqrt_law R r0 radd rmul (length (g_data c)) (g_L1 c) Lam ->
  length x = g_n c -> length e = length (ugla_b_tild R r0 radd rmul UglaDoc c sw) ->
  (ugla_normal_eq R r0 radd rmul UglaDoc c sw e x <->
   ugla_H_doc R r0 radd rmul c Lam sw x
   = vadd radd (ugla_rhs_doc R r0 radd rmul c Lam sw) (ugla_M_adj R r0 radd rmul c sw e)).
Proof. exact (ugla_doc_is_local_gaussian R r0 r1 radd rmul rsub ropp Rth). Qed.

(* The code as it stands does the same GUARDED by D loc = 0 (location 0; constant location under periodic /
   neumann boundary conditions): then the weights it computes from D x_k are those of D (x_k - loc) and its
   unscaled L2 loc vanishes. *)
Theorem C06_ugla_local_gaussian :
  forall (c : ugla_cfg R) (sw : list R) (Lam : list (list R)) (e x xk : list R),
  ugla_wf R r0 radd rmul c sw -> sqrt_law R r0 radd rmul (length (g_data c)) (g_L1 c) Lam ->
  length x = g_n c -> length xk = g_n c -> length e = length (ugla_b_tild R r0 radd rmul UglaCode c sw) ->
  length (bcast (g_n c) (g_loc c)) = g_n c ->
  matvec r0 radd rmul (g_D c) (bcast (g_n c) (g_loc c)) = vzero r0 (length (g_D c)) ->
  matvec r0 radd rmul (g_D c) (ugla_weight_arg R rsub UglaCode (g_n c) (g_loc c) xk)
    = matvec r0 radd rmul (g_D c) (ugla_weight_arg R rsub UglaDoc (g_n c) (g_loc c) xk) /\
  (ugla_normal_eq R r0 radd rmul UglaCode c sw e x <->
   ugla_H_doc R r0 radd rmul c Lam sw x
   = vadd radd (ugla_rhs_doc R r0 radd rmul c Lam sw) (ugla_M_adj R r0 radd rmul c sw e)).
Proof.
  intros c sw Lam e x xk W HL Hx Hxk He Hloc G. split.
  - exact (proj1 (ugla_guard_same R r0 r1 radd rmul rsub ropp Rth c sw xk W Hxk Hloc G)).
  - exact (ugla_code_local_gaussian_guarded R r0 r1 radd rmul rsub ropp Rth c sw Lam e x W HL Hx He Hloc G).
Qed.
(* ---------------- samplers that outlive an in-place re-assignment of a parameter of their target ----------------
   LinearRTO captures L1, L2, L2mu, b_tild at construction.  With the repaired reading (flag 2 from the captured L1) the
   living sampler's flag 2 stays the transpose of its flag 1 whatever was re-assigned: it keeps drawing from the posterior
   at construction (snapshot) -- unguarded. *)
Theorem C06_stale_sampler_adjoint_captured :
  forall (n : nat) (captured live : list (lik R)) (pr : prior R) (x y : list R),
  Forall (lik_wf R r0 radd rmul n) captured -> wf_mat n (p_L pr) -> length x = n ->
  dot r0 radd rmul (stale_M_fwd R r0 radd rmul captured pr x) y
  = dot r0 radd rmul x (stale_M_adj R r0 radd rmul Flag2Captured n captured live pr y).
Proof. exact (stale_adjoint_captured R r0 r1 radd rmul rsub ropp Rth). Qed.

(* The code as it stands re-reads the noise sqrtprec in flag 2: the same holds GUARDED by "no noise parameter was
   re-assigned" (prior, data values, anything else may have been). *)
Theorem C06_stale_sampler_adjoint :
  forall (n : nat) (captured live : list (lik R)) (pr : prior R) (x y : list R),
  Forall (lik_wf R r0 radd rmul n) captured -> wf_mat n (p_L pr) -> length x = n ->
  Forall2 (same_noise R) captured live ->
  dot r0 radd rmul (stale_M_fwd R r0 radd rmul captured pr x) y
  = dot r0 radd rmul x (stale_M_adj R r0 radd rmul Flag2Live n captured live pr y).
Proof. exact (stale_adjoint_live_guarded R r0 r1 radd rmul rsub ropp Rth). Qed.
(* UGLA with the LMRF prior's DOCUMENTED difference operator, built by the model (FirstOrderFiniteDifference, zero /
   neumann / periodic boundary; 1-d on N nodes and 2-d on N x N pixels = vstack([kron(I,D), kron(D,I)])): the operator is well
   shaped for every N, so the local-Gaussian theorem holds with weights certified as sw^4 ((D (x_k - loc))_i^2 + beta) = 1,
   i.e. w_i = 1/sqrt((D (x_k - loc))_i^2 + beta), over the rows of exactly that operator -- in 2-d as in 1-d. *)
Theorem C06_lmrf_diff_op_wf : forall (two_d : bool) (b : bc_kind) (N : nat),
  wf_mat (if two_d then N * N else N)%nat (lmrf_diff_op R r0 r1 rmul ropp two_d b N) /\
  length (lmrf_diff_op R r0 r1 rmul ropp two_d b N)
  = (if two_d then N * fd1_rows b N + fd1_rows b N * N else fd1_rows b N)%nat.
Proof. intros. split; [apply lmrf_diff_op_wf | apply lmrf_diff_op_rows]. Qed.

Theorem C06_ugla_local_gaussian_lmrf :
  forall (two_d : bool) (b : bc_kind) (N : nat) (M : lmodel R) (L1 : list (list R)) (data loc : list R) (rs : R)
         (sw : list R) (Lam : list (list R)) (e x : list R),
  model_wf R r0 radd rmul (if two_d then N * N else N)%nat (length data) M ->
  wf_mat (length data) L1 -> length L1 = length data ->
  length sw = length (lmrf_diff_op R r0 r1 rmul ropp two_d b N) ->
  sqrt_law R r0 radd rmul (length data) L1 Lam ->
  length x = (if two_d then N * N else N)%nat ->
  length e = length (ugla_b_tild R r0 radd rmul UglaDoc (lmrf_cfg R r0 r1 rmul ropp two_d b N M L1 data loc rs) sw) ->
  let c := lmrf_cfg R r0 r1 rmul ropp two_d b N M L1 data loc rs in
  (ugla_normal_eq R r0 radd rmul UglaDoc c sw e x <->
   ugla_H_doc R r0 radd rmul c Lam sw x = vadd radd (ugla_rhs_doc R r0 radd rmul c Lam sw) (ugla_M_adj R r0 radd rmul c sw e)).
Proof. exact (ugla_lmrf_local_gaussian R r0 r1 radd rmul rsub ropp Rth). Qed.

End Ring.

Print Assumptions C06_adjoint.
Print Assumptions C06_matrix_model_wf.
Print Assumptions C06_normal_equations_model.
Print Assumptions C06_forms_agree_tuple.
Print Assumptions C06_forms_agree.
Print Assumptions C06_prior_gaussian.
Print Assumptions C06_prior_gmrf.
Print Assumptions C06_prior_gmrf_refused.
Print Assumptions C06_prior_joint.
Print Assumptions C06_diag_sqrt_law.
Print Assumptions C06_ugla_adjoint.
Print Assumptions C06_ugla_local_gaussian_documented.
Print Assumptions C06_ugla_local_gaussian.
Print Assumptions C06_stale_sampler_adjoint_captured.
Print Assumptions C06_stale_sampler_adjoint.
Print Assumptions C06_lmrf_diff_op_wf.
Print Assumptions C06_ugla_local_gaussian_lmrf.

(* Outside the guard the code does NOT draw from the documented local Gaussian (design-time defect #17, finding
   *UGLA*|location:D@loc!=0): concrete configurations over Qc with D loc <> 0, valid weight certificates, a point x
   that solves the CODE's normal equations for e = 0 and is not the centre of the documented Gaussian. *)
(* (b) missing 1/sqrt(scale) on L2 loc: scale 4, weights equal on both readings *)
Theorem C06_ugla_local_gaussian_refuted :
  exists (c : ugla_cfg Qc) (sw xk x : list Qc) (beta : Qc),
    qmatvec (g_D c) (bcast 2 (g_loc c)) <> qvzero 1 /\
    weight_law Qc 0%Qc 1%Qc Qcplus Qcmult (g_D c) (q_ugla_weight_arg UglaCode 2 (g_loc c) xk) beta sw /\
    weight_law Qc 0%Qc 1%Qc Qcplus Qcmult (g_D c) (q_ugla_weight_arg UglaDoc 2 (g_loc c) xk) beta sw /\
    ugla_normal_eq Qc 0%Qc Qcplus Qcmult UglaCode c sw [0%Qc; 0%Qc; 0%Qc] x /\
    q_ugla_H_doc c [[1%Qc; 0%Qc]; [0%Qc; 1%Qc]] sw x <> q_ugla_rhs_doc c [[1%Qc; 0%Qc]; [0%Qc; 1%Qc]] sw.
Proof.
  exists wit_scale, [qc (1 # 2)], [0%Qc; 1%Qc], [qc (-2 # 9); qc (2 # 9)], (qcz 15). exact ugla_refuted_scale_holds.
Qed.
Print Assumptions C06_ugla_local_gaussian_refuted.

(* (a) weights from D x_k instead of D (x_k - loc): scale 1, different certificates sw (code) and swd (documented) *)
Theorem C06_ugla_weights_refuted :
  exists (c : ugla_cfg Qc) (sw swd xk x : list Qc) (beta : Qc),
    qmatvec (g_D c) (bcast 2 (g_loc c)) <> qvzero 1 /\
    weight_law Qc 0%Qc 1%Qc Qcplus Qcmult (g_D c) (q_ugla_weight_arg UglaCode 2 (g_loc c) xk) beta sw /\
    weight_law Qc 0%Qc 1%Qc Qcplus Qcmult (g_D c) (q_ugla_weight_arg UglaDoc 2 (g_loc c) xk) beta swd /\
    ugla_normal_eq Qc 0%Qc Qcplus Qcmult UglaCode c sw [0%Qc; 0%Qc; 0%Qc] x /\
    q_ugla_H_doc c [[1%Qc; 0%Qc]; [0%Qc; 1%Qc]] swd x <> q_ugla_rhs_doc c [[1%Qc; 0%Qc]; [0%Qc; 1%Qc]] swd.
Proof.
  exists wit_weights, [1%Qc], [qc (1 # 2)], [0%Qc; qc (-1 # 8)], [qc (4 # 3); qc (-4 # 3)], (qc (63 # 64)).
  exact ugla_refuted_weights_holds.
Qed.
Print Assumptions C06_ugla_weights_refuted.

(* outside that guard it fails (finding "stale-sampler:noise-reassigned-in-place"): noise sqrtprec [[1]] re-assigned to [[2]] *)
Theorem C06_stale_sampler_adjoint_refuted :
  exists (captured live : list (lik Qc)) (pr : prior Qc) (x y : list Qc),
    Forall (lik_wf Qc 0%Qc Qcplus Qcmult 1) captured /\
    qdot (stale_M_fwd Qc 0%Qc Qcplus Qcmult captured pr x) y
    <> qdot x (stale_M_adj Qc 0%Qc Qcplus Qcmult Flag2Live 1 captured live pr y).
Proof.
  exists stale_wit_captured, stale_wit_live, stale_wit_prior, [1%Qc], [1%Qc; 0%Qc]. exact stale_live_refuted_holds.
Qed.
Print Assumptions C06_stale_sampler_adjoint_refuted.

(* The adjointness hypothesis of C06_adjoint / C06_ugla_adjoint is DISCHARGED for everything the correspondence runs:
   the cells use matrix-backed models (their function-pair variants compute A x and A^T y), so the boolean shape checks of
   the case files are the only premise left. *)
Theorem C06_adjoint_cells :
  forall (n : nat) (ls : list (list (list Qc) * list (list Qc) * list Qc)) (pr : prior Qc) (x y : list Qc),
  forallb (lik_shape_ok n) ls = true -> q_shape (length (p_L pr)) n (p_L pr) = true -> length x = n ->
  qdot (q_M_fwd (mk_liks n ls) pr x) y = qdot x (q_M_adj n (mk_liks n ls) pr y).
Proof. exact adjoint_cells. Qed.
Print Assumptions C06_adjoint_cells.

Theorem C06_ugla_adjoint_cells :
  forall (tol : Q) (w : ugla_raw) (sw x y : list Qc),
  raw_ok tol w = true -> length sw = length (w_D w) -> length x = w_n w ->
  qdot (q_ugla_M_fwd (raw_cfg w) sw x) y = qdot x (q_ugla_M_adj (raw_cfg w) sw y).
Proof. exact ugla_adjoint_cells. Qed.
Print Assumptions C06_ugla_adjoint_cells.

(* The GMRF prior's structure matrix, built by the model for orders 0-2 in 1-d and 2-d (compared EXACTLY with the object's
   own on every run): P = D^T D acts as v |-> D^T (D v), so (delta P, mean) is a Gaussian factor in the sense of
   C06_normal_equations_model whatever Cholesky factor the implementation computes for it. *)
Theorem C06_gmrf_structure : forall (order : nat) (two_d : bool) (b : bc_kind) (N : nat),
  wf_mat (if two_d then N * N else N)%nat (gmrf_diff_op order two_d b N) /\
  sqrt_law Qc 0%Qc Qcplus Qcmult (if two_d then N * N else N)%nat (gmrf_diff_op order two_d b N) (gmrf_structure order two_d b N).
Proof. intros. split; [apply gmrf_diff_op_wf | apply gmrf_structure_sqrt]. Qed.
Print Assumptions C06_gmrf_structure.

(* Tie between the case files and the theorems: the boolean law check the harness evaluates on every OBSERVED
   square-root precision implies (at tolerance 0) the hypothesis `sqrt_law` of C06_normal_equations_model /
   C06_forms_agree for the precision computed from the user's input form: S^T S compared as a matrix acts as
   v |-> S^T (S v) (all sizes). *)
Theorem C06_sqrtprec_check_sound : forall (f : gform) (n : nat) (g : gval) (S P : list (list Qc)),
  sqrtprec_ok 0 f n g S = true -> user_prec f n g = Some P -> sqrt_law Qc 0%Qc Qcplus Qcmult n S P.
Proof. exact sqrtprec_ok_sound. Qed.
Print Assumptions C06_sqrtprec_check_sound.

(* ... and the per-transition certificate, at tolerance 0, is the hypothesis "the returned point satisfies the
   normal equations" itself (the harness evaluates it at 1e-8 RELATIVE to the right-hand side / the initial normal
   residual of the solver, on floats: rounding is not modelled) *)
Theorem C06_draw_check_sound :
  forall (n : nat) (ls : list (list (list Qc) * list (list Qc) * list Qc)) (pr : prior Qc) (xcur e x : list Qc),
  check_draw 0 n ls pr xcur e x = true -> normal_eq Qc 0%Qc Qcplus Qcmult n (mk_liks n ls) pr e x.
Proof. exact check_draw_sound. Qed.
Print Assumptions C06_draw_check_sound.

(* non-vacuity: a concrete configuration over Qc (2 likelihoods, vector-variance noise given as sqrtprec diag(1/2, 1),
   scalar sqrtprec 2, Gaussian prior with scalar mean) meets every hypothesis of C06_normal_equations_model, and the
   point [1; 1] solves its normal equations for e = 0 *)
Example C06_example :
  let n := 2%nat in
  let A1 := [[1; 0]; [1; 1]]%Qc in let A2 := [[0%Qc; qcz 2]] in
  let S1 := q_diag [qc (1 # 2); 1%Qc] in let S2 := q_diag [qcz 2] in
  let ls := [(A1, S1, [1%Qc; qcz 2]); (A2, S2, [qcz 2])] in
  let liks := mk_liks n ls in
  let Sp := q_diag [1; 1]%Qc in
  let pr := q_gaussian_prior n Sp [1%Qc] in
  forallb (lik_shape_ok n) ls = true /\
  Forall (lik_wf Qc 0%Qc Qcplus Qcmult n) liks /\
  q_M_adj n liks pr (q_M_fwd liks pr [1; 1]%Qc) = q_M_adj n liks pr (q_b_tild liks pr).
Proof.
  cbv zeta. split; [vm_compute; reflexivity|]. split.
  - apply mk_liks_wf. vm_compute. reflexivity.
  - apply qcl_eq_dec_true. vm_compute. reflexivity.
Qed.

(* non-vacuity of the LMRF instance: the 2-d operator on 2 x 2 pixels with zero boundary is the 12 x 4 matrix numpy builds,
   and a weight certificate exists for x_k - loc = [1; 0; 0; 0], beta = 15 (rows with (D z)^2 = 1 get sw = 1/2) *)
Example C06_lmrf_example :
  q_lmrf_diff_op true BcZero 2 =
    [[1; 0; 0; 0]; [- (1); 1; 0; 0]; [0; - (1); 0; 0]; [0; 0; 1; 0]; [0; 0; - (1); 1]; [0; 0; 0; - (1)];
     [1; 0; 0; 0]; [0; 1; 0; 0]; [- (1); 0; 1; 0]; [0; - (1); 0; 1]; [0; 0; - (1); 0]; [0; 0; 0; - (1)]]%Qc /\
  wf_mat 4 (q_lmrf_diff_op true BcZero 2).
Proof.
  split.
  - apply (proj1 (list_eqb_spec qcl_eqb qcl_eq_dec_true _ _)). vm_compute. reflexivity.
  - apply (lmrf_diff_op_wf Qc 0%Qc 1%Qc Qcmult Qcopp true BcZero 2).
Qed.
