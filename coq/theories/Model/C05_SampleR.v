(* C05 -- real-valued part of the sampling model: the documented densities of the numpy/scipy generators AS
   CALLED by each family's _sample, the family's own density (the formulas of the logpdf methods, copied here so
   that this development does not depend on other properties' files), and the three rejection schemes of
   ModifiedHalfNormal (proposal parameters, proposal log-density, log acceptance ratio).  No proofs here. *)
From Coq Require Import Reals.
Open Scope R_scope.

(* ------------- family densities (cuqi logpdf formulas, one component) ------------- *)
Definition cuqi_normal_logpdf (mean std x : R) : R := - ln (std * sqrt (2 * PI)) - / 2 * ((x - mean) / std) ^ 2.
Definition cuqi_laplace_logpdf (loc scale x : R) : R := ln (/ 2 / scale) - Rabs (x - loc) / scale.
Definition cuqi_uniform_logpdf (low high : R) : R := ln (1 / (high - low)).              (* on low <= x <= high *)
Definition cuqi_cauchy_logpdf (loc scale x : R) : R := - ln (PI * scale * (1 + ((x - loc) / scale) ^ 2)).
(* documented Gamma density  beta^alpha x^(alpha-1) exp(-beta x) / Gamma(alpha)  (Gam = value of Gamma(alpha)) *)
Definition cuqi_gamma_pdf (Gam shape rate x : R) : R := Rpower rate shape * Rpower x (shape - 1) * exp (- rate * x) / Gam.
(* Lognormal.pdf (1-d):  normal pdf at ln x, times 1/x *)
Definition normal_pdf (mean std y : R) : R := / (std * sqrt (2 * PI)) * exp (- / 2 * ((y - mean) / std) ^ 2).
Definition cuqi_lognormal_pdf (mean std x : R) : R := normal_pdf mean std (ln x) * (1 / x).

(* ------------- documented densities of the generators, in the generators' own parameterisation ------------- *)
Definition np_normal_pdf (loc scale x : R) : R := / (scale * sqrt (2 * PI)) * exp (- (x - loc) ^ 2 / (2 * scale ^ 2)).
Definition np_laplace_pdf (loc scale x : R) : R := / (2 * scale) * exp (- Rabs (x - loc) / scale).
Definition np_uniform_pdf (low high : R) : R := / (high - low).                           (* on low <= x < high *)
(* numpy.random.gamma(shape k, scale theta):  x^(k-1) exp(-x/theta) / (theta^k Gamma(k)) *)
Definition np_gamma_pdf (Gam k theta x : R) : R := Rpower x (k - 1) * exp (- x / theta) / (Rpower theta k * Gam).
Definition sp_cauchy_pdf (loc scale x : R) : R := / (PI * scale * (1 + ((x - loc) / scale) ^ 2)).

(* arguments each family hands to its generator *)
Definition gamma_call (shape rate : R) : R * R := (shape, 1 / rate).        (* rng.gamma(shape=self.shape, scale=1/self.rate) *)

(* ------------- ModifiedHalfNormal: f(x) ~ x^(alpha-1) exp(-beta x^2 + gamma x) ------------- *)
Definition mhn_logf (a b g x : R) : R := (a - 1) * ln x - b * x ^ 2 + g * x.

(* scheme 1: T ~ Gamma(shape a/2, scale 1/delta), X = sqrt T; accept iff ln U < logacc *)
Definition mhn_delta (a b g : R) : R := b + (g * g - g * sqrt (g * g + 8 * b * a)) / (4 * a).
(* density of X = sqrt T: p_T(x^2) * 2x, with lnGam = ln Gamma(a/2) *)
Definition mhn_gam_logg (lnGam a d x : R) : R :=
  (a / 2 - 1) * ln (x ^ 2) - d * x ^ 2 + (a / 2) * ln d - lnGam + ln (2 * x).
Definition mhn_gam_logacc (b g d x : R) : R := - (b - d) * x ^ 2 + g * x - g * g / (4 * (b - d)).

(* scheme 2: X ~ Normal(mu, sqrt(0.5/b)); accept iff X > 0 and ln U < logacc *)
Definition mhn_mu (a b g : R) : R := (g + sqrt (g * g + 8 * b * (a - 1))) / (4 * b).
Definition mhn_norm_sd (b : R) : R := sqrt (/ 2 / b).
Definition mhn_norm_logg (b mu x : R) : R := - b * (x - mu) ^ 2 - ln (sqrt (PI / b)).
(* as the code stands:  (alpha-1)*np.log(X) - np.log(mu) + (2*beta*mu-gamma)*(mu-X) *)
Definition mhn_norm_logacc (a b g mu x : R) : R := (a - 1) * ln x - ln mu + (2 * b * mu - g) * (mu - x).
(* the acceptance ratio of Sun et al., Algorithm 2 (proposed repair fixes/C05_mhn_normal_acceptance.diff) *)
Definition mhn_norm_logacc_fixed (a b g mu x : R) : R := (a - 1) * (ln x - ln mu) + (2 * b * mu - g) * (mu - x).

(* choice between scheme 1 and 2 when gamma > 0 and alpha > 1 (Gam = Gamma(a/2)): normal proposal iff K2 > K1 *)
Definition mhn_K1 (a b g : R) : R :=
  2 * sqrt PI * Rpower (sqrt b * (a - 1) / (2 * b * mhn_mu a b g - g)) (a - 1) * exp (- (a - 1) + b * mhn_mu a b g * mhn_mu a b g).
Definition mhn_K2 (Gam a b g : R) : R :=
  Rpower (b / mhn_delta a b g) (/ 2 * a) * Gam * exp (g * g / (4 * (b - mhn_delta a b g))).

(* scheme 3 (gamma <= 0): T ~ Gamma(shape a*v1, scale 1/v2), X = m T^v1; accept iff ln U < v2 T - b X^2 + g X *)
Definition mhn_neg_m (a b g : R) : R := (g + sqrt (g * g + 8 * b * a)) / (4 * b).       (* the "mode" matching point *)
Definition mhn_neg_v1 (b g m : R) : R := (b * m - g) / (2 * b * m - g).
Definition mhn_neg_v2 (b g m : R) : R := m * (b * m - g).
Definition mhn_neg_x (b g m t : R) : R := m * Rpower t (mhn_neg_v1 b g m).
Definition mhn_neg_logacc (b g m t : R) : R :=
  mhn_neg_v2 b g m * t - b * mhn_neg_x b g m t * mhn_neg_x b g m t + g * mhn_neg_x b g m t.

(* ------------- InverseGamma and Beta (deepening round) ------------- *)
(* documented density of the class:  (x-loc)^(-a-1) exp(-scale/(x-loc)) / (scale^(-a) Gamma(a)),  Gam = Gamma(a) *)
Definition cuqi_invgamma_pdf (Gam a loc scale x : R) : R :=
  Rpower (x - loc) (- a - 1) * exp (- scale / (x - loc)) / (Rpower scale (- a) * Gam).
(* scipy.stats.invgamma: standard density y^(-a-1) exp(-1/y) / Gamma(a), then the loc/scale family f((x-loc)/scale)/scale *)
Definition sp_invgamma_std_pdf (Gam a y : R) : R := Rpower y (- a - 1) * exp (- 1 / y) / Gam.
Definition sp_invgamma_pdf (Gam a loc scale x : R) : R := sp_invgamma_std_pdf Gam a ((x - loc) / scale) / scale.
(* how scipy draws: X = loc + scale / G with G ~ Gamma(a, 1), density g^(a-1) exp(-g) / Gamma(a) *)
Definition std_gamma_pdf (Gam a g : R) : R := Rpower g (a - 1) * exp (- g) / Gam.

(* documented density of Beta:  x^(a-1) (1-x)^(b-1) Gamma(a+b) / (Gamma(a) Gamma(b)) *)
Definition cuqi_beta_pdf (Ga Gb Gab a b x : R) : R := Rpower x (a - 1) * Rpower (1 - x) (b - 1) * Gab / (Ga * Gb).
(* scipy.stats.beta / numpy beta:  x^(a-1) (1-x)^(b-1) / B(a,b) *)
Definition sp_beta_pdf (Bab a b x : R) : R := Rpower x (a - 1) * Rpower (1 - x) (b - 1) / Bab.

(* ------------- MHN scheme 3: density of X = m T^v1, T ~ Gamma(shape a v1, rate v2) ------------- *)
(* T as a function of x, and its derivative *)
Definition mhn_neg_t (b g m x : R) : R := Rpower (x / m) (/ mhn_neg_v1 b g m).
Definition mhn_neg_logg (lnGam a b g m x : R) : R :=
  let v1 := mhn_neg_v1 b g m in let v2 := mhn_neg_v2 b g m in let t := mhn_neg_t b g m x in
  ((a * v1 - 1) * ln t - v2 * t + (a * v1) * ln v2 - lnGam)          (* log Gamma(a v1, rate v2) density at t *)
  + (ln (/ (v1 * m)) + (/ v1 - 1) * ln (x / m)).                      (* log dt/dx *)
