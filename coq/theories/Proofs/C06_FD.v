(* C06 -- the documented LMRF difference operator (1-d and 2-d) is well shaped, so the UGLA theorems apply to it with
   the weights 1/sqrt((D (x - loc))^2 + beta) taken over the rows of exactly that operator. *)
From CV Require Import Base.Tac Base.LinAlg Base.Cmp Base.QcLin Model.C06_RTO Model.C06_FD Proofs.C06_Lin Proofs.C06_UGLA.
From Coq Require Import Ring QArith Qcanon.

Section FDP.
Variable R : Type.
Variables (r0 r1 : R) (radd rmul rsub : R -> R -> R) (ropp : R -> R).
Hypothesis Rth : ring_theory r0 r1 radd rmul rsub ropp (@eq R).

Lemma mk_matrix_wf rows cols f : wf_mat cols (mk_matrix R rows cols f).
Proof.
  unfold mk_matrix, wf_mat. apply Forall_forall. intros row Hin.
  apply in_map_iff in Hin as (i & <- & _). rewrite map_length, seq_length. reflexivity.
Qed.

Lemma mk_matrix_len rows cols f : length (mk_matrix R rows cols f) = rows.
Proof. unfold mk_matrix. rewrite map_length, seq_length. reflexivity. Qed.

Theorem lmrf_diff_op_wf (two_d : bool) b N :
  wf_mat (if two_d then N * N else N)%nat (lmrf_diff_op R r0 r1 rmul ropp two_d b N).
Proof.
  destruct two_d; simpl.
  - unfold fd2, wf_mat. apply Forall_app. split; apply mk_matrix_wf.
  - apply mk_matrix_wf.
Qed.

Theorem lmrf_diff_op_rows (two_d : bool) b N :
  length (lmrf_diff_op R r0 r1 rmul ropp two_d b N)
  = (if two_d then N * fd1_rows b N + fd1_rows b N * N else fd1_rows b N)%nat.
Proof.
  destruct two_d; simpl.
  - unfold fd2. rewrite app_length, !mk_matrix_len. reflexivity.
  - apply mk_matrix_len.
Qed.

(* the UGLA configuration whose prior is LMRF(loc, scale, bc) on N nodes (1-d) or N x N pixels (2-d) *)
Definition lmrf_cfg (two_d : bool) (b : bc_kind) (N : nat) (M : lmodel R) (L1 : list (list R)) (data loc : list R) (rs : R)
  : ugla_cfg R :=
  mkUgla (if two_d then N * N else N)%nat M L1 data (lmrf_diff_op R r0 r1 rmul ropp two_d b N) loc rs.

Theorem lmrf_cfg_wf (two_d : bool) b N M L1 data loc rs sw :
  model_wf R r0 radd rmul (if two_d then N * N else N)%nat (length data) M ->
  wf_mat (length data) L1 -> length L1 = length data ->
  length sw = length (lmrf_diff_op R r0 r1 rmul ropp two_d b N) ->
  ugla_wf R r0 radd rmul (lmrf_cfg two_d b N M L1 data loc rs) sw.
Proof.
  intros HM HL HLl Hsw. constructor; simpl; try assumption. apply lmrf_diff_op_wf.
Qed.

(* the documented local Gaussian for LMRF priors in 1-d and 2-d: the weights are certified against the rows of the
   documented operator applied to x_k - loc, and the step solves the normal equations of
   N(.; A^T Lam A + D^T W_k D / scale) centred at loc *)
Theorem ugla_lmrf_local_gaussian (two_d : bool) b N M L1 data loc rs sw Lam e x :
  model_wf R r0 radd rmul (if two_d then N * N else N)%nat (length data) M ->
  wf_mat (length data) L1 -> length L1 = length data ->
  length sw = length (lmrf_diff_op R r0 r1 rmul ropp two_d b N) ->
  sqrt_law R r0 radd rmul (length data) L1 Lam ->
  length x = (if two_d then N * N else N)%nat ->
  length e = length (ugla_b_tild R r0 radd rmul UglaDoc (lmrf_cfg two_d b N M L1 data loc rs) sw) ->
  let c := lmrf_cfg two_d b N M L1 data loc rs in
  (ugla_normal_eq R r0 radd rmul UglaDoc c sw e x <->
   ugla_H_doc R r0 radd rmul c Lam sw x = vadd radd (ugla_rhs_doc R r0 radd rmul c Lam sw) (ugla_M_adj R r0 radd rmul c sw e)).
Proof.
  intros HM HL HLl Hsw HLam Hx He c.
  apply (ugla_doc_is_local_gaussian R r0 r1 radd rmul rsub ropp Rth); try assumption.
  apply lmrf_cfg_wf; assumption.
Qed.
End FDP.
