(* C19 -- the R-hat value arviz is expected to compute from the chains it is handed, for the two
   variants that are rational functions of the draws: method="identity" (classic potential scale
   reduction) and method="split" (the same on half-chains).  Formula as in arviz.stats.diagnostics._rhat:
     chain_mean_j, chain_var_j (ddof=1),  B = n * var(chain_means, ddof=1),  W = mean(chain_var),
     Rhat = sqrt((B / W + n - 1) / n);
   the model returns Rhat^2 (exact rational); the harness squares the observed value.
   The default method="rank" rank-normalises through the normal quantile function first: not modelled
   (see the registry note).  No proofs here. *)
From CV Require Import Base.Tac Base.Cmp Model.C19_Stats.
From Coq Require Import QArith Qabs.

Definition qlen (l : list Q) : Q := inject_Z (Z.of_nat (length l)).
Definition qmean (l : list Q) : Q := qsum l / qlen l.
(* sample variance, ddof = 1 *)
Definition qvar1 (l : list Q) : Q :=
  qsum (map (fun x => (x - qmean l) * (x - qmean l)) l) / (qlen l - 1).
Definition zq (l : list Z) : list Q := map inject_Z l.

(* chains: list of chains (all of the same length n), one list of draws each *)
Definition rhat_sq (chains : list (list Z)) : Q :=
  let n := inject_Z (zlen (hd [] chains)) in
  let B := n * qvar1 (map (fun c => qmean (zq c)) chains) in
  let W := qmean (map (fun c => qvar1 (zq c)) chains) in
  (B / W + n - 1) / n.
Definition rhat_W (chains : list (list Z)) : Q := qmean (map (fun c => qvar1 (zq c)) chains).

(* _split_chains: first halves of all chains, then last halves (the middle draw of an odd chain is dropped) *)
Definition split_chains (chains : list (list Z)) : list (list Z) :=
  let half := (length (hd [] chains) / 2)%nat in
  map (firstn half) chains ++ map (fun c => skipn (length c - half) c) chains.

Inductive rmethod := RRank | RSplit | RIdentity.

(* None = arviz returns nan (fewer than 4 draws or fewer than 2 chains) or the within-chain variance is zero
   (0/0 or x/0 in floating point: not compared) *)
Definition rhat_sq_opt (m : rmethod) (chains : list (list Z)) : option Q :=
  if ((length (hd [] chains) <? 4) || (length chains <? 2))%nat then None
  else let cs := match m with RSplit => split_chains chains | _ => chains end in
       if Qeq_bool (rhat_W cs) 0 then None else Some (rhat_sq cs).
