(* C02 -- facts about the scale adaptation: the adapted scale is positive and at most 1, the adaptation is a
   multiplicative update whose log-increment is bounded by 1/sqrt(k) (vanishing adaptation), monotone in the
   observed acceptance rate. *)
From CV Require Import Model.C02_Tune.
From Coq Require Import Reals Lra Lia List ZArith.
Import ListNotations.
Local Open Scope R_scope.

Lemma tune_temp_pos lam k h star : 0 < tune_temp lam k h star.
Proof. unfold tune_temp. apply exp_pos. Qed.

Lemma tune_scale_bounds lam k h star : 0 < tune_scale lam k h star <= 1.
Proof.
  unfold tune_scale. pose proof (tune_temp_pos lam k h star) as P. split.
  - apply Rmin_glb_lt; lra.
  - apply Rmin_r.
Qed.

Lemma tune_temp_mult lam k h star : 0 < lam -> tune_temp lam k h star = lam * exp (zeta k * (h - star)).
Proof. intro H. unfold tune_temp. rewrite exp_plus, exp_ln by exact H. reflexivity. Qed.

Lemma zeta_pos k : (1 <= k)%Z -> 0 < zeta k <= 1.
Proof.
  intro H. unfold zeta. assert (1 <= IZR k) by (apply IZR_le in H; exact H).
  assert (S1 : 1 <= sqrt (IZR k)). { rewrite <- sqrt_1. apply sqrt_le_1_alt. exact H0. }
  split.
  - apply Rdiv_lt_0_compat; lra.
  - apply (Rmult_le_reg_r (sqrt (IZR k))); [lra|]. unfold Rdiv. rewrite Rmult_assoc, Rinv_l by lra. lra.
Qed.

(* |log(new) - log(old)| <= zeta(k) = 1/sqrt(k): the variation of the adapted parameter vanishes *)
Lemma tune_log_step lam k h star :
  0 < lam -> (1 <= k)%Z -> 0 <= h <= 1 -> 0 <= star <= 1 ->
  Rabs (ln (tune_temp lam k h star) - ln lam) <= zeta k.
Proof.
  intros Hl Hk Hh Hs. unfold tune_temp. rewrite ln_exp.
  replace (ln lam + zeta k * (h - star) - ln lam) with (zeta k * (h - star)) by ring.
  pose proof (zeta_pos k Hk) as [Z0 Z1].
  rewrite Rabs_mult, (Rabs_pos_eq (zeta k)) by lra.
  assert (Rabs (h - star) <= 1) by (apply Rabs_le; lra).
  rewrite <- (Rmult_1_r (zeta k)) at 2. apply Rmult_le_compat_l; lra.
Qed.

(* accepting more often than the target rate never shrinks the scale, less often never enlarges it *)
Lemma tune_monotone lam k h star :
  0 < lam -> (1 <= k)%Z ->
  (star <= h -> lam <= tune_temp lam k h star) /\ (h <= star -> tune_temp lam k h star <= lam).
Proof.
  intros Hl Hk. rewrite tune_temp_mult by exact Hl. pose proof (zeta_pos k Hk) as [Z0 _].
  split; intro H.
  - assert (0 <= zeta k * (h - star)) by (apply Rmult_le_pos; lra).
    assert (1 <= exp (zeta k * (h - star))).
    { rewrite <- exp_0. destruct H0 as [H0|H0]; [left; apply exp_increasing; exact H0 | right; rewrite <- H0; reflexivity]. }
    rewrite <- (Rmult_1_r lam) at 1. apply Rmult_le_compat_l; lra.
  - assert (zeta k * (h - star) <= 0).
    { replace 0 with (zeta k * 0) by ring. apply Rmult_le_compat_l; lra. }
    assert (exp (zeta k * (h - star)) <= 1).
    { rewrite <- exp_0. destruct H0 as [H0|H0]; [left; apply exp_increasing; exact H0 | right; rewrite H0; reflexivity]. }
    rewrite <- (Rmult_1_r lam) at 2. apply Rmult_le_compat_l; lra.
Qed.

(* every scale produced by any run of adaptation steps lies in (0, 1] *)
Lemma tune_seq_bounds windows : forall lam k star, Forall (fun s => 0 < s <= 1) (tune_seq lam k star windows).
Proof.
  induction windows as [|[a n] r IH]; intros lam k star; cbn [tune_seq]; constructor.
  - pose proof (tune_temp_pos lam k (hat_acc a n) star). split; [apply Rmin_glb_lt; lra | apply Rmin_r].
  - apply IH.
Qed.

Lemma tune_seq_length windows : forall lam k star, length (tune_seq lam k star windows) = length windows.
Proof. induction windows as [|[a n] r IH]; intros; cbn; [reflexivity | f_equal; apply IH]. Qed.

(* non-vacuity: the hypotheses of the adaptation theorems hold for the constants the samplers use *)
Lemma tune_example :
  0 < 1 / 2 /\ (1 <= 3)%Z /\ 0 <= hat_acc 1 2 <= 1 /\ 0 <= star_mh <= 1 /\ 0 <= star_pcn <= 1 /\ 0 <= star_cw 2 <= 1.
Proof. unfold hat_acc, star_mh, star_pcn, star_cw. repeat split; try lra; try lia. Qed.
