(* C02 -- a concrete instance of the abstract symmetric bilinear form used by the pCN theorems: any dense symmetric
   precision matrix P in any dimension n (vectors as index functions), B(u,v) = sum_i sum_j P i j u_i v_j. *)
From CV Require Import Base.Tac Proofs.C02_Balance.
From Coq Require Import QArith Setoid.
Local Open Scope Q_scope.

Fixpoint sumN (n : nat) (f : nat -> Q) : Q := match n with O => 0 | S k => sumN k f + f k end.

Lemma sumN_ext n f g : (forall i, (i < n)%nat -> f i == g i) -> sumN n f == sumN n g.
Proof.
  induction n as [|k IH]; intro H; cbn; [reflexivity|].
  rewrite (H k ltac:(lia)), IH; [reflexivity|]. intros i Hi. apply H. lia.
Qed.

Lemma sumN_plus n f g : sumN n (fun i => f i + g i) == sumN n f + sumN n g.
Proof. induction n as [|k IH]; cbn; [reflexivity|]. rewrite IH. ring. Qed.

Lemma sumN_scal n c f : sumN n (fun i => c * f i) == c * sumN n f.
Proof. induction n as [|k IH]; cbn; [ring|]. rewrite IH. ring. Qed.

Lemma sumN_zero n : sumN n (fun _ => 0) == 0.
Proof. induction n as [|k IH]; cbn; [reflexivity|]. rewrite IH. ring. Qed.

Lemma sumN_swap n m (f : nat -> nat -> Q) :
  sumN n (fun i => sumN m (fun j => f i j)) == sumN m (fun j => sumN n (fun i => f i j)).
Proof.
  induction n as [|k IH]; cbn.
  - symmetry. apply sumN_zero.
  - rewrite IH. symmetry. apply (sumN_plus m (fun j => sumN k (fun i => f i j)) (fun j => f k j)).
Qed.

Definition BM (P : nat -> nat -> Q) (n : nat) (u v : nat -> Q) : Q :=
  sumN n (fun i => sumN n (fun j => P i j * u i * v j)).

Lemma BM_sym P n u v : (forall i j, P i j == P j i) -> BM P n u v == BM P n v u.
Proof.
  intro H. unfold BM.
  transitivity (sumN n (fun j => sumN n (fun i => P i j * u i * v j))).
  { apply (sumN_swap n n (fun i j => P i j * u i * v j)). }
  apply sumN_ext; intros j _. apply sumN_ext; intros i _. rewrite (H i j). ring.
Qed.

Lemma BM_lin P n a u b v w : BM P n (linF a u b v) w == a * BM P n u w + b * BM P n v w.
Proof.
  unfold BM, linF.
  transitivity (sumN n (fun i => a * sumN n (fun j => P i j * u i * w j) + b * sumN n (fun j => P i j * v i * w j))).
  { apply sumN_ext; intros i _.
    transitivity (sumN n (fun j => a * (P i j * u i * w j) + b * (P i j * v i * w j))).
    { apply sumN_ext; intros j _. ring. }
    rewrite sumN_plus, !sumN_scal. reflexivity. }
  rewrite sumN_plus, !sumN_scal. reflexivity.
Qed.

(* pCN with a dense symmetric prior precision in any dimension: the likelihood-only ratio is the MH ratio (zero-mean
   prior, or any mean with the centred proposal) *)
Theorem pcn_dense_precision (P : nat -> nat -> Q) (n : nat) :
  (forall i j, P i j == P j i) ->
  forall (m : nat -> Q) (a s : Q) (x x' : nat -> Q) (l l' : Q), a * a + s * s == 1 -> ~ s == 0 ->
  (l' + log_prior _ (BM P n) x' + log_q _ (BM P n) linF a s x' x) - (l + log_prior _ (BM P n) x + log_q _ (BM P n) linF a s x x') == l' - l /\
  (l' + log_prior_m _ (BM P n) linF m x' + log_q_centred _ (BM P n) linF m a s x' x)
   - (l + log_prior_m _ (BM P n) linF m x + log_q_centred _ (BM P n) linF m a s x x') == l' - l.
Proof.
  intros Hs m a s x x' l l' H1 H2.
  assert (S : forall u v, BM P n u v == BM P n v u) by (intros; apply BM_sym; exact Hs).
  assert (L : forall a u b v w, BM P n (linF a u b v) w == a * BM P n u w + b * BM P n v w) by (intros; apply BM_lin).
  split.
  - exact (pcn_ratio_is_MH _ (BM P n) linF S L a s x x' l l' H1 H2).
  - exact (pcn_centred_ratio_is_MH _ (BM P n) linF S L m a s x x' l l' H1 H2).
Qed.
